#!/usr/bin/env python3
"""Writes MANIFEST.json from the table below (one place to keep the per-property notes)."""
import json, os

HERE = os.path.dirname(os.path.abspath(__file__))
BASELINE = "cd /repo && /venv/bin/python -m pytest -ra -q -p no:cacheprovider --timeout=900 --continue-on-collection-errors"

# id -> (engine, technique, level text, level note)
CLAIMED = {
 "C08": ("corr-pure", "Lean 4 theorems (tier-wise algebra, lexicographic order) + exhaustive model/code correspondence on a box of shapes",
         "Order laws, monotone arrival, never-backwards, associativity and the action law are theorems for delays/times of every shape, length and unbounded tier values; the model is tied to tiered_time.py by an exhaustive comparison (all 216 intervals with length, pre-length <= 3, tiers <= 2: all pairs for every operator, all times) plus random larger shapes.",
         "Comparable = same length, pre-length and cutoff. Operands of different cutoff are finding C08-mixed-cutoff (negation proved on the witness in Findings.lean). Trusted: Lean kernel, the correspondence harness, CPython's total_ordering/dataclass semantics as modelled."),
 "C12": ("corr-pure", "Lean 4 theorems (membership semantics, soundness + completeness of parse_set_triple / parse_attrs) + exhaustive correspondence over a 3-attribute universe",
         "Operator semantics, extensional equality, parse_set_triple returns exactly the determined partition and fails exactly when under-specified or inconsistent, parse_attrs partitions/agrees/obeys type restrictions and is rejected exactly otherwise: theorems for arbitrary attribute sets. Correspondence: all finite/co-finite sets over 3 attributes, all triples, descriptions from all 9^5 x any_inputs x 3 types (sampled in quick, exhaustive in thorough).",
         "Attribute names are opaque naturals; sets compared extensionally. Trusted: Lean kernel, correspondence harness."),
 "C18": ("corr-pure", "Lean 4 theorems by induction over the source list for every oracle + correspondence with random.shuffle/randint replaced by the same oracle",
         "Every source exactly once, destinations within dest_set, per-destination counts differ by <= 1 (evenly) resp. <= max_connects, returned set = connected destinations, never fails when the destinations have room: theorems for all sizes and every outcome of the random draws.",
         "random.shuffle is modelled as Fisher-Yates over oracle draws (proved to be a permutation), randint as a draw reduced to its range; destinations pairwise distinct. Trusted: Lean kernel, correspondence harness."),
 "C11": ("corr-pure", "Lean 4 theorems (decision logic stated outright, longest-common-prefix characterisation of the shared group) + correspondence of World.connect incl. the tables it leaves behind",
         "connect_one rejects exactly in the four documented cases (iff), a rejected pair leaves the world unchanged, the delay's cutoff is the depth of the innermost common group (siblings share only the parent), tiers carry shift and weak step: theorems for arbitrary group trees. Correspondence: group_path/connect_interval on 7 group positions, World.connect over attribute classes x flags x initial data x async x cache x all placements of 5 simulators, comparing accept/reject and all connection tables.",
         "One model per simulator in the generated worlds; groups identified by path. Trusted: Lean kernel, correspondence harness."),
 "C15": ("corr-pure", "Lean 4 theorems (decision logic of init_and_get_adapter / LocalProxy.init / adapters stated outright) + correspondence against stub simulators recording the requests they receive",
         "Rejection iff (>= 4, explicit mismatch, v3 claim without v3 signatures); < 3 => step has exactly 2 args and type defaults to time-based; < 2.2 => no setup_done; >= 3 => every request unchanged; time_resolution only when the signatures take it: theorems for versions of any length. Correspondence on in-process stubs over version strings x explicit settings x signature shapes.",
         "Remote transport is modelled (isLocal=false) but exercised only in-process; version strings numeric. Trusted: Lean kernel, correspondence harness, mosaik_api_v3.check_api_compliance as modelled."),
 "C01": ("corr-sched", "Lean 4 invariant proofs over all runs of the scheduler transition system (induction over actions) + reply-by-reply correspondence with the real scheduler under a controlled event loop",
         'Causal input readiness for every reachable state and every run of the scheduler transition system (theorems causal_state, causal_begin, causal_run), i.e. all interleavings, behaviours, topologies incl. groups/weak/shifted/async, lazy and cache on or off. Tie: reply-by-reply correspondence of the model with the real scheduler under a controlled event loop, plus the property monitor on the implementation traces.',
         'Hypotheses WFCfg on the configuration (closure of the triggering-ancestor table, trigger delays >= input delays, shapes) are evaluated by the driver on every generated scenario (Cfg.wfB, proved sound: wfB_sound); scenarios with re-entrant paths (finding D7) are outside. Non-real-time mode. Simulators always answer. Trusted: Lean kernel, correspondence harness (controlled asyncio loop, scripted simulators), asyncio/heapq/dict as modelled.'),
 "C02": ("corr-sched", "Lean 4 invariant proofs over all runs of the scheduler transition system (induction over actions) + reply-by-reply correspondence with the real scheduler under a controlled event loop",
         'Safety half as theorems: steps strictly increasing, no duplicates, inside [0, until), each the earliest scheduled step at its begin; scheduled steps are never behind progress. The liveness half (every demanded step is executed) is NOT a theorem (partial): it is decided by the monitor on implementation traces and the correspondence only.',
         'Hypotheses WFCfg on the configuration (closure of the triggering-ancestor table, trigger delays >= input delays, shapes) are evaluated by the driver on every generated scenario (Cfg.wfB, proved sound: wfB_sound); scenarios with re-entrant paths (finding D7) are outside. Non-real-time mode. Simulators always answer. Trusted: Lean kernel, correspondence harness (controlled asyncio loop, scripted simulators), asyncio/heapq/dict as modelled. Partial: completeness not proved.'),
 "C05": ("corr-sched", "Lean 4 invariant proofs over all runs of the scheduler transition system (induction over actions) + reply-by-reply correspondence with the real scheduler under a controlled event loop",
         "Theorem no_internal_error_partial: no reachable state has failed with 'progress backwards' or 'step in the past'; advance_progress never decreases; awaited times never exceed the end. Deadlock freedom and termination are NOT theorems yet (partial): decided by the monitor (deadlock = idle loop with unfinished run()) and the correspondence only.",
         'Hypotheses WFCfg on the configuration (closure of the triggering-ancestor table, trigger delays >= input delays, shapes) are evaluated by the driver on every generated scenario (Cfg.wfB, proved sound: wfB_sound); scenarios with re-entrant paths (finding D7) are outside. Non-real-time mode. Simulators always answer. Trusted: Lean kernel, correspondence harness (controlled asyncio loop, scripted simulators), asyncio/heapq/dict as modelled. Partial: deadlock_free/terminates not proved. Known finding D7 (incomparable delays for re-entrant paths).'),
 "C09": ("corr-sched", "Lean 4 invariant proofs over all runs of the scheduler transition system (induction over actions) + reply-by-reply correspondence with the real scheduler under a controlled event loop",
         'Theorems: the loop guard fires exactly when a step with a sub-tier >= max_loop_iterations would begin (iff, naming the simulator), every begun step has all sub-tiers below the bound, sub-step indices at one time are pairwise distinct (depth 2: at most max_loop_iterations sub-steps).',
         'Hypotheses WFCfg on the configuration (closure of the triggering-ancestor table, trigger delays >= input delays, shapes) are evaluated by the driver on every generated scenario (Cfg.wfB, proved sound: wfB_sound); scenarios with re-entrant paths (finding D7) are outside. Non-real-time mode. Simulators always answer. Trusted: Lean kernel, correspondence harness (controlled asyncio loop, scripted simulators), asyncio/heapq/dict as modelled.'),
 "C10": ("corr-sched", "Lean 4 invariant proofs over all runs of the scheduler transition system (induction over actions) + reply-by-reply correspondence with the real scheduler under a controlled event loop",
         "Theorems lazy_begin / lazy_forever: with lazy stepping, when a producer begins t every consumer's progress, step in flight and scheduled steps are at or after t (adapted), and stay so for the rest of any run.",
         'Hypotheses WFCfg on the configuration (closure of the triggering-ancestor table, trigger delays >= input delays, shapes) are evaluated by the driver on every generated scenario (Cfg.wfB, proved sound: wfB_sound); scenarios with re-entrant paths (finding D7) are outside. Non-real-time mode. Simulators always answer. Trusted: Lean kernel, correspondence harness (controlled asyncio loop, scripted simulators), asyncio/heapq/dict as modelled.'),
 "C13": ("corr-sched", "Lean 4 invariant proofs over all runs of the scheduler transition system (induction over actions) + reply-by-reply correspondence with the real scheduler under a controlled event loop",
         'Theorems: each malformed reply (non-integer, not later, missing for time-based, early output time) aborts with an error naming the simulator in whatever state it arrives; after the abort no action is enabled; the rejected reply changes no control state; conversely a bad-reply error has exactly one of these causes (step_err).',
         'Hypotheses WFCfg on the configuration (closure of the triggering-ancestor table, trigger delays >= input delays, shapes) are evaluated by the driver on every generated scenario (Cfg.wfB, proved sound: wfB_sound); scenarios with re-entrant paths (finding D7) are outside. Non-real-time mode. Simulators always answer. Trusted: Lean kernel, correspondence harness (controlled asyncio loop, scripted simulators), asyncio/heapq/dict as modelled.'),
 "C06": ("corr-pure", "Lean 4 theorems on the sum of delays along a path (the quantity the cycle check tests for zero) + correspondence of ensure_no_dataflow_cycles / cache_triggering_ancestors with the model for several worklist orders + graph-level specification monitor on the implementation",
         "Theorems for paths of any length and groups of any depth: a time-shifted connection or a weak connection whose cycle stays inside its group makes the sum non-zero, leaving the group erases the weak step, plain cycles sum to zero, the reported cycle has an all-zero stored delay, acceptance iff no zero self-delay. PARTIAL: that the worklist reaches the minimal delay for every pop order, terminates, and stores real paths is not a theorem; it is decided by the correspondence (3 pop orders on the model side, Python's set order on the code side) and by an independent simple-cycle specification evaluated on the implementation for every generated multigraph.",
         "Known finding D7 (paths leaving and re-entering a group: AssertionError). Trusted: Lean kernel, correspondence harness. Partial as stated."),
 "C07": ("corr-sched", "Lean 4 theorems about get_max_advance on the scheduler model + reply-by-reply correspondence (max_advance is a compared argument of every step call) + taint monitor on implementation traces",
         "Theorems: max_advance <= until, >= current time, = until without triggering ancestors; promise_state: when the step request goes out, every triggering ancestor's earliest unfinished step (in flight or scheduled), delayed by the minimal trigger-path delay, and every step already scheduled for the simulator lie after max_advance (or the window is empty). PARTIAL: the run form (no externally caused step in (t, m] later on) is not a theorem; it is decided by the taint monitor on the implementation traces under random interleavings and by the correspondence.",
         'Same hypotheses as C01 (WFCfg checked by the driver; D7 excluded; non-real-time). Partial: run form of the promise not proved.'),
 "C03": ("corr-sched", "Lean 4 theorems on the data-flow operations of the model (buffer, merge, cache lookup) + reply-by-reply correspondence (the inputs of every step call are compared) + history-specification monitor on implementation traces",
         "Theorems (building blocks, all inputs): a pushed value stays buffered exactly until the first step at or after its due time and is removed by it (not lost, not duplicated), is in that step's inputs under its own key, undue or foreign keys are untouched (nothing invented or early), set_data wins over remembered values, persistent memory only updates existing keys, pulled values are the newest cache entry at or before (t - shift). PARTIAL: the refinement of whole runs to the history specification is not a theorem; it is decided by the specification monitor on the implementation (silent on the clean class) and by the correspondence. Five scenario classes are known findings.",
         "Same hypotheses as C01. Known findings: C03-cache-prune-shift (D8), C03-cache-initial-data (D12), C03-subtier-blind (D14), C03-event-with-init, C03-nonmonotone-output-times; each is replayed on the code on every run. Partial as stated."),
 "C16": ("corr-sched", "Lean 4 theorems (admission decision logic, storage/delivery/clearing of set_data values, ordering from the dependency guard) + reply-by-reply correspondence with in-step set_data/get_data calls + monitor on implementation traces",
         "Theorems: a request is refused with the ScenarioError iff there is no async connection; an accepted set_data is stored with the target, is in the inputs of the target's next step (precedence over remembered values) and is cleared by it (exactly once); when A begins t every agent B has progressed to t, so A never begins a later step while B's step is in flight. The data path of an asynchronous get_data is not modelled (admission only).",
         "Same hypotheses as C01. Assumes no ordinary connection feeds the same key as a set_data call. Trusted: Lean kernel, correspondence harness."),
 "C17": ("corr-sched", "Lean 4 invariant (progress <= ceil(clock / f) in every reachable state of the clock-extended transition system) + decision logic of rt_check / set_event + correspondence on a virtual clock + monitor",
         "Theorems on an integer-tick clock: progress_le_cap / not_early (a step for t begins only at clock > f*(t-1), any interleaving and tick pattern, grouped simulators included); set_event: error outside rt mode, ignored at/after until, scheduled before; rt_strict changes only warning vs RuntimeError at the same condition. The clause 'instant simulators are never reported too slow' is FALSE for connected simulators (finding C17-instant-too-slow; negation proved on a witness run in Findings.lean). Correspondence: the real rt code path on a virtual clock owned by the event loop (timers, polling timeouts, perf_counter patched).",
         "Float rounding of perf_counter arithmetic and real timers are not modelled (integer ticks: rt_factor*time_resolution whole, clock takes timer-deadline values only). Known finding C17-instant-too-slow (D13). Trusted: Lean kernel, correspondence harness incl. the virtual-clock loop."),
 "C14": ("corr-fault", "Lean 4 case analysis of the World.run / shutdown control flow + fault enumeration on the real code (every request index x fault kind x local/remote subprocess)",
         "Theorems (control flow only): however the run phase ends, if every stop() returns then every simulator is stopped exactly once in order, the loop is closed, a second shutdown() is a no-op, and KeyboardInterrupt / RemoteException are swallowed while everything else is re-raised; the hypothesis on stop() is shown to be necessary. PARTIAL by nature: OS processes, sockets, the stop timeout, promptness and pending asyncio tasks cannot be exhibited by the model; they are decided by the fault enumeration on the real code: chains of 2-3 simulators, every request index, exception in handler / process exit, in-process and real subprocesses, observing outcome, elapsed time, finalize counts, surviving processes, loop state, pending tasks.",
         "Level 'proof' applies to the modelled control flow; the runtime clauses are fault_enumeration on the implementation. Trusted: Lean kernel, the enumeration harness, mosaik_api_v3."),
}

NOT_YET = {
 "C01": "scheduler correspondence and invariant proofs under construction in this round (not built yet, not a claim that the technique cannot apply)",
 "C02": "scheduler correspondence and invariant proofs under construction (not built yet)",
 "C03": "data-flow refinement under construction (not built yet)",
 "C04": "confluence proof under construction (not built yet)",
 "C05": "scheduler invariants under construction (not built yet)",
 "C06": "closure proofs under construction (not built yet)",
 "C07": "scheduler invariants under construction (not built yet)",
 "C09": "scheduler model exists; check under construction (not built yet)",
 "C10": "scheduler invariants under construction (not built yet)",
 "C11": "model exists; check under construction (not built yet)",
 "C13": "model exists; check under construction (not built yet)",
 "C14": "fault model under construction (not built yet)",
 "C15": "model exists; check under construction (not built yet)",
 "C16": "scheduler model exists; check under construction (not built yet)",
 "C17": "real-time model under construction (not built yet)",
}

m = {
 "version": 1,
 "setup_cmd": "cd lean && lake build",
 "hooks": {"guard": "MOSAIK_VERIF", "enable": "none needed: all instrumentation is applied from /verif at run time (World(asyncio_loop=...), scripted simulators, monkey-patched module globals); the guard name is reserved and unused",
           "baseline_off_cmd": BASELINE, "source_commits": [], "add_only": True},
 "engines": [
  {"name": "lean-proofs", "path": "lean/MosaikProofs", "serves_properties": sorted(CLAIMED), "kind_free_text": "Lean 4 theorems about the hand-written model lean/MosaikModel; audited with #print axioms on every run"},
  {"name": "corr-pure", "path": "harness/suites_pure.py", "serves_properties": [p for p in sorted(CLAIMED) if CLAIMED[p][0] == "corr-pure"], "kind_free_text": "correspondence check: real functions of /repo vs. the compiled Lean model on the same inputs (line protocol)"},
  {"name": "corr-fault", "path": "harness/fault_enum.py", "serves_properties": [p for p in sorted(CLAIMED) if CLAIMED[p][0] == "corr-fault"], "kind_free_text": "fault enumeration on the real code with in-process and subprocess simulators, compared with the Lean model of World.run/shutdown"},
  {"name": "corr-sched", "path": "harness/sched_corr.py", "serves_properties": [p for p in sorted(CLAIMED) if CLAIMED[p][0] == "corr-sched"], "kind_free_text": "correspondence check: real scheduler under a controlled event loop with scripted simulators vs. the Lean transition system"},
 ],
 "checks": [
  {"property_id": p, "quick_cmd": f"./check {p} --tier quick", "thorough_cmd": f"./check {p} --tier thorough",
   "evidence_file": f"evidence/{p}.json", "replay_cmd_template": f"./check {p} --replay {{path}}", "engine": e,
   "level_claimed": {"category": "proof", "text": text, "design_ref": f"DESIGN.md section 6, {p}"},
   "level_note": note, "technique": tech}
  for p, (e, tech, text, note) in sorted(CLAIMED.items())],
 "not_applicable": [{"property_id": p, "reason": r} for p, r in sorted(NOT_YET.items()) if p not in CLAIMED],
 "notes": "Every check: lake build -> axiom audit of the property's theorems -> correspondence suites (model vs /repo) -> property monitors on the implementation -> known-finding replays. See DESIGN.md section 5.",
}
json.dump(m, open(os.path.join(HERE, "MANIFEST.json"), "w"), indent=1)
print("claimed", sorted(CLAIMED), "not yet", len(m["not_applicable"]))
