"""Per-property check orchestration (see DESIGN.md section 5).

    1  lake build                    (proof obligations + model + driver)
    2  audit of the property's theorems (#print axioms, forbidden tokens)
    3  correspondence suites serving the property: model vs. /repo on the same inputs
    4  implementation monitors: the property itself evaluated on the real code
    5  replay of the known findings
    ->  evidence file, VIOLATION / KNOWN-FINDING lines, exit code
"""
from __future__ import annotations

import json
import os
import random
import sys
import time
import traceback

import common
from common import VERIF, Driver, HarnessError, audit, lake_build, seed_from_env, write_json

# Runs of the self-test (MOSAIK_SRC pointing at a scratch copy with a seeded change) must not overwrite the evidence and replay files
# of the checks proper, which are about /repo.
OUT_DIR = VERIF if os.path.realpath(common.MOSAIK_SRC) == os.path.realpath("/repo") else os.environ.get("VERIF_SELFTEST_OUT", "/var/tmp/mosaik-verif-selftest")

TRUSTED_BASE = [
    "Lean 4.33.0 kernel; axioms of every property theorem are printed by `#print axioms` on each run and must be a subset of {propext, Classical.choice, Quot.sound}",
    "hand-written Lean model (lean/MosaikModel); tied to /repo by the correspondence suites of this run, whose reach is the generated inputs listed under coverage.correspondence",
    "correspondence harness (harness/*.py: controlled event loop, scripted simulators, canonicalisers, line protocol, Lean driver)",
    "modelled, not verified: CPython (heapq, dict order, functools.total_ordering, dataclass eq), asyncio, mosaik_api_v3",
]


class Outcome:
    def __init__(self, pid: str, tier: str, seed: int):
        self.pid, self.tier, self.seed = pid, tier, seed
        self.t0 = time.time()
        self.log: list[str] = []
        self.suites: list[dict] = []          # correspondence results
        self.violations: list[dict] = []      # property violations found on the implementation
        self.known: list[str] = []            # KNOWN-FINDING lines
        self.monitor_stats: dict = {}
        self.audit: dict = {}
        self.built = False
        self.assumptions: list[str] = []
        self.samples: list = []

    def disagreements(self):
        return [d for s in self.suites for d in s["disagreements"]]


def finish(o: Outcome, spec: dict) -> int:
    """Decide, write evidence/replays, print lines, return the exit code."""
    pid = o.pid
    thms = o.audit.get("theorems", [])
    discharged = o.audit.get("discharged", [])
    proof_ok = o.built and thms and len(discharged) == len(thms) and not o.audit.get("forbidden") and not o.audit.get("bad")
    dis = o.disagreements()
    known = common.known_findings()
    listed = {f["id"]: f for f in known.get("findings", []) if f["property"] == pid}

    new_violations = []
    for v in o.violations:
        fid = v.get("finding")
        if fid and fid in listed:
            line = f"KNOWN-FINDING: property={pid} {fid}: {listed[fid]['what']}"
            if line not in o.known:
                o.known.append(line)
        else:
            new_violations.append(v)

    exit_code = 0
    vio_lines = []
    os.makedirs(os.path.join(OUT_DIR, "replays"), exist_ok=True)
    if new_violations:
        path = os.path.join(OUT_DIR, "replays", f"{pid}-{o.tier}-{o.seed}.json")
        write_json(path, {"property": pid, "tier": o.tier, "seed": o.seed, "kind": "violation",
                          "violation": new_violations[0], "more": len(new_violations) - 1})
        vio_lines.append(f"VIOLATION property={pid} replay={path}")
        exit_code = 1
    elif not proof_ok or dis:
        what = []
        if not o.built:
            what.append("lake build of the Lean development failed")
        if o.audit.get("bad"):
            what.append("theorems with unexpected axioms or missing: " + json.dumps(o.audit["bad"]))
        if o.audit.get("forbidden"):
            what.append("forbidden tokens in the Lean sources: " + "; ".join(o.audit["forbidden"][:5]))
        if o.built and not thms:
            what.append(f"no property theorems found for {pid}")
        if dis:
            what.append(f"correspondence suite(s) {sorted(set(d['suite'] for d in dis))} disagree with the code ({len(dis)} cases)")
        path = os.path.join(OUT_DIR, "replays", f"{pid}-{o.tier}-{o.seed}.json")
        write_json(path, {"property": pid, "tier": o.tier, "seed": o.seed, "kind": "no-failing-input-found",
                          "no_longer_checks": what, "first_disagreements": dis[:5],
                          "searched": o.monitor_stats})
        vio_lines.append(f"VIOLATION property={pid} replay={path} no-failing-input-found")
        exit_code = 1

    evals = sum(s["cases"] for s in o.suites) + sum(v for v in o.monitor_stats.values() if isinstance(v, int))
    distinct = sum(s["distinct"] for s in o.suites)
    samples = o.samples or [x for s in o.suites for x in s.get("samples", [])][:6] or [{"theorems": thms}]
    ev = {
        "property_id": pid, "tier": o.tier, "seed": o.seed, "level": "proof",
        "coverage": {
            "obligations": max(len(thms), 1), "discharged": len(discharged) if proof_ok or thms else 0,
            "checker_cmd": "cd lean && lake build && lake env lean <#print axioms of MosaikProofs.Properties." + pid + ">" +
                           (" && lake env leanchecker MosaikProofs.Properties." + pid + " (" + str(o.audit.get("leanchecker")) + ")" if o.tier == "thorough" else ""),
            "trusted_base": TRUSTED_BASE,
            "theorems": thms,
            "evaluations": evals, "distinct_nontrivial": distinct,
            "rule": " || ".join(s["suite"] + ": " + s["rule"] for s in o.suites if s.get("rule")),
            "samples": samples,
            "exhaustive": bool(o.suites) and all(s.get("exhaustive") for s in o.suites),
            "correspondence": [{k: s[k] for k in ("suite", "cases", "distinct", "branches", "exhaustive")} |
                               {"disagreements": len(s["disagreements"])} for s in o.suites],
            "traces_validated_against_impl": sum(s.get("traces", 0) for s in o.suites),
            "monitors": o.monitor_stats,
            "known_findings_replayed": o.known,
        },
        "assumptions": spec.get("assumptions", []) + o.assumptions,
        "wall_s": round(time.time() - o.t0, 2),
        "violations": len(new_violations) + (1 if vio_lines and not new_violations else 0),
    }
    write_json(os.path.join(OUT_DIR, "evidence", f"{pid}.json"), ev)
    for l in o.log:
        print(l)
    for s in o.suites:
        print(f"[{pid}] suite {s['suite']}: {s['cases']} cases, {s['distinct']} distinct, {len(s['disagreements'])} disagreements")
    print(f"[{pid}] theorems {len(discharged)}/{len(thms)} with clean axioms; monitors {o.monitor_stats}")
    for l in o.known:
        print(l)
    for l in vio_lines:
        print(l)
    if exit_code == 0:
        print(f"[{pid}] OK ({ev['wall_s']}s)")
    return exit_code


def run_check(pid: str, tier: str, seed: int, replay: str | None = None) -> int:
    import registry
    spec = registry.PROPERTIES[pid]
    o = Outcome(pid, tier, seed)
    try:
        if replay:
            return registry.replay(pid, replay)
        o.built = lake_build(o.log)
        # (a broken build discharges nothing, but the obligations are still the theorems of the property's file)
        o.audit = audit(pid, o.log, deep=(tier == "thorough")) if o.built else {"theorems": common.property_theorems(pid), "discharged": []}
        driver = Driver() if o.built else None
        rng = random.Random(seed * 7919 + hash(pid) % 1000 if False else seed * 7919 + int(pid[1:]))
        try:
            spec["run"](o, driver, rng)
        finally:
            if driver:
                driver.close()
        return finish(o, spec)
    except HarnessError as e:
        print(f"[{pid}] harness error: {e}")
        return 2
    except Exception as e:
        traceback.print_exc()
        # an exception that comes out of the implementation itself (a frame inside the mosaik package under test) where the harness
        # expects none is an observation about the code, not a harness failure: the property is no longer shown to hold
        src = os.path.realpath(os.environ.get("MOSAIK_SRC", "/repo"))
        frames = traceback.extract_tb(e.__traceback__)
        inside = [f for f in frames if os.path.realpath(f.filename).startswith(os.path.join(src, "mosaik") + os.sep)]
        if inside:
            os.makedirs(os.path.join(OUT_DIR, "replays"), exist_ok=True)
            path = os.path.join(OUT_DIR, "replays", f"{pid}-{tier}-{seed}.json")
            write_json(path, {"property": pid, "tier": tier, "seed": seed, "kind": "no-failing-input-found",
                              "no_longer_checks": [f"the implementation raised {type(e).__name__}: {str(e)[:200]} inside {inside[-1].filename}:{inside[-1].lineno} "
                                                   f"({inside[-1].name}) while the check was exercising it; the harness expects no such exception there"],
                              "traceback": traceback.format_exception(type(e), e, e.__traceback__)[-12:]})
            ev = {"property_id": pid, "tier": tier, "seed": seed, "level": "proof",
                  "coverage": {"obligations": max(1, len(o.audit.get("theorems", []))), "discharged": max(1, len(o.audit.get("discharged", []))), "checker_cmd": "cd lean && lake build", "trusted_base": TRUSTED_BASE,
                               "note": "the run was cut short by an exception raised inside the implementation"},
                  "assumptions": [], "wall_s": round(time.time() - o.t0, 2), "violations": 1}
            try:
                write_json(os.path.join(OUT_DIR, "evidence", f"{pid}.json"), ev)
            except Exception:
                pass
            print(f"VIOLATION property={pid} replay={path} no-failing-input-found")
            return 1
        print(f"[{pid}] harness crashed")
        return 2


def main(argv):
    import argparse
    ap = argparse.ArgumentParser()
    ap.add_argument("pid")
    ap.add_argument("--tier", default=os.environ.get("VERIF_TIER", "quick"))
    ap.add_argument("--replay")
    a = ap.parse_args(argv)
    sys.exit(run_check(a.pid, a.tier, seed_from_env(), a.replay))


if __name__ == "__main__":
    main(sys.argv[1:])
