"""Shared plumbing of the correspondence harness: locating the code under test, talking to
the Lean model driver, Lean build + audit, evidence and replay files, known findings."""
from __future__ import annotations

import json
import os
import re
import subprocess
import sys
import time

VERIF = os.path.dirname(os.path.dirname(os.path.abspath(__file__)))
LEAN_DIR = os.path.join(VERIF, "lean")
MOSAIK_SRC = os.environ.get("MOSAIK_SRC", "/repo")
DRIVER_BIN = os.path.join(LEAN_DIR, ".lake", "build", "bin", "mosaik_model")
ALLOWED_AXIOMS = {"propext", "Classical.choice", "Quot.sound"}


def import_mosaik():
    """Import mosaik from MOSAIK_SRC (default /repo) and make sure that is what we got."""
    if MOSAIK_SRC not in sys.path:
        sys.path.insert(0, MOSAIK_SRC)
    for m in [m for m in sys.modules if m == "mosaik" or m.startswith("mosaik.")]:
        f = getattr(sys.modules[m], "__file__", "") or ""
        if not f.startswith(os.path.realpath(MOSAIK_SRC)) and not f.startswith(MOSAIK_SRC):
            del sys.modules[m]
    from loguru import logger
    logger.remove()
    import mosaik  # noqa
    src = os.path.realpath(mosaik.__file__)
    if not src.startswith(os.path.realpath(MOSAIK_SRC) + os.sep):
        raise RuntimeError(f"mosaik imported from {src}, expected under {MOSAIK_SRC}")
    return mosaik


class HarnessError(Exception):
    """Something is wrong with the machinery itself (exit 2, never a violation)."""


def lake_build(log: list[str]) -> bool:
    """Build model, proofs and driver. Returns True if everything built."""
    t0 = time.time()
    r = subprocess.run(["lake", "build"], cwd=LEAN_DIR, capture_output=True, text=True)
    log.append(f"lake build: exit {r.returncode} in {time.time() - t0:.1f}s")
    if r.returncode != 0:
        log.append(r.stdout[-4000:] + r.stderr[-2000:])
    return r.returncode == 0


class Driver:
    """The compiled Lean model behind a line protocol (fallback: interpreted)."""

    def __init__(self):
        if os.path.exists(DRIVER_BIN):
            cmd = [DRIVER_BIN]
        else:
            cmd = ["lake", "env", "lean", "--run", "Main.lean"]
        self.cmd = cmd
        self.p = subprocess.Popen(cmd, cwd=LEAN_DIR, stdin=subprocess.PIPE, stdout=subprocess.PIPE,
                                  text=True, bufsize=1 << 20)
        self.lines = 0

    def ask(self, lines: list[str]) -> list[str]:
        """Send request lines, return one answer line per request."""
        if not lines:
            return []
        import threading

        def writer():
            try:
                self.p.stdin.write("\n".join(lines) + "\nflush\n")
                self.p.stdin.flush()
            except BrokenPipeError:
                pass

        th = threading.Thread(target=writer, daemon=True)
        th.start()
        out: list[str] = []
        for _ in lines:
            a = self.p.stdout.readline()
            if not a:
                raise HarnessError("model driver died: " + " ".join(self.cmd))
            out.append(a.rstrip("\n"))
        fl = self.p.stdout.readline().rstrip("\n")
        th.join()
        if fl != "flushed":
            raise HarnessError(f"model driver out of sync: {fl!r}")
        self.lines += len(lines)
        return out

    def close(self):
        try:
            self.p.stdin.close()
            self.p.wait(timeout=10)
        except Exception:
            self.p.kill()


# ---------------------------------------------------------------- Lean audit

FORBIDDEN = re.compile(r"\bsorry\b|\badmit\b|^\s*axiom\s|native_decide|bv_decide|implemented_by|\bunsafe\s|maxHeartbeats 0")


def strip_comments(src: str) -> str:
    src = re.sub(r"/-.*?-/", lambda m: "\n" * m.group(0).count("\n"), src, flags=re.S)
    return "\n".join(l.split("--")[0] for l in src.split("\n"))


def grep_forbidden() -> list[str]:
    hits = []
    for root in ("MosaikModel", "MosaikProofs"):
        for dp, _, fs in os.walk(os.path.join(LEAN_DIR, root)):
            for f in fs:
                if f.endswith(".lean"):
                    path = os.path.join(dp, f)
                    for i, l in enumerate(strip_comments(open(path).read()).split("\n"), 1):
                        if FORBIDDEN.search(l):
                            hits.append(f"{os.path.relpath(path, LEAN_DIR)}:{i}: {l.strip()}")
    return hits


def property_theorems(pid: str) -> list[str]:
    """Names of the theorems stated in MosaikProofs/Properties/<pid>.lean."""
    path = os.path.join(LEAN_DIR, "MosaikProofs", "Properties", f"{pid}.lean")
    if not os.path.exists(path):
        return []
    src = strip_comments(open(path).read())
    ns = re.findall(r"^namespace\s+(\S+)", src, flags=re.M)
    prefix = (ns[0] + ".") if ns else ""
    return [prefix + n for n in re.findall(r"^theorem\s+(\S+)", src, flags=re.M)]


def audit(pid: str, log: list[str], deep: bool = False) -> dict:
    """#print axioms for every property theorem of `pid`; returns obligations/discharged.  With `deep` (thorough
    tier) the compiled module of the property is also replayed by `leanchecker`, the toolchain's independent checker."""
    thms = property_theorems(pid)
    res = {"theorems": thms, "discharged": [], "bad": {}, "forbidden": grep_forbidden()}
    if deep and thms:
        r = subprocess.run(["lake", "env", "leanchecker", f"MosaikProofs.Properties.{pid}"], cwd=LEAN_DIR, capture_output=True, text=True)
        res["leanchecker"] = "ok" if r.returncode == 0 else "FAILED"
        if r.returncode != 0:
            res["bad"]["leanchecker"] = (r.stdout + r.stderr)[-400:]
            log.append("leanchecker: " + (r.stdout + r.stderr)[-2000:])
    if not thms:
        return res
    src = f"import MosaikProofs.Properties.{pid}\n" + "\n".join(f"#print axioms {t}" for t in thms) + "\n"
    tmp = os.path.join(LEAN_DIR, f".audit_{pid}_{os.getpid()}.lean")
    open(tmp, "w").write(src)
    try:
        r = subprocess.run(["lake", "env", "lean", tmp], cwd=LEAN_DIR, capture_output=True, text=True)
    finally:
        os.unlink(tmp)
    out = r.stdout + r.stderr
    # output: "'Name' depends on axioms: [a, b]" or "'Name' does not depend on any axioms"
    for t in thms:
        m = re.search(r"'" + re.escape(t) + r"' (does not depend on any axioms|depends on axioms: \[([^\]]*)\])", out, flags=re.S)
        if not m:
            res["bad"][t] = "not found in audit output"
            continue
        axioms = set(a.strip() for a in (m.group(2) or "").replace("\n", " ").split(",") if a.strip())
        if axioms <= ALLOWED_AXIOMS:
            res["discharged"].append(t)
        else:
            res["bad"][t] = sorted(axioms - ALLOWED_AXIOMS)
    if r.returncode != 0:
        log.append("audit: lean exited with " + str(r.returncode) + "\n" + out[-2000:])
    return res


# ---------------------------------------------------------------- findings / evidence

def known_findings() -> dict:
    return json.load(open(os.path.join(VERIF, "known_findings.json")))


def write_json(path: str, obj) -> None:
    os.makedirs(os.path.dirname(path), exist_ok=True)
    tmp = path + ".tmp"
    with open(tmp, "w") as f:
        json.dump(obj, f, indent=1, sort_keys=True, default=str)
    os.replace(tmp, path)


def seed_from_env() -> int:
    try:
        return int(os.environ.get("VERIF_SEED", "0"))
    except ValueError:
        return 0
