"""Controlled execution of the real mosaik scheduler.

* `CtlLoop`: an asyncio event loop that, whenever it is idle (nothing ready, no timer due),
  hands control to a `Controller`, which releases exactly one pending simulator reply chosen by
  the schedule, or declares a deadlock.  With `virtual=True` the loop also owns a virtual clock
  (real-time mode): when idle it may instead jump to the next timer.
* `ScriptSim`: an in-process `mosaik_api_v3.Simulator` whose `step`/`get_data` are generator
  functions (the real `LocalProxy.send` awaits what they yield), so every request parks on a
  controller future.  Behaviour comes from a deterministic function of (sim, time, sub-step).
"""
from __future__ import annotations

import asyncio
import copy
import heapq
import re
import sys
import types
import warnings

from common import import_mosaik

mosaik = import_mosaik()
import mosaik_api_v3  # noqa: E402
from mosaik import scheduler, scenario  # noqa: E402
from mosaik.exceptions import ScenarioError, SimulationError  # noqa: E402

MOD = types.ModuleType("verif_script")
sys.modules["verif_script"] = MOD


class CtlLoop(asyncio.SelectorEventLoop):
    def __init__(self, virtual: bool = False):
        super().__init__()
        self.controller = None
        self.virtual = virtual
        self.vnow = 0.0

    def time(self):
        return self.vnow if self.virtual else super().time()

    def _run_once(self):
        c = self.controller
        for _ in range(8):
            # (the controller may let virtual time pass up to a moment between two timer deadlines and act there: asked again
            # until something is runnable, so that the selector never really sleeps)
            if not (not self._ready and c is not None and c.active):
                break
            while self._scheduled and self._scheduled[0]._cancelled:
                h = heapq.heappop(self._scheduled)
                h._scheduled = False
            if self.virtual:
                due = self._scheduled and self._scheduled[0]._when <= self.vnow
                if due:
                    break
                nxt = self._scheduled[0]._when if self._scheduled else None
                c.on_idle(nxt)
            elif not self._scheduled:
                c.on_idle(None)
                break
            else:
                break
        super()._run_once()


class Controller:
    """Releases one parked request per idle point; records the observable trace."""

    def __init__(self, loop: CtlLoop, chooser):
        self.loop = loop
        loop.controller = self
        self.chooser = chooser          # list of (sid, kind) -> index
        self.pending = []               # (sid, kind, future, reply)
        self.active = False
        self.events = []                # observable events since the last idle point
        self.actions = []               # [(action descriptor, [events])]
        self.current = ("start",)
        self.deadlock = False
        self.world = None
        self.done_seen = set()
        self.full_trace = []            # every event in order, for the monitors
        self.external = []              # external events still to be injected: {"sid", "clock", "time"} (real-time runs)
        self.script_sims = {}           # sid -> ScriptSim instance
        self.injected = []              # (sid, event time) of the external events injected so far

    def emit(self, ev):
        self.events.append(ev)
        self.full_trace.append(ev)

    def gate(self, sid, kind, reply):
        fut = self.loop.create_future()
        self.pending.append((sid, kind, fut, reply))
        return fut

    def flush(self):
        # simulators whose process has finished
        if self.world is not None:
            for sid, sim in self.world.sims.items():
                t = getattr(sim, "task", None)
                if t is not None and t.done() and not t.cancelled() and t.exception() is None and sid not in self.done_seen:
                    self.done_seen.add(sid)
                    self.emit(("done", sid))
        self.actions.append((self.current, self.events))
        self.events = []

    def on_idle(self, next_timer):
        self.flush()
        due = [x for x in self.external if x["clock"] <= self.loop.vnow and x["sid"] in self.script_sims]
        if due:
            # an external event reaches a simulator while it is idle (not inside step()): it calls mosaik's set_event from outside
            x = due[0]
            self.external.remove(x)
            # an event for the period that is running now (the real-time cap at this moment) or a later one: never for the past
            f = x["ticks_per_step"]
            t_ev = -(-int(round(self.loop.vnow)) // f) + x["offset"]
            self.injected.append((x["sid"], t_ev))
            self.current = ("extevent", x["sid"], t_ev)
            self.emit(("set_event", x["sid"], t_ev))
            sim = self.script_sims[x["sid"]]
            task = self.loop.create_task(sim.mosaik.set_event(t_ev))
            task.add_done_callback(lambda t: t.exception() if not t.cancelled() else None)
            return
        # real time may also pass up to the moment the next external event arrives (between two timer deadlines)
        ext = [x["clock"] for x in self.external if x["clock"] > self.loop.vnow and x["sid"] in self.script_sims]
        if ext and next_timer is not None and min(ext) < next_timer:
            next_timer = min(ext)
        if not self.pending:
            if next_timer is not None:
                self.current = ("tick", next_timer - self.loop.vnow)
                self.loop.vnow = next_timer
                return
            self.deadlock = True
            self.active = False
            self.current = ("deadlock",)
            for t in asyncio.all_tasks(self.loop):
                t.cancel()
            return
        order = sorted(range(len(self.pending)), key=lambda i: self.pending[i][:2])
        opts = [self.pending[i][:2] for i in order]
        if next_timer is not None:
            opts = opts + [("clock", "tick")]
        idx = self.chooser(opts)
        if idx == len(order):           # let real time pass instead
            self.current = ("tick", next_timer - self.loop.vnow)
            self.loop.vnow = next_timer
            return
        sid, kind, fut, reply = self.pending.pop(order[idx])
        self.current = ("reply", sid, kind, reply)
        fut.set_result(None)


class ScriptSim(mosaik_api_v3.Simulator):
    """Scripted simulator; configuration is looked up by sid in REG."""
    REG: dict = {}

    def __init__(self):
        super().__init__({})

    def init(self, sid, time_resolution=1.0, **kw):
        self.sid = sid
        self.cfg = ScriptSim.REG[sid]
        self.ctl = self.cfg["ctl"]
        self.meta = copy.deepcopy(self.cfg["meta"])
        self.count = {}
        self.nsteps = 0
        self.ctl.script_sims[sid] = self
        return self.meta

    def create(self, num, model, **kw):
        if model == "P":
            return [{"eid": f"p{i}", "type": "P", "children": [{"eid": str(i), "type": "M"}]} for i in range(num)]
        return [{"eid": str(i), "type": model} for i in range(num)]

    def step(self, time, inputs, max_advance=None):
        k = self.count.get(time, 0)
        self.count[time] = k + 1
        n = self.nsteps
        self.nsteps += 1
        sim = self.mosaik.sim
        tiers = tuple(sim.current_step.tiers)
        beh = self.cfg["script"](time, k, n)
        self.out = beh
        self.cur = (time, k)
        self.last_get = None
        self.ctl.emit(("begin", self.sid, tiers, copy.deepcopy(inputs), max_advance, self.ctl.loop.vnow))
        for req in beh.get("async_before", []):
            yield from self._async(req)
        yield self.ctl.gate(self.sid, "step", beh.get("next"))
        for req in beh.get("async", []):
            yield from self._async(req)
        self.ctl.emit(("stepped", self.sid, tiers, beh.get("next")))
        return beh.get("next")

    def _async(self, req):
        if req[0] == "set_data":
            payload = req[2]
            if self.cfg.get("echo") and getattr(self, "last_get", None) is not None:
                # the values sent are a function of the last get_data answer of this step
                digest = 600000 + sum((i + 1) * (v if isinstance(v, int) else 7) for i, v in
                                      enumerate(x for _f, vals in sorted(self.last_get.items()) for _a, x in sorted(vals.items()))) % 1000
                payload = {src: {dst: {a: (None if v is None else digest) for a, v in attrs.items()} for dst, attrs in dests.items()}
                           for src, dests in payload.items()}
            self.ctl.emit(("set_data", self.sid, req[1], payload))
            yield self.mosaik.set_data(payload)
        elif req[0] == "get_data":
            self.ctl.emit(("get_data_req", self.sid, req[1]))
            # on a cache miss mosaik forwards the request to the other simulator's get_data() (outside
            # the scheduler's own step/get_data cycle): that call is answered at once and is no scheduler event
            self.ctl.passthrough = f"S{req[1]}"
            self.ctl.passthrough_log = []
            try:
                res = yield self.mosaik.get_data(req[2])
            finally:
                self.ctl.passthrough = None
            # what the requester was handed, and what the other simulator answered to the forwarded request (if any)
            self.ctl.emit(("get_data_res", self.sid, req[1], copy.deepcopy(req[2]), copy.deepcopy(res), list(self.ctl.passthrough_log)))
            self.last_get = copy.deepcopy(res)
        elif req[0] == "set_event":
            self.ctl.emit(("set_event", self.sid, req[1]))
            yield self.mosaik.set_event(req[1])

    def get_data(self, outputs):
        beh = getattr(self, "out", {})
        d = {}
        for eid, attrs in outputs.items():
            for a in attrs:
                if (eid, a) in beh.get("out", {}):
                    d.setdefault(eid, {})[a] = beh["out"][(eid, a)]
        if getattr(self.ctl, "passthrough", None) == self.sid:
            self.ctl.passthrough = None
            self.ctl.passthrough_log.append((copy.deepcopy(outputs), copy.deepcopy(d)))
            return d
        if "out_time" in beh:
            d["time"] = beh["out_time"]
        yield self.ctl.gate(self.sid, "get_data", copy.deepcopy(d))
        sim = self.mosaik.sim
        self.ctl.emit(("got", self.sid, tuple(sim.current_step.tiers), copy.deepcopy(d)))
        return d


MOD.ScriptSim = ScriptSim

_ERR = [
    (r"is trying to perform a step at time", "SimulationError step-in-past {sid}"),
    (r"has performed a sub-step more than", "SimulationError loop {sid}"),
    (r"must be of type int", "SimulationError bad-reply {sid} not-int"),
    (r"must be later than the current", "SimulationError bad-reply {sid} not-later"),
    (r"must always return a next step", "SimulationError bad-reply {sid} no-next-step"),
    (r"Output time", "SimulationError bad-reply {sid} output-time"),
    (r"tried to set an event in non-real-time", "SimulationError event-not-rt {sid}"),
]


def classify_exception(e: BaseException) -> str:
    msg = str(e)
    if isinstance(e, SimulationError):
        for pat, tpl in _ERR:
            if re.search(pat, msg):
                m = re.search(r"[Ss]imulator ['\"]?(S\d+)", msg) or re.search(r"(S\d+)", msg)
                return tpl.format(sid=m.group(1)[1:] if m else "?")
        return "SimulationError other " + msg[:60]
    if isinstance(e, ScenarioError):
        if "Async. requests not enabled" in msg or "No connection from" in msg:
            m = re.findall(r"to (S\d+)", msg)
            return "ScenarioError async-refused " + (m[0][1:] if m else "?")
        if "contains cycles" in msg:
            return "ScenarioError cycle"
        return "ScenarioError other " + msg[:60]
    if isinstance(e, AssertionError):
        if "cannot progress backwards" in msg:
            return "AssertionError progress-backwards"
        if "incomparable" in msg:
            return "AssertionError closure"
        return "AssertionError other " + msg[:60]
    if isinstance(e, RuntimeError) and "too slow" in msg:
        return "RuntimeError too-slow"
    return type(e).__name__ + " " + msg[:60]


def run_world(build, until, chooser, lazy=True, cache=True, max_loop_iterations=100, rt_factor=None, rt_strict=False,
              before_run=None, time_resolution=1.0, debug=False):
    """Build a world with `build(world, ctl)` and run it under the controlled loop.
    Returns (outcome string, controller)."""
    loop = CtlLoop(virtual=rt_factor is not None)
    asyncio.set_event_loop(loop)
    ctl = Controller(loop, chooser)
    ScriptSim.REG.clear()
    world = mosaik.World({"S": {"python": "verif_script:ScriptSim"}}, asyncio_loop=loop, cache=cache,
                         skip_greetings=True, max_loop_iterations=max_loop_iterations, time_resolution=time_resolution,
                         **({"debug": True} if debug else {}))
    ctl.world = world
    outcome = None
    saved_run = scheduler.run
    saved_pc = scheduler.perf_counter

    async def wrapped_run(*a, **kw):
        try:
            return await saved_run(*a, **kw)
        finally:
            ctl.active = False

    try:
        try:
            with warnings.catch_warnings():
                warnings.simplefilter("ignore")
                build(world, ctl)
        except ScenarioError:
            outcome = "ScenarioError build"
            return outcome, ctl
        if before_run:
            before_run(world)
        scheduler.run = wrapped_run
        if rt_factor is not None:
            scheduler.perf_counter = loop.time
        from loguru import logger as _lg

        def sink(msg):
            text = str(msg)
            if "too slow" in text:
                ctl.emit(("rtwarn",))
            elif "after simulation end" in text:
                ctl.emit(("event-ignored",))
        sink_id = _lg.add(sink, level="WARNING")
        ctl.active = True
        import signal

        class _Watchdog(BaseException):
            pass

        def _on_alarm(signum, frame):
            raise _Watchdog()
        old_handler = signal.signal(signal.SIGALRM, _on_alarm)
        signal.alarm(10)        # a scenario takes milliseconds; the closures before the first step can loop for D7-class scenarios
        try:
            with warnings.catch_warnings():
                warnings.simplefilter("ignore")
                # lazy stepping is the documented default: when it is wanted, it is not passed (and neither are the real-time defaults)
                kw = {} if lazy else {"lazy_stepping": False}
                if rt_factor is not None:
                    kw["rt_factor"] = rt_factor
                if rt_strict:
                    kw["rt_strict"] = True
                world.run(until=until, print_progress=False, **kw)
            outcome = "finished"
        except _Watchdog:
            outcome = "failed Hang run() did not return within 10 s"
        except asyncio.CancelledError:
            outcome = "deadlock"
        except BaseException as e:  # noqa: BLE001
            outcome = "failed " + classify_exception(e)
            ctl.exception = e
        finally:
            signal.alarm(0)
            signal.signal(signal.SIGALRM, old_handler)
        ctl.active = False
        ctl.flush()
        return outcome, ctl
    finally:
        try:
            _lg.remove(sink_id)
        except Exception:
            pass
        scheduler.run = saved_run
        scheduler.perf_counter = saved_pc
        ctl.active = False
        try:
            if not loop.is_closed():
                for t in asyncio.all_tasks(loop):
                    t.cancel()
                loop.run_until_complete(asyncio.sleep(0))
                loop.close()
        except Exception:
            pass
        asyncio.set_event_loop(None)
