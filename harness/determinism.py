"""C04: the per-simulator sequence of (time, inputs) must not depend on the interleaving of replies, the
start order, lazy stepping, the cache, debug mode or the transport.

* exhaustive enumeration of all reply orders of small scenarios (DFS over the controller's choices)
* cross product of configurations on generated scenarios
"""
from __future__ import annotations

import json
import random

import ctl
import sched_corr as scorr
import monitors_sched as ms


def observations(controller, names=None):
    """sim -> list of (tiered time, flattened inputs); with `names` (index -> stable name) simulators and the
    sources inside the inputs are renamed so that runs with different start orders are comparable"""
    out = {}
    for e in controller.full_trace:
        if e[0] == "begin":
            i = int(e[1][1:])
            items = scorr.flat_inputs(e[3])
            if names is not None:
                items = sorted((ei, a, names[s], se, v) for (ei, a, s, se, v) in items)
                i = names[i]
            out.setdefault(i, []).append((tuple(e[2]), tuple(items)))
    return out


def start_order_variants(sc, rng, k=3):
    """The same scenario with the simulators started in other orders (creation order = order of world.sims)."""
    base = json.loads(json.dumps(sc))
    for i, s in enumerate(base["sims"]):
        s["name"] = i
    out = [base]
    n = len(base["sims"])
    for _ in range(k):
        perm = list(range(n))
        rng.shuffle(perm)
        s2, _ = permute_sims(base, perm)
        out.append(scorr.normalise(s2))
    return out


def check_start_orders(sc, rng):
    ref = None
    runs = 0
    for v in start_order_variants(sc, rng):
        names = {i: s["name"] for i, s in enumerate(v["sims"])}
        seed = rng.randrange(10 ** 9)
        outcome, c = scorr.run_impl(v, seed)
        runs += 1
        obs = observations(c, names)
        if outcome.startswith("failed SimulationError"):
            outcome = " ".join(outcome.split(" ")[:3])       # which simulator hits a guard first may depend on the order
        if ref is None:
            ref = (outcome, obs, v)
        elif (outcome, obs) != ref[:2] and not outcome.startswith("failed"):
            cls = ms.c03_class(sc)
            return runs, {"law": "the start order of the simulators does not change any simulator's (time, inputs) sequence", "scenario_a": ref[2], "scenario_b": v,
                          "outcome_a": ref[0], "outcome_b": outcome, "schedule_seed": seed, "finding": cls,
                          "differs_for": sorted(k for k in set(ref[1]) | set(obs) if ref[1].get(k) != obs.get(k))}
    return runs, None


def run_with_choices(sc, choices, **over):
    """Run with a fixed prefix of controller choices (then always choice 0). Returns (outcome, controller, branching)."""
    branching = []
    it = iter(choices)

    def chooser(opts):
        branching.append(len(opts))
        try:
            return next(it)
        except StopIteration:
            return 0
    s2 = dict(sc, **over)
    outcome, c = ctl.run_world(scorr.build_from(s2), s2["until"], chooser, lazy=s2["lazy"], cache=s2["cache"],
                               max_loop_iterations=s2["max_loop"], before_run=over.get("_before_run"))
    if c.deadlock:
        outcome = "deadlock"
    return outcome, c, branching


def all_interleavings(sc, limit=400):
    """DFS over all reply orders. Yields (choices, outcome, observations)."""
    stack = [[]]
    seen = 0
    while stack and seen < limit:
        prefix = stack.pop()
        outcome, c, branching = run_with_choices(sc, prefix)
        seen += 1
        yield prefix, outcome, observations(c)
        # children: at every decision point after the prefix, the alternatives to choice 0
        for i in range(len(prefix), len(branching)):
            for alt in range(1, branching[i]):
                stack.append(prefix + [0] * (i - len(prefix)) + [alt])
    return


def pair_scenario(rng):
    """Two connections between ONE pair of simulators with different delays (direct + time-shifted, in either call order) into a
    self-stepping consumer, optionally a third simulator: the pair's wait must be the minimum of the two whatever the order."""
    sims = [{"type": rng.choice(["time-based", "hybrid"]), "group": [], "init_ev": None},
            {"type": rng.choice(["time-based", "hybrid"]), "group": [], "init_ev": None}]
    direct = {"src": 0, "seid": 0, "dst": 1, "deid": 0, "sattr": 2, "dattr": 0, "ts": 0, "weak": False, "init": False, "async": False}
    shifted = {"src": 0, "seid": 0, "dst": 1, "deid": 1, "sattr": 2, "dattr": 0, "ts": rng.choice([1, 1, 2]), "weak": False, "init": True, "async": False}
    connects = [direct, shifted] if rng.random() < 0.6 else [shifted, direct]
    if rng.random() < 0.4:
        sims.append({"type": "time-based", "group": [], "init_ev": None})
        connects.append({"src": 2, "seid": 0, "dst": rng.randrange(2), "deid": 0, "sattr": 2, "dattr": 0, "ts": 0, "weak": False, "init": False, "async": False})
    # cache off: with the cache on, initial data of a shifted connection next to a second connection of the same source is the
    # known finding D12 and a difference would be attributed to it
    sc = {"sims": sims, "connects": connects, "until": 3, "max_loop": 100, "lazy": False, "cache": False,      # eager: with lazy stepping two simulators hardly ever overlap
          "beh_seed": rng.randrange(10 ** 9), "sparse_persistent": False, "future_outputs": False}
    return scorr.normalise(sc)


def small_scenario(rng):
    k = rng.randrange(3)
    if k == 2:
        return pair_scenario(rng)
    while True:
        sc = scorr.gen_clean_scenario(rng) if k else scorr.gen_scenario(rng)
        if len(sc["sims"]) <= 3 and sc["until"] <= 3 and not scorr.nonuniform_cutoff(sc, False):
            sc["sparse_persistent"] = False      # API-compliant simulators only
            return sc


def check_scenario_interleavings(sc, limit):
    ref = None
    n = 0
    complete = True
    for prefix, outcome, obs in all_interleavings(sc, limit):
        n += 1
        if ref is None:
            ref = (outcome, obs, prefix)
        elif (outcome, obs) != ref[:2]:
            return n, False, {"law": "every interleaving of the replies gives every simulator the same sequence of (time, inputs)",
                              "scenario": sc, "choices_a": ref[2], "choices_b": prefix, "outcome_a": ref[0], "outcome_b": outcome,
                              "differs_for": sorted(k for k in set(ref[1]) | set(obs) if ref[1].get(k) != obs.get(k))}
    if n >= limit:
        complete = False
    return n, complete, None


def permute_sims(sc, perm):
    """Same scenario with the simulators started in another order (within each group)."""
    s2 = json.loads(json.dumps(sc))
    inv = {old: new for new, old in enumerate(perm)}
    s2["sims"] = [s2["sims"][o] for o in perm]
    for c in s2["connects"]:
        c["src"], c["dst"] = inv[c["src"]], inv[c["dst"]]
    return s2, inv


def _first_difference_class(sc, obs_a, obs_b, caches):
    """Known-finding class of the earliest differing step inputs of two runs (None = no finding explains them)."""
    best = None
    for sim in set(obs_a) | set(obs_b):
        la, lb = obs_a.get(sim, []), obs_b.get(sim, [])
        for k in range(max(len(la), len(lb))):
            a = la[k] if k < len(la) else None
            b = lb[k] if k < len(lb) else None
            if a != b:
                t = (a or b)[0]
                if best is None or t < best[0]:
                    best = (t, sim, a, b)
                break
    if best is None:
        return None
    _, sim, a, b = best
    if a is None or b is None or a[0] != b[0]:
        # a step more or less / at another time: judged by the scenario-level class as before
        return ms.c03_class(dict(sc, cache=caches[0])) or ms.c03_class(dict(sc, cache=caches[1]))
    keys = {x[:4] for x in set(a[1]) ^ set(b[1])}
    classes = [ms.c03_conn_class(dict(sc, cache=c), sim, k) for k in keys for c in caches]
    per_key = [ms.c03_conn_class(dict(sc, cache=caches[0]), sim, k) or ms.c03_conn_class(dict(sc, cache=caches[1]), sim, k) for k in keys]
    if per_key and all(per_key):
        return per_key[0]
    return None


def cross_config(sc, rng):
    """lazy x cache x debug x start order, one random schedule each; compared per simulator."""
    vio = []
    base = None
    runs = 0
    n = len(sc["sims"])
    for lazy in (True, False):
        for cache in (True, False):
            for debug in (False, True):
                for order in ("given", "reversed"):
                    s2 = dict(sc, lazy=lazy, cache=cache)
                    names = {i: i for i in range(n)}
                    if order == "reversed":
                        # reverse the start order among simulators of the same group
                        perm = sorted(range(n), key=lambda i: (sc["sims"][i]["group"], -i))
                        perm = scorr.creation_order([sc["sims"][i] for i in perm]) if False else perm
                        s2, inv = permute_sims(s2, perm)
                        s2 = scorr.normalise(s2)
                        # map new index -> original index through seeds: behaviours depend on the index, so keep them by id
                        continue
                    seed = rng.randrange(10 ** 9)
                    r = random.Random(seed)
                    before = None
                    if debug:
                        def before(world):
                            import networkx
                            world._debug = True
                            world.execution_graph = networkx.DiGraph()
                    outcome, c = ctl.run_world(scorr.build_from(s2), s2["until"], lambda opts: r.randrange(len(opts)), lazy=lazy, cache=cache,
                                               max_loop_iterations=s2["max_loop"], before_run=before)
                    runs += 1
                    obs = observations(c)
                    key = (lazy, cache, debug, order)
                    if base is None:
                        base = (key, outcome, obs)
                        continue
                    same_cache = key[1] == base[0][1]
                    same_lazy = key[0] == base[0][0]
                    # a run that is aborted (refused request, malformed reply, loop guard) stops the other simulators wherever the
                    # schedule has taken them: then only the way the run ends is compared, not how far everybody got
                    both_failed = str(outcome).startswith("failed") and str(base[1]).startswith("failed")
                    if (outcome != base[1]) if both_failed else ((outcome, obs) != base[1:]):
                        # the data-flow findings of C03 are exactly where configurations may differ
                        finding = ms.c03_class(dict(sc, cache=key[1])) or ms.c03_class(dict(sc, cache=base[0][1]))
                        if finding and outcome == base[1]:
                            # attribute the difference to a data-flow finding only if the FIRST inputs that differ belong to
                            # connections that have the finding's feature (findings are properties of a connection)
                            finding = _first_difference_class(sc, base[2], obs, (key[1], base[0][1])) if True else finding
                        vio.append({"law": "same (time, inputs) sequences for lazy/cache/debug on or off", "scenario": sc, "config_a": base[0], "config_b": key,
                                    "outcome_a": base[1], "outcome_b": outcome, "schedule_seed": seed, "finding": finding,
                                    "differs_for": sorted(k for k in set(base[2]) | set(obs) if base[2].get(k) != obs.get(k))})
    return vio, runs


def run_remote(sc, timeout=30):
    """Run the scenario with every simulator as a real subprocess; returns sim index -> [(time, inputs)]."""
    import asyncio
    import os
    import signal
    import sys
    import tempfile
    import warnings
    from common import VERIF, import_mosaik
    mosaik = import_mosaik()
    logfile = tempfile.mktemp(prefix="mosaik-verif-remote-", dir="/var/tmp")
    open(logfile, "w").close()
    cfg = {"R": {"cmd": f"%(python)s {os.path.join(VERIF, 'harness', 'remote_script_sim.py')} %(addr)s",
                 "env": {"PYTHONPATH": os.pathsep.join(p for p in sys.path if p), "MOSAIK_SRC": os.environ.get("MOSAIK_SRC", "/repo")}}}
    loop = asyncio.new_event_loop()
    asyncio.set_event_loop(loop)

    def on_alarm(signum, frame):
        raise TimeoutError("remote run hangs")
    signal.signal(signal.SIGALRM, on_alarm)
    signal.alarm(timeout)
    outcome = None
    world = None
    try:
        with warnings.catch_warnings():
            warnings.simplefilter("ignore")
            world = mosaik.World(cfg, asyncio_loop=loop, cache=sc["cache"], skip_greetings=True, max_loop_iterations=sc["max_loop"])
            ents = {}
            sims = sc["sims"]

            def start(i):
                ents[i] = world.start("R", sim_id=f"S{i}", scenario=sc, index=i, logfile=logfile).M.create(2)

            def rec(prefix):
                for i, s in enumerate(sims):
                    if list(s["group"]) == prefix:
                        start(i)
                kids = sorted(set(s["group"][len(prefix)] for s in sims if len(s["group"]) > len(prefix) and list(s["group"][:len(prefix)]) == prefix))
                for c in range((max(kids) + 1) if kids else 0):
                    with world.group():
                        rec(prefix + [c])
            rec([])
            for ci, c in enumerate(sc["connects"]):
                kw = {}
                if c["ts"]:
                    kw["time_shifted"] = c["ts"]
                if c["weak"]:
                    kw["weak"] = True
                if c["init"]:
                    kw["initial_data"] = {scorr.ATTRS[c["sattr"]]: 900000 + ci}
                world.connect(ents[c["src"]][c["seid"]], ents[c["dst"]][c["deid"]], (scorr.ATTRS[c["sattr"]], scorr.ATTRS[c["dattr"]]), **kw)
            for i, s in enumerate(sims):
                if s.get("init_ev") is not None:
                    if scorr.earlier_initev_call(sc, i) is not None:
                        world.set_initial_event(f"S{i}", scorr.earlier_initev_call(sc, i))
                    world.set_initial_event(f"S{i}", s["init_ev"])
            try:
                world.run(until=sc["until"], print_progress=False, lazy_stepping=sc["lazy"])
                outcome = "finished"
            except TimeoutError:
                outcome = "hang"
            except BaseException as e:  # noqa: BLE001
                outcome = "failed " + type(e).__name__
                try:
                    world.shutdown()
                except BaseException:
                    pass
    except BaseException as e:  # noqa: BLE001  (scenario rejected while building)
        outcome = "failed " + type(e).__name__
        try:
            if world is not None:
                world.shutdown()
        except BaseException:
            pass
    finally:
        signal.alarm(0)
        asyncio.set_event_loop(None)
    obs = {}
    for l in open(logfile):
        r = json.loads(l)
        obs.setdefault(r["sim"], []).append((r["time"], tuple(scorr.flat_inputs(r["inputs"]))))
    os.unlink(logfile)
    return outcome, obs


def check_remote(sc, rng):
    """In-process (controlled loop, random schedule) vs. real subprocesses."""
    seed = rng.randrange(10 ** 9)
    out1, c = scorr.run_impl(sc, seed)
    local = {int(k[1:]) if isinstance(k, str) else k: [(t[0], inp) for t, inp in v] for k, v in observations(c).items()}
    out2, remote = run_remote(sc)
    if out1 != "finished" or out2 != "finished":
        if (out1 == "finished") != (out2 == "finished"):
            return {"law": "in-process and remote transport behave alike", "scenario": sc, "outcome_local": out1, "outcome_remote": out2, "finding": ms.c03_class(sc)}
        return None
    if local != remote:
        return {"law": "in-process and remote simulators observe the same (time, inputs) sequences", "scenario": sc, "schedule_seed": seed, "finding": ms.c03_class(sc),
                "differs_for": sorted(k for k in set(local) | set(remote) if local.get(k) != remote.get(k))}
    return None
