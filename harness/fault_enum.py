"""Fault enumeration for C14: a chain of simulators, one of which fails at request index k with a given
fault kind; local (in-process) and remote (subprocess) transport.  Observed: how run() ends, how long it
takes, stop/finalize counts, surviving processes, loop state, tasks destroyed while pending."""
from __future__ import annotations

import asyncio
import gc
import io
import logging
import os
import signal
import sys
import tempfile
import time
import warnings

from common import import_mosaik, VERIF

mosaik = import_mosaik()
import remote_sim  # noqa: E402


class Hang(Exception):
    pass


def run_case(n_sims: int, transport: list, faulty: int, index: int, kind: str, apis: list | None = None, flavour: dict | None = None,
             slow: list | None = None, timeout: float = 8.0) -> dict:
    """transport[i] in {'local', 'remote'}; simulator `faulty` fails at its request `index` with `kind`;
    apis[i] = API version simulator i reports (None = 3.0; older ones are wrapped in adapters by mosaik)."""
    logfile = tempfile.mktemp(prefix="mosaik-verif-fault-", dir="/var/tmp")
    open(logfile, "w").close()
    sim_config = {
        "L": {"python": "remote_sim:FaultSim"},
        "R": {"cmd": f"%(python)s {os.path.join(VERIF, 'harness', 'remote_sim.py')} %(addr)s",
              "env": {"PYTHONPATH": os.pathsep.join(p for p in sys.path if p)}},
    }
    # flavour: {"typ": simulator type of the faulty simulator, "exc": exception class it raises}
    # slow[i] = seconds every step of (healthy, subprocess) simulator i takes: it is in the middle of a request when the fault happens
    res = {"n_sims": n_sims, "transport": transport, "faulty": faulty, "index": index, "kind": kind, "apis": apis, "flavour": flavour, "slow": slow}
    destroyed = io.StringIO()
    handler = logging.StreamHandler(destroyed)
    logging.getLogger("asyncio").addHandler(handler)
    old_stderr = sys.stderr
    gc.collect()
    sockets_before = _open_sockets()
    loop = asyncio.new_event_loop()
    asyncio.set_event_loop(loop)
    t0 = time.time()

    def on_alarm(signum, frame):
        raise Hang()
    signal.signal(signal.SIGALRM, on_alarm)
    signal.setitimer(signal.ITIMER_REAL, float(timeout), 2.0)     # repeating: a time-out swallowed by a broad `except` fires again
    world = None
    try:
        sys.stderr = destroyed
        with warnings.catch_warnings():
            warnings.simplefilter("ignore")
            world = mosaik.World(sim_config, asyncio_loop=loop, skip_greetings=True, mosaik_config={"stop_timeout": 1})
            ents = []
            for i in range(n_sims):
                f = {"index": index, "kind": kind, "exc": (flavour or {}).get("exc")} if i == faulty else None
                extra = {"api": apis[i]} if apis and apis[i] else {}
                if i == faulty and flavour and flavour.get("typ"):
                    extra["typ"] = flavour["typ"]
                if slow and slow[i]:
                    extra["slow"] = slow[i]
                fac = world.start("L" if transport[i] == "local" else "R", sim_id=f"S{i}", logfile=logfile, fault=f, **extra)
                ents.append(fac.M())
            for i in range(n_sims - 1):
                world.connect(ents[i], ents[i + 1], ("o", "a"))
            from loguru import logger as _lg
            errors = []
            sink_id = _lg.add(lambda m: errors.append(str(m)[:160]), level="ERROR")
            try:
                world.run(until=3, print_progress=False)
                res["outcome"] = "returned"
            except Hang:
                res["outcome"] = "hang"
            except BaseException as e:  # noqa: BLE001
                res["outcome"] = "raised " + type(e).__name__
                res["message"] = str(e)[:120]
            finally:
                _lg.remove(sink_id)
                res["error_logged"] = bool(errors)
        res["elapsed"] = round(time.time() - t0, 2)
        res["loop_closed"] = loop.is_closed()
        pend = [t for t in asyncio.all_tasks(loop) if not t.done()]
        res["pending_tasks"] = sorted(set((t.get_coro().__qualname__ if t.get_coro() is not None else "?") for t in pend))
        # a second shutdown must be a no-op (under its own time limit: after a run that hung in shutdown() it may hang again)
        signal.setitimer(signal.ITIMER_REAL, 3.0, 2.0)
        try:
            if world is not None:
                world.shutdown()
            res["second_shutdown"] = "ok"
        except Hang:
            res["second_shutdown"] = "hang"
        except BaseException as e:  # noqa: BLE001
            res["second_shutdown"] = "raised " + type(e).__name__
        finally:
            signal.setitimer(signal.ITIMER_REAL, 0)
    except Hang:
        res["outcome"] = "hang"
        res["elapsed"] = round(time.time() - t0, 2)
    finally:
        signal.setitimer(signal.ITIMER_REAL, 0)
        world = None
        gc.collect()
        sys.stderr = old_stderr
        logging.getLogger("asyncio").removeHandler(handler)
        asyncio.set_event_loop(None)
    pids = {}
    for l in open(logfile).read().split("\n"):
        p = l.split(" ")
        if p[0] == "init":
            pids[p[1]] = int(p[2])
    # processes must be gone (give them a moment)
    alive = []
    for sid, pid in pids.items():
        if pid == os.getpid():
            continue
        for _ in range(30):
            try:
                os.kill(pid, 0)
                try:
                    state = [l for l in open(f"/proc/{pid}/status") if l.startswith("State:")][0]
                except (FileNotFoundError, IndexError):
                    break
                if "Z" in state.split()[1]:
                    # exited, only not yet reaped by the parent (mosaik drops its Popen handle)
                    try:
                        os.waitpid(pid, os.WNOHANG)
                    except ChildProcessError:
                        pass
                    break
                time.sleep(0.1)
            except ProcessLookupError:
                break
        else:
            alive.append(sid)
            try:
                os.kill(pid, signal.SIGKILL)
            except ProcessLookupError:
                pass
    res["processes_left"] = alive
    # finalize is counted once the processes are gone (a simulator that was busy when it was told to stop finalizes afterwards)
    finals = {}
    for l in open(logfile).read().split("\n"):
        p = l.split(" ")
        if p[0] == "finalize":
            finals[p[1]] = finals.get(p[1], 0) + 1
    os.unlink(logfile)
    res["finalize_counts"] = {f"S{i}": finals.get(f"S{i}", 0) for i in range(n_sims)}
    # sockets of THIS process (mosaik's side of the connections, its server socket, the loop's self-pipe) that are still open although
    # run() and shutdown() are over - counted before the harness closes a loop that mosaik left open
    gc.collect()
    res["sockets_left_open"] = max(0, _open_sockets() - sockets_before) if loop.is_closed() else None
    if not loop.is_closed():
        try:
            loop.close()
        except Exception:
            pass
    return res


def _open_sockets() -> int:
    n = 0
    for fd in os.listdir("/proc/self/fd"):
        try:
            if os.readlink(f"/proc/self/fd/{fd}").startswith("socket:"):
                n += 1
        except OSError:
            pass
    return n


def judge(res: dict) -> list:
    """The clauses of C14 on one fault case."""
    vio = []
    faulty = f"S{res['faulty']}"
    reached = True
    if res["outcome"] == "hang":
        vio.append({"law": "run() terminates instead of hanging", **res})
        return vio
    if res["outcome"] == "returned" and res["kind"] in ("exit", "reset", "close") and res.get("fault_reached", True):
        vio.append({"law": "a dying simulator makes run() end with an error", **res})
    # (a process that dies some time AFTER answering a request may die after its last request: run() may then return normally)
    # (KeyboardInterrupt, wherever it is raised, ends run() normally with "Simulation canceled": by design)
    if res["outcome"] == "returned" and res["kind"] not in ("exit_idle", "kbint") and res.get("fault_reached", True) and not res.get("error_logged"):
        vio.append({"law": "a failing simulator makes run() end with an error or a logged remote error", **res})
    if res.get("elapsed", 0) > 5:
        vio.append({"law": "run() terminates promptly", **res})
    for sid, c in res["finalize_counts"].items():
        if sid == faulty and res["kind"] in ("exit", "exit_idle", "reset", "close") and res.get("fault_reached", True):
            continue
        if c != 1:
            vio.append({"law": "every other simulator receives stop/finalize exactly once", "sim": sid, "count": c, **res})
    if res["processes_left"]:
        vio.append({"law": "no simulator process is left behind", **res})
    if not res.get("loop_closed", False):
        vio.append({"law": "the event loop is closed after run()", **res})
    if res.get("second_shutdown") != "ok":
        vio.append({"law": "a second shutdown() is a no-op", **res})
    if res.get("sockets_left_open"):
        vio.append({"law": "no socket is left open after run() / shutdown()", **res})
    if res.get("pending_tasks"):
        vio.append({"law": "no pending event-loop work is left behind", **res})
    return vio


def model_line(res: dict) -> tuple[str, str]:
    """Request for the model of World.run/shutdown and the implementation's answer in the same format."""
    remote = res["transport"][res["faulty"]] == "remote"
    if res["outcome"] == "returned":
        reached = res["kind"] == "raise" and remote and any(True for _ in [0])
        kind = ("keyboard" if (res["kind"] == "kbint" and res.get("fault_reached")) else
                "remote-exception" if (remote and res["kind"] == "raise" and res.get("fault_reached")) else "ok")
    elif res["kind"] == "sysexit" and res.get("fault_reached"):
        kind = "systemexit"
    else:
        kind = "other"
    stopped = [i for i in range(res["n_sims"]) if res["finalize_counts"][f"S{i}"] >= 1 or
               (i == res["faulty"] and res["kind"] in ("exit", "exit_idle", "reset", "close") and res.get("fault_reached"))]
    impl = (("returned" if res["outcome"] == "returned" else "raised") + f" closed={'true' if res.get('loop_closed') else 'false'} "
            f"stops={len(stopped)}" + "".join(f" {i}" for i in stopped) +
            f" second-shutdown-noop={'true' if res.get('second_shutdown') == 'ok' else 'false'}")
    return f"rs.run {res['n_sims']} {kind}", impl


def enumerate_cases(tier: str, rng):
    cases = []
    # local: every request index of every simulator in chains of 2 and 3
    for n in (2, 3):
        for faulty in range(n):
            for index in range(0, 8):
                cases.append((n, ["local"] * n, faulty, index, "raise"))
    remote = []
    for n in (2, 3):
        for faulty in range(n):
            for index in range(0, 8):
                for kind in ("raise", "exit"):
                    tr = ["local"] * n
                    tr[faulty] = "remote"
                    remote.append((n, tr, faulty, index, kind))
                    remote.append((n, ["remote"] * n, faulty, index, kind))
    if tier == "quick":
        remote = rng.sample(remote, 14)
    base = cases + remote
    # the same with healthy simulators of older API versions (wrapped in adapters); the faulty one stays at 3.0 so that the
    # request count is the same
    legacy = []
    for k, c in enumerate(base):
        if tier == "quick" and k % 3 != 0:
            continue
        n, tr, faulty = c[0], c[1], c[2]
        apis = [None if i == faulty else rng.choice(["2.0", "2.2", "2.2"]) for i in range(n)]
        legacy.append(c + (apis,))
    # other simulator types and exception classes for the faulty simulator (in-process handlers treat some classes specially)
    flavoured = []
    for k, c in enumerate(cases):
        if tier == "quick" and k % 4 != 1:
            continue
        n, tr, faulty = c[0], c[1], c[2]
        typ = rng.choice(["hybrid", "hybrid", "event-based"] if faulty > 0 else ["hybrid"])
        flavoured.append(c + (None, {"typ": typ, "exc": rng.choice(["TypeError", "TypeError", "KeyError", "RuntimeError"])}))
    # a healthy subprocess simulator that is in the middle of a (slow) step when another simulator fails; simulators started
    # after it must still be stopped
    busy = []
    for (faulty, slow_i) in ((1, 0), (2, 0), (0, 1), (2, 1)):
        for index in (1, 2, 3, 4):
            for ftr, kind in (("local", "raise"), ("remote", "raise"), ("remote", "exit")):
                tr = ["local"] * 3
                tr[slow_i] = "remote"
                tr[faulty] = ftr
                sl = [0, 0, 0]
                sl[slow_i] = 0.4
                busy.append((3, tr, faulty, index, kind, None, None, sl))
    # ... and the same with a SHORT step (80 ms): the busy simulator answers while mosaik is still shutting down, i.e. its reply arrives
    # for a request that has been cancelled in the meantime
    brief = [c[:7] + ([0.08 if x else 0 for x in c[7]],) for c in busy]
    if tier == "quick":
        # the first simulator running ahead of a failing last one is the shape in which it is reliably busy at the fault
        ahead = [c for c in busy if c[2] == 2 and c[7][0] and c[3] in (1, 2)]
        busy = rng.sample(ahead, 3) + rng.sample([c for c in busy if c not in ahead], 3)
        ahead_b = [c for c in brief if c[2] == 2 and c[7][0] and c[3] in (1, 2)]
        brief = rng.sample(ahead_b, 2) + rng.sample([c for c in brief if c not in ahead_b], 2)
    busy = busy + brief
    # a subprocess simulator that dies while mosaik has NO request outstanding to it (it waits for its slow successor under lazy
    # stepping): the death shows as end-of-stream on an idle connection, the next request must fail instead of waiting forever
    idle = []
    for faulty in (0, 1):
        for index in range(0, 5):
            for slow_tr in ("remote", "local"):
                tr = ["local"] * 3
                tr[faulty] = "remote"
                tr[faulty + 1] = slow_tr
                sl = [0, 0, 0]
                sl[faulty + 1] = 0.3
                idle.append((3, tr, faulty, index, "exit_idle", None, None, sl))
    if tier == "quick":
        idle = rng.sample(idle, 4)
    # an in-process simulator that raises SystemExit (sys.exit() in a handler) or KeyboardInterrupt: these leave the event loop at
    # once instead of failing the simulator's task; the other simulators must still be stopped once and the loop closed
    base_exc = []
    for n in (2, 3):
        for faulty in range(n):
            for index in range(0, 6):
                for kind in ("sysexit", "kbint"):
                    tr = ["local"] * n
                    base_exc.append((n, tr, faulty, index, kind))
                    if n == 3 and faulty != 1:
                        tr2 = list(tr)
                        tr2[1] = "remote"
                        base_exc.append((n, tr2, faulty, index, kind))
    if tier == "quick":
        base_exc = rng.sample(base_exc, 10)
    # a subprocess simulator that closes its connection without exiting: orderly (FIN) or abortively (RST: the channel's receiver
    # then ends without failing the outstanding request)
    closing = []
    for n in (2, 3):
        for faulty in range(n):
            for index in range(0, 6):
                for kind in ("reset", "close"):
                    tr = ["local"] * n
                    tr[faulty] = "remote"
                    closing.append((n, tr, faulty, index, kind))
                    if n == 3:
                        closing.append((n, ["remote"] * n, faulty, index, kind))
    if tier == "quick":
        closing = rng.sample(closing, 6)
    return base + legacy + flavoured + busy + idle + base_exc + closing


def run_suite(driver, rng, tier: str) -> dict:
    from collections import Counter
    cases = enumerate_cases(tier, rng)
    dis, vio = [], []
    hist = Counter()
    lines, impls, results = [], [], []
    for c in cases:
        r = run_case(*c)
        # did the fault actually happen? (index beyond the run's requests = fault-free control case)
        total = {2: 1 + 3 * 2, 3: 1 + 3 * 2}.get(c[0])
        last = c[2] == c[0] - 1
        nreq = 1 + 3 * (1 if last else 2)
        r["fault_reached"] = c[3] < nreq
        results.append(r)
        hist[f"{'remote' if c[1][c[2]] == 'remote' else 'local'}:{c[4]}:{r['outcome'].split(' ')[0]}" + ("" if r["fault_reached"] else ":no-fault") +
             (":legacy-api neighbours" if len(c) > 5 and c[5] else "") + (f":{c[6]['typ']}:{c[6]['exc']}" if len(c) > 6 and c[6] else "") + (":healthy subprocess busy" if len(c) > 7 and c[7] and c[4] != "exit_idle" else "")] += 1
        vio.extend(judge(r))
        l, impl = model_line(r)
        lines.append(l)
        impls.append(impl)
    if driver is not None:
        for l, impl, ans, r in zip(lines, impls, driver.ask(lines), results):
            if impl != ans:
                dis.append({"suite": "faults", "request": l, "impl": impl, "model": ans, "case": r})
    return {"suite": "faults", "cases": len(cases), "distinct": len(set(map(str, cases))), "branches": dict(hist), "disagreements": dis,
            "violations": vio, "exhaustive": tier != "quick", "traces": len(cases),
            "samples": results[:2] + results[-2:],
            "rule": ("fault enumeration on the real code: chains of 2 and 3 simulators, the faulty one failing at every request index 0-7 "
                     "(setup_done, step, get_data ...; indices beyond the run are fault-free controls); in-process: exception in the handler; "
                     "subprocess (all local but the faulty one, and all remote): exception in the handler and process exit (os._exit); "
                     "a third of the cases (quick) / all cases (thorough) again with the healthy simulators reporting API version 2.0 / 2.2 (adapter-wrapped); "
                     "a quarter (quick) / all (thorough) of the in-process cases again with a hybrid or event-based faulty simulator raising TypeError / KeyError / RuntimeError; "
                     "6 (quick) / 48 (thorough) cases in which a healthy subprocess simulator is in the middle of a 0.4 s step when another simulator fails; "
                     "4 (quick) / 20 (thorough) cases in which a subprocess simulator dies 50 ms AFTER answering request k, while mosaik has no request outstanding to it (kind exit_idle); "
                     "10 (quick) / 84 (thorough) cases in which an in-process simulator raises SystemExit or KeyboardInterrupt in a handler (kinds sysexit, kbint); "
                     "6 (quick) / 96 (thorough) cases in which a subprocess simulator closes its connection without exiting, orderly or by a reset (kinds close, reset)" +
                     ("; remote cases sampled (14)" if tier == "quick" else "; all remote cases"))}


if __name__ == "__main__":
    import json
    for case in [(2, ["local", "local"], 0, 2, "raise"), (2, ["remote", "local"], 0, 2, "raise"), (2, ["remote", "remote"], 1, 1, "exit"),
                 (3, ["local", "remote", "local"], 1, 3, "exit"), (2, ["local", "local"], 0, 99, "raise")]:
        r = run_case(*case)
        print(json.dumps(r))
        for v in judge(r):
            print("   VIOLATION", v["law"], v.get("finding"))
