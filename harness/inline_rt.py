"""C17: real-time runs with plain in-process simulators whose step()/get_data() never suspend (the way the
repository's own example simulators behave).  Under the controlled loop every scripted simulator suspends
at a gate, so the order 'one process runs a whole step before the others have started' never occurs there;
here it always does.  Real clock with a tiny rt_factor (a run takes a few ms); observed: run() ends without
an internal error."""
from __future__ import annotations

import itertools
import sys
import types
import warnings

from common import import_mosaik

mosaik = import_mosaik()
import mosaik_api_v3  # noqa: E402

MOD = sys.modules.setdefault("verif_inline", types.ModuleType("verif_inline"))


def meta_for(typ):
    m = {"api_version": "3.0", "type": typ, "models": {"M": {"public": True, "params": [], "attrs": ["a", "o"]}}}
    if typ == "hybrid":
        m["models"]["M"]["trigger"] = ["a"]
        m["models"]["M"]["non-persistent"] = ["o"]
    return m


class Inline(mosaik_api_v3.Simulator):
    TYPES: dict = {}

    def __init__(self):
        super().__init__({})

    def init(self, sid, time_resolution=1.0, **kw):
        self.sid = sid
        self.typ = Inline.TYPES[sid]
        self.meta = meta_for(self.typ)
        return self.meta

    def create(self, num, model, **kw):
        return [{"eid": str(i), "type": model} for i in range(num)]

    def step(self, time, inputs, max_advance):
        self.time = time
        return time + 1 if self.typ != "event-based" else None

    def get_data(self, outputs):
        return {eid: {a: self.time for a in attrs} for eid, attrs in outputs.items()}


MOD.Inline = Inline


def cases():
    for n in (1, 2, 3):
        for types_ in itertools.product(["time-based", "hybrid", "event-based"], repeat=n):
            if n == 3 and len(set(types_)) == 3:
                continue
            for chain in ((False, True) if n > 1 else (False,)):
                for tres in (1.0, 2.0):
                    yield n, types_, chain, tres


def run_case(n, types_, chain, tres):
    Inline.TYPES = {f"I{i}": t for i, t in enumerate(types_)}
    with warnings.catch_warnings():
        warnings.simplefilter("ignore")
        w = mosaik.World({"I": {"python": "verif_inline:Inline"}}, skip_greetings=True, time_resolution=tres)
        try:
            ents = [w.start("I", sim_id=f"I{i}").M() for i in range(n)]
            if chain:
                for i in range(n - 1):
                    w.connect(ents[i], ents[i + 1], ("o", "a"))
            for i, t in enumerate(types_):
                if t == "event-based":
                    w.set_initial_event(f"I{i}", 0)
            w.run(until=3, rt_factor=0.0005, print_progress=False)
            return "finished"
        except BaseException as e:  # noqa: BLE001
            try:
                w.shutdown()
            except Exception:
                pass
            return f"failed {type(e).__name__}: {str(e)[:100]}"


def run_all():
    vio = []
    k = 0
    for c in cases():
        k += 1
        out = run_case(*c)
        if out != "finished":
            vio.append({"law": "a real-time run with compliant simulators completes without internal error",
                        "n_sims": c[0], "types": list(c[1]), "chain": c[2], "time_resolution": c[3], "outcome": out})
    return k, vio
