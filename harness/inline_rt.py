"""C17: real-time runs with plain in-process simulators whose step()/get_data() never suspend (the way the
repository's own example simulators behave).  Under the controlled loop every scripted simulator suspends
at a gate, so the order 'one process runs a whole step before the others have started' never occurs there;
here it always does.  Real clock with a tiny rt_factor (a run takes a few ms); observed: run() ends without
an internal error."""
from __future__ import annotations

import itertools
import sys
import types
import warnings

from common import import_mosaik

mosaik = import_mosaik()
import mosaik_api_v3  # noqa: E402

MOD = sys.modules.setdefault("verif_inline", types.ModuleType("verif_inline"))


def meta_for(typ):
    m = {"api_version": "3.0", "type": typ, "models": {"M": {"public": True, "params": [], "attrs": ["a", "o"]}}}
    if typ == "hybrid":
        m["models"]["M"]["trigger"] = ["a"]
        m["models"]["M"]["non-persistent"] = ["o"]
    return m


class Inline(mosaik_api_v3.Simulator):
    TYPES: dict = {}

    def __init__(self):
        super().__init__({})

    def init(self, sid, time_resolution=1.0, **kw):
        self.sid = sid
        self.typ = Inline.TYPES[sid]
        self.meta = meta_for(self.typ)
        return self.meta

    def create(self, num, model, **kw):
        return [{"eid": str(i), "type": model} for i in range(num)]

    def step(self, time, inputs, max_advance):
        self.time = time
        return time + 1 if self.typ != "event-based" else None

    def get_data(self, outputs):
        return {eid: {a: self.time for a in attrs} for eid, attrs in outputs.items()}


MOD.Inline = Inline


def cases():
    for n in (1, 2, 3):
        for types_ in itertools.product(["time-based", "hybrid", "event-based"], repeat=n):
            if n == 3 and len(set(types_)) == 3:
                continue
            for chain in ((False, True) if n > 1 else (False,)):
                for tres in (1.0, 2.0):
                    yield n, types_, chain, tres


def run_case(n, types_, chain, tres):
    Inline.TYPES = {f"I{i}": t for i, t in enumerate(types_)}
    with warnings.catch_warnings():
        warnings.simplefilter("ignore")
        w = mosaik.World({"I": {"python": "verif_inline:Inline"}}, skip_greetings=True, time_resolution=tres)
        try:
            ents = [w.start("I", sim_id=f"I{i}").M() for i in range(n)]
            if chain:
                for i in range(n - 1):
                    w.connect(ents[i], ents[i + 1], ("o", "a"))
            for i, t in enumerate(types_):
                if t == "event-based":
                    w.set_initial_event(f"I{i}", 0)
            w.run(until=3, rt_factor=0.0005, print_progress=False)
            return "finished"
        except BaseException as e:  # noqa: BLE001
            try:
                w.shutdown()
            except Exception:
                pass
            return f"failed {type(e).__name__}: {str(e)[:100]}"


class EventSim(mosaik_api_v3.Simulator):
    """Event-based in-process simulator whose setup_done() and step() are GENERATOR functions (the way an in-process simulator
    talks back to mosaik): they yield set_event requests taken from PLAN[sid] = {"setup": [...], step time: [...]}."""
    PLAN: dict = {}
    LOG: dict = {}

    def __init__(self):
        super().__init__({"api_version": "3.0", "type": "event-based", "models": {"M": {"public": True, "params": [], "attrs": ["a"]}}})

    def init(self, sid, time_resolution=1.0, **kw):
        self.sid = sid
        EventSim.LOG[sid] = []
        return self.meta

    def create(self, num, model, **kw):
        return [{"eid": str(i), "type": model} for i in range(num)]

    def setup_done(self):
        for t in EventSim.PLAN[self.sid].get("setup", []):
            yield self.mosaik.set_event(t)

    def step(self, time, inputs, max_advance):
        EventSim.LOG[self.sid].append(time)
        for t in EventSim.PLAN[self.sid].get(time, []):
            yield self.mosaik.set_event(t)
        return None

    def get_data(self, outputs):
        return {}


MOD.EventSim = EventSim


def run_event_case(plan, init_ev, rt):
    EventSim.PLAN = {"E0": plan, "E1": plan}
    with warnings.catch_warnings():
        warnings.simplefilter("ignore")
        w = mosaik.World({"E": {"python": "verif_inline:EventSim"}}, skip_greetings=True)
        try:
            for i in range(2):          # two instances of the class
                w.start("E", sim_id=f"E{i}").M()
                if init_ev is not None:
                    w.set_initial_event(f"E{i}", init_ev)
            w.run(until=4, print_progress=False, **({"rt_factor": 0.0005} if rt else {}))
            return "finished", dict(EventSim.LOG)
        except BaseException as e:  # noqa: BLE001
            try:
                w.shutdown()
            except Exception:
                pass
            return f"failed {type(e).__name__}", dict(EventSim.LOG)


def event_cases():
    """(plan, initial event, real-time?, expected outcome, expected step times of each instance)"""
    yield {"setup": [1]}, None, True, "finished", [1]
    yield {"setup": [2, 2, 1]}, None, True, "finished", [1, 2]
    yield {"setup": [4]}, 0, True, "finished", [0]                     # at until: ignored
    yield {0: [2], 2: [3]}, 0, True, "finished", [0, 2, 3]
    yield {"setup": [3], 0: [1]}, 0, True, "finished", [0, 1, 3]
    yield {"setup": [1]}, None, False, "failed SimulationError", []     # outside real-time mode: an error
    yield {0: [2]}, 0, False, "failed SimulationError", None


def run_all():
    vio = []
    k = 0
    for plan, init_ev, rt, want_out, want_steps in event_cases():
        k += 1
        out, log = run_event_case(plan, init_ev, rt)
        ok = out == want_out and (want_steps is None or all(v == want_steps for v in log.values()))
        if not ok:
            vio.append({"law": "set_event from an in-process simulator's generator setup_done()/step(): a step at t for t < until, ignored at/after until, "
                               "an error outside real-time mode", "plan": {str(a): b for a, b in plan.items()}, "initial_event": init_ev, "real_time": rt,
                        "outcome": out, "expected_outcome": want_out, "steps": log, "expected_steps": want_steps})
    for c in cases():
        k += 1
        out = run_case(*c)
        if out != "finished":
            vio.append({"law": "a real-time run with compliant simulators completes without internal error",
                        "n_sims": c[0], "types": list(c[1]), "chain": c[2], "time_resolution": c[3], "outcome": out})
    return k, vio
