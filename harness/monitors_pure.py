"""The pure properties (C08, C12, C18, parts of C11/C15) stated as executable predicates on the
*implementation*.  They are the failing-input search and the known-finding classifier; the
proof is in Lean."""
from __future__ import annotations

import itertools
import random
from collections import Counter

from common import import_mosaik

mosaik = import_mosaik()
from mosaik.tiered_time import TieredInterval, TieredTime  # noqa: E402
from mosaik import scenario, util as mutil  # noqa: E402
from mosaik.in_or_out_set import OutSet, parse_set_triple  # noqa: E402

import suites_pure as sp  # noqa: E402


def ti_repr(d):
    return {"tiers": list(d.tiers), "cutoff": d.cutoff, "pre_length": d.pre_length}


def safe(f):
    try:
        return f()
    except AssertionError:
        return "assert"


_C08_LISTED = None


def _c08_listed():
    global _C08_LISTED
    if _C08_LISTED is None:
        import common
        _C08_LISTED = set()
        for f in common.known_findings().get("findings", []):
            if f["id"] == "C08-mixed-cutoff":
                _C08_LISTED = {(tuple(a), ca, tuple(b), cb, pre) for a, ca, b, cb, pre in f.get("inputs", [])}
    return _C08_LISTED


def monitor_c08(rng: random.Random, tier: str):
    """Order laws, monotone arrival, associativity, action law on the box of shapes."""
    vio = []
    n = 0
    ivs = sp.all_intervals()
    by_shape = {}
    for d in ivs:
        by_shape.setdefault((len(d), d.pre_length), []).append(d)
    times = {k: [TieredTime(*t) for t in itertools.product(range(3), repeat=k)] for k in (1, 2, 3)}

    def report(law, finding=None, **kw):
        vio.append({"law": law, "finding": finding, **{k: (ti_repr(v) if isinstance(v, TieredInterval) else
                                                          list(v.tiers) if isinstance(v, TieredTime) else v) for k, v in kw.items()}})

    for (ln, pre), group in by_shape.items():
        for a, b in itertools.product(group, group):
            n += 1
            mixed = a.cutoff != b.cutoff
            # the known finding is identified by its inputs: the listed pairs of operands of different cutoff (known_findings.json)
            fid = "C08-mixed-cutoff" if mixed and (tuple(a.tiers), a.cutoff, tuple(b.tiers), b.cutoff, a.pre_length) in _c08_listed() else None
            lt, gt, eq = safe(lambda: a < b), safe(lambda: b < a), a == b
            if lt == "assert" or gt == "assert":
                if not mixed:
                    report("same-cutoff operands must be comparable", a=a, b=b)
                elif lt != gt:
                    # incomparable one way round only: whichever side answers claims an order the other side denies
                    report("a < b answers although b < a is refused as incomparable (or vice versa)", fid, a=a, b=b, lt=lt, gt=gt)
                    if lt is True:
                        for t in times[pre]:
                            if not (t + a <= t + b):
                                report("smaller delay, later arrival", fid, a=a, b=b, t=t)
                                break
                continue
            if not mixed and (int(lt) + int(gt) + int(eq)) != 1:
                report("exactly one of <, ==, > (trichotomy)", a=a, b=b, lt=lt, gt=gt, eq=eq)
            if lt and gt:
                report("asymmetry: a < b and b < a", fid, a=a, b=b)
            # derived operators agree with <
            if safe(lambda: a <= b) != (lt or eq) or safe(lambda: a >= b) != (not lt) or safe(lambda: a > b) != ((not lt) and not eq):
                report("derived operators inconsistent with <", a=a, b=b)
            if lt:
                for t in times[pre]:
                    if not (t + a <= t + b):
                        report("smaller delay, later arrival", fid, a=a, b=b, t=t)
                        break
        # transitivity on same-cutoff triples
        for c0 in range(1, min(ln, pre) + 1):
            same = [d for d in group if d.cutoff == c0]
            if len(same) > 9 and tier == "quick":
                same = rng.sample(same, 9)
            for a, b, c in itertools.product(same, repeat=3):
                n += 1
                if (a < b) and (b < c) and not (a < c):
                    report("transitivity", a=a, b=b, c=c)
    # tiered TIMES of one length are ordered like their tuples: every operator, also the derived ones
    for k, ts in times.items():
        for x, y in itertools.product(ts, ts):
            n += 1
            tx, ty = tuple(x.tiers), tuple(y.tiers)
            got = (safe(lambda: x < y), safe(lambda: x <= y), safe(lambda: x > y), safe(lambda: x >= y), x == y, hash(x) == hash(y) or x != y)
            want = (tx < ty, tx <= ty, tx > ty, tx >= ty, tx == ty, True)
            if got != want:
                report("tiered times of one length are ordered like their tuples (<, <=, >, >=, ==, hash)", x=x, y=y, got=list(got), want=list(want))
    # adding never moves time backwards; action law; associativity
    for a in ivs:
        for t in times[a.pre_length]:
            n += 1
            r = t + a
            if r.time < t.time or any(r.tiers[i] < t.tiers[i] for i in range(a.cutoff)):
                report("adding a delay moved time backwards", a=a, t=t)
        comp = [b for b in ivs if b.pre_length == len(a)]
        if tier == "quick":
            comp = rng.sample(comp, min(len(comp), 12))
        for b in comp:
            ab = a + b
            for t in times[a.pre_length]:
                n += 1
                if (t + a) + b != t + ab:
                    report("(t + a) + b != t + (a + b)", a=a, b=b, t=t)
            comp2 = [c for c in ivs if c.pre_length == len(b)]
            for c in (rng.sample(comp2, min(len(comp2), 6)) if tier == "quick" else comp2):
                n += 1
                if (a + b) + c != a + (b + c):
                    report("associativity", a=a, b=b, c=c)
            # monotone addition: smaller summand, no larger sum (same cutoff)
            for b2 in comp:
                if b2.cutoff == b.cutoff and len(b2) == len(b) and b < b2 and not (a + b <= a + b2):
                    report("a + b > a + b' although b < b'", a=a, b=b, b2=b2)
    # update_min / min return a lower bound
    for (ln, pre), group in by_shape.items():
        for a, b in itertools.product(group, group):
            if a.cutoff != b.cutoff:
                continue
            n += 1
            m = min(a, b)
            if not (m <= a and m <= b and (m == a or m == b)):
                report("min is not a lower bound among its arguments", a=a, b=b)
            u = scenario.update_min(a, b)
            if (u is None) != (a <= b) or (u is not None and u != b):
                report("update_min", a=a, b=b)
    return vio, n


# ------------------------------------------------------------------ C12

OUTSIDE = 7
DOMAIN = sp.UNIV + [OUTSIDE]


def member(x, e):
    return f"a{e}" in x


def spec_triple(u, a, b):
    """Pointwise specification of parse_set_triple over DOMAIN: returns (A, B) membership vectors or None."""
    if sum(v is not None for v in (u, a, b)) < 2:
        return None
    A, B = [], []
    for e in DOMAIN:
        mu = None if u is None else member(u, e)
        ma = None if a is None else member(a, e)
        mb = None if b is None else member(b, e)
        if ma is None:
            ma = mu and not mb
        if mb is None:
            mb = mu and not ma
        if mu is None:
            mu = ma or mb
        if (ma and mb) or (mu != (ma or mb)):
            return None
        A.append(ma)
        B.append(mb)
    return A, B


def monitor_c12(rng: random.Random, tier: str):
    vio = []
    n = 0
    sets = [sp.py_set(k, e) for k, e in sp.all_iosets()]
    # operators: membership semantics on the domain
    for A, B in itertools.product(sets, sets):
        for e in DOMAIN:
            n += 1
            ma, mb = member(A, e), member(B, e)
            if member(A - B, e) != (ma and not mb) or member(A & B, e) != (ma and mb) or member(A | B, e) != (ma or mb):
                vio.append({"law": "operator membership", "a": sp.s_ioset(A), "b": sp.s_ioset(B), "elem": e})
        same = all(member(A, e) == member(B, e) for e in DOMAIN)
        if (A == B) != same:
            vio.append({"law": "== is extensional", "a": sp.s_ioset(A), "b": sp.s_ioset(B)})
    opts = [None] + sets
    for u, a, b in itertools.product(opts, opts, opts):
        n += 1
        want = spec_triple(u, a, b)
        try:
            ra, rb = parse_set_triple(u, a, b)
            got = ([member(ra, e) for e in DOMAIN], [member(rb, e) for e in DOMAIN])
        except ValueError:
            got = None
        if got != want:
            vio.append({"law": "parse_set_triple vs pointwise spec", "union": u and sp.s_ioset(u), "a": a and sp.s_ioset(a),
                        "b": b and sp.s_ioset(b), "got": got, "want": want})
    # parse_attrs: partition semantics + agreement with explicit lists and the type's defaults
    optl = [None] + sp.subsets(sp.UNIV)
    combos = list(itertools.product(optl, repeat=5))
    if tier == "quick":
        combos = [c for c in combos if sum(v is not None for v in c) <= 2] + rng.sample(combos, 3000)
    for vals in combos:
        for ty in sp.TYPES:
            for any_inputs in (False, True):
                n += 1
                desc = {k: [f"a{e}" for e in v] for k, v in zip(sp.KEYS, vals) if v is not None}
                if any_inputs:
                    desc["any_inputs"] = True
                want = spec_attrs(desc, ty)
                try:
                    r = scenario.parse_attrs(desc, ty)
                    got = tuple(tuple(member(x, e) for e in DOMAIN) for x in r)
                except ValueError:
                    got = None
                if got != want:
                    vio.append({"law": "parse_attrs vs declarative spec", "desc": desc, "type": ty, "got": got, "want": want})
    return vio, n


def spec_attrs(desc, ty):
    """Declarative specification of parse_attrs (membership vectors over DOMAIN) or None if it must be rejected."""
    fs = lambda k: None if k not in desc else frozenset(desc[k])  # noqa: E731
    attrs = fs("attrs")
    inputs = OutSet() if desc.get("any_inputs") else attrs
    empty = frozenset()
    trig, ntrig = fs("trigger"), fs("non-trigger")
    if ty == "time-based":
        trig = empty if trig is None else trig
    elif ty == "event-based":
        ntrig = empty if ntrig is None else ntrig
    elif ntrig is None and "trigger" not in desc:
        ntrig = inputs
    ins = spec_triple(inputs, ntrig, trig)
    if ins is None:
        return None
    if ty == "time-based" and any(ins[1]):
        return None
    if ty == "event-based" and any(ins[0]):
        return None
    pers, npers = fs("persistent"), fs("non-persistent")
    if ty == "event-based":
        pers = empty if pers is None else pers
    else:
        npers = empty if npers is None else npers
    outs = spec_triple(attrs, pers, npers)
    if outs is None:
        return None
    if ty == "time-based" and any(outs[1]):
        return None
    if ty == "event-based" and any(outs[0]):
        return None
    return (tuple(ins[0]), tuple(ins[1]), tuple(outs[0]), tuple(outs[1]))


# ------------------------------------------------------------------ C18

def _c18_real_world(vio, rng, tier):
    """The helpers on a real World: every source ends up with exactly one data-flow per requested attribute pair, all to the one
    destination the entity graph shows (attribute shapes incl. one source attribute feeding two destination attributes)."""
    import asyncio
    import warnings
    import mosaik
    import suites_world as sw
    n = 0
    shapes = [[("pe", "nt")], [("pe", "nt"), ("pe", "pe")], [("pe", "nt"), ("ev", "tr")], [("ev", "tr"), ("ev", "nt"), ("pe", "pe")]]
    reps = 2 if tier == "quick" else 12
    for shape, cache, helper in itertools.product(shapes, (True, False), ("randomly", "evenly", "many_to_one")):
        for _ in range(reps):
            n += 1
            w = mosaik.World({"G": {"python": "verif_stubs:GStub"}}, asyncio_loop=asyncio.new_event_loop(), skip_greetings=True, cache=cache)
            try:
                with warnings.catch_warnings():
                    warnings.simplefilter("ignore")
                    n_src, n_dst = rng.randint(1, 5), rng.randint(1, 3)
                    srcs = [e for i in range(2) for e in w.start("G", sim_id=f"S{i}").M.create((n_src + 1 - i) // 2)]
                    dsts = [e for i in range(2) for e in w.start("G", sim_id=f"D{i}").M.create((n_dst + 1 - i) // 2)] or None
                    if not srcs or not dsts:
                        continue
                    # src_set of connect_many_to_one is any Iterable (one-shot iterators included); connect_randomly takes
                    # a sequence of sources and any iterable of destinations
                    flav = rng.choice(["list", "tuple", "generator", "iterator", "dict keys", "filter"])
                    wrap = {"list": list, "tuple": tuple, "generator": lambda l: (x for x in l), "iterator": iter,
                            "dict keys": lambda l: {x: 1 for x in l}.keys(), "filter": lambda l: filter(lambda x: True, l)}[flav]
                    case = {"helper": helper, "attrs": shape, "cache": cache, "n_src": len(srcs), "n_dest": len(dsts), "iterable": flav}
                    saved = mutil.random
                    mutil.random = random.Random(rng.randrange(10 ** 9))
                    try:
                        if helper == "many_to_one":
                            mutil.connect_many_to_one(w, wrap(srcs), dsts[0], *shape)
                        elif helper == "evenly":
                            # evenly is the documented default; a max_connects given with it is documented as ignored
                            mutil.connect_randomly(w, tuple(srcs) if flav == "tuple" else list(srcs), wrap(dsts), *shape,
                                                   **({"max_connects": rng.choice([1, 2, 5])} if rng.random() < 0.5 else {}))
                        else:
                            mutil.connect_randomly(w, tuple(srcs) if flav == "tuple" else list(srcs), wrap(dsts), *shape, evenly=False)
                    finally:
                        mutil.random = saved
                if any(sim.successors_to_wait_for for sim in w.sims.values()):
                    vio.append({"law": "the helpers register async_requests only when asked to", **case})
                if helper == "evenly":
                    cnt = Counter(nb for e in srcs for nb in w.entity_graph[e.full_id])
                    allc = [cnt.get(d.full_id, 0) for d in dsts]
                    if max(allc) - min(allc) > 1:
                        vio.append({"law": "connect_randomly distributes evenly by default", "counts": allc, **case})
                flows = set()
                for sim in w.sims.values():
                    for (src_sim, _delay), pairs in sim.pulled_inputs.items():
                        for (sp_, dp_) in pairs:
                            flows.add((f"{src_sim.sid}.{sp_[0]}", sp_[1], f"{sim.sid}.{dp_[0]}", dp_[1]))
                    for (seid, sattr), lst in sim.output_to_push.items():
                        for (dsim, _delay, dp_) in lst:
                            flows.add((f"{sim.sid}.{seid}", sattr, f"{dsim.sid}.{dp_[0]}", dp_[1]))
                for e in srcs:
                    nb = list(w.entity_graph[e.full_id])
                    if len(nb) != 1:
                        vio.append({"law": "every source is connected to exactly one destination (entity graph)", "source": e.full_id, "neighbours": nb, **case})
                        continue
                    for (sa, da) in shape:
                        got = sorted(f[2] for f in flows if f[0] == e.full_id and f[1] == sa and f[3] == da)
                        if got != nb:
                            vio.append({"law": "every source has exactly one data-flow per requested attribute pair, to its destination",
                                        "source": e.full_id, "pair": [sa, da], "flows_to": got, "destination": nb, **case})
            finally:
                sw.close_world(w)
    return n


def monitor_c18(rng: random.Random, tier: str):
    vio = []
    n = 0
    reps = 4 if tier == "quick" else 40
    for n_src in range(0, 13):
        for n_dest in range(1, 9):
            for evenly, max_c in [(True, None), (False, 1), (False, 2), (False, 3), (False, None)]:
                for rep in range(reps):
                    n += 1
                    oracle = [rng.randint(0, 1000) for _ in range(n_src * (n_dest + 2) + 4)]
                    srcs = list(range(n_src))
                    dests = list(range(100, 100 + n_dest))
                    # half of the cases with mosaik Entity objects from 1-3 instances of one model (coinciding entity ids)
                    inst = 0 if rep % 2 == 0 else rng.choice([1, 2, 2, 3])
                    so, do, ident = sp.util_entities(n_src, n_dest, inst)
                    key = (lambda o: o) if ident is None else (lambda o: ident[id(o)])
                    w = sp.FakeWorld()
                    saved = mutil.random
                    mutil.random = sp.FakeRandom(oracle)
                    case = {"n_src": n_src, "n_dest": n_dest, "evenly": evenly, "max_connects": max_c, "oracle": oracle,
                            "entities_from_instances": inst}
                    try:
                        kw = {} if max_c is None else {"max_connects": max_c}
                        try:
                            ret = mutil.connect_randomly(w, list(so), list(do), "a", evenly=evenly, **kw)
                        except AssertionError:
                            if evenly or max_c is None or n_src <= n_dest * max_c:
                                vio.append({"law": "must not fail when the destinations have room", **case})
                            continue
                    finally:
                        mutil.random = saved
                    w.calls = [(key(a), key(b)) for a, b in w.calls]
                    ret = [key(o) for o in ret]
                    cnt = Counter(d for _, d in w.calls)
                    if sorted(s for s, _ in w.calls) != srcs:
                        vio.append({"law": "every source exactly once", **case, "calls": w.calls})
                    if any(d not in dests for d in cnt):
                        vio.append({"law": "destination not in dest_set", **case})
                    if sorted(ret) != sorted(set(cnt)):
                        vio.append({"law": "returned set = connected destinations", **case, "ret": sorted(ret)})
                    allc = [cnt.get(d, 0) for d in dests]
                    if evenly and max(allc) - min(allc) > 1:
                        vio.append({"law": "evenly: counts differ by at most one", **case, "counts": allc})
                    if not evenly and max_c is not None and max(allc) > max_c:
                        vio.append({"law": "max_connects exceeded", **case, "counts": allc})
    n += _c18_real_world(vio, rng, tier)
    for k in range(0, 6):
        n += 1
        w = sp.FakeWorld()
        mutil.connect_many_to_one(w, list(range(k)), 77, "a")
        if w.calls != [(i, 77) for i in range(k)]:
            vio.append({"law": "connect_many_to_one", "n_src": k, "calls": w.calls})
        for flav, wrap in (("tuple", tuple), ("generator", lambda l: (x for x in l)), ("iterator", iter), ("range", lambda l: range(len(l))),
                           ("filter", lambda l: filter(lambda x: True, l)), ("dict keys", lambda l: {x: 1 for x in l}.keys())):
            n += 1
            w = sp.FakeWorld()
            mutil.connect_many_to_one(w, wrap(list(range(k))), 77, "a", ("b", "c"))
            if w.calls != [(i, 77) for i in range(k)]:
                vio.append({"law": "connect_many_to_one connects every element of any iterable", "iterable": flav, "n_src": k, "calls": w.calls})
    return vio, n
