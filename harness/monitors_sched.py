"""The scheduler properties as executable predicates over the observable trace of the *real*
scheduler (order of step begins / replies / get_data returns as seen by the scripted simulators).
Delays are recomputed from the scenario, independently of mosaik's own tables."""
from __future__ import annotations

from sched_corr import ATTRS, common_len, is_trigger, is_persistent


# ------------------------------------------------------------------ tiered arithmetic (independent re-implementation)

def conn_delay(sc, c, plain=False):
    """(cutoff, tiers) of a connection src -> dst."""
    gs, gd = sc["sims"][c["src"]]["group"], sc["sims"][c["dst"]]["group"]
    cl = common_len(gs, gd)
    tiers = [0] * (len(gd) + 1)
    if not plain:
        if c["ts"]:
            tiers[0] = c["ts"]
        if c["weak"]:
            tiers[cl] = 1
    return (cl + 1, tuple(tiers))


def act(t, d):
    cutoff, tiers = d
    return tuple(t[i] + tiers[i] for i in range(cutoff)) + tuple(tiers[cutoff:])


def input_delay(sc, P, C):
    """minimal delay over all connections P -> C (and async requests), or None."""
    ds = [conn_delay(sc, c) for c in sc["connects"] if c["src"] == P and c["dst"] == C]
    if any(c.get("async") for c in sc["connects"] if c["src"] == P and c["dst"] == C):
        c0 = next(c for c in sc["connects"] if c["src"] == P and c["dst"] == C)
        return conn_delay(sc, c0, plain=True)
    if not ds:
        return None
    return min(ds, key=lambda d: d[1])


def has_outputs(sc, i):
    return any(c["src"] == i for c in sc["connects"])


def sid_i(sid):
    return int(sid[1:])


class Trace:
    """Per-simulator view of a run: begins, in-flight intervals, replies."""

    def __init__(self, sc, controller):
        self.sc = sc
        self.ev = controller.full_trace
        self.n = len(sc["sims"])


# ------------------------------------------------------------------ C01 / C10

def mon_c01_c10(sc, controller):
    vio01, vio10 = [], []
    n = len(sc["sims"])
    delays = {(P, C): input_delay(sc, P, C) for P in range(n) for C in range(n)}
    adapts = {}
    for c in sc["connects"]:
        adapts[(c["src"], c["dst"])] = conn_delay(sc, c, plain=True)
    begun = {i: [] for i in range(n)}
    inflight = {i: None for i in range(n)}
    async_pairs = {(c["src"], c["dst"]) for c in sc["connects"] if c.get("async")}
    for idx, e in enumerate(controller.full_trace):
        if e[0] == "begin":
            i, t = sid_i(e[1]), tuple(e[2])
            # C01: providers in flight
            for P in range(n):
                d = delays[(P, i)]
                if d is None:
                    continue
                s = inflight[P]
                if s is not None and not (P == i) and not (t < act(s, d)):
                    vio01.append({"law": "consumer stepped while a provider's step with due output is in flight", "consumer": i, "t": t,
                                  "provider": P, "provider_step": s, "event": idx})
            # C01: i as provider for consumers that already began
            for C in range(n):
                d = delays[(i, C)]
                if d is None:
                    continue
                for tc in begun[C]:
                    if not (tc < act(t, d)):
                        vio01.append({"law": "provider stepped at a time whose delayed output is due at or before a step its consumer has begun",
                                      "provider": i, "s": t, "consumer": C, "t": tc, "event": idx})
                        break
            # C01, async requests: A (source of an async_requests connection) waits for its agent B whatever lazy_stepping says
            for (A, B) in async_pairs:
                ad = adapts.get((A, B))
                if ad is None or A == B:
                    continue
                if i == A:
                    s = inflight[B]
                    if s is not None and s < act(t, ad):
                        vio01.append({"law": "controller began a step while its async agent still has an earlier step in flight", "controller": A, "t": t,
                                      "agent": B, "agent_step": s, "event": idx})
                if i == B:
                    for ta in begun[A]:
                        if t < act(ta, ad):
                            vio01.append({"law": "async agent stepped at a time earlier than a step its controller had already begun", "controller": A,
                                          "controller_step": ta, "agent": B, "t": t, "event": idx})
                            break
            # C10: lazy stepping
            if sc["lazy"]:
                for C in range(n):
                    ad = adapts.get((i, C))
                    if ad is None or C == i:
                        continue
                    bound = act(t, ad)
                    s = inflight[C]
                    if s is not None and s < bound:
                        vio10.append({"law": "producer began a step while a consumer still has an earlier step in flight", "producer": i, "t": t,
                                      "consumer": C, "consumer_step": s, "event": idx})
            # C10: consumers must never begin a step earlier than the bound of an already begun producer step
            if sc["lazy"]:
                for P in range(n):
                    ad = adapts.get((P, i))
                    if ad is None or P == i:
                        continue
                    for tp in begun[P]:
                        if t < act(tp, ad):
                            vio10.append({"law": "consumer began a step earlier than a step its producer had already begun", "producer": P,
                                          "producer_step": tp, "consumer": i, "t": t, "event": idx})
                            break
            begun[i].append(t)
            inflight[i] = t
        elif e[0] == "stepped" and not has_outputs(sc, sid_i(e[1])):
            inflight[sid_i(e[1])] = None
        elif e[0] == "got":
            inflight[sid_i(e[1])] = None
    return vio01, vio10


# ------------------------------------------------------------------ C02 / C07 / C09

def demanded_and_sources(sc, controller, strict=False):
    """For every simulator the set of demanded tiered times with the steps that demanded them.
    strict: only steps that were themselves demanded pass demands on (the consequences of a spurious step do not count)."""
    n = len(sc["sims"])
    until = sc["until"]
    dem = {i: {} for i in range(n)}          # time -> set of sources; a source is ('init',) or (sim, step)
    for i, s in enumerate(sc["sims"]):
        depth = len(s["group"]) + 1
        if s.get("init_ev") is not None:
            dem[i].setdefault((s["init_ev"],) + (0,) * (depth - 1), set()).add(("init",))
        elif s["type"] != "event-based":
            dem[i].setdefault((0,) * depth, set()).add(("init",))
    trig = [c for c in sc["connects"] if is_trigger(sc["sims"][c["dst"]]["type"], c["dattr"])]
    for e in controller.full_trace:
        if strict and e[0] in ("stepped", "got") and tuple(e[2]) not in dem[sid_i(e[1])]:
            continue
        if e[0] == "stepped":
            i, t, nxt = sid_i(e[1]), tuple(e[2]), e[3]
            if isinstance(nxt, int) and not isinstance(nxt, bool) and t[0] < nxt < until:
                dem[i].setdefault((nxt,) + (0,) * (len(t) - 1), set()).add((i, t))
        elif e[0] == "got":
            i, t, d = sid_i(e[1]), tuple(e[2]), e[3]
            ot = d.get("time", t[0])
            out_tt = t if ot == t[0] else (ot,) + (0,) * (len(t) - 1)
            for c in trig:
                if c["src"] != i:
                    continue
                if ATTRS[c["sattr"]] in d.get(str(c["seid"]), {}):
                    dem[c["dst"]].setdefault(act(out_tt, conn_delay(sc, c)), set()).add((i, t))
    return dem


def mon_c02(sc, controller, outcome):
    vio = []
    n = len(sc["sims"])
    until = sc["until"]
    begun = {i: [] for i in range(n)}
    for e in controller.full_trace:
        if e[0] == "begin":
            begun[sid_i(e[1])].append(tuple(e[2]))
    dem = demanded_and_sources(sc, controller)
    for i in range(n):
        b = begun[i]
        if any(not (x < y) for x, y in zip(b, b[1:])):
            vio.append({"law": "steps strictly increasing, no time twice", "sim": i, "steps": b})
        if any(t[0] < 0 or t[0] >= until for t in b):
            vio.append({"law": "no step before 0 or at/after until", "sim": i, "steps": b, "until": until})
        extra = [t for t in b if t not in dem[i]]
        if extra:
            vio.append({"law": "stepped at a time nobody demanded", "sim": i, "spurious": extra, "demanded": sorted(dem[i])})
        if outcome == "finished":
            lost = [t for t in sorted(dem[i]) if t[0] < until and t not in b]
            if lost:
                vio.append({"law": "demanded step was never executed", "sim": i, "lost": lost, "steps": b})
    return vio


def mon_c07(sc, controller):
    vio = []
    n = len(sc["sims"])
    until = sc["until"]
    has_trig_in = {i: any(c["dst"] == i and is_trigger(sc["sims"][i]["type"], c["dattr"]) for c in sc["connects"]) for i in range(n)}
    dem = demanded_and_sources(sc, controller)
    begins = [(idx, sid_i(e[1]), tuple(e[2]), e[4]) for idx, e in enumerate(controller.full_trace) if e[0] == "begin"]
    for (idx, p, t, m) in begins:
        if m is None:
            continue        # a simulator of an older API version is not told max_advance
        if m > until:
            vio.append({"law": "max_advance exceeds until", "sim": p, "t": t, "max_advance": m})
        if not has_trig_in[p] and m != until:
            vio.append({"law": "max_advance = until for a simulator without trigger inputs", "sim": p, "t": t, "max_advance": m})
        later = [(j, tt) for (j, q, tt, _) in begins if q == p and j > idx and t[0] < tt[0] <= m]
        if not later:
            continue
        # taint: steps under p's control from this step on
        tainted = {(p, t)}
        changed = True
        while changed:
            changed = False
            for q in range(n):
                for tt, srcs in dem[q].items():
                    if (q, tt) not in tainted and srcs and all(s in tainted for s in srcs):
                        tainted.add((q, tt))
                        changed = True
        for (j, tt) in later:
            if (p, tt) not in tainted:
                vio.append({"law": "stepped inside (t, max_advance] for a reason outside the simulator's control", "sim": p, "t": t,
                            "max_advance": m, "later_step": tt, "its_causes": sorted(map(str, dem[p].get(tt, [])))})
    return vio


def mon_c09(sc, controller, outcome):
    vio = []
    ml = sc["max_loop"]
    for e in controller.full_trace:
        if e[0] == "begin" and any(k >= ml for k in e[2][1:]):
            vio.append({"law": "a sub-step with index >= max_loop_iterations was executed", "sim": sid_i(e[1]), "t": tuple(e[2]), "max_loop": ml})
    if outcome.startswith("failed SimulationError loop"):
        # the guard may only fire when a demanded sub-step index has reached the bound
        dem = demanded_and_sources(sc, controller, strict=True)
        if not any(any(k >= ml for k in t[1:]) for i in dem for t in dem[i]):
            vio.append({"law": "loop error although no demanded sub-step reached the bound", "max_loop": ml, "outcome": outcome})
    if outcome.startswith("failed SimulationError loop"):
        # "loops that settle within the bound are never interrupted": the sub-step index that reached the bound must stand for that
        # many iterations WITHIN this time step.  The iterations a loop has really made at time T up to a step with index k at tier j
        # are k minus the smallest tier-j index any simulator has begun at T (same outer tiers): without a carried-over index that
        # smallest index is 0.  A time-shifted trigger connection inside a group carries the sub-step index of its source step into
        # the next time step, and a weak connection adds its sub-step to an output dated into the future (finding
        # C09-shift-carries-substep): the loop at the later time starts at a positive index.
        dem = demanded_and_sources(sc, controller, strict=True)
        begun = [tuple(e[2]) for e in controller.full_trace if e[0] == "begin"]
        begun_by = {i: {tuple(e[2]) for e in controller.full_trace if e[0] == "begin" and sid_i(e[1]) == i} for i in dem}
        offenders = [(i, t) for i in dem for t in dem[i] if any(k >= ml for k in t[1:]) and t not in begun_by[i]]
        real = []
        for (i, t) in offenders:
            j = next(x for x in range(1, len(t)) if t[x] >= ml)
            base = min([b[j] for b in begun if len(b) > j and b[:j] == t[:j]] + [t[j]])
            real.append((i, t, t[j] - base))
        if offenders and all(r < ml for (_, _, r) in real):
            def in_group(c):
                return bool(sc["sims"][c["src"]]["group"][:1]) and sc["sims"][c["src"]]["group"][:1] == sc["sims"][c["dst"]]["group"][:1]
            # a trigger connection inside a group that delivers into a LATER time step with sub-step tiers added: a time-shifted one
            # (keeps the source step's index), or a weak one carrying an output dated into the future (index 1 at the later time)
            carrier = any(in_group(c) and is_trigger(sc["sims"][c["dst"]]["type"], c["dattr"]) and
                          (c["ts"] or (c["weak"] and sc.get("future_outputs"))) for c in sc["connects"])
            vio.append({"law": "a loop that settles within the bound at every time step was interrupted (the sub-step index that reached the "
                               "bound was not made within this time step)", "max_loop": ml, "outcome": outcome,
                        "blocked_steps": [{"sim": i, "step": list(t), "iterations_within_this_time_step": r} for (i, t, r) in real],
                        "finding": "C09-shift-carries-substep" if carrier else None})
    if sc.get("loop_len", 0) >= 10 ** 6 and is_trigger(sc["sims"][0]["type"], 1) and not any(s.get("via_parent") for s in sc["sims"]):
        # loop family, never-settling variant: every member emits its event (with or without a payload) in every sub-step, so once
        # the loop head has stepped only the guard can end the run
        k = next((j for j, c in enumerate(sc["connects"]) if c["weak"]), None)
        real_loop = k is not None and all(is_trigger(sc["sims"][c["dst"]]["type"], c["dattr"]) for c in sc["connects"][:k + 1])
        started = any(e[0] == "got" and sid_i(e[1]) == 0 for e in controller.full_trace)
        if real_loop and started and outcome == "finished":
            vio.append({"law": "a same-time loop that never settles must be stopped with a SimulationError (run() returned normally)",
                        "max_loop": ml, "outcome": outcome})
    return vio


# ------------------------------------------------------------------ C05 / C13

INTERNAL = ("AssertionError", "SimulationError step-in-past", "deadlock")


def mon_c05(sc, controller, outcome):
    vio = []
    if outcome == "deadlock":
        vio.append({"law": "run() waits on a condition that cannot become true (deadlock)"})
    elif outcome.startswith("failed AssertionError progress-backwards") or outcome.startswith("failed SimulationError step-in-past"):
        vio.append({"law": "internal scheduling error", "outcome": outcome})
    elif outcome.startswith("failed AssertionError closure"):
        vio.append({"law": "internal error: incomparable delays", "outcome": outcome, "finding": "D7-reentrant-paths"})
    elif outcome.startswith("failed") and not (outcome.startswith("failed SimulationError loop") or
                                               outcome.startswith("failed SimulationError bad-reply") or
                                               outcome.startswith("failed ScenarioError")):
        vio.append({"law": "unexpected failure of run()", "outcome": outcome})
    return vio


EXPECTED_FAULT = {"float": "not-int", "str": "not-int", "negative": "not-later", "equal": "not-later", "past": "not-later",
                  "out_time_past": "output-time", "out_time_zero": "output-time", "float_integral": "not-int"}


def mon_c13(sc, controller, outcome):
    vio = []
    f = sc.get("fault")
    if not f:
        return vio
    # did the faulty reply actually reach mosaik?
    steps = [e for e in controller.full_trace if e[0] == "stepped" and sid_i(e[1]) == f["sim"]]
    gots = [e for e in controller.full_trace if e[0] == "got" and sid_i(e[1]) == f["sim"]]
    kind = f["kind"]
    typ = sc["sims"][f["sim"]]["type"]
    if kind in ("out_time_past", "out_time_zero"):
        # the reply only reaches mosaik if get_data is called at all (some output is connected)
        begins = [e for e in controller.full_trace if e[0] == "begin" and sid_i(e[1]) == f["sim"]]
        if not has_outputs(sc, f["sim"]) or len(begins) <= f["n"]:
            return vio
        if len(gots) <= f["n"] and not outcome.startswith("failed"):
            return vio
        exp = f"failed SimulationError bad-reply {f['sim']} output-time"
        if outcome != exp and not outcome.startswith("failed SimulationError"):
            vio.append({"law": "an output time earlier than the step time must abort run() with an error naming the simulator", "fault": f,
                        "outcome": outcome, "expected": exp})
        return vio
    if False:
        if len(gots) <= f["n"]:
            return vio
        t = gots[f["n"]][2][0]
        if t - 1 < 0 and False:
            return vio
        want = "output-time"
    else:
        if len(steps) <= f["n"]:
            return vio
        t = steps[f["n"]][2][0]
        if kind == "bool":
            want = None if 1 > t else "not-later"
        elif kind == "none":
            want = "no-next-step" if typ == "time-based" else None
        else:
            want = EXPECTED_FAULT[kind]
    exp = None if want is None else f"failed SimulationError bad-reply {f['sim']} {want}"
    if exp is not None and outcome != exp:
        # another simulator's loop guard or an earlier failure may legitimately come first
        if not outcome.startswith("failed SimulationError"):
            vio.append({"law": "a malformed reply must abort run() with an error naming the simulator", "fault": f, "outcome": outcome, "expected": exp})
    if exp is None and outcome.startswith("failed SimulationError bad-reply"):
        vio.append({"law": "a valid reply was rejected", "fault": f, "outcome": outcome})
    return vio


# ------------------------------------------------------------------ C03: data-flow fidelity

def c03_class(sc):
    """Known-finding class of a scenario for the data-flow property, or None for the clean class."""
    sims = sc["sims"]
    grouped = any(s["group"] for s in sims)
    for c in sc["connects"]:
        pers = is_persistent(sims[c["src"]]["type"], c["sattr"])
        trig = is_trigger(sims[c["dst"]]["type"], c["dattr"])
        if not pers and c["init"]:
            return "C03-event-with-init"
    if sc.get("future_outputs"):
        return "C03-nonmonotone-output-times"
    if sc["cache"]:
        pers_conns = [c for c in sc["connects"] if is_persistent(sims[c["src"]]["type"], c["sattr"])]
        if any(c["init"] for c in pers_conns):
            return "C03-cache-initial-data"
    if grouped and any(c["weak"] for c in sc["connects"]):
        return "C03-subtier-blind"
    if sc.get("sparse_persistent"):
        return "C03-sparse-persistent"      # not a finding: the API says persistent outputs are always produced
    return None


def c03_conn_class(sc, dst, key, nonmono=None):
    """Known-finding class of ONE input key (dest eid, dest attr, src sim, src eid) of simulator `dst`: the findings are
    properties of a connection, so a violation is only attributed to a finding if the offending keys belong to
    connections that have the finding's feature."""
    sims = sc["sims"]
    conns = [c for c in sc["connects"] if c["dst"] == dst and (c["deid"], c["dattr"], c["src"], c["seid"]) == tuple(key)]
    for c in conns:
        if not is_persistent(sims[c["src"]]["type"], c["sattr"]) and c["init"]:
            return "C03-event-with-init"
    if sc.get("future_outputs") and any(sims[c["src"]]["type"] != "time-based" and (nonmono is None or c["src"] in nonmono) for c in conns):
        return "C03-nonmonotone-output-times"   # only sources whose output times actually went back in this run
    if sc.get("sparse_persistent") and any(is_persistent(sims[c["src"]]["type"], c["sattr"]) for c in conns):
        return "C03-sparse-persistent"      # not a finding: the simulator breaks its contract; nothing is claimed for this key
    if sc["cache"]:
        # D12: initial data lives in the SOURCE's cache.  It is overwritten by the real output of that time when the
        # connection is not shifted (weak), and it is visible to / ordered against every OTHER connection of the source that
        # carries initial data.  A shifted connection that is the only one with initial data out of its source is clean.
        for c in conns:
            if not is_persistent(sims[c["src"]]["type"], c["sattr"]):
                continue
            if c["init"] and not c["ts"]:
                return "C03-cache-initial-data"
            if any(c2 is not c and c2["init"] and c2["src"] == c["src"] and is_persistent(sims[c2["src"]]["type"], c2["sattr"])
                   for c2 in sc["connects"]):
                return "C03-cache-initial-data"
    if any(s["group"] for s in sims) and any(c["weak"] for c in sc["connects"]):
        return "C03-subtier-blind"
    return None


def mon_c03(sc, controller):
    """Expected inputs of every step, recomputed from the history of get_data replies."""
    vio = []
    sims = sc["sims"]
    n = len(sims)
    produced = {}       # (src, seid, sattr) -> list of (out_tt, order, value)
    order = 0
    last_begin = {i: None for i in range(n)}
    delivered = set()   # (conn index, production order) of delivered events
    max_out = {}        # source sim -> largest output time so far
    nonmono = set()     # sources that reported an output time earlier than a previous one
    for idx, e in enumerate(controller.full_trace):
        if e[0] == "got":
            i, t, d = sid_i(e[1]), tuple(e[2]), e[3]
            ot = d.get("time", t[0])
            out_tt = t if ot == t[0] else (ot,) + (0,) * (len(t) - 1)
            if i in max_out and out_tt < max_out[i]:
                nonmono.add(i)
            max_out[i] = max(max_out.get(i, out_tt), out_tt)
            for eid, attrs in d.items():
                if eid == "time":
                    continue
                for a, v in attrs.items():
                    order += 1
                    produced.setdefault((i, int(eid), ATTRS.index(a)), []).append((out_tt, order, v))
        elif e[0] == "begin":
            i, t, inputs = sid_i(e[1]), tuple(e[2]), e[3]
            got = {}
            for eid, attrs in inputs.items():
                for attr, srcs in attrs.items():
                    for src, val in srcs.items():
                        ssid, seid = src.split(".", 1)
                        got[(int(eid), ATTRS.index(attr), int(ssid[1:]), int(seid))] = val
            want = {}
            for ci, c in enumerate(sc["connects"]):
                if c["dst"] != i:
                    continue
                key = (c["deid"], c["dattr"], c["src"], c["seid"])
                d = conn_delay(sc, c)
                hist = produced.get((c["src"], c["seid"], c["sattr"]), [])
                due = [(act(o, d), k, v) for (o, k, v) in hist if act(o, d) <= t]
                if is_persistent(sims[c["src"]]["type"], c["sattr"]):
                    if due:
                        want[key] = max(due)[2]
                    elif c["init"]:
                        want[key] = 900000 + ci
                    else:
                        want[key] = None
                else:
                    fresh = [(a, k, v) for (a, k, v) in due if (ci, k) not in delivered]
                    if len(fresh) > 1 and got.get(key, "<absent>") == max(fresh)[2]:
                        # several values of ONE connection became due at this step: the step request has one slot per (input, source),
                        # only the last value is delivered, the earlier ones are lost (read literally, C03 wants each exactly once)
                        vio.append({"law": "each produced event value is delivered exactly once (several values of one connection due at one step: only the last arrives)",
                                    "preset_finding": "C03-same-connection-events-collapse", "sim": i, "t": t, "connection": ci,
                                    "due_values": [v for (_, _, v) in sorted(fresh)], "delivered": got.get(key), "event": idx, "keys": [], "nonmono": []})
                    if fresh:
                        want[key] = max(fresh)[2]
                        for (_, k, _) in fresh:
                            delivered.add((ci, k))
            # values from set_data are not part of this property's expectation (C16): ignore keys no connection explains
            conn_keys = {(c["deid"], c["dattr"], c["src"], c["seid"]) for c in sc["connects"] if c["dst"] == i}
            got_c = {k: v for k, v in got.items() if k in conn_keys}
            if got_c != want:
                missing = {k: v for k, v in want.items() if k not in got_c}
                wrong = {k: (got_c[k], want[k]) for k in want if k in got_c and got_c[k] != want[k]}
                extra = {k: v for k, v in got_c.items() if k not in want}
                vio.append({"law": "step inputs = most recent due persistent values + each due event exactly once", "sim": i, "t": t,
                            "missing": str(missing), "wrong(got,want)": str(wrong), "unexpected": str(extra), "event": idx,
                            "keys": sorted(set(missing) | set(wrong) | set(extra)), "nonmono": sorted(nonmono)})
            last_begin[i] = t
    return vio


# ------------------------------------------------------------------ C16: asynchronous requests

def mon_c16(sc, controller, outcome):
    vio = []
    n = len(sc["sims"])
    conn_keys = {(c["dst"], c["deid"], c["dattr"], c["src"], c["seid"]) for c in sc["connects"]}
    async_pairs = {(c["src"], c["dst"]) for c in sc["connects"] if c.get("async")}   # A -> B: B may write to A
    pending = {}        # (A, eid, attr, src sim, src eid) -> value set since A's last begin
    sent_at = {}        # ... -> tiered time of the agent's step during which it was set
    inflight = {i: None for i in range(n)}
    for idx, e in enumerate(controller.full_trace):
        if e[0] == "get_data_res":
            # data path of an accepted get_data: the answer is what mosaik found in its cache plus what the other simulator
            # answered to the forwarded part - a requested attribute that was NOT forwarded must be in the answer, and every
            # forwarded value must be handed on
            _, _sid, target, req, res, fwd = e
            forwarded = {(eid, a) for outs, _d in fwd for eid, attrs in outs.items() for a in attrs}
            for full, attrs in req.items():
                eid = full.split(".", 1)[1]
                for a in attrs:
                    if (eid, a) not in forwarded and a not in res.get(full, {}):
                        vio.append({"law": "get_data: an attribute answered from the cache is in the reply whatever else had to be forwarded",
                                    "requester": e[1], "target": target, "request": req, "reply": res, "forwarded": sorted(forwarded), "event": idx})
            for _outs, d in fwd:
                for eid, vals in d.items():
                    for a, v in (vals.items() if eid != "time" else []):
                        if res.get(f"S{target}.{eid}", {}).get(a, "<absent>") != v:
                            vio.append({"law": "get_data: what the other simulator answers to the forwarded request is handed on",
                                        "requester": e[1], "target": target, "request": req, "reply": res, "forwarded_reply": d, "event": idx})
        elif e[0] == "set_data":
            B = sid_i(e[1])
            for src_full, dests in e[3].items():
                ssid, seid = src_full.split(".", 1)
                for dest_full, attrs in dests.items():
                    dsid, deid = dest_full.split(".", 1)
                    A = int(dsid[1:])
                    if (A, B) not in async_pairs:
                        continue        # must be refused: checked on the outcome
                    for a, v in attrs.items():
                        pending[(A, int(deid), ATTRS.index(a), int(ssid[1:]), int(seid))] = v
                        sent_at[(A, int(deid), ATTRS.index(a), int(ssid[1:]), int(seid))] = inflight.get(B)
        elif e[0] == "begin":
            A, t, inputs = sid_i(e[1]), tuple(e[2]), e[3]
            got = {}
            for eid, attrs in inputs.items():
                for attr, srcs in attrs.items():
                    for src, val in srcs.items():
                        ssid, seid = src.split(".", 1)
                        got[(A, int(eid), ATTRS.index(attr), int(ssid[1:]), int(seid))] = val
            mine = {k: v for k, v in pending.items() if k[0] == A}
            for k, v in mine.items():
                if k in conn_keys:
                    continue        # an ordinary connection feeds the same key: not distinguishable
                if got.get(k, "<absent>") != v:
                    vio.append({"law": "set_data value must be in the target's next step", "target": A, "t": t, "key": k[1:], "sent": v,
                                "received": got.get(k, "<absent>"), "event": idx})
                elif sent_at.get(k) is not None and (t[0] < sent_at[k][0] or (t[0] == sent_at[k][0] and not any(x["group"] for x in sc["sims"]))):
                    # (inside groups a later sub-step of the same time counts as "after")
                    vio.append({"law": "data set during the agent's step at t is delivered in the target's first step AFTER t", "target": A, "t": t,
                                "agent_step": sent_at[k], "key": k[1:], "event": idx})
                del pending[k]
            # values of earlier set_data calls must not show up again
            for k, v in got.items():
                if k not in conn_keys and k not in mine and isinstance(v, int) and v >= 500000 and v < 900000:
                    vio.append({"law": "set_data value delivered again in a later step", "target": A, "t": t, "key": k[1:], "value": v, "event": idx})
            # order: A must not begin a step later than the step an agent has in flight
            for (a, b) in async_pairs:
                if a == A and inflight[b] is not None and t[0] > inflight[b][0]:
                    vio.append({"law": "target began a later step while an agent's step is still running", "target": A, "t": t, "agent": b,
                                "agent_step": inflight[b], "event": idx})
            inflight[A] = t
        elif e[0] == "stepped" and not has_outputs(sc, sid_i(e[1])):
            inflight[sid_i(e[1])] = None
        elif e[0] == "got":
            inflight[sid_i(e[1])] = None
    # requests without an async connection must be refused
    for req in sc.get("extra_async", []):
        if req["kind"] in ("set_data", "get_data") and (req["target"], req["sim"]) not in async_pairs:
            steps = [e for e in controller.full_trace if e[0] == "begin" and sid_i(e[1]) == req["sim"]]
            if len(steps) > req["n"] and outcome != f"failed ScenarioError async-refused {req['sim']}":
                if not outcome.startswith("failed"):
                    vio.append({"law": "set_data/get_data without an async connection must be refused with ScenarioError", "request": req, "outcome": outcome})
    return vio


# ------------------------------------------------------------------ C17: real-time pacing

def mon_c17(sc, controller, outcome):
    vio = []
    f = sc.get("rt")
    if f is None:
        # set_event outside real-time mode must be an error
        for req in sc.get("extra_async", []):
            if req["kind"] == "set_event":
                steps = [e for e in controller.full_trace if e[0] == "begin" and sid_i(e[1]) == req["sim"]]
                if len(steps) > req["n"] and not outcome.startswith("failed"):
                    vio.append({"law": "set_event outside real-time mode must be an error", "request": req, "outcome": outcome})
        return vio
    until = sc["until"]
    past_event = False
    for idx, e in enumerate(controller.full_trace):
        if e[0] == "begin":
            t, clock = e[2][0], e[5]
            if clock < f * (t - 1):
                vio.append({"law": "a step for time t must not begin before rt_factor*(t-1)", "sim": sid_i(e[1]), "t": t, "clock": clock, "rt_factor": f})
    # external events (requested from within a step, or reaching the simulator from outside while it is idle)
    for req in sc.get("extra_async", []) + [{"kind": "set_event", "sim": sid_i(sid), "time": t_ev} for sid, t_ev in getattr(controller, "injected", [])]:
        if req["kind"] != "set_event":
            continue
        sets = [(idx, e) for idx, e in enumerate(controller.full_trace) if e[0] == "set_event" and sid_i(e[1]) == req["sim"] and e[2] == req["time"]]
        if not sets:
            continue
        idx0 = sets[0][0]
        t = req["time"]
        # time of the step during which the event was set
        for idx_i, _e in sets:
            # (any request for a time that is not in the future of the step then running may end the run: not judged here)
            bef_i = [e for e in controller.full_trace[:idx_i] if e[0] == "begin" and sid_i(e[1]) == req["sim"]]
            if bef_i and t <= bef_i[-1][2][0]:
                past_event = True
        before = [e for e in controller.full_trace[:idx0] if e[0] == "begin" and sid_i(e[1]) == req["sim"]]
        if before and t <= before[-1][2][0]:
            continue
        later = [e for e in controller.full_trace[idx0:] if e[0] == "begin" and sid_i(e[1]) == req["sim"] and e[2][0] == t]
        ignored = any(e[0] == "event-ignored" for e in controller.full_trace[idx0:])
        if t >= until:
            if later or not ignored:
                vio.append({"law": "an event at or after until is ignored with a warning", "request": req, "stepped": bool(later), "warned": ignored})
        elif outcome == "finished" and not later:
            vio.append({"law": "set_event(t) for a future t < until causes a step at t", "request": req, "outcome": outcome})
        elif len(set(tuple(e[2]) for e in later)) != len(later) and all(
                ([b for b in controller.full_trace[:i] if b[0] == "begin" and sid_i(b[1]) == req["sim"]] or [(None, None, (-1,))])[-1][2][0] < t for i, _ in sets):
            # (every request for t was made during a step before t: an event for the running step's own time is not "future")
            vio.append({"law": "set_event(t), however often it is requested, causes ONE step at t", "request": req,
                        "steps_at_t": [list(e[2]) for e in later]})
    # (an AssertionError raised by the min-delay closures before the first step is not a real-time matter: finding D7, judged under C05/C06)
    if outcome.startswith("failed AssertionError") and not outcome.startswith("failed AssertionError closure") and not past_event:
        vio.append({"law": "a real-time run with compliant simulators completes without internal error", "outcome": outcome})
    if outcome == "deadlock":
        vio.append({"law": "real-time run hangs", "outcome": outcome})
    warns = sum(1 for e in controller.full_trace if e[0] == "rtwarn")
    if sc.get("instant") and (warns or outcome.startswith("failed RuntimeError too-slow")):
        vio.append({"law": "a run whose simulators answer instantly is never reported as too slow", "warnings": warns, "outcome": outcome,
                    "finding": "C17-instant-too-slow" if sc["connects"] else None})
    if sc.get("rt_strict") and warns:
        vio.append({"law": "rt_strict turns the first too-slow report into a RuntimeError", "warnings": warns, "outcome": outcome})
    if not sc.get("rt_strict") and outcome.startswith("failed RuntimeError"):
        vio.append({"law": "without rt_strict a slow run only warns", "outcome": outcome})
    return vio
