"""C11 and C15 stated as executable predicates on the implementation (independent of the model)."""
from __future__ import annotations

import asyncio
import copy
import itertools
import random
import warnings

from common import import_mosaik
from sched_corr import common_len as _cl

mosaik = import_mosaik()
from mosaik.exceptions import ScenarioError  # noqa: E402

import suites_world as sw  # noqa: E402


def lex_lt(a, b):
    return list(a) < list(b)


def monitor_c15(suite) -> tuple[list, int]:
    """Checks the version rules on the observations the `versions` suite recorded."""
    vio = []
    n = 0
    for line, impl, _ in suite.cases:
        n += 1
        toks = line.split(" ")[1:]
        def take_list(ts):
            if ts[0] == "-":
                return None, ts[1:]
            k = int(ts[0])
            return [int(x) for x in ts[1:1 + k]], ts[1 + k:]
        rep, toks = take_list(toks)
        exp, toks = take_list(toks)
        is_local, has_tr, has_ma = (t == "1" for t in toks)
        version = rep if rep is not None else [1]
        compliant = has_tr and has_ma
        must_reject = (version >= [4]) or (exp is not None and version != exp) or (is_local and not compliant and version >= [3])
        case = {"reported": rep, "explicit": exp, "init_takes_time_resolution": has_tr, "step_takes_max_advance": has_ma, "observed": impl}
        if must_reject != (impl == "ScenarioError"):
            vio.append({"law": "rejected exactly for versions >= 4, explicit mismatch, or v3 claim without v3 signatures", **case})
            continue
        if impl == "ScenarioError":
            continue
        obs = dict(t.split("=") for t in impl.split(" ") if "=" in t)
        toks2 = impl.split(" ")
        if version < [3] and "step2" not in toks2:
            vio.append({"law": "no max_advance argument before v3", **case})
        if version >= [3] and "step3" not in toks2:
            vio.append({"law": "current version receives max_advance", **case})
        if (version < [2, 2]) == ("setup_done" in toks2):
            vio.append({"law": "setup_done exactly from v2.2 on", **case})
        if (obs["tr"] == "1") != (compliant or not is_local):
            vio.append({"law": "time_resolution only for simulators whose signatures take it", **case})
        if version < [3] and obs["type"] != "0":
            vio.append({"law": "missing type defaults to time-based before v3", **case})
        if obs.get("etype", "2") != "2":
            vio.append({"law": "an explicitly reported simulator type (hybrid) is respected, whatever the version", **case})
        if (obs["warn"] == "1") != (version < [3] and exp is None):
            vio.append({"law": "outdated warning", **case})
    n += _c15_restart_cases(vio)
    return vio, n


def _c15_restart_cases(vio):
    """One sim_config entry with an explicit api_version started more than once: EVERY instance is checked against the configured
    version (a second instance reporting another version is rejected, also after a rejected first start), and the user's
    sim_config entry is left alone."""
    n = 0
    for explicit, first, second in [("3.0", "3.0", "2.2"), ("2.2", "2.2", "3.0"), ("2.0", "2.0", "2.2"), ("3.0", "2.2", "2.2"), ("2.2", "3.0", "2.0")]:
        n += 1
        cfg = {"python": "verif_stubs:Stub", "api_version": explicit}
        loop = asyncio.new_event_loop()
        w = mosaik.World({"S": cfg}, asyncio_loop=loop, skip_greetings=True)
        got = []
        try:
            with warnings.catch_warnings():
                warnings.simplefilter("ignore")
                for k, rep in enumerate((first, second)):
                    sw.MOD.Stub = sw.make_stub(True, True, {"api_version": rep, "type": "hybrid", "models": {"M": {"public": True, "params": [], "attrs": ["a"]}}})
                    try:
                        w.start("S", sim_id=f"A{k}")
                        got.append("accepted")
                    except ScenarioError:
                        got.append("ScenarioError")
            want = ["accepted" if first == explicit else "ScenarioError", "accepted" if second == explicit else "ScenarioError"]
            case = {"configured_api_version": explicit, "reported_by_first_instance": first, "reported_by_second_instance": second}
            if got != want:
                vio.append({"law": "a version different from the configured api_version is rejected at start - for every instance started from the entry",
                            "observed": got, "expected": want, **case})
            if cfg.get("api_version") != explicit:
                vio.append({"law": "start() leaves the user's sim_config entry alone", "entry_after": {k: str(v) for k, v in cfg.items()}, **case})
        finally:
            sw.close_world(w)
    return n


def snapshot(w):
    out = {}
    for sid, sim in w.sims.items():
        out[sid] = copy.deepcopy({
            "input_delays": {k.sid: v for k, v in sim.input_delays.items()},
            "successors": {k.sid: v for k, v in sim.successors.items()},
            "wait": {k.sid: v for k, v in sim.successors_to_wait_for.items()},
            "triggers": {k: [(d.sid, iv) for d, iv in v] for k, v in sim.triggers.items()},
            "pulled": {(k[0].sid, k[1]): sorted(v) for k, v in sim.pulled_inputs.items()},
            "push": {k: [(d.sid, iv, p) for d, iv, p in v] for k, v in sim.output_to_push.items()},
            "req": sim.output_request, "pers": sim.persistent_inputs, "outputs": sim.outputs,
        })
    return out


def common_len(a, b):
    n = 0
    while n < len(a) and n < len(b) and a[n] == b[n]:
        n += 1
    return n



KINDS = sw.KINDS


def kind_roles(kind):
    """(is_output, is_input, is_trigger, is_persistent) as predicates on attribute names, from the simulator type and the model
    description alone (the documented defaulting rules; independent of parse_attrs and of the Lean model)."""
    ty, d = KINDS[kind]
    attrs = set(d["attrs"])
    any_in = d.get("any_inputs", False)
    is_in = (lambda a: True) if any_in else (lambda a: a in attrs)
    if ty == "time-based":
        is_tr = lambda a: False                               # noqa: E731
        is_pers = lambda a: a in attrs                        # noqa: E731
    elif ty == "event-based":
        is_tr = is_in
        is_pers = lambda a: False                             # noqa: E731
    else:
        if "trigger" in d:
            is_tr = lambda a: a in d["trigger"]               # noqa: E731
        elif "non-trigger" in d:
            is_tr = lambda a: is_in(a) and a not in d["non-trigger"]   # noqa: E731
        else:
            is_tr = lambda a: False                           # noqa: E731
        if "non-persistent" in d:
            is_pers = lambda a: a in attrs and a not in d["non-persistent"]   # noqa: E731
        elif "persistent" in d:
            is_pers = lambda a: a in d["persistent"]          # noqa: E731
        else:
            is_pers = lambda a: a in attrs                    # noqa: E731
    return (lambda a: a in attrs), is_in, is_tr, is_pers


def _c11_model_kinds(vio, rng, tier):
    """connect() between every ordered pair of ten model kinds (time-based / event-based / hybrid, with and without any_inputs,
    trigger given directly or as the complement of a non-trigger list, persistence given either way) x source attribute x
    destination attribute (declared, undeclared) x time_shifted x weak x initial data: ScenarioError exactly when the source
    attribute is no output, the destination attribute is no input, or a delayed connection into a non-trigger input has no
    initial data; an accepted pair is registered as a trigger exactly when the destination attribute is a trigger input and
    as pulled/pushed according to the source attribute's persistence."""
    n = 0
    sw.install_kind_stubs()
    names = ["x", "y", "z", "q"]
    params = list(itertools.product(names, names, (0, 1), (False, True), (False, True)))
    for sk, dk in itertools.product(KINDS, KINDS):
        cache = rng.random() < 0.5
        w = mosaik.World({k: {"python": f"verif_stubs:K_{k}"} for k in (sk, dk)}, asyncio_loop=asyncio.new_event_loop(), skip_greetings=True, cache=cache)
        try:
            with warnings.catch_warnings():
                warnings.simplefilter("ignore")
                with w.group():
                    try:
                        sf = w.start(sk, sim_id="S")
                        df = w.start(dk, sim_id="D")
                    except Exception as e:  # noqa: BLE001
                        vio.append({"law": "a valid model description is accepted at start", "raised": f"{type(e).__name__}: {str(e)[:100]}",
                                    "source_model": KINDS[sk], "dest_model": KINDS[dk]})
                        continue
                is_out, _, _, s_pers = kind_roles(sk)
                _, is_in, is_tr, _ = kind_roles(dk)
                todo = params if tier != "quick" else rng.sample(params, 14)
                for (sa, da, ts, weak, init) in todo:
                    n += 1
                    se, de = sf.M(), df.M()
                    kw = {}
                    if ts:
                        kw["time_shifted"] = ts
                    if weak:
                        kw["weak"] = True
                    if init:
                        kw["initial_data"] = {sa: 5}
                    case = {"source_model": {"type": KINDS[sk][0], **KINDS[sk][1]}, "dest_model": {"type": KINDS[dk][0], **KINDS[dk][1]},
                            "src_attr": sa, "dest_attr": da, "time_shifted": ts, "weak": weak, "initial_data": init, "cache": cache}
                    before = snapshot(w)
                    try:
                        w.connect(se, de, (sa, da), **kw)
                        got = "accepted"
                    except ScenarioError:
                        got = "ScenarioError"
                    except Exception as e:  # noqa: BLE001
                        got = type(e).__name__
                    want_rej = (not is_out(sa)) or (not is_in(da)) or ((ts or weak) and not is_tr(da) and not init)
                    if got != ("ScenarioError" if want_rej else "accepted"):
                        vio.append({"law": "connect raises ScenarioError exactly in the four documented cases (model kinds)", "observed": got, **case})
                        continue
                    if want_rej:
                        if snapshot(w) != before:
                            vio.append({"law": "a rejected attribute pair leaves no data-flow behind", **case})
                        continue
                    S, D = w.sims["S"], w.sims["D"]
                    trig = any(d is D for (d, _iv) in S.triggers.get((se.eid, sa), []))
                    if trig != bool(is_tr(da)):
                        vio.append({"law": "a connection triggers the destination exactly when the destination attribute is a trigger input",
                                    "registered_as_trigger": trig, **case})
                    pulled = any(((se.eid, sa), (de.eid, da)) in v for (src, _iv), v in D.pulled_inputs.items() if src is S)
                    pushed = any(d is D and dp == (de.eid, da) for (d, _iv, dp) in S.output_to_push.get((se.eid, sa), []))
                    if (pulled, pushed) != ((True, False) if (cache and s_pers(sa)) else (False, True)):
                        vio.append({"law": "a persistent source attribute is pulled from the cache, anything else is pushed (exactly one of the two)",
                                    "pulled": pulled, "pushed": pushed, **case})
        finally:
            sw.close_world(w)
    return n


def monitor_c11(rng: random.Random, tier: str) -> tuple[list, int]:
    vio = []
    n = 0
    P = sw.PLACEMENTS
    combos = list(itertools.product(range(len(P)), range(len(P)), ["pe", "ev", "zz"], ["nt", "tr", "zz"], (0, 1, 2),
                                    (False, True), (False, True), (True, False)))
    if tier == "quick":
        combos = rng.sample(combos, 700)
    for ci, (a, b, sa, da, ts, weak, init, cache) in enumerate(combos):
        n += 1
        # every third case on child entities (model M) of a parent of another model: the child's own description decides;
        # an attribute only the parent has ("pp") is unknown there
        via_parent = ci % 3 == 2
        if via_parent and rng.random() < 0.2:
            if rng.random() < 0.5:
                sa = "pp"
            else:
                da = "pp"
        w = mosaik.World({"G": {"python": "verif_stubs:GStub"}}, asyncio_loop=asyncio.new_event_loop(), skip_greetings=True, cache=cache)
        try:
            ents = sw.start_in_groups(w, P, via_parent=via_parent)
            before = snapshot(w)
            kw = {}
            if ts:
                kw["time_shifted"] = ts
            if weak:
                kw["weak"] = True
            if init:
                kw["initial_data"] = {sa: 5}
            with warnings.catch_warnings():
                warnings.simplefilter("ignore")
                other = None
                try:
                    w.connect(ents[a], ents[b], (sa, da), **kw)
                    rejected = False
                except ScenarioError:
                    rejected = True
                except Exception as e:  # noqa: BLE001
                    rejected = False
                    other = type(e).__name__
            cl = common_len(P[a], P[b])
            if other:
                vio.append({"law": "connect either succeeds or raises ScenarioError (no other exception)", "raised": other,
                            "src_group": P[a], "dest_group": P[b], "src_attr": sa, "dest_attr": da, "time_shifted": ts, "weak": weak,
                            "initial_data": init, "cache": cache})
                continue
            want = (sa in ("zz", "pp")) or (da in ("zz", "pp")) or ((ts or weak) and da == "nt" and not init) or (weak and cl == 0)
            case = {"src_group": P[a], "dest_group": P[b], "src_attr": sa, "dest_attr": da, "time_shifted": ts, "weak": weak,
                    "initial_data": init, "cache": cache, "child_entities_of_another_model": via_parent}
            if rejected != bool(want):
                vio.append({"law": "connect raises ScenarioError exactly in the four documented cases", "rejected": rejected, **case})
            elif rejected:
                if snapshot(w) != before:
                    vio.append({"law": "a rejected attribute pair leaves no data-flow behind", **case})
            else:
                d = w.sims[f"S{b}"].input_delays[w.sims[f"S{a}"]]
                if d.cutoff != cl + 1 or d.pre_length != len(P[a]) + 1 or len(d) != len(P[b]) + 1:
                    vio.append({"law": "delay shape: cutoff = depth of the common group", "delay": repr(d), **case})
                exp = [0] * (len(P[b]) + 1)
                if ts:
                    exp[0] = ts
                if weak:
                    exp[cl] = 1
                if list(d.tiers) != exp:
                    vio.append({"law": "delay tiers: shift on tier 0, weak on the last shared tier", "delay": repr(d), **case})
        finally:
            sw.close_world(w)
    n += _c11_initial_data_cases(vio)
    n += _c11_model_kinds(vio, rng, tier)
    return vio, n


def _c11_initial_data_cases(vio):
    """connect() calls that share initial data: one call fanning a source attribute out to two non-trigger inputs, and one dict
    reused for two calls - both valid, both must be accepted, and the caller's dict must come back unchanged."""
    n = 0
    for ts, cache in itertools.product((1, 2), (True, False)):
        for mode in ("fan-out in one call", "dict reused for two calls"):
            n += 1
            w = mosaik.World({"G": {"python": "verif_stubs:GStub"}}, asyncio_loop=asyncio.new_event_loop(), skip_greetings=True, cache=cache)
            try:
                ents = sw.start_in_groups(w, [[], [], []])
                d = {"pe": 5}
                case = {"mode": mode, "time_shifted": ts, "cache": cache}
                try:
                    with warnings.catch_warnings():
                        warnings.simplefilter("ignore")
                        if mode == "fan-out in one call":
                            w.connect(ents[0], ents[1], ("pe", "nt"), ("pe", "pe"), time_shifted=ts, initial_data=d)
                        else:
                            w.connect(ents[0], ents[1], ("pe", "nt"), time_shifted=ts, initial_data=d)
                            w.connect(ents[0], ents[2], ("pe", "nt"), time_shifted=ts, initial_data=d)
                except Exception as e:  # noqa: BLE001
                    vio.append({"law": "connect raises ScenarioError exactly in the four documented cases (a valid call sharing initial data was rejected)",
                                "raised": type(e).__name__, "message": str(e)[:120], **case})
                    continue
                if d != {"pe": 5}:
                    vio.append({"law": "connect leaves the caller's initial_data alone", "initial_data_after": d, **case})
                snap = snapshot(w)
                flows = {}
                for dst in ("S1", "S2"):
                    pulled = sum(len(v) for (src, _d), v in snap[dst]["pulled"].items() if src == "S0")
                    pushed = sum(1 for lst in snap["S0"]["push"].values() for (dsid, _iv, _p) in lst if dsid == dst)
                    flows[dst] = pulled + pushed
                want = {"S1": 2, "S2": 0} if mode == "fan-out in one call" else {"S1": 1, "S2": 1}
                if flows != want:
                    vio.append({"law": "an accepted call registers exactly one data-flow per requested attribute pair", "flows": flows, "want": want, **case})
            finally:
                sw.close_world(w)
    return n


# ------------------------------------------------------------------ C06

def simple_cycles(n, hops):
    """All simple cycles (as vertex lists without the repeated end) over vertices 0..n-1 with edges `hops`."""
    out = []

    def dfs(start, v, path, seen):
        for (a, b) in hops:
            if a != v:
                continue
            if b == start:
                out.append(list(path))
            elif b not in seen and b > start:
                dfs(start, b, path + [b], seen | {b})
    for s in range(n):
        dfs(s, s, [s], {s})
    return out


def unresolved_cycles(g):
    """Graph-level specification of C06: the cycles no connection resolves."""
    pl = g["placement"]
    n = len(pl)
    def fl(c):
        return c["kind"].split("+")
    valid = []
    for c in g["conns"]:
        if "weak" in fl(c) and common_len(pl[c["src"]], pl[c["dst"]]) == 0:
            # the weak attribute pair is rejected (no common group); World.connect still registers the async-requests part of the
            # call before it raises (valid parts of a connect call take effect, the errors are reported at the end)
            if "async" in fl(c):
                valid.append(dict(c, kind="async"))
            continue
        valid.append(c)
    hops = sorted(set((c["src"], c["dst"]) for c in valid))
    res = []
    for cyc in simple_cycles(n, hops):
        k = len(cyc)
        ok = True
        for i in range(k):
            a, b = cyc[i], cyc[(i + 1) % k]
            through = False
            for c in valid:
                if c["src"] != a or c["dst"] != b:
                    continue
                if c["kind"] == "plain" or "async" in fl(c):
                    through = True          # an async-requests connection is a zero-delay edge whatever else the call asks for
                elif "weak" in fl(c):
                    cl = common_len(pl[a], pl[b])
                    inside = all(len(pl[v]) >= cl and pl[v][:cl] == pl[a][:cl] for v in cyc)
                    if not inside:
                        through = True
            if not through:
                ok = False
                break
        if ok:
            res.append(cyc)
    return res


from suites_world import nonuniform_graph  # noqa: E402


def monitor_c06(suite) -> tuple[list, int]:
    vio = []
    n = 0
    for g, res, path in suite.graphs:
        n += 1
        bad = unresolved_cycles(g)
        d7 = nonuniform_graph(g)
        fid = "D7-reentrant-paths" if d7 else None
        if res in ("AssertionError", "hang"):
            vio.append({"law": "cycle check fails with an internal error" if res == "AssertionError" else "cycle check does not terminate",
                        "graph": g, "finding": fid})
            continue
        if (res == "cycle") != bool(bad):
            vio.append({"law": "rejected exactly when an unresolved cycle exists", "graph": g, "verdict": res, "unresolved_cycles": bad, "finding": fid})
            continue
        if res == "cycle":
            ok = len(path) >= 2 and path[0] == path[-1]
            cyc = path[:-1] if ok else []
            # the reported closed walk must consist of unresolved hops
            if ok:
                k = len(cyc)
                rot = lambda c: min(c[i:] + c[:i] for i in range(len(c)))  # noqa: E731
                simple = len(set(cyc)) == len(cyc)
                if simple and rot(cyc) not in [rot(b) for b in bad]:
                    ok = False
            if not ok:
                vio.append({"law": "the cycle named in the error is a real unresolved cycle", "graph": g, "reported": path, "unresolved_cycles": bad, "finding": fid})
    return vio, n
