"""Which suites, monitors and known-finding replays serve which property."""
from __future__ import annotations

import json

import suites_pure as sp
import monitors_pure as mp


def _pure(names, monitor):
    def run(o, driver, rng):
        if driver is not None:
            for n in names:
                o.suites.append(sp.run_suite(driver, sp.ALL_PURE[n](rng, o.tier)))
        if monitor is not None:
            vio, n = monitor(rng, o.tier)
            o.monitor_stats["impl_monitor_evaluations"] = n
            o.monitor_stats["impl_monitor_violations"] = len(vio)
            o.violations.extend(vio)
    return run


PROPERTIES = {
    "C08": {"run": _pure(["tiered"], mp.monitor_c08),
            "assumptions": ["tier values and shifts are natural numbers",
                            "the order laws are claimed for operands of equal cutoff; mixed-cutoff operands are finding C08-mixed-cutoff"]},
    "C12": {"run": _pure(["iosets", "attrs"], mp.monitor_c12),
            "assumptions": ["attribute names are opaque; sets are compared extensionally"]},
    "C18": {"run": _pure(["util"], mp.monitor_c18),
            "assumptions": ["random.shuffle returns a permutation, random.randint(0, k) a value in [0, k] (oracle-modelled)",
                            "entities of dest_set are pairwise distinct"]},
}


def replay(pid: str, path: str) -> int:
    """Re-run the case stored in a replay file against the current tree."""
    rp = json.load(open(path))
    print(json.dumps(rp, indent=1)[:3000])
    import checks
    # a replay re-executes the check with the recorded tier and seed
    return checks.run_check(pid, rp.get("tier", "quick"), rp.get("seed", 0))
