"""Which suites, monitors and known-finding replays serve which property."""
from __future__ import annotations

import json

import suites_pure as sp
import monitors_pure as mp


def _pure(names, monitor):
    def run(o, driver, rng):
        if driver is not None:
            for n in names:
                o.suites.append(sp.run_suite(driver, sp.ALL_PURE[n](rng, o.tier)))
        if monitor is not None:
            vio, n = monitor(rng, o.tier)
            o.monitor_stats["impl_monitor_evaluations"] = n
            o.monitor_stats["impl_monitor_violations"] = len(vio)
            o.violations.extend(vio)
    return run


PROPERTIES = {
    "C08": {"run": _pure(["tiered"], mp.monitor_c08),
            "assumptions": ["tier values and shifts are natural numbers",
                            "the order laws are claimed for operands of equal cutoff; mixed-cutoff operands are finding C08-mixed-cutoff"]},
    "C12": {"run": _pure(["iosets", "attrs"], mp.monitor_c12),
            "assumptions": ["attribute names are opaque; sets are compared extensionally"]},
    "C18": {"run": _pure(["util"], mp.monitor_c18),
            "assumptions": ["random.shuffle returns a permutation, random.randint(0, k) a value in [0, k] (oracle-modelled)",
                            "entities of dest_set are pairwise distinct"]},
}


def _c15(o, driver, rng):
    import contextlib, io
    import suites_world as sw, monitors_world as mw
    with contextlib.redirect_stdout(io.StringIO()):
        suite = sw.suite_versions(rng, o.tier)
    if driver is not None:
        o.suites.append(sp.run_suite(driver, suite))
    vio, n = mw.monitor_c15(suite)
    o.monitor_stats["impl_monitor_evaluations"] = n
    o.monitor_stats["impl_monitor_violations"] = len(vio)
    o.violations.extend(vio)


def _c11(o, driver, rng):
    import suites_world as sw, monitors_world as mw
    if driver is not None:
        o.suites.append(sp.run_suite(driver, sp.suite_groups(rng, o.tier)))
        o.suites.append(sp.run_suite(driver, sw.suite_connect(rng, o.tier)))
        o.suites.append(sp.run_suite(driver, sw.suite_connect_kinds(rng, o.tier)))
    vio, n = mw.monitor_c11(rng, o.tier)
    o.monitor_stats["impl_monitor_evaluations"] = n
    o.monitor_stats["impl_monitor_violations"] = len(vio)
    o.violations.extend(vio)


PROPERTIES["C15"] = {"run": _c15, "assumptions": [
    "version strings are dot-separated decimal numbers", "in-process transport in the correspondence; the remote proxy shares init_and_get_adapter and always sends time_resolution (modelled, isLocal = false)"]}
PROPERTIES["C11"] = {"run": _c11, "assumptions": [
    "one model per simulator in the correspondence worlds", "groups are identified by their path from the main group (identity)"]}


def _sched(monitor_for, quick=(150, 3), thorough=(2500, 6), extra=None, **genkw):
    """Scheduler properties: correspondence of model and code over generated scenarios and reply
    schedules + the property's monitor on the implementation traces."""
    def run(o, driver, rng):
        import sched_corr as scorr
        n_sc, n_sched = quick if o.tier == "quick" else thorough
        res = scorr.run_sched_suite(driver, rng, n_sc, n_sched, monitor=monitor_for, **genkw)
        o.suites.append(res)
        o.violations.extend(res["violations"])
        o.monitor_stats["impl_traces_monitored"] = res["traces"]
        o.monitor_stats["impl_monitor_violations"] = len(res["violations"])
        if not genkw:
            # structured families every scheduler property is exercised on besides the random scenarios
            n_mix, n_ms = (25, 2) if o.tier == "quick" else (600, 4)
            scs = [g(rng) for _ in range(n_mix) for g in (scorr.gen_fanin_scenario, scorr.gen_diamond_scenario, scorr.gen_group_mix_scenario, scorr.gen_ahead_scenario,
                                                            scorr.gen_future_shift_scenario, scorr.gen_multi_shift_scenario)]
            res2 = scorr.run_sched_suite(driver, rng, len(scs), n_ms, name="families", monitor=monitor_for, scenarios=scs)
            o.suites.append(res2)
            o.violations.extend(res2["violations"])
            o.monitor_stats["family_traces_monitored"] = res2["traces"]
            o.monitor_stats["impl_monitor_violations"] += len(res2["violations"])
        if extra:
            extra(o, driver, rng)
    return run


def _mon(name):
    import monitors_sched as ms
    def m(sc, c, outcome):
        if name == "C01":
            return ms.mon_c01_c10(sc, c)[0]
        if name == "C10":
            return ms.mon_c01_c10(sc, c)[1]
        if name == "C02":
            return ms.mon_c02(sc, c, outcome)
        if name == "C05":
            return ms.mon_c05(sc, c, outcome)
        if name == "C07":
            return ms.mon_c07(sc, c)
        if name == "C09":
            return ms.mon_c09(sc, c, outcome)
        if name == "C13":
            return ms.mon_c13(sc, c, outcome)
        return []
    m.judges_closure = name == "C05"
    return m


def _fanin(name):
    """Extra suite: fan-in scenarios (see sched_corr.gen_fanin_scenario) with the property's monitor."""
    def extra(o, driver, rng):
        import sched_corr as scorr
        n_sc, n_sched = (140, 3) if o.tier == "quick" else (3000, 5)
        scs = [scorr.gen_fanin_scenario(rng) if i % 3 == 0 else scorr.gen_group_mix_scenario(rng) for i in range(n_sc)]
        res = scorr.run_sched_suite(driver, rng, n_sc, n_sched, name="fanin", monitor=_mon(name), scenarios=scs)
        o.suites.append(res)
        o.violations.extend(res["violations"])
        o.monitor_stats["fanin_traces_monitored"] = res["traces"]
        o.monitor_stats["impl_monitor_violations"] = o.monitor_stats.get("impl_monitor_violations", 0) + len(res["violations"])
    return extra


def _both(*extras):
    def extra(o, driver, rng):
        for e in extras:
            e(o, driver, rng)
    return extra


def _replay_d7(pid):
    """Replay the listed witness of finding D7 on the implementation."""
    def extra(o, driver, rng):
        import common, sched_corr as scorr
        for f in common.known_findings()["findings"]:
            if f["property"] == pid and f["id"] == "D7-reentrant-paths":
                w = f["witness"]
                outcome, _ = scorr.run_impl(scorr.normalise(w["scenario"]), w["schedule_seed"])
                o.monitor_stats["known_finding_replays"] = o.monitor_stats.get("known_finding_replays", 0) + 1
                if outcome == w["expected_outcome"]:
                    o.violations.append({"law": "run() fails with an internal error (incomparable delays)", "finding": f["id"],
                                         "scenario": w["scenario"], "outcome": outcome})
    return extra


SCHED_ASSUME = ["simulators always answer; replies API-compliant except where a fault is injected",
                "configuration hypotheses WFCfg (closure of the ancestor table etc.) are checked by the driver on every generated scenario (wfB, proved sound); scenarios where two paths between the same simulators leave and re-enter a group are outside them (finding D7)",
                "theorems are about the transition system whose actions are the atomic blocks between awaits; asyncio only chooses which enabled action fires next"]

def _c01_async(o, driver, rng):
    """Scenarios with async_requests connections (the controller must wait for its agents whatever lazy_stepping says)."""
    import sched_corr as scorr
    n_sc, n_sched = (80, 3) if o.tier == "quick" else (2000, 5)
    res = scorr.run_sched_suite(driver, rng, n_sc, n_sched, name="async", monitor=_mon("C01"), async_req=True)
    o.suites.append(res)
    o.violations.extend(res["violations"])
    o.monitor_stats["async_traces_monitored"] = res["traces"]
    o.monitor_stats["impl_monitor_violations"] = o.monitor_stats.get("impl_monitor_violations", 0) + len(res["violations"])


PROPERTIES["C01"] = {"run": _sched(_mon("C01"), extra=_c01_async), "assumptions": SCHED_ASSUME}
PROPERTIES["C02"] = {"run": _sched(_mon("C02"), extra=_fanin("C02")), "assumptions": SCHED_ASSUME + ["completeness is proved for runs that end (complete_at_end); that runs end is proved only as deadlock freedom for flat configurations (C05), otherwise monitor + correspondence"]}
def _c05_loops(o, driver, rng):
    """Same-time loops around the bound in groups up to three levels deep, with the completion monitor: a loop that never settles
    must end in the documented SimulationError, not in a run() that never returns (watchdog) or an internal error."""
    import sched_corr as scorr
    n_sc, n_sched = (40, 1) if o.tier == "quick" else (1500, 3)
    scs = [scorr.gen_loop_scenario(rng) for _ in range(n_sc)]
    res = scorr.run_sched_suite(driver, rng, n_sc, n_sched, name="loops", monitor=_mon("C05"), scenarios=scs)
    o.suites.append(res)
    o.violations.extend(res["violations"])
    o.monitor_stats["loop_traces_monitored"] = res["traces"]


PROPERTIES["C05"] = {"run": _sched(_mon("C05"), extra=_both(_fanin("C05"), _c05_loops, _replay_d7("C05"))), "assumptions": SCHED_ASSUME + ["deadlock freedom is a theorem for flat (group-less) configurations (hypotheses evaluated per scenario by the driver: wfx); for grouped configurations and for termination: monitor + correspondence only"]}
def _c07_extra(o, driver, rng):
    """Diamond scenarios (several trigger paths of different delay) + the ancestor-table correspondence."""
    import sched_corr as scorr, suites_world as sw
    n_sc, n_sched = (80, 2) if o.tier == "quick" else (2000, 4)
    scs = [scorr.gen_diamond_scenario(rng) for _ in range(n_sc)]
    res = scorr.run_sched_suite(driver, rng, n_sc, n_sched, name="diamonds", monitor=_mon("C07"), scenarios=scs)
    o.suites.append(res)
    o.violations.extend(res["violations"])
    o.monitor_stats["diamond_traces_monitored"] = res["traces"]
    o.monitor_stats["impl_monitor_violations"] = o.monitor_stats.get("impl_monitor_violations", 0) + len(res["violations"])
    # triggering_ancestors computed by the code vs. by the model's closure
    if driver is not None:
        o.suites.append(sp.run_suite(driver, sw.suite_cycles(rng, o.tier)))


PROPERTIES["C07"] = {"run": _sched(_mon("C07"), extra=_c07_extra), "assumptions": SCHED_ASSUME + ["the run form is a theorem for every continuation (promise_run_traceable): steps inside the window are traceable to the simulator's own returned next steps and outputs; the taint monitor evaluates the same notion on the implementation traces"]}
def _c09_loops(o, driver, rng):
    """Dedicated loop scenarios: loops of length around the bound, nested groups, several bound values."""
    import sched_corr as scorr
    n_sc, n_sched = (120, 2) if o.tier == "quick" else (3000, 4)
    scs = [scorr.gen_loop_scenario(rng) for _ in range(n_sc)]
    res = scorr.run_sched_suite(driver, rng, n_sc, n_sched, name="loops", monitor=_mon("C09"), scenarios=scs)
    o.suites.append(res)
    o.violations.extend(res["violations"])
    o.monitor_stats["loop_traces_monitored"] = res["traces"]


def _c09_replay(o, driver, rng):
    """Replay the listed witness of finding C09-shift-carries-substep on the implementation (and, through the correspondence, on the model)."""
    import common, sched_corr as scorr, monitors_sched as ms
    for f in common.known_findings()["findings"]:
        if f["property"] == "C09" and f["id"] == "C09-shift-carries-substep":
            w = f["witness"]
            sc = scorr.normalise(w["scenario"])
            outcome, c = scorr.run_impl(sc, w["schedule_seed"])
            o.monitor_stats["known_finding_replays"] = o.monitor_stats.get("known_finding_replays", 0) + 1
            for v in ms.mon_c09(sc, c, outcome):
                o.violations.append({**v, "scenario": w["scenario"], "schedule_seed": w["schedule_seed"]})


PROPERTIES["C09"] = {"run": _sched(_mon("C09"), extra=_both(_c09_loops, _c09_replay)), "assumptions": SCHED_ASSUME + [
    "the guard is a theorem about sub-step INDICES (guard_fires / guard_only_then); that an index stands for that many iterations within the time step fails for "
    "time-shifted trigger connections inside a group (known finding C09-shift-carries-substep); the monitor counts iterations within the time step"]}
def _c10_rt(o, driver, rng):
    """lazy_stepping in real-time mode (rt_factor given; virtual clock): the run-ahead bound is the same as without a clock."""
    import sched_corr as scorr
    n_sc, n_sched = (60, 2) if o.tier == "quick" else (1200, 4)
    scs = []
    for _ in range(n_sc):
        sc = scorr.gen_scenario(rng, rt=True)
        sc["lazy"] = True
        sc["rt_strict"] = False
        scs.append(sc)
    res = scorr.run_sched_suite(driver, rng, n_sc, n_sched, name="real-time", monitor=_mon("C10"), scenarios=scs)
    o.suites.append(res)
    o.violations.extend(res["violations"])
    o.monitor_stats["rt_traces_monitored"] = res["traces"]


PROPERTIES["C10"] = {"run": _sched(_mon("C10"), extra=_c10_rt), "assumptions": SCHED_ASSUME}
def _c13_remote(o, driver, rng):
    """The same law with the faulty simulator behind the remote transport (subprocess, JSON): a malformed next-step reply of a
    time-based simulator's first step must abort run() with a SimulationError and the simulator must not be stepped again."""
    import determinism as dt, sched_corr as scorr
    n_cases = 6 if o.tier == "quick" else 60
    kinds = ["float", "float", "str", "negative", "equal", "float_integral", "none"]
    k = 0
    while k < n_cases:
        sc = scorr.gen_scenario(rng, groups=False)
        tb = [i for i, x in enumerate(sc["sims"]) if x["type"] == "time-based"]
        if not tb or len(sc["sims"]) > 3:
            continue
        for x in sc["sims"]:
            x.pop("api", None)
        sc.pop("debug", None)
        sc["fault"] = {"sim": rng.choice(tb), "n": 0, "kind": kinds[k % len(kinds)]}
        ie = sc["sims"][sc["fault"]["sim"]].get("init_ev")
        if ie is not None and ie >= sc["until"]:
            continue        # set_initial_event replaced the time-0 step by an event at or after until: the simulator never steps, no reply to judge
        outcome, obs = dt.run_remote(sc)
        if outcome.startswith("failed ScenarioError"):
            continue        # an invalid scenario (unresolved cycle, rejected connection): the run never starts, nothing to judge
        k += 1
        steps = obs.get(sc["fault"]["sim"], [])
        if not outcome.startswith("failed SimulationError") or len(steps) != 1:
            o.violations.append({"law": "a malformed next-step reply of a remote simulator aborts run() with a SimulationError and the simulator is not stepped again",
                                 "scenario": sc, "outcome": outcome, "steps_of_faulty_simulator": [t for t, _ in steps]})
    o.monitor_stats["remote_fault_cases"] = n_cases


PROPERTIES["C13"] = {"run": _sched(_mon("C13"), faults=True, extra=_c13_remote), "assumptions": SCHED_ASSUME}


def replay(pid: str, path: str) -> int:
    """Re-run the case stored in a replay file against the current tree."""
    rp = json.load(open(path))
    print(json.dumps(rp, indent=1)[:3000])
    import checks
    # a replay re-executes the check with the recorded tier and seed
    return checks.run_check(pid, rp.get("tier", "quick"), rp.get("seed", 0))


def _c03_monitor(sc, c, outcome):
    import monitors_sched as ms
    out = []
    for v in ms.mon_c03(sc, c):
        # attributed to a finding only if every offending key belongs to a connection with that finding's feature;
        # keys fed by a simulator that omits its persistent outputs are not claimed at all
        if v.get("preset_finding"):
            v["finding"] = v.pop("preset_finding")
            v.pop("keys", None), v.pop("nonmono", None)
            out.append(v)
            continue
        nonmono = set(v.pop("nonmono", []))
        classes = [ms.c03_conn_class(sc, v["sim"], k, nonmono) for k in v.pop("keys", [])]
        classes = [x for x in classes if x != "C03-sparse-persistent"]
        if not classes:
            continue
        v["finding"] = classes[0] if all(classes) else None
        out.append(v)
    return out


def _c03_replays(o, driver, rng):
    import common, sched_corr as scorr, monitors_sched as ms
    for f in common.known_findings()["findings"]:
        if f["property"] != "C03":
            continue
        w = f["witness"]
        sc = scorr.normalise(w["scenario"])
        outcome, c = scorr.run_impl(sc, w["schedule_seed"])
        o.monitor_stats["known_finding_replays"] = o.monitor_stats.get("known_finding_replays", 0) + 1
        v = ms.mon_c03(sc, c)
        if f["id"] == "C03-same-connection-events-collapse":
            v = [x for x in v if x.get("preset_finding") == f["id"]]
        else:
            v = [x for x in v if not x.get("preset_finding")]
        if v:
            o.violations.append({**v[0], "finding": f["id"], "scenario": w["scenario"], "schedule_seed": w["schedule_seed"]})


def _c06(o, driver, rng):
    import suites_world as sw, monitors_world as mw
    suite = sw.suite_cycles(rng, o.tier)
    if driver is not None:
        o.suites.append(sp.run_suite(driver, suite))
    vio, n = mw.monitor_c06(suite)
    o.monitor_stats["impl_monitor_evaluations"] = n
    o.monitor_stats["impl_monitor_violations"] = len(vio)
    o.violations.extend(vio)
    _replay_d7("C06")(o, driver, rng)


PROPERTIES["C06"] = {"run": _c06, "assumptions": ["two connection paths between the same simulators have the same cutoff (no path leaves a group and re-enters it): finding D7 otherwise",
                                                     "the worklist's pick (Python set.pop) is an oracle; three different oracles are compared on the model side"]}


PROPERTIES["C03"] = {"run": _sched(_c03_monitor, extra=_c03_replays), "assumptions": SCHED_ASSUME + [
    "at most one connection per (source entity, destination entity, destination attribute)",
    "the refinement of whole runs to the history specification is decided by the specification monitor on implementation traces, not by a theorem; four classes of scenarios are known findings (known_findings.json)"]}


def _c16_monitor(sc, c, outcome):
    import monitors_sched as ms
    return ms.mon_c16(sc, c, outcome)


def _c16_extra(o, driver, rng):
    """The multi-agent pattern: one set_data call addressing several controllers from several agent entities."""
    import sched_corr as scorr
    n_sc, n_sched = (80, 3) if o.tier == "quick" else (1500, 5)
    scs = [scorr.gen_mas_scenario(rng) for _ in range(n_sc)]
    res = scorr.run_sched_suite(driver, rng, len(scs), n_sched, name="mas", monitor=_c16_monitor, scenarios=scs)
    o.suites.append(res)
    o.violations.extend(res["violations"])
    o.monitor_stats["mas_traces_monitored"] = res["traces"]
    o.monitor_stats["impl_monitor_violations"] += len(res["violations"])


PROPERTIES["C16"] = {"run": _sched(_c16_monitor, async_req=True, extra=_c16_extra), "assumptions": SCHED_ASSUME + [
    "the data path of an asynchronous get_data is modelled as a function of the state (cache slice at the requester's last step, forwarded "
    "remainder, dict.update merge) and compared per request (driver command aget); the forwarded query's reply is an input of the model "
    "(the other simulator answers at once: no further await point is modelled inside the request)",
    "no ordinary connection feeds the same (source entity, destination entity, attribute) key as a set_data call"]}


def _c17_monitor(sc, c, outcome):
    import monitors_sched as ms
    import sched_corr as scorr
    vio = ms.mon_c17(sc, c, outcome)
    if scorr.nonuniform_cutoff(sc, False):
        # a scenario of the class of finding D7 (paths that leave and re-enter a group) may die in the min-delay closures or deadlock
        # whatever the mode: that is judged under C05 / C06, where the finding is listed, not as a real-time matter
        vio = [v for v in vio if v["law"] not in ("real-time run hangs", "a real-time run with compliant simulators completes without internal error")]
    return vio


def _c17_extra(o, driver, rng):
    """Non-real-time scenarios with set_event (must be an error), the strict/non-strict pair, and the D13 witness."""
    import common, sched_corr as scorr, monitors_sched as ms
    # set_event outside real-time mode
    res = None
    for k in range(40 if o.tier == "quick" else 400):
        sc = scorr.gen_scenario(rng)
        n = len(sc["sims"])
        sc["extra_async"] = [{"sim": rng.randrange(n), "n": rng.randrange(0, 2), "kind": "set_event", "time": rng.randrange(1, 6)}]
        seed = rng.randrange(10 ** 9)
        if driver is not None:
            agree, detail, c = scorr.compare(driver, sc, seed)
            if not agree:
                o.suites[-1]["disagreements"].append({"suite": "sched", "scenario": sc, "schedule_seed": seed, **detail})
            outcome = getattr(c, "outcome", detail.get("outcome"))
        else:
            outcome, c = scorr.run_impl(sc, seed)
        o.suites[-1]["cases"] += 1
        for v in ms.mon_c17(sc, c, str(outcome)):
            o.violations.append({**v, "scenario": sc, "schedule_seed": seed})
    # rt_strict changes nothing but the first report
    for k in range(30 if o.tier == "quick" else 300):
        sc = scorr.gen_scenario(rng, rt=True)
        sc["rt_strict"] = False
        seed = rng.randrange(10 ** 9)
        out1, c1 = scorr.run_impl(sc, seed)
        sc2 = dict(sc, rt_strict=True)
        out2, c2 = scorr.run_impl(sc2, seed)
        tr1 = [e[:5] for e in c1.full_trace if e[0] == "begin"]
        tr2 = [e[:5] for e in c2.full_trace if e[0] == "begin"]
        warned = any(e[0] == "rtwarn" for e in c1.full_trace)
        o.monitor_stats["strict_pairs"] = o.monitor_stats.get("strict_pairs", 0) + 1
        if not warned and (out1 != out2 or tr1 != tr2):
            o.violations.append({"law": "rt_strict changes nothing when the run is never too slow", "scenario": sc, "schedule_seed": seed, "outcomes": [out1, out2]})
        if warned and not out2.startswith("failed RuntimeError too-slow") and not out1.startswith("failed"):
            o.violations.append({"law": "rt_strict turns the first too-slow report into a RuntimeError", "scenario": sc, "schedule_seed": seed, "outcomes": [out1, out2]})
        if warned and tr2 != tr1[:len(tr2)]:
            o.violations.append({"law": "up to the first too-slow report a strict run equals the non-strict one", "scenario": sc, "schedule_seed": seed})
    # plain in-process simulators that never suspend (real clock, tiny rt_factor)
    import inline_rt
    k, vio = inline_rt.run_all()
    o.monitor_stats["inline_simulator_rt_runs"] = k
    o.violations.extend(vio)
    for f in common.known_findings()["findings"]:
        if f["property"] == "C17":
            w = f["witness"]
            sc = scorr.normalise(w["scenario"])
            outcome, c = scorr.run_impl(sc, w["schedule_seed"])
            o.monitor_stats["known_finding_replays"] = o.monitor_stats.get("known_finding_replays", 0) + 1
            v = [x for x in ms.mon_c17(sc, c, outcome) if x.get("finding") == f["id"]]
            if v:
                o.violations.append({**v[0], "scenario": w["scenario"], "schedule_seed": w["schedule_seed"]})


PROPERTIES["C17"] = {"run": _sched(_c17_monitor, extra=_c17_extra, rt=True), "assumptions": [
    "time is an integer number of clock ticks: rt_factor*time_resolution is a whole number of ticks and the virtual clock only takes the values of timer deadlines; the float arithmetic of perf_counter is not modelled",
    "real timers are replaced by a virtual clock owned by the controlled event loop (scheduler.perf_counter is patched to it)",
    "simulators always answer"]}


def _c14(o, driver, rng):
    import fault_enum
    res = fault_enum.run_suite(driver, rng, o.tier)
    o.suites.append(res)
    o.violations.extend(res["violations"])
    o.monitor_stats["fault_cases"] = res["cases"]
    o.monitor_stats["impl_monitor_violations"] = len(res["violations"])


PROPERTIES["C14"] = {"run": _c14, "assumptions": [
    "the theorems cover the try/except/finally control flow of World.run and the shutdown loop under the hypothesis that stop() of every simulator returns",
    "processes, sockets, the stop timeout, promptness and pending asyncio tasks are decided by the fault enumeration on the real code only",
    "fault kinds: exception in a handler (local and remote) and process exit (remote); a silently hanging simulator is outside the property ('simulators that fail')"]}


def _c04(o, driver, rng):
    import determinism as dt, sched_corr as scorr, monitors_sched as ms, common
    quick = o.tier == "quick"
    # the model <-> code tie
    res = scorr.run_sched_suite(driver, rng, 100 if quick else 1500, 3 if quick else 6)
    o.suites.append(res)
    # 1. every interleaving of small scenarios
    n_small, limit = (25, 120) if quick else (400, 3000)
    total = complete = 0
    for _ in range(n_small):
        sc = dt.small_scenario(rng)
        n, comp, v = dt.check_scenario_interleavings(sc, limit)
        total += n
        complete += bool(comp)
        if v:
            v["finding"] = ms.c03_class(sc)
            o.violations.append(v)
    o.monitor_stats["interleavings_run"] = total
    o.monitor_stats["scenarios_with_all_interleavings_enumerated"] = complete
    # 2. lazy x cache x debug, 3. start orders
    runs = 0
    n_cross = 40 if quick else 600
    k = 0
    while k < n_cross:
        # half of the budget on scenarios outside every known data-flow finding class (where a difference is never masked)
        sc = (scorr.gen_scenario, scorr.gen_clean_scenario, scorr.gen_fanin_scenario,
              lambda r: scorr.gen_scenario(r, async_req=True),               # async_requests connections (D18 lived there)
              scorr.gen_multi_shift_scenario,                               # one cached output read with several time shifts
              scorr.gen_async_echo_scenario)[k % 6](rng)                    # agents whose set_data values are computed from their get_data answers
        sc["sparse_persistent"] = False       # omitting a persistent output is a simulator-side contract breach (mosaik warns); see DESIGN.md
        if scorr.nonuniform_cutoff(sc, False):
            continue
        if any(c.get("async") and any(c2["src"] == c["dst"] and c2["seid"] == c["deid"] and c2["dst"] == c["src"] and c2["deid"] == c["seid"]
                                      for c2 in sc["connects"]) for c in sc["connects"]):
            # an agent's set_data would write an input key that an ordinary connection feeds as well: which of the two a step sees
            # depends on the data path (cache / push) - outside what the property (and C16) promises, see DESIGN.md
            continue
        k += 1
        v, r = dt.cross_config(sc, rng)
        runs += r
        o.violations.extend(v)
        if any(c.get("async") for c in sc["connects"]) or sc.get("extra_async"):
            continue        # set_data payloads name the sender by its simulator id, which the start order changes: no start-order comparison
        r2, v2 = dt.check_start_orders(sc, rng)
        runs += r2
        if v2:
            o.violations.append(v2)
    o.monitor_stats["cross_configuration_runs"] = runs
    # 4. in-process vs. subprocess transport
    n_remote = 3 if quick else 40
    k = 0
    while k < n_remote:
        sc = scorr.gen_clean_scenario(rng) if k % 2 else scorr.gen_scenario(rng)
        sc["sparse_persistent"] = False
        if scorr.nonuniform_cutoff(sc, False) or len(sc["sims"]) > 3:
            continue
        k += 1
        v = dt.check_remote(sc, rng)
        if v:
            o.violations.append(v)
    o.monitor_stats["remote_transport_scenarios"] = n_remote
    # known findings: replay the witnesses
    for f in common.known_findings()["findings"]:
        if f["property"] != "C04":
            continue
        sc = scorr.normalise(f["witness"]["scenario"])
        v, _ = dt.cross_config(sc, rng)
        n, comp, v2 = dt.check_scenario_interleavings(sc, 60)
        o.monitor_stats["known_finding_replays"] = o.monitor_stats.get("known_finding_replays", 0) + 1
        if v or v2:
            o.violations.append({"law": "configurations / interleavings differ", "finding": f["id"], "scenario": f["witness"]["scenario"]})
    o.monitor_stats["impl_monitor_violations"] = len(o.violations)
    o.samples = res.get("samples", [])


PROPERTIES["C04"] = {"run": _c04, "assumptions": [
    "deterministic simulators: the scripted behaviour is a function of the simulator's identity, step time and sub-step index",
    "only the lazy-stepping facet is a theorem (every lazy run is an eager run); schedule, start-order, cache, debug and transport independence are decided by exhaustive enumeration of reply interleavings of small scenarios and by cross-configuration runs on the real scheduler",
    "where a data-flow finding of C03 applies, configurations legitimately differ (listed as known findings of C04 as well)"]}
