"""Which suites, monitors and known-finding replays serve which property."""
from __future__ import annotations

import json

import suites_pure as sp
import monitors_pure as mp


def _pure(names, monitor):
    def run(o, driver, rng):
        if driver is not None:
            for n in names:
                o.suites.append(sp.run_suite(driver, sp.ALL_PURE[n](rng, o.tier)))
        if monitor is not None:
            vio, n = monitor(rng, o.tier)
            o.monitor_stats["impl_monitor_evaluations"] = n
            o.monitor_stats["impl_monitor_violations"] = len(vio)
            o.violations.extend(vio)
    return run


PROPERTIES = {
    "C08": {"run": _pure(["tiered"], mp.monitor_c08),
            "assumptions": ["tier values and shifts are natural numbers",
                            "the order laws are claimed for operands of equal cutoff; mixed-cutoff operands are finding C08-mixed-cutoff"]},
    "C12": {"run": _pure(["iosets", "attrs"], mp.monitor_c12),
            "assumptions": ["attribute names are opaque; sets are compared extensionally"]},
    "C18": {"run": _pure(["util"], mp.monitor_c18),
            "assumptions": ["random.shuffle returns a permutation, random.randint(0, k) a value in [0, k] (oracle-modelled)",
                            "entities of dest_set are pairwise distinct"]},
}


def _c15(o, driver, rng):
    import contextlib, io
    import suites_world as sw, monitors_world as mw
    with contextlib.redirect_stdout(io.StringIO()):
        suite = sw.suite_versions(rng, o.tier)
    if driver is not None:
        o.suites.append(sp.run_suite(driver, suite))
    vio, n = mw.monitor_c15(suite)
    o.monitor_stats["impl_monitor_evaluations"] = n
    o.monitor_stats["impl_monitor_violations"] = len(vio)
    o.violations.extend(vio)


def _c11(o, driver, rng):
    import suites_world as sw, monitors_world as mw
    if driver is not None:
        o.suites.append(sp.run_suite(driver, sp.suite_groups(rng, o.tier)))
        o.suites.append(sp.run_suite(driver, sw.suite_connect(rng, o.tier)))
    vio, n = mw.monitor_c11(rng, o.tier)
    o.monitor_stats["impl_monitor_evaluations"] = n
    o.monitor_stats["impl_monitor_violations"] = len(vio)
    o.violations.extend(vio)


PROPERTIES["C15"] = {"run": _c15, "assumptions": [
    "version strings are dot-separated decimal numbers", "in-process transport in the correspondence; the remote proxy shares init_and_get_adapter and always sends time_resolution (modelled, isLocal = false)"]}
PROPERTIES["C11"] = {"run": _c11, "assumptions": [
    "one model per simulator in the correspondence worlds", "groups are identified by their path from the main group (identity)"]}


def replay(pid: str, path: str) -> int:
    """Re-run the case stored in a replay file against the current tree."""
    rp = json.load(open(path))
    print(json.dumps(rp, indent=1)[:3000])
    import checks
    # a replay re-executes the check with the recorded tier and seed
    return checks.run_check(pid, rp.get("tier", "quick"), rp.get("seed", 0))
