"""The scripted simulator of the correspondence harness as a stand-alone process (`python
remote_script_sim.py HOST:PORT`): same behaviour function, no controlled interleaving; logs the
(time, inputs) of every step to a file (C04, transport facet)."""
import json
import os
import sys

sys.path.insert(0, os.path.dirname(os.path.abspath(__file__)))
import mosaik_api_v3  # noqa: E402


class RemoteScriptSim(mosaik_api_v3.Simulator):
    def __init__(self):
        super().__init__({})

    def init(self, sid, time_resolution=1.0, scenario=None, index=0, logfile=None, **kw):
        import sched_corr as scorr
        self.sid = sid
        self.sc = scenario
        self.index = index
        self.logfile = logfile
        self.script = scorr.make_script(scenario, index)
        self.meta = scorr.meta_for(scenario["sims"][index]["type"], None, scorr.declares_set_events(scenario, index))
        self.count = {}
        self.nsteps = 0
        return self.meta

    def create(self, num, model, **kw):
        return [{"eid": str(i), "type": model} for i in range(num)]

    def step(self, time, inputs, max_advance):
        k = self.count.get(time, 0)
        self.count[time] = k + 1
        n = self.nsteps
        self.nsteps += 1
        self.out = self.script(time, k, n)
        with open(self.logfile, "a") as f:
            f.write(json.dumps({"sim": self.index, "time": time, "inputs": inputs}) + "\n")
        return self.out.get("next")

    def get_data(self, outputs):
        d = {}
        for eid, attrs in outputs.items():
            for a in attrs:
                if (eid, a) in self.out.get("out", {}):
                    d.setdefault(eid, {})[a] = self.out["out"][(eid, a)]
        if "out_time" in self.out:
            d["time"] = self.out["out_time"]
        return d


if __name__ == "__main__":
    sys.exit(mosaik_api_v3.start_simulation(RemoteScriptSim()))
