"""Scripted simulator used for fault enumeration (C14); runs in-process or as a subprocess
(`python remote_sim.py HOST:PORT`).  Steps every time unit, outputs attribute 'o'; fails at a
configured request index in a configured way; logs init/finalize to a file."""
import os
import sys

import mosaik_api_v3

META = {"api_version": "3.0", "type": "time-based", "models": {"M": {"public": True, "params": [], "attrs": ["a", "o"]}}}


class FaultSim(mosaik_api_v3.Simulator):
    def __init__(self):
        super().__init__(dict(META))
        self.n = 0

    def _log(self, what):
        with open(self.logfile, "a") as f:
            f.write(f"{what} {self.sid} {os.getpid()}\n")

    def init(self, sid, time_resolution=1.0, logfile=None, fault=None, api=None, typ=None, slow=0, **kw):
        self.slow = slow            # seconds every step takes (a healthy simulator that is busy when another one fails)
        if typ:
            self.meta = dict(self.meta, type=typ)
        self.typ = typ or "time-based"
        if api:
            # an older simulator: mosaik wraps it in adapters (V3ToV2Adapter, below 2.2 also V2ToV1Adapter)
            self.meta = dict(META, api_version=api)
            if api.split(".")[0] != "3":
                self.meta.pop("type", None)
        self.sid = sid
        self.logfile = logfile
        self.fault = fault          # {"index": k, "kind": "raise"|"exit"} or None
        self._log("init")
        return self.meta

    def _request(self, name):
        k = self.n
        self.n += 1
        self._log(f"req:{name}:{k}")
        if self.fault and self.fault["index"] == k:
            if self.fault["kind"] == "raise":
                exc = {"TypeError": TypeError, "KeyError": KeyError, "RuntimeError": RuntimeError}.get(self.fault.get("exc"), ValueError)
                raise exc(f"injected fault in {name} of {self.sid}")
            if self.fault["kind"] == "exit":
                os._exit(3)
            if self.fault["kind"] in ("reset", "close"):
                # the simulator closes its connection without exiting: abortively (RST, SO_LINGER 0) or orderly (FIN);
                # the process lives on for a while
                import socket, struct, time as _t
                for fd in os.listdir("/proc/self/fd"):
                    try:
                        if os.readlink(f"/proc/self/fd/{fd}").startswith("socket:"):
                            sk = socket.socket(fileno=os.dup(int(fd)))
                            if self.fault["kind"] == "reset":
                                sk.setsockopt(socket.SOL_SOCKET, socket.SO_LINGER, struct.pack("ii", 1, 0))
                            sk.close()
                            os.close(int(fd))
                    except OSError:
                        pass
                _t.sleep(0.5)
                os._exit(4)
            if self.fault["kind"] == "sysexit":
                sys.exit(3)
            if self.fault["kind"] == "kbint":
                raise KeyboardInterrupt()
            if self.fault["kind"] == "exit_idle":
                # the process dies shortly AFTER it has answered this request: while mosaik has no request outstanding to it
                import threading
                threading.Timer(0.05, os._exit, (3,)).start()

    def create(self, num, model, **kw):
        return [{"eid": f"E{i}", "type": model} for i in range(num)]

    def setup_done(self):
        self._request("setup_done")

    def step(self, time, inputs, max_advance=None):
        self._request("step")
        if self.slow:
            import time as _t
            _t.sleep(self.slow)
        return None if self.typ == "event-based" else time + 1

    def get_data(self, outputs):
        self._request("get_data")
        return {eid: {a: 1 for a in attrs} for eid, attrs in outputs.items()}

    def finalize(self):
        self._log("finalize")


if __name__ == "__main__":
    sys.exit(mosaik_api_v3.start_simulation(FaultSim()))
