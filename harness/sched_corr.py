"""Scheduler correspondence: the same scenario, behaviours and reply order are run on the real
mosaik scheduler (under the controlled loop) and on the Lean model; the observable events at
every quiescent point are compared."""
from __future__ import annotations

import hashlib
import json
import os
import random
from collections import Counter

import ctl
from ctl import ScriptSim, run_world
from common import HarnessError

ATTRS = ["nt", "tr", "pe", "ev"]
TYPES = ["time-based", "event-based", "hybrid"]
GROUPS = [[], [0], [0, 0], [1], [0, 1]]


def h(*a) -> int:
    return int(hashlib.sha256(repr(a).encode()).hexdigest()[:12], 16)


def declares_set_events(sc: dict, i: int) -> bool:
    """A third of the simulators declare `set_events: True` in their meta data (the documented flag of simulators that may call
    set_event); it changes nothing about what a reply must look like.  Derived from the behaviour seed: part of the scenario."""
    s = sc["sims"][i]
    return bool(s.get("set_events", h(sc.get("beh_seed", 0), s.get("name", i), "set_events") % 3 == 0))


def earlier_initev_call(sc: dict, i: int):
    """For a third of the simulators with an initial event the user first set another (later) initial event and then changed their
    mind: set_initial_event REPLACES the initial schedule, the last call wins.  Part of the scenario (derived from the seed)."""
    s = sc["sims"][i]
    if s.get("init_ev") is None or h(sc.get("beh_seed", 0), s.get("name", i), "initev2") % 3 != 0:
        return None
    return s["init_ev"] + 1 + h(sc.get("beh_seed", 0), s.get("name", i), "initev3") % 3


def meta_for(typ: str, api: str | None = None, set_events: bool = False) -> dict:
    """api: an older API version the simulator reports (mosaik then talks to it through its adapters: no max_advance in
    step(), no setup_done() below 2.2); the explicitly reported type is respected whatever the version."""
    m = {"public": True, "params": [], "attrs": list(ATTRS)}
    if typ == "hybrid":
        m["trigger"] = ["tr"]
        m["non-persistent"] = ["ev"]
    # model P: a parent whose create() returns a child of model M (the grid -> bus pattern); for a hybrid simulator its attribute
    # roles differ from M's on purpose (nt is the trigger, pe the non-persistent output): mosaik must judge a child by its own model
    pm = {"public": True, "params": [], "attrs": list(ATTRS)}
    if typ == "hybrid":
        pm["trigger"] = ["nt"]
        pm["non-persistent"] = ["pe"]
    meta = {"api_version": api or "3.0", "type": typ, "models": {"M": m, "P": pm}}
    if set_events:
        meta["set_events"] = True
    return meta


def desc_line(typ: str) -> str:
    if typ == "hybrid":
        return "0 4 0 1 2 3 1 1 - - 1 3"
    return "0 4 0 1 2 3 - - - -"


def is_trigger(typ: str, attr: int) -> bool:
    return typ == "event-based" or (typ == "hybrid" and attr == 1)


def is_persistent(typ: str, attr: int) -> bool:
    return typ == "time-based" or (typ == "hybrid" and attr != 3)


def token(i: int, n: int, eid: int, attr: int) -> int:
    return ((i * 1000 + n) * 2 + eid) * 4 + attr


# ------------------------------------------------------------------ behaviours

def make_script(sc: dict, i: int):
    s = sc["sims"][i]
    typ = s["type"]
    seed = sc["beh_seed"]
    ident = s.get("name", i)          # identity that survives a change of the start order
    agents_of = [c for c in sc["connects"] if c.get("async") and c["dst"] == i]
    fault = sc.get("fault")

    def script(t, k, n):
        r = h(seed, ident, t, k)
        beh = {}
        if typ == "time-based":
            beh["next"] = t + 1 + r % 3
        elif k == 0 and (r % 4) != 0:
            beh["next"] = t + 1 + (r >> 3) % 3
        out = {}
        settle = (r >> 6) % 4              # event outputs stop after this many sub-steps
        if "loop_len" in sc:
            settle = sc["loop_len"]
        for e in (0, 1):
            for a in (2, 3):
                rr = h(seed, ident, t, k, e, a)
                if is_persistent(typ, a):
                    if not sc.get("sparse_persistent") or rr % 4 != 0:
                        # None is a value like any other: it must replace the remembered one (cache on or off)
                        out[(str(e), ATTRS[a])] = None if (rr >> 8) % 6 == 0 else token(ident, n, e, a)
                elif sc.get("late_result") and (e, a) == (1, 2) and typ != "time-based":
                    # the "result" of a same-time loop: only produced by the last sub-step
                    if k == settle - 1:
                        out[(str(e), ATTRS[a])] = token(ident, n, e, a)
                elif k < settle and (rr % 3 != 0 or "loop_len" in sc):
                    # an event may carry no payload: the value None is still an output
                    out[(str(e), ATTRS[a])] = None if (rr >> 8) % 6 == 0 else token(ident, n, e, a)
        beh["out"] = out
        if typ != "time-based" and sc.get("future_outputs") and (r >> 20) % 4 == 0:
            beh["out_time"] = t + 1 + (r >> 23) % 2
        asyncs = []
        for c in agents_of:
            # the agent asks the controller for data: any mix of connected (cached) and unconnected attributes of its entities
            rg = h(seed, i, t, k, "gd", c["src"], c["seid"], c["sattr"])
            if sc.get("echo_always"):
                # every step: ask for exactly the attribute the async connection carries (so it is in the cache when the cache is on)
                asyncs.append(("get_data", c["src"], {f"S{c['src']}.{c['seid']}": [ATTRS[c["sattr"]]]}))
            elif not sc.get("no_async_get") and rg % 3 == 0:
                req = {}
                for e in (0, 1):
                    for a in (2, 3):
                        if (rg >> (4 + 2 * e + (a - 2))) & 1:
                            req.setdefault(f"S{c['src']}.{e}", []).append(ATTRS[a])
                if req:
                    asyncs.append(("get_data", c["src"], req))
        if sc.get("broadcast_set_data") and agents_of and h(seed, i, t, k, "bc") % 3 != 0:
            # ONE set_data call in which every entity of this agent writes to every controller it is connected to
            # (the example_mas pattern): the loop over the payload returns to a controller after addressing another one
            ctrls = []
            for c in agents_of:
                if (c["src"], c["seid"]) not in ctrls:
                    ctrls.append((c["src"], c["seid"]))
            payload = {}
            for eid in (0, 1):
                # (None is a value like any other: an agent may send it, e.g. to clear a set-point)
                payload[f"S{i}.{eid}"] = {f"S{a}.{ae}": {ATTRS[h(seed, i, t, k, "bca", ci) % 2]:
                                                          (None if h(seed, i, t, k, "bcn", ci, eid) % 5 == 0 else token(i, n, eid, ci % 4) + 500000)}
                                          for ci, (a, ae) in enumerate(ctrls)}
            asyncs.append(("set_data", None, payload))
        for c in ([] if sc.get("broadcast_set_data") else agents_of):
            rr = h(seed, i, t, k, "sd", c["src"])
            if rr % 3 != 0 or sc.get("echo_always"):
                # this simulator (agent) sets data for an entity of the connection's source
                payload = {f"S{i}.{c['deid']}": {f"S{c['src']}.{c['seid']}": {ATTRS[rr % 2]: (None if (rr >> 4) % 5 == 0 else token(i, n, 0, 0) + 500000)}}}
                asyncs.append(("set_data", c["src"], payload))
        for req in sc.get("extra_async", []):
            if req["sim"] == i and req["n"] == n:
                if req["kind"] == "set_data":
                    asyncs.append(("set_data", req["target"], {f"S{i}.0": {f"S{req['target']}.0": {"nt": 777}}}))
                elif req["kind"] == "get_data":
                    asyncs.append(("get_data", req["target"], {f"S{req['target']}.0": ["pe"]}))
                elif req["kind"] == "set_event":
                    asyncs.append(("set_event", req["time"]))
        if asyncs:
            beh["async"] = asyncs
        if fault and fault["sim"] == i and fault["n"] == n:
            kind = fault["kind"]
            if kind == "float":
                beh["next"] = t + 1.5
            elif kind == "str":
                beh["next"] = str(t + 1)
            elif kind == "bool":
                beh["next"] = True
            elif kind == "negative":
                beh["next"] = -1
            elif kind == "equal":
                beh["next"] = t
            elif kind == "past":
                beh["next"] = t - 1
            elif kind == "none":
                beh.pop("next", None)
            elif kind == "out_time_past":
                beh["out_time"] = t - 1
            elif kind == "out_time_zero":
                beh["out_time"] = 0 if t > 0 else -1
            elif kind == "float_integral":
                beh["next"] = float(t + 1)
        return beh
    return script


# ------------------------------------------------------------------ building the real world

def build_from(sc: dict):
    def build(world, controller):
        ents: dict = {}
        sims = sc["sims"]

        def start(i):
            s = sims[i]
            controller.external = [{"sid": f"S{x['sim']}", "clock": x["clock"], "offset": x["offset"], "ticks_per_step": sc["rt"]}
                                   for x in sc.get("external_events", [])]
            ScriptSim.REG[f"S{i}"] = {"ctl": controller, "meta": meta_for(s["type"], s.get("api"), declares_set_events(sc, i)), "script": make_script(sc, i),
                                         "echo": bool(sc.get("echo_get_data"))}
            if s.get("via_parent"):
                # the entities that get connected are the children (model M) of two parents of another model
                ents[i] = [par.children[0] for par in world.start("S", sim_id=f"S{i}").P.create(2)]
            else:
                ents[i] = world.start("S", sim_id=f"S{i}").M.create(2)

        def rec(prefix):
            for i, s in enumerate(sims):
                if list(s["group"]) == prefix:
                    start(i)
            kids = sorted(set(s["group"][len(prefix)] for s in sims
                              if len(s["group"]) > len(prefix) and list(s["group"][:len(prefix)]) == prefix))
            for c in range((max(kids) + 1) if kids else 0):
                with world.group():
                    rec(prefix + [c])
        # simulators must be created in index order for `world.sims` order = model order; groups
        # force a creation order, so scenarios list their simulators in group-tree order
        rec([])
        # adjacent connections between the same two entities with the same options go into ONE connect() call with several
        # attribute pairs (and one initial_data dict), the way scenarios are usually written; the model gets them one by one
        calls = []
        for ci, c in enumerate(sc["connects"]):
            key = (c["src"], c["seid"], c["dst"], c["deid"], c["ts"], c["weak"], bool(c.get("async")))
            pair = (ATTRS[c["sattr"]], ATTRS[c["dattr"]])
            init = {ATTRS[c["sattr"]]: 900000 + ci} if c["init"] else {}
            # (one source attribute per call: initial_data is keyed by the source attribute and applies to every pair that uses it)
            if (sc.get("merge_calls") and calls and calls[-1]["key"] == key and pair[0] not in {p[0] for p in calls[-1]["pairs"]}):
                calls[-1]["pairs"].append(pair)
                calls[-1]["init"].update(init)
            else:
                calls.append({"key": key, "pairs": [pair], "init": dict(init), "c": c})
        for call in calls:
            c = call["c"]
            kw = {}
            if c["ts"]:
                kw["time_shifted"] = c["ts"]
            if c["weak"]:
                kw["weak"] = True
            if call["init"]:
                kw["initial_data"] = call["init"]
            if c.get("async"):
                kw["async_requests"] = True
            world.connect(ents[c["src"]][c["seid"]], ents[c["dst"]][c["deid"]], *call["pairs"], **kw)
        for i, s in enumerate(sims):
            if s.get("init_ev") is not None:
                if earlier_initev_call(sc, i) is not None:
                    world.set_initial_event(f"S{i}", earlier_initev_call(sc, i))      # overridden by the next call: the last one wins
                world.set_initial_event(f"S{i}", s["init_ev"])
    return build


def creation_order(sims):
    """Order in which build_from starts the simulators (group-tree order)."""
    order = []

    def rec(prefix):
        for i, s in enumerate(sims):
            if list(s["group"]) == prefix:
                order.append(i)
        kids = sorted(set(s["group"][len(prefix)] for s in sims
                          if len(s["group"]) > len(prefix) and list(s["group"][:len(prefix)]) == prefix))
        for c in range((max(kids) + 1) if kids else 0):
            rec(prefix + [c])
    rec([])
    return order


def normalise(sc: dict) -> dict:
    """Renumber simulators into creation order (so index order = world.sims order)."""
    order = creation_order(sc["sims"])
    if order == list(range(len(order))):
        return sc
    pos = {old: new for new, old in enumerate(order)}
    sc = json.loads(json.dumps(sc))
    sc["sims"] = [sc["sims"][o] for o in order]
    for c in sc["connects"]:
        c["src"], c["dst"] = pos[c["src"]], pos[c["dst"]]
    if sc.get("fault"):
        sc["fault"]["sim"] = pos[sc["fault"]["sim"]]
    if sc.get("slow") is not None:
        sc["slow"] = pos[sc["slow"]]
    for r in sc.get("external_events", []):
        r["sim"] = pos[r["sim"]]
    for r in sc.get("extra_async", []):
        r["sim"] = pos[r["sim"]]
        if "target" in r:
            r["target"] = pos[r["target"]]
    return sc


# ------------------------------------------------------------------ canonical strings

def s_list(l):
    return f"{len(l)}" + ("" if not l else " " + " ".join(map(str, l)))


def s_val(v):
    return "-" if v is None else str(v)


def flat_inputs(inputs):
    items = []
    for eid, attrs in inputs.items():
        for attr, srcs in attrs.items():
            for src, val in srcs.items():
                ssid, seid = src.split(".", 1)
                items.append((int(eid), ATTRS.index(attr), int(ssid[1:]), int(seid), val))
    items.sort(key=lambda x: x[:4])
    return items


def s_event(ev):
    if ev[0] == "begin":
        _, sid, tiers, inputs, m = ev[:5]
        items = flat_inputs(inputs)
        return (f"begin {sid[1:]} {':'.join(map(str, tiers))} {m} {len(items)}" +
                "".join(f" {e} {a} {s} {se} {s_val(v)}" for e, a, s, se, v in items))
    if ev[0] == "done":
        return f"done {ev[1][1:]}"
    if ev[0] == "rtwarn":
        return "rtwarn"
    if ev[0] == "event-ignored":
        return "event-ignored"
    return None


def canon_obs(status, events):
    strs = sorted(x for x in (s_event(e) for e in events) if x)
    return status + "".join(" | " + x for x in strs)


def reply_lines(action):
    """Model request line(s) for one released reply."""
    _, sid, kind, reply = action
    p = sid[1:]
    if kind == "step":
        if reply is None:
            return [f"act step {p} none"]
        if isinstance(reply, bool):
            return [f"act step {p} int {int(reply)}"]
        if isinstance(reply, int):
            return [f"act step {p} int {reply}"]
        return [f"act step {p} bad"]
    d = reply
    t = d.get("time")
    items = [(int(eid), ATTRS.index(a), v) for eid, attrs in d.items() if eid != "time" for a, v in attrs.items()]
    return [f"act data {p} {'-' if t is None else t} {len(items)}" + "".join(f" {e} {a} {s_val(v)}" for e, a, v in items)]


def async_lines(ev):
    """Model lines of one asynchronous request.  A set_data call that addresses several simulators is the sequence of
    its per-simulator parts (mosaik walks the payload and checks / writes destination by destination)."""
    if ev[0] == "set_data":
        _, sid, _target, payload = ev
        per_target = {}
        for src_full, dests in payload.items():
            ssid, seid = src_full.split(".", 1)
            for dest_full, attrs in dests.items():
                dsid, deid = dest_full.split(".", 1)
                for a, v in attrs.items():
                    per_target.setdefault(int(dsid[1:]), []).append((int(deid), ATTRS.index(a), int(ssid[1:]), int(seid), v))
        return [f"act setdata {sid[1:]} {target} {len(items)}" + "".join(f" {e} {a} {s} {se} {s_val(v)}" for e, a, s, se, v in items)
                for target, items in per_target.items()]
    if ev[0] == "get_data_req":
        return [f"act getdata {ev[1][1:]} {ev[2]}"]
    if ev[0] == "set_event":
        return [f"act setevent {ev[1][1:]} {ev[2]}"]
    if ev[0] == "get_data_res":
        # the data path of an accepted get_data: requested ports, the other simulator's answer to the forwarded part
        _, sid, target, req, _res, fwd = ev
        ports = [(int(full.split(".", 1)[1]), ATTRS.index(a)) for full, attrs in req.items() for a in attrs]
        direct = [(int(eid), ATTRS.index(a), v) for _outs, d in fwd for eid, vals in d.items() if eid != "time" for a, v in vals.items()]
        return [f"aget {sid[1:]} {target} {len(ports)}" + "".join(f" {e} {a}" for e, a in ports) +
                f" {len(direct)}" + "".join(f" {e} {a} {s_val(v)}" for e, a, v in direct)]
    return []


def async_expect(ev):
    """What the implementation showed for the lines of `async_lines(ev)` (None = nothing to compare)."""
    if ev[0] == "get_data_res":
        _, sid, target, req, res, fwd = ev
        missing = sorted({(int(eid), ATTRS.index(a)) for outs, _d in fwd for eid, attrs in outs.items() for a in attrs})
        answer = sorted((int(full.split(".", 1)[1]), ATTRS.index(a), v) for full, vals in res.items() for a, v in vals.items())
        return ["aget: missing [" + " ".join(f"{e}.{a}" for e, a in missing) + "] answer [" +
                " ".join(f"{e}.{a}={'None' if v is None else v}" for e, a, v in answer) + "]"]
    return [None] * len(async_lines(ev))


def build_lines(sc):
    lines = [f"w.new {int(sc['cache'])}"]
    for s in sc["sims"]:
        lines.append(f"w.start {s['type']} {s_list(s['group'])} {desc_line(s['type'])}")
    for ci, c in enumerate(sc["connects"]):
        lines.append(f"w.connect {c['src']} {c['seid']} {c['dst']} {c['deid']} 1 {c['sattr']} {c['dattr']} {int(bool(c.get('async')))} "
                     f"{c['ts']} {int(c['weak'])} " + (f"1 {c['sattr']} {900000 + ci}" if c["init"] else "0"))
    for i, s in enumerate(sc["sims"]):
        if s.get("init_ev") is not None:
            if earlier_initev_call(sc, i) is not None:
                lines.append(f"w.initev {i} {earlier_initev_call(sc, i)}")
            lines.append(f"w.initev {i} {s['init_ev']}")
    return lines


def run_line(sc):
    rt = sc.get("rt")
    return (f"run {sc['until']} {sc['max_loop']} {int(sc['lazy'])} {'-' if rt is None else rt} {int(bool(sc.get('rt_strict')))} 0")


# ------------------------------------------------------------------ the D7 class

def common_len(a, b):
    n = 0
    while n < len(a) and n < len(b) and a[n] == b[n]:
        n += 1
    return n


def nonuniform_cutoff(sc: dict, triggers_only: bool) -> bool:
    """True iff two paths between the same pair of simulators (or two cycles through one simulator)
    have different cutoffs, i.e. one of them leaves the common group and re-enters it (finding D7)."""
    n = len(sc["sims"])
    INF = 10 ** 6
    lo = [[INF] * n for _ in range(n)]      # min over paths of the path's cutoff
    hi = [[0] * n for _ in range(n)]        # max over paths of the path's cutoff
    for c in sc["connects"]:
        if triggers_only and not is_trigger(sc["sims"][c["dst"]]["type"], c["dattr"]):
            continue
        cut = common_len(sc["sims"][c["src"]]["group"], sc["sims"][c["dst"]]["group"]) + 1
        a, b = c["src"], c["dst"]
        lo[a][b] = min(lo[a][b], cut)
        hi[a][b] = max(hi[a][b], cut)
    for k in range(n):
        for i in range(n):
            for j in range(n):
                if lo[i][k] < INF and lo[k][j] < INF:
                    lo[i][j] = min(lo[i][j], min(lo[i][k], lo[k][j]))
                    hi[i][j] = max(hi[i][j], min(hi[i][k], hi[k][j]))
    # iterate to a fixpoint (paths through repeated vertices)
    for _ in range(n):
        for k in range(n):
            for i in range(n):
                for j in range(n):
                    if lo[i][k] < INF and lo[k][j] < INF:
                        lo[i][j] = min(lo[i][j], min(lo[i][k], lo[k][j]))
                        hi[i][j] = max(hi[i][j], min(hi[i][k], hi[k][j]))
    return any(lo[i][j] < INF and lo[i][j] != hi[i][j] for i in range(n) for j in range(n))


# ------------------------------------------------------------------ one comparison

def run_impl(sc: dict, sched_seed: int):
    rng = random.Random(sched_seed)

    def chooser(opts):
        slow = sc.get("slow")
        if slow is not None and len(opts) > 1 and rng.random() < 0.85:
            # a slow simulator: its replies are released only when nobody else has one pending (most of the time)
            fast = [i for i, o in enumerate(opts) if o[0] != f"S{slow}"]
            if fast:
                return rng.choice(fast)
        if sc.get("instant"):
            # simulators answer instantly: real time passes only when no reply is pending
            real = [i for i, o in enumerate(opts) if o != ("clock", "tick")]
            return rng.choice(real) if real else len(opts) - 1
        return rng.randrange(len(opts))
    outcome, c = run_world(build_from(sc), sc["until"], chooser, lazy=sc["lazy"], cache=sc["cache"],
                           max_loop_iterations=sc["max_loop"], rt_factor=sc.get("rt_raw", sc.get("rt")), rt_strict=bool(sc.get("rt_strict")),
                           time_resolution=sc.get("tres", 1.0), debug=bool(sc.get("debug")))
    if c.deadlock:
        outcome = "deadlock"
    c.outcome = outcome
    return outcome, c


def compare(driver, sc: dict, sched_seed: int):
    """Returns (agree: bool, detail dict, controller)."""
    outcome, c = run_impl(sc, sched_seed)
    if nonuniform_cutoff(sc, False):
        # finding D7: delays of different cutoff get compared and the closures' results depend on the order in which
        # Python's set hands out the simulators (object addresses) - there is no stable behaviour to compare with
        return True, {"outcome": outcome, "skipped": "D7-reentrant-paths"}, c
    lines = build_lines(sc)
    nbuild = len(lines)
    expected = []          # (line index, expected answer or None)
    if outcome == "ScenarioError build":
        # the model must reject one of the connects
        answers = driver.ask(lines)
        agree = any(a == "ScenarioError" for a in answers)
        return agree, {"impl": outcome, "model": answers, "phase": "build"}, c
    lines.append(run_line(sc))
    acts = c.actions
    if not acts:
        # run() failed before the first idle point (cycle check etc.)
        answers = driver.ask(lines)
        m = answers[-1]
        want = outcome.replace("failed ", "")
        agree = m.startswith(want.split(" ")[0]) and (("cycle" in m) == ("cycle" in want))
        return agree, {"impl": outcome, "model": m, "phase": "run"}, c
    impl_obs = []
    n_actions = len(acts)
    for ai, (action, events) in enumerate(acts):
        last = ai == n_actions - 1
        status = "running"
        if last:
            status = outcome
        if action[0] == "reply":
            # asynchronous requests the simulator made after the release come first in the block
            pre = [l for e in events for l in async_lines(e)]
            pre_want = [w for e in events for w in async_expect(e)]
            refused = status.startswith("failed ScenarioError async-refused") or status.startswith("failed SimulationError event-not-rt")
            for j, l in enumerate(pre):
                lines.append(l)
                if refused and j == len(pre) - 1:
                    # the request raised inside the simulator's step: the step reply never reaches mosaik
                    impl_obs.append(canon_obs(status, [e for e in events if e[0] == "begin" or e[0] == "done"]))
                elif l.startswith("act setevent"):
                    # one warning per ignored request: the block's `event-ignored` records are handed out in order
                    t_req = int(l.split()[3])
                    ign = [e for e in events if e[0] == "event-ignored"][:1] if t_req >= sc["until"] else []
                    impl_obs.append(canon_obs("running", ign))
                    for e in ign:
                        events = list(events)
                        events.remove(e)
                else:
                    impl_obs.append(pre_want[j])
            if refused and pre:
                continue
            lines.extend(reply_lines(action))
        elif action[0] == "tick":
            lines.append(f"act tick {int(round(action[1]))}")
        elif action[0] == "extevent":
            lines.append(f"act setevent {action[1][1:]} {action[2]}")
        elif action[0] == "deadlock":
            continue
        impl_obs.append(canon_obs(status, [e for e in events if e[0] != "set_data"]))
        if action[0] == "start" and sc.get("rt") is None:
            # the configuration must satisfy the hypotheses of the scheduler theorems
            lines.append("wf")
            impl_obs.append("wf")
            # ... and of the liveness theorems: shapes always; a flat (group-less) scenario must be `Flat` with the computed ranking
            lines.append("wfx")
            impl_obs.append("wfx:flat" if not any(x["group"] for x in sc["sims"]) else "wfx:grouped")
    # a deadlock is reported on the last real action
    if c.deadlock and impl_obs:
        for j in range(len(impl_obs) - 1, -1, -1):
            if impl_obs[j] is not None:
                impl_obs[j] = impl_obs[j].replace("running", "deadlock", 1)
                break
    answers = driver.ask(lines)
    model_obs = answers[nbuild:]
    legacy = {i for i, x in enumerate(sc["sims"]) if x.get("api")}
    bad = [a for a in answers[:nbuild] if a != "ok"]
    if bad:
        return False, {"impl": "built", "model": answers[:nbuild], "phase": "build"}, c
    for j, (want, got) in enumerate(zip(impl_obs, model_obs)):
        if want is None:
            continue
        if want.startswith("aget: "):
            if got != want[6:]:
                return False, {"phase": "async get_data", "index": j, "request": lines[nbuild + j], "impl": want[6:], "model": got,
                               "prefix": lines[nbuild:nbuild + j]}, c
            continue
        cm, ci = canon_model(got), canon_impl(want)
        if legacy:
            # a simulator of an older API version is not told max_advance
            cm = " | ".join(_re.sub(r"^(begin (\d+) \S+) \d+ ", lambda mm: (mm.group(1) + " None ") if int(mm.group(2)) in legacy else mm.group(0), part)
                            for part in cm.split(" | "))
        if want.startswith("wfx:"):
            ok = got.startswith("shape=true") and (want == "wfx:grouped" or (got.endswith("flat=true") and "push=true" in got and "pull=true" in got))
            if ok or nonuniform_cutoff(sc, True):
                sc["_flat_hyp"] = got.endswith("flat=true")
                # hypotheses of C03.begin_push_refines_spec for ALL connections of the scenario (flat, nothing cached, every
                # pushed connection the only writer of its input key)
                sc["_push_hyp"] = got.endswith("flat=true") and "keys=true" in got and "push=true" in got
                continue
            return False, {"phase": "step", "index": j, "request": lines[nbuild + j], "impl": want, "model": got,
                           "prefix": lines[nbuild:nbuild + j]}, c
        if want == "wf" and got == "not-wf" and nonuniform_cutoff(sc, True):
            # outside the theorems' hypotheses for the recorded reason (finding D7); behaviour is still compared
            sc["_d7"] = True
            continue
        if cm.startswith("failed") and ci.startswith("failed"):
            # which other simulators had already begun a step in the failing batch depends on the
            # task order inside the batch; only the error itself is compared
            cm, ci = cm.split(" | ")[0], ci.split(" | ")[0]
            if cm.startswith("failed SimulationError loop") and ci.startswith("failed SimulationError loop"):
                cm = ci = "failed SimulationError loop"   # several simulators can hit the guard in one batch
        if cm != ci:
            return False, {"phase": "step", "index": j, "request": lines[nbuild + j], "impl": want, "model": got,
                           "prefix": lines[nbuild:nbuild + j]}, c
    return True, {"actions": len(impl_obs), "outcome": outcome}, c


def e_before_stepped(e, events):
    return True


import re as _re


def canon_model(s: str) -> str:
    s = _re.sub(r"rtwarn \d+", "rtwarn", s)
    s = _re.sub(r"event-ignored \d+", "event-ignored", s)
    s = _re.sub(r"RuntimeError too-slow \d+", "RuntimeError too-slow", s)
    if " | " in s:
        head, *evs = s.split(" | ")
        s = " | ".join([head] + sorted(evs))
    if s.startswith("ScenarioError cycle"):
        return "failed ScenarioError cycle"
    if s.startswith("AssertionError closure"):
        return "failed AssertionError closure"
    # the simulator id of a progress-backwards assertion is not part of the Python message
    if s.startswith("failed AssertionError progress-backwards"):
        parts = s.split(" | ")
        parts[0] = "failed AssertionError progress-backwards"
        return " | ".join(parts)
    return s


def canon_impl(s: str) -> str:
    return s


# ------------------------------------------------------------------ generator

def gen_scenario(rng: random.Random, groups: bool = True, async_req: bool = False, faults: bool = False, rt: bool = False) -> dict:
    n = rng.choice([2, 2, 3, 3, 3, 4, 4, 5]) if not rt else rng.choice([2, 2, 2, 3])
    sims = []
    use_groups = groups and rng.random() < 0.6
    for i in range(n):
        typ = rng.choice(TYPES)
        grp = rng.choice(GROUPS if use_groups else [[]])
        sims.append({"type": typ, "group": grp,
                     # (set_initial_event on a time-based / hybrid simulator replaces its initial step at 0)
                     "init_ev": rng.choice([None, None, 0, 1, 2]) if typ == "event-based" else (rng.choice([1, 2]) if rng.random() < 0.06 else None)})
    connects = []
    used = set()
    for _ in range(rng.randint(1, 2 * n)):
        if rng.random() < 0.93 and n >= 2:
            s, d = rng.sample(range(n), 2)
        else:
            s = d = rng.randrange(n)
        cl = 0
        gs, gd = sims[s]["group"], sims[d]["group"]
        while cl < len(gs) and cl < len(gd) and gs[cl] == gd[cl]:
            cl += 1
        kinds = ["plain", "plain", "plain", "ts1", "ts1", "ts2"] + (["weak", "weak", "weak"] if cl > 0 else (["weak"] if rng.random() < 0.05 else []))
        kind = rng.choice(kinds)
        if kind == "plain" and s > d and rng.random() < 0.85:
            s, d = d, s          # mostly acyclic: plain connections go "forward"
        sattr = rng.choice([2, 3])
        dattr = rng.choice([0, 1])
        seid, deid = rng.randrange(2), rng.randrange(2)
        if connects and rng.random() < 0.3:
            # several sources feeding the same destination attribute
            prev = rng.choice(connects)
            if prev["src"] != s:
                d, deid, dattr = prev["dst"], prev["deid"], prev["dattr"]
                kind = "plain" if kind == "weak" else kind
                if s == d and rng.random() < 0.9:
                    continue
        key = (s, seid, d, deid, dattr)
        if key in used:
            continue
        used.add(key)
        ts = {"ts1": 1, "ts2": 2}.get(kind, 0)
        weak = kind == "weak"
        need_init = (ts or weak) and not is_trigger(sims[d]["type"], dattr)
        init = need_init if rng.random() < 0.95 else not need_init
        if (ts or weak) and rng.random() < 0.3:
            init = True
        c = {"src": s, "seid": seid, "dst": d, "deid": deid, "sattr": sattr, "dattr": dattr, "ts": ts, "weak": weak,
             "init": bool(init), "async": False}
        if async_req and (kind == "plain" or (ts and rng.random() < 0.5)) and s != d and rng.random() < 0.5:
            c["async"] = True          # also together with a time shift: the async registration then decides the wait, not the shift
        connects.append(c)
    sc = {"sims": sims, "connects": connects, "until": rng.randint(2, 6),
          "max_loop": rng.choice([2, 3, 4, 100]) if use_groups else 100,
          "lazy": rng.random() < 0.5, "cache": rng.random() < 0.5, "beh_seed": rng.randrange(10 ** 9),
          "sparse_persistent": rng.random() < 0.2, "future_outputs": rng.random() < 0.3}
    if rt:
        # (rt_factor, time_resolution) as given to mosaik; "rt" = their product = clock ticks per step (the model's parameter)
        raw, tres = rng.choice([(1, 1.0), (2, 1.0), (3, 1.0), (2, 0.5), (4, 0.5), (1, 2.0), (0.5, 2.0), (1.5, 2.0)])
        sc["rt_raw"], sc["tres"] = raw, tres
        sc["rt"] = int(raw * tres)
        sc["rt_strict"] = rng.random() < 0.2
        sc["instant"] = rng.random() < 0.4
        sc["future_outputs"] = False
        if rng.random() < 0.5:
            sc["extra_async"] = [{"sim": rng.randrange(n), "n": rng.randrange(0, 3), "kind": "set_event",
                                  "time": rng.choice([1, 2, 3, 4, sc["until"], sc["until"] + 2])}]
            # the same event requested again (in the same or a later step), and an earlier one in between: the repeat must not
            # give a second step
            first = sc["extra_async"][0]
            if rng.random() < 0.4:
                # events that reach a simulator from outside while it is idle (not from within step()): at a clock value, for the
                # period that is running then or a later one
                f = sc["rt"]
                evs = []
                for _ in range(rng.choice([1, 1, 2])):
                    clock = rng.randrange(0, f * sc["until"])
                    evs.append({"sim": rng.randrange(n), "clock": clock, "offset": rng.choice([0, 0, 0, 1, 2])})
                sc["external_events"] = sorted(evs, key=lambda x: x["clock"])
            if rng.random() < 0.5:
                sc["extra_async"].append(dict(first, n=first["n"] + rng.choice([0, 0, 1])))
                if rng.random() < 0.5 and first["time"] > 1:
                    sc["extra_async"].insert(0, dict(first, time=rng.randrange(1, first["time"])))
    if rng.random() < 0.3 and connects:
        # one more attribute pair on an existing connection, made in the same connect() call
        k = rng.randrange(len(connects))
        c0 = connects[k]
        c1 = dict(c0)
        c1["sattr"] = 5 - c0["sattr"]            # the other output attribute (2 <-> 3)
        c1["dattr"] = 1 - c0["dattr"]            # ... into the other input attribute (one input key per connection)
        need_init = (c1["ts"] or c1["weak"]) and not is_trigger(sims[c1["dst"]]["type"], c1["dattr"])
        c1["init"] = bool(need_init)
        key1 = (c1["src"], c1["seid"], c1["dst"], c1["deid"], c1["dattr"])
        if key1 not in used:
            used.add(key1)
            connects.insert(k + 1, c1)
            sc["merge_calls"] = True
    if not rt and rng.random() < 0.15:
        sc["debug"] = True          # World(debug=True): scheduler.step is wrapped to record the execution graph; behaviour must not change
    if rng.random() < 0.25:
        for x in sims:
            if rng.random() < 0.5:
                x["via_parent"] = True      # its connected entities are children of entities of another model
    if not rt and rng.random() < 0.2:
        # some simulators report an older API version: mosaik drives them through its adapters
        for x in sims:
            if rng.random() < 0.5:
                x["api"] = rng.choice(["2.0", "2.2", "2.2"])
    if async_req and rng.random() < 0.5:
        # agents whose set_data values are computed from what their last get_data returned (a deterministic simulator is a
        # function of everything it observes, the answers to its requests included)
        sc["echo_get_data"] = True
    if async_req and rng.random() < 0.25:
        a, b = rng.sample(range(n), 2)
        sc["extra_async"] = [{"sim": a, "n": rng.randrange(0, 3), "kind": rng.choice(["set_data", "get_data"]), "target": b}]
    if faults and rng.random() < 0.8:
        sc["fault"] = {"sim": rng.randrange(n), "n": rng.randrange(0, 4),
                       "kind": rng.choice(["float", "str", "bool", "negative", "equal", "past", "none", "out_time_past", "out_time_zero",
                                           "out_time_zero", "float_integral"])}
        tb = [i for i in range(n) if sims[i]["type"] == "time-based"]
        if tb and rng.random() < 0.15:
            # the one reply that is only wrong for one simulator type: a time-based simulator announcing no next step
            # (whatever else its meta data declares, e.g. set_events)
            sc["fault"] = {"sim": rng.choice(tb), "n": rng.randrange(0, 3), "kind": "none"}
            sc["sims"][sc["fault"]["sim"]]["set_events"] = rng.random() < 0.5
    return normalise(sc)


def gen_async_echo_scenario(rng: random.Random) -> dict:
    """A controller whose measurement goes to an agent over an async_requests connection; the agent asks for that measurement with
    get_data in every step and sends back, with set_data, a value computed from the answer (a deterministic simulator is a function
    of everything it observes).  What the controller then receives must not depend on cache / lazy / debug / schedule."""
    a_type = rng.choice(["time-based", "time-based", "hybrid"])
    b_type = rng.choice(["time-based", "hybrid"])
    sims = [{"type": a_type, "group": [], "init_ev": None}, {"type": b_type, "group": [], "init_ev": None}]
    connects = [{"src": 0, "seid": rng.randrange(2), "dst": 1, "deid": rng.randrange(2), "sattr": 2, "dattr": 0, "ts": 0, "weak": False,
                 "init": False, "async": True}]
    if rng.random() < 0.4:
        sims.append({"type": "time-based", "group": [], "init_ev": None})       # a bystander that makes the schedule richer
    sc = {"sims": sims, "connects": connects, "until": rng.randint(4, 6), "max_loop": 100, "lazy": rng.random() < 0.5,
          "cache": rng.random() < 0.5, "beh_seed": rng.randrange(10 ** 9), "sparse_persistent": False, "future_outputs": False,
          "echo_get_data": True, "echo_always": True}
    return normalise(sc)


def gen_future_shift_scenario(rng: random.Random) -> dict:
    """Events dated into the future over time-shifted connections: an event-based / hybrid producer whose outputs may carry a later
    output time, pushed over connections with shift 1-2 into consumers that step at every time: the due time is output time +
    shift, neither earlier (step time + shift) nor later."""
    p_type = rng.choice(["hybrid", "hybrid", "event-based"])
    sims = [{"type": p_type, "group": [], "init_ev": 0 if p_type == "event-based" else None}]
    connects = []
    for _ in range(rng.choice([1, 2])):
        c_type = rng.choice(["time-based", "hybrid", "event-based"])
        sims.append({"type": c_type, "group": [], "init_ev": None})
        d = len(sims) - 1
        ts = rng.choice([1, 1, 2])
        dattr = 1 if c_type != "time-based" else 0
        connects.append({"src": 0, "seid": rng.randrange(2), "dst": d, "deid": rng.randrange(2), "sattr": 3, "dattr": dattr, "ts": ts,
                         "weak": False, "init": False, "async": False})
        if rng.random() < 0.4:
            connects.append({"src": 0, "seid": 0, "dst": d, "deid": 0, "sattr": 2, "dattr": 0, "ts": ts, "weak": False, "init": True, "async": False})
    if p_type == "event-based" or rng.random() < 0.5:
        # keep the producer going: a clock that triggers it
        sims.append({"type": "time-based", "group": [], "init_ev": None})
        connects.append({"src": len(sims) - 1, "seid": 0, "dst": 0, "deid": 1, "sattr": 2, "dattr": 1, "ts": 0, "weak": False, "init": False, "async": False})
    sc = {"sims": sims, "connects": connects, "until": rng.randint(4, 6), "max_loop": 100, "lazy": rng.random() < 0.5, "cache": rng.random() < 0.3,
          "beh_seed": rng.randrange(10 ** 9), "sparse_persistent": False, "future_outputs": True}
    return normalise(sc)


def gen_multi_shift_scenario(rng: random.Random) -> dict:
    """One producer whose persistent output is read over connections with DIFFERENT time shifts (one of them >= 2, the only one with
    initial data; the others plain or shift 1 into a trigger input), made in either order: how long a cached value must be kept
    depends on the largest shift, whichever connection was made last."""
    p_type = rng.choice(["time-based", "time-based", "hybrid"])
    sims = [{"type": p_type, "group": [], "init_ev": None}]
    conns = []
    big = rng.choice([2, 2, 3])
    sims.append({"type": rng.choice(["time-based", "hybrid"]), "group": [], "init_ev": None})
    conns.append({"src": 0, "seid": rng.randrange(2), "dst": 1, "deid": rng.randrange(2), "sattr": 2, "dattr": 0, "ts": big, "weak": False,
                  "init": True, "async": False})
    for _ in range(rng.choice([1, 1, 2])):
        c_type = rng.choice(["time-based", "hybrid", "hybrid"])
        sims.append({"type": c_type, "group": [], "init_ev": None})
        d = len(sims) - 1
        if c_type == "hybrid" and rng.random() < 0.5:
            conns.append({"src": 0, "seid": rng.randrange(2), "dst": d, "deid": rng.randrange(2), "sattr": 2, "dattr": 1, "ts": 1, "weak": False,
                          "init": False, "async": False})
        else:
            conns.append({"src": 0, "seid": rng.randrange(2), "dst": d, "deid": rng.randrange(2), "sattr": 2, "dattr": 0, "ts": 0, "weak": False,
                          "init": False, "async": False})
    if rng.random() < 0.5:
        conns.reverse()
    if rng.random() < 0.3:
        # the second reader lives in the consumer of the long shift itself (two connections between one pair)
        # (into the OTHER entity: one connection per input key, the assumption of the data-flow monitor)
        long_deid = next(c["deid"] for c in conns if c["dst"] == 1 and c["init"])
        conns.append({"src": 0, "seid": 0, "dst": 1, "deid": 1 - long_deid, "sattr": 2, "dattr": 0, "ts": 0, "weak": False, "init": False, "async": False})
    sc = {"sims": sims, "connects": conns, "until": rng.randint(5, 7), "max_loop": 100, "lazy": rng.random() < 0.5, "cache": rng.random() < 0.8,
          "beh_seed": rng.randrange(10 ** 9), "sparse_persistent": False, "future_outputs": False}
    return normalise(sc)


def gen_mas_scenario(rng: random.Random) -> dict:
    """Multi-agent pattern (examples/example_mas): 1-3 controllers, 1-2 agent simulators connected to them with
    async_requests=True; every agent entity writes to every controller in ONE set_data call per step."""
    nc, na = rng.choice([1, 2, 2, 3]), rng.choice([1, 1, 2])
    sims = [{"type": rng.choice(["time-based", "time-based", "hybrid"]), "group": [], "init_ev": None} for _ in range(nc)]
    sims += [{"type": rng.choice(["time-based", "time-based", "hybrid", "event-based"]), "group": [], "init_ev": None} for _ in range(na)]
    connects = []
    for b in range(nc, nc + na):
        for a in range(nc):
            if a == 0 or rng.random() < 0.85:
                connects.append({"src": a, "seid": rng.randrange(2), "dst": b, "deid": rng.randrange(2), "sattr": 2, "dattr": rng.choice([0, 1]),
                                 "ts": 0, "weak": False, "init": False, "async": True})
    if rng.random() < 0.4:
        # a time-shifted data connection controller -> agent registered BEFORE the async one: the agent must still wait for the
        # controller's step of the same time (the async registration replaces the pair's input delay)
        b = rng.randrange(nc, nc + na)
        shifted = {"src": 0, "seid": rng.randrange(2), "dst": b, "deid": rng.randrange(2), "sattr": 2, "dattr": 0, "ts": rng.choice([1, 2]),
                   "weak": False, "init": True, "async": False}
        if rng.random() < 0.5:
            connects.insert(0, shifted)
        else:
            connects.append(shifted)       # ... or AFTER it: the pair's input delay stays the minimum (0), whichever call came last
    if rng.random() < 0.4:
        sims.append({"type": "time-based", "group": [], "init_ev": None})      # a bystander feeding a controller the ordinary way
        connects.append({"src": len(sims) - 1, "seid": 0, "dst": 0, "deid": 1, "sattr": 3, "dattr": 0, "ts": 0, "weak": False, "init": False,
                         "async": False})
    sc = {"sims": sims, "connects": connects, "until": rng.randint(3, 6), "max_loop": 100,
          "lazy": rng.random() < 0.5, "cache": rng.random() < 0.5, "beh_seed": rng.randrange(10 ** 9),
          "sparse_persistent": False, "future_outputs": False, "broadcast_set_data": True}
    return normalise(sc)


def gen_clean_scenario(rng: random.Random, **kw) -> dict:
    """A scenario outside every known data-flow finding class (rejection sampling; about one in five is)."""
    import monitors_sched as ms
    for _ in range(200):
        sc = gen_scenario(rng, **kw)
        sc["sparse_persistent"] = False
        if ms.c03_class(sc) is None:
            return sc
    return sc


def gen_group_mix_scenario(rng: random.Random) -> dict:
    """A same-time (weak) loop in a group together with simulators that see it from different sides: a monitor INSIDE the
    group that receives the loop's events (with their sub-step) and is also fed by a time-based simulator outside the group
    (sub-step 0), the loop itself fed by the outside simulator, an observer outside; events may be dated to the next time.
    Steps for the same time and a smaller sub-step than the one a simulator is waiting for, from unrelated sources."""
    g = rng.choice([[0], [0], [0, 0]])
    k = rng.choice([2, 2, 3])
    late = rng.random() < 0.6
    sims = [{"type": "event-based" if late else rng.choice(["event-based", "hybrid"]), "group": list(g), "init_ev": None} for _ in range(k)]
    if sims[0]["type"] == "event-based":
        sims[0]["init_ev"] = rng.choice([0, 0, 1])
    connects = []
    def conn(a, b, weak=False, ts=0, sattr=3, dattr=1):
        return {"src": a, "seid": rng.randrange(2), "dst": b, "deid": rng.randrange(2), "sattr": sattr, "dattr": dattr, "ts": ts,
                "weak": weak, "init": False, "async": False}
    for i in range(k):
        connects.append(conn(i, (i + 1) % k, weak=(i == k - 1)))
    n = k
    outside = None
    feeds_monitor = False
    if rng.random() < 0.9:
        sims.append({"type": "time-based", "group": [], "init_ev": None})      # outside, slow or fast
        outside = n
        n += 1
        if rng.random() < 0.5:
            connects.append(conn(outside, 0, sattr=2))                          # feeds the loop
    if rng.random() < 0.9:
        sims.append({"type": rng.choice(["event-based", "event-based", "hybrid"]), "group": list(g), "init_ev": None})   # monitor inside the group
        mon = n
        n += 1
        c = conn(rng.randrange(k), mon)
        if late:
            c["seid"], c["sattr"] = 1, 2          # the loop's late "result" (see make_script)
        connects.append(c)
        if outside is not None and rng.random() < 0.9:
            connects.append(conn(outside, mon, sattr=2))
            feeds_monitor = True
    if rng.random() < 0.3:
        sims.append({"type": "event-based", "group": list(g[:-1]), "init_ev": None})      # observer one level up
        connects.append(conn(rng.randrange(k), n))
        n += 1
    if rng.random() < 0.4:
        # a consumer in a SIBLING group of the loop's group (distinct groups are distinct: it shares no sub-time with the loop and
        # must see the loop member's LAST sub-step of a time, whatever the connection carries: a measurement or the events)
        sib = list(g[:-1]) + [1]
        typ = rng.choice(["time-based", "time-based", "event-based", "hybrid"])
        sims.append({"type": typ, "group": sib, "init_ev": None})
        src = rng.randrange(k)
        if typ == "event-based" or (typ == "hybrid" and rng.random() < 0.5):
            connects.append(conn(src, n))
        else:
            connects.append(conn(src, n, sattr=2, dattr=0))
        n += 1
    ml = rng.choice([3, 4, 100])
    sc = {"sims": sims, "connects": connects, "until": rng.randint(3, 5), "max_loop": ml,
          "lazy": rng.random() < 0.5, "cache": rng.random() < 0.5, "beh_seed": rng.randrange(10 ** 9),
          "sparse_persistent": False, "future_outputs": rng.random() < 0.4, "loop_len": rng.choice([2, 2, 3]) if late else rng.choice([1, 2, 2, 3]),
          "late_result": late}
    if feeds_monitor and rng.random() < 0.5:
        # the outside feeder answers late: the monitor is first scheduled by the loop (a positive sub-step), then for sub-step 0
        sc["slow"] = outside
    return normalise(sc)


def gen_ahead_scenario(rng: random.Random) -> dict:
    """Producers far ahead of a busy consumer: two or three time-based (or hybrid) producers feeding persistent values into a
    slow time-based consumer over plain or time-shifted cached connections, no lazy stepping, cache mostly on; a third party
    may be slow instead.  What the consumer reads must survive everything the others do in the meantime (cache pruning)."""
    k = rng.choice([2, 3])
    sims = [{"type": rng.choice(["time-based", "time-based", "hybrid"]), "group": [], "init_ev": None} for _ in range(k)]
    sims.append({"type": rng.choice(["time-based", "time-based", "hybrid"]), "group": [], "init_ev": None})
    c = k
    connects = []
    for i in range(k):
        ts = rng.choice([0, 0, 1])
        connects.append({"src": i, "seid": rng.randrange(2), "dst": c, "deid": i % 2, "sattr": 2, "dattr": 0, "ts": ts, "weak": False,
                         "init": bool(ts), "async": False})
    if rng.random() < 0.3:
        sims.append({"type": "time-based", "group": [], "init_ev": None})          # an unrelated simulator
    sc = {"sims": sims, "connects": connects, "until": rng.randint(5, 8), "max_loop": 100,
          "lazy": rng.random() < 0.15, "cache": rng.random() < 0.8, "beh_seed": rng.randrange(10 ** 9),
          "sparse_persistent": False, "future_outputs": False, "slow": c if rng.random() < 0.8 else rng.randrange(k)}
    return normalise(sc)


def gen_fanin_scenario(rng: random.Random) -> dict:
    """A consumer triggered by two or three independent sources of different speed (a fast one and a slow, sparsely
    producing one that holds the consumer's progress back), optionally with future-dated outputs and a relay; mostly
    without lazy stepping, so that producers run ahead: steps inserted earlier than the one a simulator is waiting
    for, several triggers for one time, wake-ups while the progress is still behind."""
    k = rng.choice([2, 2, 3])
    sims = []
    for i in range(k):
        typ = rng.choice(["time-based", "hybrid", "hybrid", "event-based"])
        sims.append({"type": typ, "group": [], "init_ev": rng.choice([0, 0, 1]) if typ == "event-based" else None})
    cons = {"type": rng.choice(["event-based", "event-based", "hybrid"]), "group": [], "init_ev": None}
    if cons["type"] == "event-based" and rng.random() < 0.3:
        cons["init_ev"] = rng.choice([0, 2, 3])
    sims.append(cons)
    c = k
    connects = []
    def conn(a, b, ts):
        return {"src": a, "seid": rng.randrange(2), "dst": b, "deid": rng.randrange(2), "sattr": rng.choice([2, 3]),
                "dattr": 1, "ts": ts, "weak": False, "init": False, "async": False}
    for i in range(k):
        connects.append(conn(i, c, rng.choice([0, 0, 0, 1])))
    if rng.random() < 0.4:
        # the sources also trigger each other (a chain among them)
        connects.append(conn(0, 1, rng.choice([0, 1])))
        if sims[1]["type"] == "time-based":
            connects[-1]["dattr"] = 0
    if rng.random() < 0.3:
        sims.append({"type": "event-based", "group": [], "init_ev": None})      # a relay behind the consumer
        connects.append(conn(c, c + 1, 0))
    sc = {"sims": sims, "connects": connects, "until": rng.randint(4, 8), "max_loop": 100,
          "lazy": rng.random() < 0.35, "cache": rng.random() < 0.5, "beh_seed": rng.randrange(10 ** 9),
          "sparse_persistent": False, "future_outputs": rng.random() < 0.4}
    if rng.random() < 0.5:
        sc["slow"] = c                      # the consumer answers late: producers run far ahead of it when lazy stepping is off
    sc = normalise(sc)
    return sc


def gen_loop_scenario(rng: random.Random) -> dict:
    """A same-time loop of 2-3 simulators inside a group of depth 2-4 (one weak connection), kept alive for
    loop_len sub-steps, with loop_len around max_loop_iterations; optionally an outer loop around it."""
    depth_path = rng.choice([[0], [0], [0, 0], [0, 0], [0, 0, 0]])
    k = rng.choice([2, 2, 3])
    sims = [{"type": rng.choice(["event-based", "hybrid"]), "group": list(depth_path), "init_ev": None} for _ in range(k)]
    # the loop head is event-based (started by an initial event) or hybrid (steps at time 0 by itself)
    if rng.random() < 0.5:
        sims[0]["type"] = "event-based"
        sims[0]["init_ev"] = rng.choice([0, 0, 1, 2])
    else:
        sims[0]["type"] = "hybrid"
        if rng.random() < 0.5:
            for s_ in sims[1:]:
                s_["type"] = "hybrid"          # an all-hybrid loop
    connects = []
    for i in range(k):
        weak = i == k - 1
        connects.append({"src": i, "seid": 0, "dst": (i + 1) % k, "deid": 0, "sattr": 3, "dattr": 1, "ts": 0, "weak": weak,
                         "init": False, "async": False})
    if rng.random() < 0.4:
        # an observer outside the loop
        sims.append({"type": "hybrid", "group": list(depth_path[:-1]), "init_ev": None})
        connects.append({"src": 0, "seid": 0, "dst": k, "deid": 0, "sattr": 3, "dattr": 1, "ts": 0, "weak": False, "init": False, "async": False})
    if rng.random() < 0.25:
        # an all-hybrid cycle whose weak back edge ends in a NON-trigger input (it only samples): not a same-time loop at all - unless
        # the attribute is mistaken for a trigger; the members' connected entities are children of a parent model in which it is one
        for s_ in sims:
            s_["type"] = "hybrid"
            s_["init_ev"] = None
            s_["via_parent"] = True
        connects[-1]["dattr"] = 0
        connects[-1]["init"] = True
        connects[-1]["sattr"] = 2
    if rng.random() < 0.3:
        # a second loop in a SIBLING group (same depth), fed by the first one: its sub-step counter starts from 0 -
        # the connection between the siblings adds only to the tiers the two groups share
        sib = list(depth_path[:-1]) + [1]
        b = len(sims)
        sims.append({"type": rng.choice(["event-based", "hybrid"]), "group": sib, "init_ev": None})
        sims.append({"type": rng.choice(["event-based", "hybrid"]), "group": list(sib), "init_ev": None})
        connects.append({"src": 0, "seid": 0, "dst": b, "deid": 0, "sattr": 3, "dattr": 1, "ts": 0, "weak": False, "init": False, "async": False})
        connects.append({"src": b, "seid": 0, "dst": b + 1, "deid": 0, "sattr": 3, "dattr": 1, "ts": 0, "weak": False, "init": False, "async": False})
        connects.append({"src": b + 1, "seid": 0, "dst": b, "deid": 0, "sattr": 3, "dattr": 1, "ts": 0, "weak": True, "init": False, "async": False})
    ml = rng.choice([1, 2, 3, 4])
    sc = {"sims": sims, "connects": connects, "until": rng.randint(2, 4), "max_loop": ml,
          "lazy": rng.random() < 0.5, "cache": rng.random() < 0.5, "beh_seed": rng.randrange(10 ** 9),
          "sparse_persistent": False, "future_outputs": rng.random() < 0.4, "loop_len": max(0, ml + rng.choice([-1, 0, 0, 1, 2]))}
    if rng.random() < 0.2:
        sc["loop_len"] = 10 ** 6        # a loop that never settles: only the guard ends it
        sc["future_outputs"] = False
    # future_outputs: a sub-step of the loop may date its events into the future; the loop then resumes at the
    # later time, where the sub-step counters must start from 0 again
    return normalise(sc)


def gen_diamond_scenario(rng: random.Random) -> dict:
    """Several trigger paths of different total delay between the same two simulators (a direct shifted connection
    and a chain of relays, in either creation order), the source self-scheduling sparsely: the minimal trigger-path
    delay in the ancestor table is what max_advance and the progress bound rest on."""
    n_relays = rng.choice([1, 1, 2, 2, 3])
    n = 2 + n_relays
    src, dst = 0, n - 1
    sims = [{"type": rng.choice(["hybrid", "event-based", "time-based"]), "group": [], "init_ev": None}]
    if sims[0]["type"] == "event-based":
        sims[0]["init_ev"] = 0
    for _ in range(n_relays):
        sims.append({"type": "event-based", "group": [], "init_ev": None})
    sims.append({"type": rng.choice(["hybrid", "event-based"]), "group": [], "init_ev": rng.choice([None, 0])})
    if sims[-1]["type"] == "hybrid":
        sims[-1]["init_ev"] = None
    def conn(a, b, ts):
        return {"src": a, "seid": rng.randrange(2), "dst": b, "deid": rng.randrange(2), "sattr": 3 if sims[a]["type"] != "time-based" else 2,
                "dattr": 1, "ts": ts, "weak": False, "init": False, "async": False}
    direct = [conn(src, dst, rng.choice([1, 2, 2]))]
    chain = [conn(i, i + 1, rng.choice([0, 0, 0, 1]) if i else 0) for i in range(n - 1)]
    connects = direct + chain if rng.random() < 0.5 else chain + direct
    if rng.random() < 0.3:
        connects.append(conn(dst, src, rng.choice([1, 2])))        # a shifted loop back
    sc = {"sims": sims, "connects": connects, "until": rng.randint(4, 7), "max_loop": 100,
          "lazy": rng.random() < 0.3, "cache": rng.random() < 0.5, "beh_seed": rng.randrange(10 ** 9),
          "sparse_persistent": False, "future_outputs": False}
    if rng.random() < 0.5:
        # the simulators are started against the direction of the data flow (destination first): the ancestor table must not
        # depend on the start order
        sc["sims"] = sims[::-1]
        for c in connects:
            c["src"], c["dst"] = n - 1 - c["src"], n - 1 - c["dst"]
        dst = 0
    if rng.random() < 0.5:
        sc["slow"] = dst          # the destination is mostly in the middle of a step when the triggers arrive
    return normalise(sc)


def features(sc: dict, outcome: str) -> list:
    f = []
    f.append("groups" if any(s["group"] for s in sc["sims"]) else "flat")
    f += ["type:" + s["type"] for s in sc["sims"]]
    for c in sc["connects"]:
        f.append("conn:" + ("weak" if c["weak"] else f"ts{c['ts']}") + (":async" if c.get("async") else ""))
        if c["src"] == c["dst"]:
            f.append("conn:self")
    if any(x.get("api") for x in sc["sims"]):
        f.append("legacy-API simulators (adapters)")
    if sc.get("debug"):
        f.append("debug mode")
    if any(x.get("via_parent") for x in sc["sims"]):
        f.append("child entities of another model")
    f.append("lazy" if sc["lazy"] else "eager")
    f.append("cache" if sc["cache"] else "push")
    f.append("outcome:" + " ".join(outcome.split(" ")[:3]))
    return f


def run_sched_suite(driver, rng: random.Random, n_scenarios: int, n_schedules: int, name: str = "sched", monitor=None,
                    scenarios=None, **genkw) -> dict:
    """Correspondence over generated scenarios; `monitor(sc, controller, outcome)` evaluates the property itself on
    the implementation's trace and returns violations."""
    dis = []
    vio = []
    hist: Counter = Counter()
    distinct = set()
    traces = 0
    samples = []
    mon_evals = 0
    for k in range(n_scenarios if scenarios is None else len(scenarios)):
        if hist["outcome:hang (watchdog)"] >= 4:
            # every hang costs the watchdog's 10 s: a change that makes run() spin in many scenarios would otherwise keep the check
            # busy for hours; what has been observed so far is judged
            hist["suite cut short after 4 hangs"] += 1
            break
        sc = gen_scenario(rng, **genkw) if scenarios is None else normalise(scenarios[k])
        d7 = nonuniform_cutoff(sc, False)
        for j in range(n_schedules):
            sseed = rng.randrange(10 ** 9)
            try:
                if driver is not None:
                    agree, detail, c = compare(driver, sc, sseed)
                    outcome = detail.get("outcome") or detail.get("impl") or "?"
                else:
                    outcome, c = run_impl(sc, sseed)
                    agree, detail = True, {"outcome": outcome}
            except Exception as e:  # noqa: BLE001
                # an exception out of the implementation while the scenario is being built (where the harness expects none, e.g. an
                # AssertionError inside connect) is an observation about the code on THIS scenario: recorded as a disagreement with the
                # model (which built the scenario without error); the other scenarios still run, so that the monitors can find a
                # concrete failing input of the property under check
                import traceback
                src = os.path.realpath(os.environ.get("MOSAIK_SRC", "/repo"))
                inside = [f for f in traceback.extract_tb(e.__traceback__)
                          if os.path.realpath(f.filename).startswith(os.path.join(src, "mosaik") + os.sep)]
                if not inside or isinstance(e, HarnessError):
                    raise
                traces += 1
                hist["outcome:exception out of the implementation while building"] += 1
                dis.append({"suite": name, "scenario": sc, "schedule_seed": sseed, "request": "build the scenario",
                            "impl": f"raised {type(e).__name__}: {str(e)[:120]} at {os.path.basename(inside[-1].filename)}:{inside[-1].lineno} ({inside[-1].name})",
                            "model": "built without error"})
                break
            traces += 1
            for ft in set(features(sc, str(outcome))):
                hist[ft] += 1
            for a in c.actions:
                if a[0][0] == "extevent":
                    hist["external event injected while the simulator is idle"] += 1
            for e in c.full_trace:
                if e[0] == "get_data_res":
                    # data path of async get_data: answered from the cache / forwarded to the other simulator / both in one request
                    cached = sum(len(v) for v in e[4].values()) > sum(len(v) for _o, d in e[5] for k2, v in d.items() if k2 != "time")
                    hist["async get_data:" + ("mixed cache+forwarded" if cached and e[5] else "cache only" if cached else
                                              "forwarded only" if e[5] else "empty answer")] += 1
            if d7:
                hist["class:D7-reentrant-paths"] += 1
            if sc.pop("_flat_hyp", False):
                hist["hypotheses:Flat (deadlock_free_flat applies)"] += 1
            if sc.pop("_push_hyp", False):
                hist["hypotheses:flat, pushed only, keys distinct (begin_push_refines_spec applies to every connection)"] += 1
            distinct.add((json.dumps(sc, sort_keys=True), tuple(a[0][1:3] for a in c.actions if a[0][0] == "reply")))
            if not agree:
                dis.append({"suite": name, "scenario": sc, "schedule_seed": sseed, **detail})
            elif len(samples) < 3 and detail.get("actions", 0) > 6:
                samples.append({"scenario": sc, "schedule_seed": sseed, "actions": detail["actions"], "outcome": outcome})
            never_started = str(outcome).startswith("failed AssertionError closure") or str(outcome).startswith("failed Hang")
            if never_started and not getattr(monitor, "judges_closure", False):
                # the min-delay closures failed before the first step (finding D7, judged under C05 / C06): the run never
                # started, so no other property has anything to say about it
                hist["outcome:closure failure (not judged here)"] += 1
            elif monitor is not None:
                real_outcome = getattr(c, "final_outcome", None) or outcome
                for v in monitor(sc, c, str(impl_outcome(c, detail, outcome))):
                    mon_evals += 1
                    v.setdefault("finding", "D7-reentrant-paths" if d7 else None)
                    vio.append({**v, "scenario": sc, "schedule_seed": sseed})
            if str(outcome).startswith("failed Hang"):
                hist["outcome:hang (watchdog)"] += 1
                break       # the closures before the first step loop: further schedules of this scenario would only wait again
    return {"suite": name, "cases": traces, "distinct": len(distinct), "branches": dict(hist), "disagreements": dis,
            "violations": vio, "exhaustive": False, "traces": traces, "samples": samples,
            "rule": (f"{traces // max(1, n_schedules)} scenarios (2-5 scripted simulators, all three types, group placements, plain/shifted/weak/"
                     f"self connections, initial events, until 2-6, max_loop 2-100, lazy x cache) x {n_schedules} seeded reply schedules under the "
                     "controlled event loop; compared after every released reply: the new step calls (time, sub-step, inputs, max_advance), "
                     "finished simulators and the outcome of run(). distinct = distinct (scenario, reply order) pairs")}


def impl_outcome(c, detail, outcome):
    """The outcome string of the implementation run (not the model's)."""
    return getattr(c, "outcome", None) or detail.get("impl_outcome") or outcome
