"""Correspondence suites for the pure modules: each case is one request line for the model
driver plus the answer the real code gives (canonicalised); the runner diffs the two."""
from __future__ import annotations

import itertools
import random
from collections import Counter

from common import import_mosaik

mosaik = import_mosaik()
from mosaik.tiered_time import TieredInterval, TieredTime  # noqa: E402
from mosaik import scenario, util as mutil  # noqa: E402
from mosaik.in_or_out_set import OutSet, parse_set_triple  # noqa: E402
from mosaik.exceptions import ScenarioError  # noqa: E402


class Suite:
    """A list of (request line, implementation answer, branch label)."""

    def __init__(self, name: str):
        self.name = name
        self.cases: list[tuple[str, str, str]] = []
        self.exhaustive = False
        self.rule = ""

    def add(self, line: str, impl: str, branch: str = ""):
        self.cases.append((line, impl, branch))


def run_suite(driver, suite: Suite) -> dict:
    answers = driver.ask([c[0] for c in suite.cases])
    dis = []
    hist: Counter = Counter()
    post = getattr(suite, "post_model", None)
    for (line, impl, branch), model in zip(suite.cases, answers):
        if post:
            model = post(model)
        hist[branch or impl.split(" ")[0]] += 1
        if impl != model:
            dis.append({"suite": suite.name, "request": line, "impl": impl, "model": model})
    distinct = getattr(suite, "distinct_override", None) or len(set(c[0] for c in suite.cases))
    return {"suite": suite.name, "cases": len(suite.cases), "distinct": distinct, "branches": dict(hist),
            "disagreements": dis, "exhaustive": suite.exhaustive, "rule": suite.rule,
            "samples": [{"request": c[0], "answer": c[1]} for c in suite.cases[:: max(1, len(suite.cases) // 5)][:5]]}


# ------------------------------------------------------------------ tiered time (C08)

def s_list(l):
    return f"{len(l)}" + ("" if not l else " " + " ".join(map(str, l)))


def s_ti(d: TieredInterval) -> str:
    return f"{d.pre_length} {d.cutoff} {s_list(d.tiers)}"


def s_bool(f) -> str:
    try:
        r = f()
    except AssertionError:
        return "assert"
    return "true" if r else "false"


def all_intervals(maxlen=3, maxpre=3, maxval=2):
    out = []
    for n in range(1, maxlen + 1):
        for c in range(1, n + 1):
            for p in range(c, maxpre + 1):
                for tiers in itertools.product(range(maxval + 1), repeat=n):
                    out.append(TieredInterval(*tiers, cutoff=c, pre_length=p))
    return out


def all_times(maxlen=3, maxval=2):
    return [t for n in range(1, maxlen + 1) for t in itertools.product(range(maxval + 1), repeat=n)]


def suite_tiered(rng: random.Random, tier: str) -> Suite:
    s = Suite("tiered")
    ivs = all_intervals()
    pairs = list(itertools.product(ivs, ivs))
    if tier == "quick":
        # every pair for < and +, a sample for the derived operators
        derived = rng.sample(pairs, 6000)
    else:
        derived = pairs
    s.exhaustive = tier != "quick"
    s.rule = ("all 216 well-formed intervals with length, pre-length <= 3 and tiers <= 2: every ordered pair for "
              "<, +, min, update_min; derived operators on " + ("a 6000-pair sample" if tier == "quick" else "every pair")
              + "; all times of length <= 3 x all intervals for time + interval; constructor arguments incl. ill-formed; "
              "random shapes up to length 7. distinct = distinct request lines")
    for a, b in pairs:
        la, lb = s_ti(a), s_ti(b)
        r = s_bool(lambda: a < b)
        s.add(f"ti.lt {la} {lb}", r, "lt:" + r + (":cut=" if a.cutoff == b.cutoff else ":cut!="))
        try:
            r = s_ti(a + b)
        except AssertionError:
            r = "assert"
        s.add(f"ti.add {la} {lb}", r, "add:" + ("assert" if r == "assert" else ("c>=" if a.cutoff >= b.cutoff else "c<")))
        try:
            r = s_ti(min(a, b))
        except AssertionError:
            r = "assert"
        s.add(f"ti.min {la} {lb}", r, "min")
        try:
            u = scenario.update_min(a, b)
            r = "keep" if u is None else s_ti(u)
        except AssertionError:
            r = "assert"
        s.add(f"ti.umin {la} {lb}", r, "umin:" + r.split(" ")[0][:6])
    for a, b in derived:
        la, lb = s_ti(a), s_ti(b)
        s.add(f"ti.le {la} {lb}", s_bool(lambda: a <= b), "le")
        s.add(f"ti.gt {la} {lb}", s_bool(lambda: a > b), "gt")
        s.add(f"ti.ge {la} {lb}", s_bool(lambda: a >= b), "ge")
        s.add(f"ti.eq {la} {lb}", s_bool(lambda: a == b), "eq")
    for b in ivs:
        u = scenario.update_min(None, b)
        s.add(f"ti.umin - {s_ti(b)}", s_ti(u), "umin:none")
    times = all_times()
    for t in times:
        for d in ivs:
            try:
                r = s_list((TieredTime(*t) + d).tiers)
            except AssertionError:
                r = "assert"
            s.add(f"tt.add {s_list(t)} {s_ti(d)}", r, "tt.add:" + ("assert" if r == "assert" else "ok"))
        for u in times:
            for op, f in (("lt", lambda x, y: x < y), ("le", lambda x, y: x <= y), ("gt", lambda x, y: x > y),
                          ("ge", lambda x, y: x >= y), ("eq", lambda x, y: x == y)):
                s.add(f"tt.{op} {s_list(t)} {s_list(u)}", s_bool(lambda: f(TieredTime(*t), TieredTime(*u))), "tt." + op)
    # constructor, including ill-formed arguments
    for n in range(0, 4):
        for c in [None, 0, 1, 2, 3, 4]:
            for p in [None, 0, 1, 2, 3, 4]:
                tiers = tuple(range(1, n + 1))
                try:
                    r = s_ti(TieredInterval(*tiers, cutoff=c, pre_length=p))
                except AssertionError:
                    r = "assert"
                s.add(f"ti.mk {s_list(tiers)} {'-' if c is None else c} {'-' if p is None else p}", r,
                      "mk:" + ("assert" if r == "assert" else "ok"))
    # random larger shapes
    def rnd_iv():
        n = rng.randint(1, 7)
        c = rng.randint(1, n)
        p = rng.randint(c, 7)
        return TieredInterval(*[rng.randint(0, 9) for _ in range(n)], cutoff=c, pre_length=p)
    for _ in range(3000 if tier == "quick" else 30000):
        a = rnd_iv()
        # make b composable with a most of the time
        if rng.random() < 0.8:
            n = rng.randint(1, 7)
            c = rng.randint(1, min(n, len(a)))
            b = TieredInterval(*[rng.randint(0, 9) for _ in range(n)], cutoff=c, pre_length=len(a))
        else:
            b = rnd_iv()
        try:
            r = s_ti(a + b)
        except AssertionError:
            r = "assert"
        s.add(f"ti.add {s_ti(a)} {s_ti(b)}", r, "add:rnd")
        # comparable shape
        b2 = TieredInterval(*[rng.choice([x, rng.randint(0, 9)]) for x in a.tiers],
                            cutoff=rng.choice([a.cutoff, rng.randint(1, min(len(a), a.pre_length))]), pre_length=a.pre_length)
        s.add(f"ti.lt {s_ti(a)} {s_ti(b2)}", s_bool(lambda: a < b2), "lt:rnd")
        t = [rng.randint(0, 9) for _ in range(a.pre_length)]
        s.add(f"tt.add {s_list(t)} {s_ti(a)}", s_list((TieredTime(*t) + a).tiers), "tt.add:rnd")
    return s


# ------------------------------------------------------------------ sets and attrs (C12)

UNIV = [0, 1, 2]


def subsets(u):
    return [list(c) for r in range(len(u) + 1) for c in itertools.combinations(u, r)]


def py_set(kind, elems):
    names = [f"a{e}" for e in elems]
    return frozenset(names) if kind == "f" else OutSet(names)


def s_ioset(x) -> str:
    if isinstance(x, OutSet):
        return "c " + s_list(sorted(int(n[1:]) for n in x._set))
    return "f " + s_list(sorted(int(n[1:]) for n in x))


def all_iosets():
    return [(k, e) for k in "fc" for e in subsets(UNIV)]


def suite_iosets(rng: random.Random, tier: str) -> Suite:
    s = Suite("iosets")
    s.exhaustive = True
    s.rule = ("all 16 finite/co-finite sets over a 3-element universe: every pair x {-, &, |, ==}, every membership; "
              "every expression (a op b) op c; every (union, part_a, part_b) in (None + 16)^3 for parse_set_triple")
    sets = all_iosets()
    ops = {"sub": lambda a, b: a - b, "and": lambda a, b: a & b, "or": lambda a, b: a | b}
    for (ka, ea), (kb, eb) in itertools.product(sets, sets):
        A, B = py_set(ka, ea), py_set(kb, eb)
        for name, f in ops.items():
            s.add(f"ios {name} {ka} {s_list(ea)} {kb} {s_list(eb)}", s_ioset(f(A, B)), f"{name}:{ka}{kb}")
        s.add(f"ios eq {ka} {s_list(ea)} {kb} {s_list(eb)}", "true" if A == B else "false", f"eq:{ka}{kb}")
    for (ka, ea) in sets:
        for x in UNIV + [7]:
            s.add(f"ios.in {x} {ka} {s_list(ea)}", "true" if f"a{x}" in py_set(ka, ea) else "false", "in:" + ka)
    # nested expressions: the result of one operator fed into the next
    for (ka, ea), (kb, eb), (kc, ec) in itertools.product(sets, sets, sets):
        A, B, C = py_set(ka, ea), py_set(kb, eb), py_set(kc, ec)
        for n1, f1 in ops.items():
            mid = f1(A, B)
            km, em = s_ioset(mid).split(" ", 1)
            n2 = rng.choice(list(ops))
            s.add(f"ios {n2} {km} {em} {kc} {s_list(ec)}", s_ioset(ops[n2](mid, C)), "nested")
    opts = [None] + sets
    for u, a, b in itertools.product(opts, opts, opts):
        def arg(x):
            return None if x is None else py_set(*x)
        def sarg(x):
            return "-" if x is None else f"{x[0]} {s_list(x[1])}"
        try:
            ra, rb = parse_set_triple(arg(u), arg(a), arg(b))
            r = f"ok {s_ioset(ra)} {s_ioset(rb)}"
        except ValueError:
            r = "ValueError"
        given = sum(x is not None for x in (u, a, b))
        s.add(f"triple {sarg(u)} {sarg(a)} {sarg(b)}", r, f"triple:{given}given:{r[:2]}")
    return s


KEYS = ["attrs", "trigger", "non-trigger", "persistent", "non-persistent"]
TYPES = ["time-based", "event-based", "hybrid"]


def attrs_case(s: Suite, ty: str, any_inputs: bool, vals):
    desc = {}
    if any_inputs:
        desc["any_inputs"] = True
    for k, v in zip(KEYS, vals):
        if v is not None:
            desc[k] = [f"a{e}" for e in v]
    try:
        r = "ok " + " ".join(s_ioset(x) for x in scenario.parse_attrs(desc, ty))
    except ValueError:
        r = "ValueError"
    line = f"attrs {ty} {int(any_inputs)} " + " ".join("-" if v is None else s_list(v) for v in vals)
    present = sum(v is not None for v in vals)
    s.add(line, r, f"attrs:{ty}:{present}keys:{r[:2]}")


def suite_attrs(rng: random.Random, tier: str) -> Suite:
    s = Suite("attrs")
    opts = [None] + subsets(UNIV)
    allcombos = list(itertools.product(opts, repeat=5))
    if tier == "quick":
        few = [c for c in allcombos if sum(v is not None for v in c) <= 2]
        combos = few + rng.sample(allcombos, 6000)
        s.rule = ("parse_attrs on descriptions over a 3-attribute universe: every description with <= 2 of the 5 keys present "
                  "plus 6000 sampled from all 9^5, each x any_inputs x 3 types")
    else:
        combos = allcombos
        s.exhaustive = True
        s.rule = "parse_attrs on all 9^5 descriptions over a 3-attribute universe x any_inputs x 3 types"
    for c in combos:
        for ty in TYPES:
            for any_inputs in (False, True):
                attrs_case(s, ty, any_inputs, c)
    return s


# ------------------------------------------------------------------ bulk connection helpers (C18)

class FakeRandom:
    """Stands in for the `random` module inside mosaik.util: draws come from an oracle."""

    def __init__(self, oracle):
        self.oracle = list(oracle)
        self.pos = 0

    def draw(self):
        v = self.oracle[self.pos] if self.pos < len(self.oracle) else 0
        self.pos += 1
        return v

    def shuffle(self, x):
        for i in reversed(range(1, len(x))):
            j = self.draw() % (i + 1)
            x[i], x[j] = x[j], x[i]

    def randint(self, a, b):
        assert a == 0
        return self.draw() % (b + 1)


class FakeWorld:
    def __init__(self):
        self.calls = []

    def connect(self, src, dest, *attrs, **kw):
        self.calls.append((src, dest))


def util_entities(n_src, n_dest, inst):
    """Sources / destinations as mosaik hands them to a user: `Entity` objects of `inst` instances of one simulator
    model each, whose entity ids coincide across the instances (inst = 0: plain ints).  Returns the two lists and the
    map object identity -> the int the model uses."""
    srcs = list(range(n_src))
    dests = list(range(100, 100 + n_dest))
    if not inst:
        return srcs, dests, None
    from mosaik.scenario import Entity
    so = [Entity(f"Src-{i % inst}", f"e{i // inst}", "Src", None, None) for i in srcs]
    do = [Entity(f"Dst-{i % inst}", f"e{i // inst}", "Dst", None, None) for i in range(n_dest)]
    ident = {id(o): k for o, k in zip(so + do, srcs + dests)}
    return so, do, ident


def util_case(s: Suite, n_src, n_dest, evenly, max_c, oracle, inst=0):
    srcs = list(range(n_src))
    dests = list(range(100, 100 + n_dest))
    so, do, ident = util_entities(n_src, n_dest, inst)
    key = (lambda o: o) if ident is None else (lambda o: ident[id(o)])
    w = FakeWorld()
    saved = mutil.random
    mutil.random = FakeRandom(oracle)
    try:
        kw = {}
        if max_c is not None:
            kw["max_connects"] = max_c
        try:
            ret = mutil.connect_randomly(w, list(so), list(do), "a", evenly=evenly, **kw)
            r = f"ok {len(w.calls)}" + "".join(f" {key(a)} {key(b)}" for a, b in w.calls) + " ret " + s_list(sorted(key(o) for o in ret))
        except AssertionError:
            r = "AssertionError"
    finally:
        mutil.random = saved
    if evenly:
        line = f"evenly {s_list(srcs)} {s_list(dests)} {s_list(oracle)}"
    else:
        line = f"randomly {s_list(srcs)} {s_list(dests)} {'-' if max_c is None else max_c} {s_list(oracle)}"
    s.add(line, r, (("evenly" + (":max_connects given (ignored)" if max_c is not None else "")) if evenly else f"randomly:max={max_c}") + ":" + r[:2] +
          (":full" if (max_c is not None and n_src == n_dest * max_c) else "") + (f":entities x{inst}" if inst else ""))


def suite_util(rng: random.Random, tier: str) -> Suite:
    s = Suite("util")
    s.rule = ("connect_randomly with random.shuffle/randint replaced by an oracle: source sizes 0-12 x destination sizes 0-8 x "
              "evenly / max_connects in {1,2,3,inf}, several oracles each (incl. sizes where the destinations are exactly full), with ints and with mosaik Entity objects from 1-3 instances of one model whose entity ids coincide; "
              "connect_many_to_one for sizes 0-6")
    reps = 3 if tier == "quick" else 25
    for n_src in range(0, 13):
        for n_dest in range(0, 9):
            for _ in range(reps):
                oracle = [rng.randint(0, 50) for _ in range(n_src * (n_dest + 2) + 4)]
                util_case(s, n_src, n_dest, True, None, oracle)
                # evenly=True with an explicit max_connects: documented as "only taken into account if evenly is False"
                util_case(s, n_src, n_dest, True, rng.choice([1, 2, 3]), oracle)
                for max_c in (1, 2, 3, None):
                    util_case(s, n_src, n_dest, False, max_c, oracle)
                # the same with real Entity objects from 1-3 instances of one model (coinciding entity ids)
                inst = rng.choice([1, 2, 2, 3])
                util_case(s, n_src, n_dest, True, None, oracle, inst)
                util_case(s, n_src, n_dest, False, rng.choice([1, 2, None]), oracle, inst)
    for n_src in range(0, 7):
        w = FakeWorld()
        mutil.connect_many_to_one(w, list(range(n_src)), 500, "a")
        s.add(f"m2o {s_list(list(range(n_src)))} 500", f"ok {len(w.calls)}" + "".join(f" {a} {b}" for a, b in w.calls), "m2o")
        for flav, wrap in (("generator", lambda l: (x for x in l)), ("iterator", iter), ("tuple", tuple)):
            w = FakeWorld()
            mutil.connect_many_to_one(w, wrap(list(range(n_src))), 500, "a")
            s.add(f"m2o {s_list(list(range(n_src)))} 500", f"ok {len(w.calls)}" + "".join(f" {a} {b}" for a, b in w.calls), "m2o:" + flav)
    return s


# ------------------------------------------------------------------ groups (C11, pure part)

def mk_group(path):
    """Build SimGroup objects along a path; distinct calls give distinct objects, callers share via a cache."""
    raise NotImplementedError


def group_forest(paths):
    """SimGroup objects for a set of paths, sharing parents (identity = path)."""
    objs = {(): scenario.SimGroup(parent=None)}
    for p in sorted(set(tuple(x) for x in paths), key=len):
        for i in range(1, len(p) + 1):
            if p[:i] not in objs:
                objs[p[:i]] = scenario.SimGroup(parent=objs[p[: i - 1]])
    return objs


GROUP_PATHS = [[], [0], [1], [0, 0], [0, 1], [1, 0], [0, 0, 0]]


def suite_groups(rng: random.Random, tier: str) -> Suite:
    s = Suite("groups")
    s.exhaustive = True
    s.rule = ("group_path / connect_interval for every ordered pair of 7 group positions (main, two siblings, nested, cousins, depth 4) "
              "x time_shifted in {0,1,2} x weak; connect_one validation for every combination of its 6 boolean inputs x those pairs")
    objs = group_forest(GROUP_PATHS)
    for a, b in itertools.product(GROUP_PATHS, GROUP_PATHS):
        A, B = objs[tuple(a)], objs[tuple(b)]
        asc, desc, common = scenario.group_path(A, B)
        s.add(f"gpath {s_list(a)} {s_list(b)}", f"{asc} {desc} {common.depth - 1}", "gpath")
        for ts in (0, 1, 2):
            for weak in (0, 1):
                try:
                    r = s_ti(scenario.connect_interval(A, B, ts, weak))
                except ScenarioError:
                    r = "ScenarioError"
                except Exception as e:  # noqa: BLE001   any other exception is an observation, not a harness crash
                    r = type(e).__name__
                s.add(f"cint {s_list(a)} {s_list(b)} {ts} {weak}", r, "cint:" + ("err" if r == "ScenarioError" else f"w{weak}"))
    return s


ALL_PURE = {
    "tiered": suite_tiered,
    "iosets": suite_iosets,
    "attrs": suite_attrs,
    "util": suite_util,
    "groups": suite_groups,
}
