"""Correspondence suites that need a real `mosaik.World` with stub simulators:
API versions (C15), connect validation and tables (C11), cycle detection and triggering
ancestors (C06)."""
from __future__ import annotations

import asyncio
import copy
import itertools
import random
import sys
import types
import warnings

from common import import_mosaik

mosaik = import_mosaik()
import mosaik_api_v3  # noqa: E402
from mosaik import scenario  # noqa: E402
from mosaik.exceptions import ScenarioError  # noqa: E402

from suites_pure import Suite, s_list, s_ti  # noqa: E402

MOD = types.ModuleType("verif_stubs")
sys.modules["verif_stubs"] = MOD


def new_world(**kw):
    loop = asyncio.new_event_loop()
    w = mosaik.World({"S": {"python": "verif_stubs:Stub"}}, asyncio_loop=loop, skip_greetings=True, **kw)
    return w


def close_world(w):
    try:
        if not w.loop.is_closed():
            w.shutdown()
    except Exception:
        pass


# ------------------------------------------------------------------ C15: versions

OBS: dict = {}


def make_stub(has_tr: bool, has_ma: bool, meta: dict):
    """A simulator class with the requested init/step signatures that records what it receives."""
    ns: dict = {}
    init_sig = "self, sid, time_resolution=None, **sim_params" if has_tr else "self, sid"
    step_sig = "self, time, inputs, max_advance='absent'" if has_ma else "self, time, inputs"
    src = f"""
class Stub(mosaik_api_v3.Simulator):
    def __init__(self):
        super().__init__(META)
    def init({init_sig}):
        OBS['tr'] = {'time_resolution is not None' if has_tr else 'False'}
        m = dict(self.meta)
        if 'api_version' not in META:
            m.pop('api_version', None)   # the base class fills in its own version
        if 'type' not in META:
            m.pop('type', None)
        return m
    def create(self, num, model, **kw):
        return [{{'eid': 'E%d' % i, 'type': model}} for i in range(num)]
    def setup_done(self):
        OBS['setup_done'] = True
    def step({step_sig}):
        OBS['step'] = {"3 if max_advance != 'absent' else 2" if has_ma else '2'}
        return time + 1
    def get_data(self, outputs):
        OBS['get_data'] = True
        return {{}}
"""
    exec(src, {"mosaik_api_v3": mosaik_api_v3, "META": meta, "OBS": OBS}, ns)
    return ns["Stub"]


def version_case(s: Suite, vstr, explicit, has_tr, has_ma):
    def run(with_type: bool):
        OBS.clear()
        meta = {"models": {"M": {"public": True, "params": [], "attrs": ["a"]}}}
        if vstr is not None:
            meta["api_version"] = vstr
        if with_type:
            meta["type"] = "hybrid"
        MOD.Stub = make_stub(has_tr, has_ma, meta)
        cfg = {"python": "verif_stubs:Stub"}
        if explicit is not None:
            cfg["api_version"] = explicit
        loop = asyncio.new_event_loop()
        w = mosaik.World({"S": cfg}, asyncio_loop=loop, skip_greetings=True)
        res = {}
        try:
            with warnings.catch_warnings(record=True) as ws:
                warnings.simplefilter("always")
                try:
                    f = w.start("S", sim_id="A")
                except ScenarioError as e:
                    res["err"] = "type" if "type specification" in str(e) else "ScenarioError"
                    return res
                res["warn"] = any("outdated API version" in str(x.message) for x in ws)
            res["type"] = w.sims["A"].type
            res["tr"] = OBS.get("tr", False)
            if with_type:
                f.M()
                try:
                    w.run(until=1, print_progress=False)
                except TypeError:
                    res["step"] = "TypeError"
                res["setup_done"] = OBS.get("setup_done", False)
                res.setdefault("step", OBS.get("step"))
                res["get_data"] = True
            return res
        finally:
            close_world(w)

    r1 = run(True)
    if "err" in r1:
        impl = "ScenarioError"
    else:
        r2 = run(False)
        ty = "-" if r2.get("err") == "type" else {"time-based": "0", "event-based": "1", "hybrid": "2"}.get(r2.get("type"), "?")
        b = lambda x: "1" if x else "0"  # noqa: E731
        adapters = None
        ety = {"time-based": "0", "event-based": "1", "hybrid": "2"}.get(r1.get("type"), "?")     # the explicit type (hybrid) must survive
        impl = (f"ok tr={b(r1['tr'])} warn={b(r1['warn'])} "
                f"{'setup_done' if r1['setup_done'] else '-'} step{r1['step']} get_data other type={ty} etype={ety}")
    def ver(v):
        return "-" if v is None else s_list([int(x) for x in v.split(".")])
    line = f"ver {ver(vstr)} {ver(explicit)} 1 {int(has_tr)} {int(has_ma)}"
    s.add(line, impl, ("rej" if impl == "ScenarioError" else "ok") + f":tr{int(has_tr)}ma{int(has_ma)}:" +
          ("noexp" if explicit is None else "exp"))


def canon_ver_model(ans: str) -> str:
    """Drop the adapter flags (not observable) from the model's answer."""
    if not ans.startswith("ok "):
        return ans
    return " ".join(t for t in ans.split(" ") if not t.startswith("v2to1=") and not t.startswith("v3to2="))


def suite_versions(rng: random.Random, tier: str) -> Suite:
    s = Suite("versions")
    comps = [0, 1, 2, 3, 4, 10]
    vstrs = [None] + [".".join(map(str, c)) for n in (1, 2, 3) for c in itertools.product(comps, repeat=n)]
    cases = []
    for v in vstrs:
        alts = [None, v, (v + ".0") if v else "1", "2.5"]
        for ex in alts:
            for tr, ma in itertools.product((True, False), repeat=2):
                cases.append((v, ex, tr, ma))
    if tier == "quick":
        key = [c for c in cases if c[0] in (None, "1", "2", "2.1", "2.2", "2.10", "3", "3.0", "3.0.1", "2.2.0", "4", "4.0", "10", "3.10")]
        cases = key + rng.sample(cases, 250)
        s.rule = ("in-process stub simulators: boundary version strings (missing, 1, 2, 2.1, 2.2, 2.10, 2.2.0, 3, 3.0, 3.0.1, 3.10, 4, 4.0, 10) "
                  "+ 250 sampled from all strings with 1-3 components over {0,1,2,3,4,10}, each x explicit api_version in "
                  "{none, same, other spelling, different} x init/step signatures with/without time_resolution/max_advance; "
                  "observed: rejection, time_resolution passed, setup_done received, number of step arguments, defaulted type, warning")
    else:
        s.exhaustive = True
        s.rule = "in-process stub simulators: all version strings with 1-3 components over {0,1,2,3,4,10} + missing x 4 explicit settings x 4 signature shapes"
    for c in cases:
        version_case(s, *c)
    s.post_model = canon_ver_model
    return s


# ------------------------------------------------------------------ C11: connect validation + tables

ATTR_META = {"attrs": ["nt", "tr", "pe", "ev"], "trigger": ["tr"], "non-persistent": ["ev"]}
# attribute ids in the model: nt=0 (non-trigger in, persistent out), tr=1 (trigger in, persistent out),
# pe=2 (persistent out, non-trigger in), ev=3 (non-persistent out, non-trigger in), 9 = unknown attribute
AID = {"nt": 0, "tr": 1, "pe": 2, "ev": 3, "zz": 9}


class GStub(mosaik_api_v3.Simulator):
    # model P: a parent whose create() returns a child of model M (the grid -> bus pattern); its attribute roles differ from
    # M's on purpose (nt is a trigger, pe is non-persistent, pp exists only here), so that a connection to the child
    # judged by the parent's description is judged wrongly
    META = {"api_version": "3.0", "type": "hybrid", "models": {
        "M": {"public": True, "params": [], **ATTR_META},
        "P": {"public": True, "params": [], "attrs": ["nt", "tr", "pe", "ev", "pp"], "trigger": ["nt"], "non-persistent": ["pe"]}}}

    def __init__(self):
        import copy
        super().__init__(copy.deepcopy(GStub.META))

    def init(self, sid, time_resolution=1.0, **kw):
        return self.meta

    def create(self, num, model, **kw):
        if model == "P":
            return [{"eid": f"p{i}", "type": "P", "children": [{"eid": f"{i}", "type": "M"}]} for i in range(num)]
        return [{"eid": f"{i}", "type": model} for i in range(num)]

    def step(self, time, inputs, max_advance):
        return time + 1

    def get_data(self, outputs):
        return {}


MOD.GStub = GStub

MODEL_DESC_LINE = "0 4 0 1 2 3 1 1 - - 1 3"   # any=0 attrs=[0,1,2,3] trigger=[1] non-trigger=- persistent=- non-persistent=[3]

PLACEMENTS = [[], [0], [1], [0, 0], [0, 1]]


def start_in_groups(w, placements, via_parent=False):
    """Start one GStub per placement (a group path), creating the group tree with world.group().
    via_parent: the entity is the child (model M) of an entity of model P."""
    ents = [None] * len(placements)

    def rec(prefix):
        for i, p in enumerate(placements):
            if list(p) == prefix:
                mf = w.start("G", sim_id=f"S{i}")
                ents[i] = mf.P().children[0] if via_parent else mf.M()
        children = sorted(set(p[len(prefix)] for p in placements if len(p) > len(prefix) and list(p[:len(prefix)]) == prefix))
        for c in range((max(children) + 1) if children else 0):
            with w.group():
                rec(prefix + [c])
    rec([])
    return ents


def tables(w, i):
    sim = w.sims[f"S{i}"]
    idx = lambda r: int(r.sid[1:])  # noqa: E731
    def row(d):
        items = sorted((idx(k), v) for k, v in d.items())
        return f"{len(items)}" + "".join(f" {k} {s_ti(v)}" for k, v in items)
    npers = sum(len(srcs) for attrs in sim.persistent_inputs.values() for srcs in attrs.values())
    nout0 = len(sim.outputs or {})
    return (f"in {row(sim.input_delays)} succ {row(sim.successors)} wait {row(sim.successors_to_wait_for)} "
            f"trig {sum(len(v) for v in sim.triggers.values())} pull {sum(len(v) for v in sim.pulled_inputs.values())} "
            f"push {sum(len(v) for v in sim.output_to_push.values())} req {sum(len(v) for v in sim.output_request.values())} "
            f"pers {npers} out0 {nout0}")


def suite_connect(rng: random.Random, tier: str) -> Suite:
    """World.connect on stub simulators in a group tree: accept/reject and the tables it leaves behind."""
    s = Suite("connect")
    s.rule = ("World.connect between two of five simulators placed at (main, two siblings, two cousins): source attribute in "
              "{persistent, non-persistent, unknown} x destination attribute in {non-trigger, trigger, unknown} x time_shifted in {0,1,2} x weak x "
              "initial_data given x async_requests, for every ordered pair of placements (incl. the same simulator); compared: ScenarioError or not, "
              "and the connection tables of both simulators afterwards (delays, successors, trigger/pull/push/request/persistent/cache entries)")
    src_attrs = ["pe", "ev", "zz"]
    dst_attrs = ["nt", "tr", "zz"]
    combos = list(itertools.product(range(len(PLACEMENTS)), range(len(PLACEMENTS)), src_attrs, dst_attrs, (0, 1, 2), (False, True),
                                    (False, True), (False, True), (True, False)))
    if tier == "quick":
        combos = rng.sample(combos, 1500)
    else:
        s.exhaustive = True
    for (a, b, sa, da, ts, weak, init, asyncr, cache) in combos:
        w = mosaik.World({"G": {"python": "verif_stubs:GStub"}}, asyncio_loop=asyncio.new_event_loop(), skip_greetings=True, cache=cache)
        try:
            ents = start_in_groups(w, PLACEMENTS)
            kw = {}
            if ts:
                kw["time_shifted"] = ts
            if weak:
                kw["weak"] = True
            if init:
                kw["initial_data"] = {sa: 5}
            if asyncr:
                kw["async_requests"] = True
            with warnings.catch_warnings():
                warnings.simplefilter("ignore")
                try:
                    w.connect(ents[a], ents[b], (sa, da), **kw)
                    r = "ok"
                except ScenarioError:
                    r = "ScenarioError"
                except Exception as e:  # noqa: BLE001   any other exception is an observation, not a harness crash
                    r = type(e).__name__
            lines = [f"w.new {int(cache)}"] + [f"w.start hybrid {s_list(p)} {MODEL_DESC_LINE}" for p in PLACEMENTS]
            lines.append(f"w.connect {a} 0 {b} 0 1 {AID[sa]} {AID[da]} {int(asyncr)} {ts} {int(weak)} " +
                         (f"1 {AID[sa]} 5" if init else "0"))
            branch = f"{r}:ts{ts}w{int(weak)}i{int(init)}"
            for l in lines[:-1]:
                s.add(l, "ok", "build")
            s.add(lines[-1], r, branch)
            s.add(f"w.tables {a}", tables(w, a), "tables")
            s.add(f"w.tables {b}", tables(w, b), "tables")
        finally:
            close_world(w)
    return s


KINDS = {
    # kind: (simulator type, model description without "public"/"params")
    "TB": ("time-based", {"attrs": ["x", "y", "z"]}),
    "TB_ANY": ("time-based", {"attrs": ["x"], "any_inputs": True}),
    "EV": ("event-based", {"attrs": ["x", "y", "z"]}),
    "EV_ANY": ("event-based", {"attrs": ["x"], "any_inputs": True}),
    "HY": ("hybrid", {"attrs": ["x", "y", "z"], "trigger": ["x"], "non-persistent": ["z"]}),
    "HY_PLAIN": ("hybrid", {"attrs": ["x", "y", "z"]}),
    "HY_NT": ("hybrid", {"attrs": ["x", "y", "z"], "non-trigger": ["y", "z"], "persistent": ["x", "y"], "non-persistent": ["z"]}),
    "HY_ANY": ("hybrid", {"attrs": ["x", "y"], "any_inputs": True}),
    "HY_ANY_T": ("hybrid", {"attrs": ["x", "y"], "any_inputs": True, "trigger": ["x"]}),
    "HY_ANY_NT": ("hybrid", {"attrs": ["x", "y"], "any_inputs": True, "non-trigger": ["y"], "non-persistent": ["y"]}),
}
# descriptions World.start must reject (ValueError): persistent list that leaves an attribute unclassified; trigger outside attrs
BAD_KINDS = {
    "HY_BAD_P": ("hybrid", {"attrs": ["x", "y", "z"], "persistent": ["x", "y"]}),
    "TB_BAD_T": ("time-based", {"attrs": ["x", "y"], "trigger": ["x"]}),
}



def install_kind_stubs():
    for kind, (ty, d) in {**KINDS, **BAD_KINDS}.items():
        meta = {"api_version": "3.0", "type": ty, "models": {"M": {"public": True, "params": [], **copy.deepcopy(d)}}}
        base = make_stub(True, True, meta)

        def create(self, num, model, **kw):                 # fresh entity ids on every call
            k = getattr(self, "_n", 0)
            self._n = k + num
            return [{"eid": f"E{k + i}", "type": model} for i in range(num)]
        setattr(MOD, "K_" + kind, type("K_" + kind, (base,), {"create": create}))



KIND_AID = {"x": 0, "y": 1, "z": 2, "q": 9}


def kind_desc_line(kind, group):
    ty, d = {**KINDS, **BAD_KINDS}[kind]
    def lst(key):
        return "-" if key not in d else s_list([KIND_AID[a] for a in d[key]])
    return f"{ty} {s_list(group)} {int(d.get('any_inputs', False))} {s_list([KIND_AID[a] for a in d['attrs']])} {lst('trigger')} {lst('non-trigger')} {lst('persistent')} {lst('non-persistent')}"


def suite_connect_kinds(rng: random.Random, tier: str) -> Suite:
    """World.start + World.connect over the model kinds: the model's parse_attrs feeding the model's connect, against the code."""
    s = Suite("connect-kinds")
    s.rule = ("World.start of two simulators in one group with every ordered pair of ten model kinds (time-based / event-based / hybrid x any_inputs x "
              "trigger given directly or as complement of non-trigger x persistence given either way) + one inconsistent description, then World.connect "
              "for source attribute x destination attribute (declared / undeclared) x time_shifted x weak x initial data; compared: start accepted or "
              "ValueError, connect ok or ScenarioError, and the connection tables of both simulators afterwards")
    install_kind_stubs()
    names = ["x", "y", "z", "q"]
    params = list(itertools.product(names, names, (0, 1), (False, True), (False, True)))
    if tier != "quick":
        s.exhaustive = True
    pairs = list(itertools.product(KINDS, KINDS)) + [(b, "TB") for b in BAD_KINDS] + [("HY", b) for b in BAD_KINDS]
    for sk, dk in pairs:
        todo = params if tier != "quick" else rng.sample(params, 6)
        if sk in BAD_KINDS or dk in BAD_KINDS:
            todo = todo[:1]
        for (sa, da, ts, weak, init) in todo:
            cache = rng.random() < 0.5
            w = mosaik.World({k: {"python": f"verif_stubs:K_{k}"} for k in (sk, dk)}, asyncio_loop=asyncio.new_event_loop(), skip_greetings=True, cache=cache)
            try:
                with warnings.catch_warnings():
                    warnings.simplefilter("ignore")
                    facs = []
                    s.add(f"w.new {int(cache)}", "ok", "build")
                    with w.group():
                        for k, sid in ((sk, "S0"), (dk, "S1")):
                            try:
                                facs.append(w.start(k, sim_id=sid))
                                r = "ok"
                            except ValueError:
                                r = "ValueError"
                            s.add("w.start " + kind_desc_line(k, [0]), r, f"start:{k}:{r}")
                    if len(facs) < 2:
                        continue
                    kw = {}
                    if ts:
                        kw["time_shifted"] = ts
                    if weak:
                        kw["weak"] = True
                    if init:
                        kw["initial_data"] = {sa: 5}
                    se, de = facs[0].M(), facs[1].M()
                    try:
                        w.connect(se, de, (sa, da), **kw)
                        r = "ok"
                    except ScenarioError:
                        r = "ScenarioError"
                    except Exception as e:  # noqa: BLE001
                        r = type(e).__name__
                    s.add(f"w.connect 0 0 1 0 1 {KIND_AID[sa]} {KIND_AID[da]} 0 {ts} {int(weak)} " + (f"1 {KIND_AID[sa]} 5" if init else "0"),
                          r, f"{sk}>{dk}:{r}")
                    s.add("w.tables 0", tables(w, 0), "tables")
                    s.add("w.tables 1", tables(w, 1), "tables")
            finally:
                close_world(w)
    return s


ALL_WORLD = {"versions": suite_versions, "connect": suite_connect, "connect-kinds": suite_connect_kinds}


# ------------------------------------------------------------------ C06: cycle detection / triggering ancestors

CYC_PLACEMENTS = [[[], [], []], [[0], [0], [0]], [[0], [0], []], [[0], [1], []], [[0, 0], [0, 0], [0]], [[0, 0], [0, 1], [0]],
                  [[], [0], [0, 0]], [[0], [0], [1]]]
CONN_KINDS = ["plain", "ts", "weak", "async", "ts+async", "weak+async"]


def gen_graph(rng: random.Random, n: int, placement, max_conns: int):
    conns = []
    for _ in range(rng.randint(1, max_conns)):
        a, b = rng.randrange(n), rng.randrange(n)
        if a == b and rng.random() < 0.7:
            b = (a + 1) % n
        kind = rng.choice(CONN_KINDS)
        conns.append({"src": a, "dst": b, "kind": kind, "dattr": rng.choice(["nt", "tr"])})
    return {"placement": placement, "conns": conns}


def build_graph_world(g, cache=True):
    w = mosaik.World({"G": {"python": "verif_stubs:GStub"}}, asyncio_loop=asyncio.new_event_loop(), skip_greetings=True, cache=cache)
    ents = start_in_groups(w, g["placement"])
    lines = [f"w.new {int(cache)}"] + [f"w.start hybrid {s_list(p)} {MODEL_DESC_LINE}" for p in g["placement"]]
    results = []
    with warnings.catch_warnings():
        warnings.simplefilter("ignore")
        for c in g["conns"]:
            kw = {}
            flags = c["kind"].split("+")
            ts = 1 if "ts" in flags else 0
            weak = "weak" in flags
            is_async = "async" in flags
            if ts:
                kw["time_shifted"] = 1
            if weak:
                kw["weak"] = True
            if ts or weak:
                kw["initial_data"] = {"pe": 1}
            if is_async:
                kw["async_requests"] = True
            try:
                w.connect(ents[c["src"]], ents[c["dst"]], ("pe", c["dattr"]), **kw)
                r = "ok"
            except ScenarioError:
                r = "ScenarioError"
            results.append(r)
            lines.append(f"w.connect {c['src']} 0 {c['dst']} 0 1 2 {AID[c['dattr']]} {int(is_async)} {ts} {int(weak)} " +
                         ("1 2 1" if (ts or weak) else "0"))
    return w, lines, results


class _Hang(Exception):
    pass


def _with_alarm(seconds, fn):
    """Run fn() under a SIGALRM watchdog (the closures can fail to terminate for graphs of the D7 class)."""
    import signal

    def on_alarm(signum, frame):
        raise _Hang()
    old = signal.signal(signal.SIGALRM, on_alarm)
    signal.alarm(seconds)
    try:
        return fn()
    finally:
        signal.alarm(0)
        signal.signal(signal.SIGALRM, old)


def impl_cycle_hypotheses(w):
    """The hypotheses of C06.accept_complete evaluated on the tables the implementation built (same format as the
    driver's `w.cychyp`): shapes fit the depths, one cutoff for all connections."""
    sims = sorted(w.sims.values(), key=lambda s: int(s.sid[1:]))
    depth = {s: len(s.from_world_time.tiers) for s in sims}
    shaped = all(d.pre_length == depth[src] and len(d.tiers) == depth[dst] for dst in sims for src, d in dst.input_delays.items())
    cuts = [d.cutoff for dst in sims for d in dst.input_delays.values()]
    const = all(c == (cuts[0] if cuts else 1) for c in cuts)
    # ... and of C07.ancestor_table_is_minimum, on the trigger tables
    trigs = [(src, dst, d) for src in sims for lst in src.triggers.values() for (dst, d) in lst]
    tshaped = all(d.pre_length == depth[src] and len(d.tiers) == depth[dst] and d.cutoff <= d.pre_length for src, dst, d in trigs)
    tcuts = [d.cutoff for _, _, d in trigs]
    tconst = all(c == (tcuts[0] if tcuts else 1) for c in tcuts)
    # every graph that reaches this point is outside the D7 class by the harness's own classifier (nonuniform_graph): the
    # model's decision procedure for `Uniform` must agree
    return (f"shaped={str(shaped).lower()} nodup=true const={str(const).lower()} uniform=true "
            f"tshaped={str(tshaped).lower()} tconst={str(tconst).lower()}")


def cycle_result(w):
    try:
        _with_alarm(5, w.ensure_no_dataflow_cycles)
        return "ok", None
    except _Hang:
        return "hang", None
    except ScenarioError as e:
        import re
        path = [int(x) for x in re.findall(r"sid='S(\d+)'", str(e))]
        return "cycle", path
    except AssertionError:
        return "AssertionError", None


def anc_rows(w):
    try:
        _with_alarm(5, w.cache_triggering_ancestors)
    except AssertionError:
        return "AssertionError"
    except _Hang:
        return "hang"
    rows = []
    for sid, sim in sorted(w.sims.items(), key=lambda kv: int(kv[0][1:])):
        items = sorted((int(k.sid[1:]), v) for k, v in sim.triggering_ancestors.items())
        rows.append(f"{len(items)}" + "".join(f" {k} {s_ti(v)}" for k, v in items))
    return " ; ".join(rows)


def _common_len(a, b):
    n = 0
    while n < len(a) and n < len(b) and a[n] == b[n]:
        n += 1
    return n


def nonuniform_graph(g):
    """D7 class: two paths between the same pair with different cutoffs."""
    pl = g["placement"]
    n = len(pl)
    INF = 10 ** 6
    lo = [[INF] * n for _ in range(n)]
    hi = [[0] * n for _ in range(n)]
    for c in g["conns"]:
        cut = _common_len(pl[c["src"]], pl[c["dst"]]) + 1
        if "weak" in c["kind"].split("+") and cut == 1 and "async" not in c["kind"].split("+"):
            continue            # rejected by connect; with async_requests the async part of the call is still registered
        a, b = c["src"], c["dst"]
        lo[a][b] = min(lo[a][b], cut)
        hi[a][b] = max(hi[a][b], cut)
    for _ in range(n + 1):
        for k in range(n):
            for i in range(n):
                for j in range(n):
                    if lo[i][k] < INF and lo[k][j] < INF:
                        lo[i][j] = min(lo[i][j], min(lo[i][k], lo[k][j]))
                        hi[i][j] = max(hi[i][j], min(hi[i][k], hi[k][j]))
    return any(lo[i][j] < INF and lo[i][j] != hi[i][j] for i in range(n) for j in range(n))


def two_sim_graphs():
    """Every multigraph over two simulators: each of the four ordered pairs carries any subset of
    {plain, time-shifted, weak} connections; flat and inside one group."""
    import itertools
    pairs = [(0, 1), (1, 0), (0, 0), (1, 1)]
    kindsets = [ks for r in range(4) for ks in itertools.combinations(["plain", "ts", "weak"], r)]
    for placement in ([[], []], [[0], [0]]):
        for combo in itertools.product(kindsets, repeat=4):
            conns = [{"src": a, "dst": b, "kind": k, "dattr": "tr"} for (a, b), ks in zip(pairs, combo) for k in ks]
            if conns:
                yield {"placement": placement, "conns": conns}


def ordered_parallel_graphs():
    """Two simulators: 0 -> 1 carries two parallel connections of different kinds in a given ORDER (the tables keep
    per-pair minima, so the order of the connect calls must not matter), 1 -> 0 one connection of any kind."""
    import itertools
    kinds = ["plain", "ts", "weak", "async", "ts+async", "weak+async"]
    for placement in ([[], []], [[0], [0]]):
        for k1, k2 in list(itertools.permutations(kinds, 2)) + [(k, None) for k in kinds]:
            for back in kinds:
                for dattr in ("tr", "nt"):
                    yield {"placement": placement, "conns": [{"src": 0, "dst": 1, "kind": k1, "dattr": dattr}] +
                           ([{"src": 0, "dst": 1, "kind": k2, "dattr": dattr}] if k2 else []) +
                           [{"src": 1, "dst": 0, "kind": back, "dattr": "tr"}]}


def ordered_parallel_ring_graphs():
    """Three simulators: 0 -> 1 carries two parallel connections of different kinds in a given ORDER, the way back 1 -> 2 -> 0 runs
    through a third simulator inside the group, in a sibling group or outside (where a weak step is erased)."""
    import itertools
    kinds = ["plain", "ts", "weak"]
    for placement in ([[0], [0], [0]], [[0], [0], []], [[0], [0], [1]], [[0, 0], [0, 0], [0]], [[], [], []]):
        for k1, k2 in itertools.permutations(kinds, 2):
            for b1, b2 in itertools.product(["plain", "ts", "weak"], repeat=2):
                yield {"placement": placement, "conns": [{"src": 0, "dst": 1, "kind": k1, "dattr": "tr"}, {"src": 0, "dst": 1, "kind": k2, "dattr": "tr"},
                                                         {"src": 1, "dst": 2, "kind": b1, "dattr": "tr"}, {"src": 2, "dst": 0, "kind": b2, "dattr": "tr"}]}


def gen_cyclic_graph(rng: random.Random, placement):
    """Mostly-cyclic multigraph: a random cycle of plain or mixed connections plus chords/shortcuts/self-connections."""
    n = len(placement)
    k = rng.randint(2, n)
    cyc = rng.sample(range(n), k)
    conns = []
    for i in range(k):
        kind = rng.choice(["plain", "plain", "plain", "ts", "weak", "async"])
        conns.append({"src": cyc[i], "dst": cyc[(i + 1) % k], "kind": kind, "dattr": rng.choice(["nt", "tr"])})
    if rng.random() < 0.6:
        # a parallel connection of another kind on one edge of the cycle (either order after the shuffle)
        e = rng.choice(conns)
        conns.append({"src": e["src"], "dst": e["dst"], "kind": rng.choice([k for k in CONN_KINDS if k != e["kind"]]), "dattr": e["dattr"]})
    for _ in range(rng.randint(0, 5)):
        a, b = rng.randrange(n), rng.randrange(n)
        conns.append({"src": a, "dst": b, "kind": rng.choice(["ts", "ts", "weak", "plain"]), "dattr": rng.choice(["nt", "tr"])})
    rng.shuffle(conns)
    return {"placement": placement, "conns": conns}


def suite_cycles(rng: random.Random, tier: str) -> Suite:
    s = Suite("cycles")
    n_graphs = 500 if tier == "quick" else 8000
    n_two = 700 if tier == "quick" else None
    s.rule = (("700 sampled of" if n_two else "all") + " 8190 multigraphs over two simulators (every ordered pair incl. self-connections carries any subset of "
              f"plain / time-shifted / weak connections; flat and grouped) + all ordered pairs of parallel connections of different kinds (plain / shifted / weak / async / shifted+async / weak+async) with a back edge + the same with the way back through a third simulator inside / beside / outside the group (270 rings; quick: the 162 whose way back leaves the group + 40 sampled) + {n_graphs} random and {n_graphs} mostly-cyclic multigraphs over 3 simulators in 8 group "
              "placements with up to 9 connections (plain / time-shifted / weak / async, trigger or non-trigger inputs, shortcuts and parallel connections); "
              "three orders of worklist choice on the model side; compared: ensure_no_dataflow_cycles accepts / rejects / asserts, and the "
              "triggering-ancestor table with its minimal delays. distinct = distinct multigraphs")
    s.graphs = []
    two = list(two_sim_graphs())
    if n_two:
        two = rng.sample(two, n_two)
    rings = list(ordered_parallel_ring_graphs())
    if tier == "quick":
        # always: the way back leaves the group (that is where a forgotten weak edge changes the verdict); the rest sampled
        leaving = [g for g in rings if g["placement"][2] != g["placement"][0] and g["placement"][0]]
        rings = leaving + rng.sample([g for g in rings if g not in leaving], 40)
    graphs = two + list(ordered_parallel_graphs()) + rings + [gen_graph(rng, 3, rng.choice(CYC_PLACEMENTS), 5) for _ in range(n_graphs)] + \
        [gen_cyclic_graph(rng, rng.choice(CYC_PLACEMENTS)) for _ in range(n_graphs)]
    seen = set()
    for g in graphs:
        seen.add(repr(g))
        w, lines, results = build_graph_world(g)
        try:
            for l, r in zip(lines, ["ok"] * (1 + len(g["placement"])) + results):
                s.add(l, r, "build")
            res, path = cycle_result(w)
            s.graphs.append((g, res, path))
            if nonuniform_graph(g):
                # finding D7: delays of different cutoff are compared; the outcome depends on the order in which
                # Python's set hands out the simulators, so there is nothing stable to compare
                s.add("w.tables 0", s.cases[-1][1] if False else None, "skip:D7") if False else None
                continue
            # the model must reach the same verdict for different pop orders
            for orc in ("0", "3 2 1 5", "7 1 1 1 2 0 3 2"):
                s.add(f"w.cyc {orc}", res if res != "cycle" else "cycle", "cyc:" + res)
            s.add("w.anc 0", anc_rows(w), "anc")
            # the hypotheses of the completeness theorem hold for the tables connect() builds (shaped, dict), and the
            # executable uniformity check says the same on both sides
            hyp = impl_cycle_hypotheses(w)
            s.add("w.cychyp", hyp, "hyp:" + ("C06.exact_of_checks applies" if " const=true" in hyp else "C06.exact_of_uniformB applies (grouped, uniform)") +
                  "; " + ("C07.ancestor_table_of_checks applies" if hyp.endswith("tconst=true") and "tshaped=true" in hyp
                          else "UniformT not decided by the executable check"))
        finally:
            close_world(w)
    s.post_model = lambda a: "cycle" if a.startswith("cycle ") else a
    s.distinct_override = len(seen)
    return s


ALL_WORLD["cycles"] = suite_cycles
