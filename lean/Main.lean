import MosaikModel.Driver
open Mosaik.Driver

partial def loop (h : IO.FS.Stream) (out : IO.FS.Stream) (ss : Session) : IO Unit := do
  let line ← h.getLine
  if line.isEmpty then return ()
  let l := (line.dropEndWhile (fun c => c == '\n' || c == '\r')).toString
  if l == "flush" then
    out.putStrLn "flushed"
    out.flush
    loop h out ss
  else
    let (ss', ans) := handleLine ss l
    out.putStrLn ans
    loop h out ss'

def main : IO Unit := do
  let stdin ← IO.getStdin
  let stdout ← IO.getStdout
  loop stdin stdout {}
