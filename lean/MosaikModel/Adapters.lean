/-
Model of mosaik/adapters.py (`init_and_get_adapter`, `V3ToV2Adapter`, `V2ToV1Adapter`) and of the
version logic of mosaik/proxies.py (`extract_version`, the compliance check in `LocalProxy.init`).

A version is a list of naturals; Python's list comparison is the lexicographic order that
Lean's `<` on `List Nat` implements (a proper prefix is smaller).
-/
namespace Mosaik.Adapters

abbrev Version := List Nat

/-- `extract_version(meta)`: a missing "api_version" means version 1 -/
def extractVersion (apiVersion : Option Version) : Version := apiVersion.getD [1]

/-- how a simulator is started, as far as version handling is concerned -/
structure StartIn where
  reported : Option Version      -- meta["api_version"] split at "."; `none` = key missing
  explicit : Option Version      -- sim_config["api_version"]
  isLocal : Bool                 -- in-process (`LocalProxy`) or remote (`RemoteProxy`)
  hasTimeRes : Bool              -- init accepts time_resolution (or **kwargs)
  hasMaxAdv : Bool               -- step accepts max_advance (or **kwargs)
deriving Repr, Inhabited

/-- result of a successful start -/
structure Started where
  v2ToV1 : Bool                  -- wrapped in V2ToV1Adapter
  v3ToV2 : Bool                  -- wrapped in V3ToV2Adapter
  timeResSent : Bool             -- init was called with the time_resolution keyword
  warnOutdated : Bool            -- "is using an outdated API version" warning
deriving Repr, Inhabited, DecidableEq

/-- `check_api_compliance(sim)` -/
def compliant (i : StartIn) : Bool := i.hasTimeRes && i.hasMaxAdv

/-- `LocalProxy.init`: not compliant with the v3 signatures but claiming version ≥ 3 -/
def rejectForcedOld (i : StartIn) : Bool :=
  i.isLocal && !compliant i && decide (extractVersion i.reported ≥ [3])

/-- `init_and_get_adapter`: `version >= [4]` -/
def rejectTooNew (i : StartIn) : Bool := decide (extractVersion i.reported ≥ [4])

/-- `init_and_get_adapter`: `explicit_version and version != explicit_version` -/
def rejectMismatch (i : StartIn) : Bool :=
  match i.explicit with
  | some e => decide (extractVersion i.reported ≠ e)
  | none => false

/-- `simmanager.start` → `init_and_get_adapter` → `BaseProxy.init`; `none` = ScenarioError -/
def start (i : StartIn) : Option Started :=
  if rejectForcedOld i || rejectTooNew i || rejectMismatch i then none
  else
    let version := extractVersion i.reported
    let a1 := decide (version < [2, 2])
    let a2 := decide (version < [3])
    some { v2ToV1 := a1, v3ToV2 := a2, timeResSent := !(i.isLocal && !compliant i),
           warnOutdated := (a1 || a2) && i.explicit.isNone }

/-- the requests mosaik sends during a run -/
inductive Req where
  | setupDone
  | step (nargs : Nat)            -- number of positional arguments (time, inputs, max_advance = 3)
  | getData
  | other                          -- create, extra methods, stop, …
deriving Repr, DecidableEq, Inhabited

/-- request as it arrives at the simulator after passing the adapter stack
(`V3ToV2Adapter` is the outer one); `none` = the request is not sent (answered with `None`) -/
def rewrite (s : Started) (r : Req) : Option Req :=
  let r1 : Req := if s.v3ToV2 then (match r with | .step n => .step (min n 2) | r => r) else r
  if s.v2ToV1 then (match r1 with | .setupDone => none | r => some r) else some r1

/-- `meta["type"]` as seen by mosaik (`V3ToV2Adapter.meta` defaults it) ; 0/1/2 = the three types -/
def metaType (s : Started) (reportedType : Option Nat) : Option Nat :=
  match reportedType with
  | some t => some t
  | none => if s.v3ToV2 then some 0 else none       -- "time-based"

end Mosaik.Adapters
