/-
The static configuration of a world as the scheduler sees it: what `World.start`,
`World.connect`, `World.set_initial_event` leave behind in the `SimRunner` objects.
-/
import MosaikModel.Tiered
import MosaikModel.IOSet
import MosaikModel.Groups
namespace Mosaik

abbrev Sid := Nat
/-- (entity id, attribute) -/
abbrev Port := Nat × Nat

/-- a data value: `none` = Python `None`, `some n` = opaque token `n` -/
abbrev Val := Option Nat

/-- step inputs, flattened: (dest eid, dest attr, src sid, src eid) ↦ value -/
structure InKey where
  eid : Nat
  attr : Nat
  ssid : Nat
  seid : Nat
deriving DecidableEq, Repr, Inhabited

abbrev InputData := List (InKey × Val)

namespace InputData
/-- `d[eid][attr][src] = v` (insert or overwrite, keeping the position of an existing key) -/
def set (d : InputData) (k : InKey) (v : Val) : InputData :=
  if d.any (·.1 == k) then d.map (fun e => if e.1 == k then (k, v) else e) else d ++ [(k, v)]
def get? (d : InputData) (k : InKey) : Option Val := (d.find? (·.1 == k)).map (·.2)
def has (d : InputData) (k : InKey) : Bool := d.any (·.1 == k)
end InputData

/-- one `get_data` result, flattened: (eid, attr) ↦ value -/
abbrev OutData := List (Port × Val)

namespace OutData
def get? (d : OutData) (p : Port) : Option Val := (d.find? (·.1 == p)).map (·.2)
def has (d : OutData) (p : Port) : Bool := d.any (·.1 == p)
def set (d : OutData) (p : Port) (v : Val) : OutData :=
  if d.any (·.1 == p) then d.map (fun e => if e.1 == p then (p, v) else e) else d ++ [(p, v)]
end OutData

/-- per-simulator connection tables (`SimRunner` attributes filled by `connect`) -/
structure SimCfg where
  ty : SimType := .timeBased
  group : Group := []
  depth : Nat := 1
  /-- `input_delays`: predecessor ↦ minimal delay -/
  inputDelays : List (Sid × TI) := []
  /-- `successors` (lazy stepping) -/
  succs : List (Sid × TI) := []
  /-- `successors_to_wait_for` (async requests) -/
  succsWait : List (Sid × TI) := []
  /-- `triggers`: port ↦ triggered simulators with delay -/
  triggers : List (Port × Sid × TI) := []
  /-- `triggering_ancestors` (filled by `cache_triggering_ancestors`) -/
  trigAnc : List (Sid × TI) := []
  /-- `pulled_inputs`: (src sim, delay, src port, dest port) -/
  pulled : List (Sid × TI × Port × Port) := []
  /-- `output_to_push`: src port ↦ (dest sim, delay, dest port) -/
  push : List (Port × Sid × TI × Port) := []
  /-- `output_request` (only emptiness matters for control) -/
  outReq : List Port := []
  /-- initial `persistent_inputs` -/
  persistent0 : InputData := []
  /-- initial content of the output cache (`outputs`), keyed by (possibly negative) time -/
  outputs0 : List (Int × OutData) := []
  /-- initial `next_steps` -/
  next0 : List TT := []
deriving Repr, Inhabited

/-- global run parameters + all simulators -/
structure Cfg where
  sims : List SimCfg := []
  until_ : Nat := 0
  maxLoop : Nat := 100
  lazy_ : Bool := true
  useCache : Bool := true
  /-- real-time factor in clock ticks per time step (`rt_factor * time_resolution`); `none` = as fast as possible -/
  rt : Option Nat := none
  rtStrict : Bool := false
deriving Repr, Inhabited

namespace Cfg
def n (c : Cfg) : Nat := c.sims.length
def sim (c : Cfg) (p : Sid) : SimCfg := c.sims.getD p {}
/-- `TieredTime(until) + sim.from_world_time` -/
def endT (c : Cfg) (p : Sid) : TT := ofWorld (c.sim p).depth c.until_
end Cfg

def lookupTI (l : List (Sid × TI)) (k : Sid) : Option TI := (l.find? (·.1 == k)).map (·.2)

def insertTI (l : List (Sid × TI)) (k : Sid) (v : TI) : List (Sid × TI) :=
  if l.any (·.1 == k) then l.map (fun e => if e.1 == k then (k, v) else e) else l ++ [(k, v)]

end Mosaik
