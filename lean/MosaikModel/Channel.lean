/-
Model of one request of `RemoteProxy.send` (mosaik/proxies.py) against the connection state of
`mosaik_api_v3.connection.Channel` — the part of the transport that decides whether a request to a remote simulator can
wait forever (defect D21, C14).

  * the channel's receiver task fails every request that is outstanding when it sees end-of-stream, queues
    `EndOfRequests` for the proxy's reader task, and ends; a request registered AFTER that is answered by nobody;
  * the proxy's reader task ends when it takes `EndOfRequests` from the queue;
  * on a connection RESET the receiver task ends without doing either (defect D24);
  * `RemoteProxy.send` waits for the first of {the answer, the end of the reader task (fix D21), the end of the receiver task
    (fix D24)} and raises `ConnectionResetError` when it is not the answer; originally it awaited the answer alone.
Everything else (framing, JSON, the socket) is not modelled.
-/
namespace Mosaik.Channel

inductive Req where
  | none                 -- no request outstanding
  | pending              -- written to the socket, future registered, not resolved
  | answered             -- the simulator's reply arrived
  | failed               -- IncompleteReadError (set by the receiver) or ConnectionResetError (raised by `send`)
deriving DecidableEq, Repr, Inhabited

structure St where
  peerAlive : Bool := true
  abortive : Bool := false       -- the connection was reset (RST) rather than closed in order (FIN)
  receiverDone : Bool := false   -- the channel's receiver task has ended
  eofSeen : Bool := false        -- … on a clean end of stream: outstanding requests failed, `EndOfRequests` queued
  readerDone : Bool := false     -- the proxy's reader task has taken `EndOfRequests`
  req : Req := .none
deriving DecidableEq, Repr, Inhabited

inductive Act where
  | send                 -- mosaik issues a request (`step`, `get_data`, …)
  | reply                -- the simulator answers the outstanding request
  | die (abortive : Bool)   -- the simulator's process exits / closes the connection (in order, or by a reset)
  | receiverWakes        -- the channel's receiver task wakes up on the end of the stream or on the reset
  | readerWakes          -- the proxy's reader task takes `EndOfRequests`
  | sendNotices          -- `asyncio.wait` in `RemoteProxy.send` returns because a watched task is done
deriving DecidableEq, Repr, Inhabited

/-- `fix = 0`: the original code (`send` awaits the answer alone); `1`: after fix D21 (`send` also watches the proxy's reader
task); `2`: after fix D24 (… and the channel's receiver task) -/
def step (fix : Nat) (s : St) : Act → Option St
  | .send =>
    if s.req = .none ∨ s.req = .answered then
      -- (after the fixes a request issued when a watched task is already done fails at once)
      some { s with req := if (decide (1 ≤ fix) && s.readerDone) || (decide (2 ≤ fix) && s.receiverDone) then .failed else .pending }
    else none
  | .reply => if s.peerAlive ∧ s.req = .pending then some { s with req := .answered } else none
  | .die abortive => if s.peerAlive then some { s with peerAlive := false, abortive := abortive } else none
  | .receiverWakes =>
    if !s.peerAlive ∧ !s.receiverDone then
      if s.abortive then
        -- ConnectionResetError is not handled by `_receive_forever`: the task just ends
        some { s with receiverDone := true }
      else some { s with receiverDone := true, eofSeen := true, req := if s.req = .pending then .failed else s.req }
    else none
  | .readerWakes => if s.eofSeen ∧ !s.readerDone then some { s with readerDone := true } else none
  | .sendNotices =>
    if s.req = .pending ∧ ((1 ≤ fix ∧ s.readerDone) ∨ (2 ≤ fix ∧ s.receiverDone)) then some { s with req := .failed } else none

def exec (fix : Nat) : St → List Act → Option St
  | s, [] => some s
  | s, a :: as => match step fix s a with
    | none => none
    | some s' => exec fix s' as

/-- a request is pending and nothing the transport or mosaik can still do will ever resolve it -/
def Stuck (fix : Nat) (s : St) : Prop :=
  s.req = .pending ∧ ∀ a, a ≠ Act.send → step fix s a = none

end Mosaik.Channel
