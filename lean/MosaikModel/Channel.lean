/-
Model of one request of `RemoteProxy.send` (mosaik/proxies.py) against the connection state of
`mosaik_api_v3.connection.Channel` — the part of the transport that decides whether a request to a remote simulator can
wait forever (defect D21, C14).

  * the channel's receiver task fails every request that is outstanding when it sees end-of-stream, queues
    `EndOfRequests` for the proxy's reader task, and ends; a request registered AFTER that is answered by nobody;
  * the proxy's reader task ends when it takes `EndOfRequests` from the queue;
  * `RemoteProxy.send` (since fix D21) waits for the first of {the answer, the end of the reader task} and raises
    `ConnectionResetError` in the second case; before the fix it awaited the answer alone.
Everything else (framing, JSON, the socket) is not modelled.
-/
namespace Mosaik.Channel

inductive Req where
  | none                 -- no request outstanding
  | pending              -- written to the socket, future registered, not resolved
  | answered             -- the simulator's reply arrived
  | failed               -- IncompleteReadError (set by the receiver) or ConnectionResetError (raised by `send`)
deriving DecidableEq, Repr, Inhabited

structure St where
  peerAlive : Bool := true
  eofSeen : Bool := false        -- the receiver task has seen end-of-stream (and has ended)
  readerDone : Bool := false     -- the proxy's reader task has taken `EndOfRequests`
  req : Req := .none
deriving DecidableEq, Repr, Inhabited

inductive Act where
  | send                 -- mosaik issues a request (`step`, `get_data`, …)
  | reply                -- the simulator answers the outstanding request
  | die                  -- the simulator's process exits / closes the connection
  | receiverSeesEof      -- the channel's receiver task wakes up on end-of-stream
  | readerWakes          -- the proxy's reader task takes `EndOfRequests`
  | sendNotices          -- `asyncio.wait` in `RemoteProxy.send` returns because the reader task is done  (fix D21)
deriving DecidableEq, Repr, Inhabited

/-- `fixed = true`: the code after fix D21; `false`: before (no `sendNotices`, no check at the start of `send`) -/
def step (fixed : Bool) (s : St) : Act → Option St
  | .send =>
    if s.req = .none ∨ s.req = .answered then
      -- (after the fix a request issued when the reader task is already done fails at once)
      some { s with req := if fixed && s.readerDone then .failed else .pending }
    else none
  | .reply => if s.peerAlive ∧ s.req = .pending then some { s with req := .answered } else none
  | .die => if s.peerAlive then some { s with peerAlive := false } else none
  | .receiverSeesEof =>
    if !s.peerAlive ∧ !s.eofSeen then some { s with eofSeen := true, req := if s.req = .pending then .failed else s.req } else none
  | .readerWakes => if s.eofSeen ∧ !s.readerDone then some { s with readerDone := true } else none
  | .sendNotices => if fixed ∧ s.readerDone ∧ s.req = .pending then some { s with req := .failed } else none

def exec (fixed : Bool) : St → List Act → Option St
  | s, [] => some s
  | s, a :: as => match step fixed s a with
    | none => none
    | some s' => exec fixed s' as

/-- a request is pending and nothing the transport or mosaik can still do will ever resolve it -/
def Stuck (fixed : Bool) (s : St) : Prop :=
  s.req = .pending ∧ ∀ a, a ≠ Act.send → step fixed s a = none

end Mosaik.Channel
