/-
Model of the two min-delay closures of mosaik/scenario.py that `World.run` computes before
the first step: `ensure_no_dataflow_cycles` and `cache_triggering_ancestors`.

Both are worklist algorithms over a Python `set` (`dirty.pop()` picks an arbitrary element):
the pick is an explicit oracle.  One relaxation (processing one popped simulator) is a
function; the executable closure iterates it with fuel, the theorems are about every sequence
of relaxations.
-/
import MosaikModel.Cfg
namespace Mosaik

inductive ClosErr where
  | assertion          -- shape assert of `+` or "are incomparable" in `<`
  | fuel               -- the worklist did not empty within the fuel (model artefact)
deriving Repr, DecidableEq, Inhabited

/-- (src, dest) ↦ (minimal delay found so far, path exhibiting it) -/
abbrev Descs := List ((Sid × Sid) × (TI × List Sid))

namespace Descs
def get? (d : Descs) (s t : Sid) : Option (TI × List Sid) := (d.find? (·.1 == (s, t))).map (·.2)
def set (d : Descs) (s t : Sid) (v : TI × List Sid) : Descs :=
  if d.any (·.1 == (s, t)) then d.map (fun e => if e.1 == (s, t) then ((s, t), v) else e)
  else d ++ [((s, t), v)]
/-- `sim_descs[mid].items()` -/
def row (d : Descs) (s : Sid) : List (Sid × TI × List Sid) :=
  (d.filter (·.1.1 == s)).map (fun e => (e.1.2, e.2.1, e.2.2))
end Descs

def insertDirty (dirty : List Sid) (s : Sid) : List Sid := if dirty.contains s then dirty else dirty ++ [s]

structure CycState where
  descs : Descs
  dirty : List Sid
deriving Repr, Inhabited

/-- initial state of `ensure_no_dataflow_cycles` -/
def cycInit (sims : List SimCfg) : CycState :=
  let descs := (List.range sims.length).foldl (fun (acc : Descs) dst =>
    (sims.getD dst {}).inputDelays.foldl (fun acc pd => acc.set pd.1 dst (pd.2, [pd.1, dst])) acc) []
  { descs := descs, dirty := List.range sims.length }

/-- inner two loops for one popped `mid_sim` -/
def cycRelax (sims : List SimCfg) (st : CycState) (mid : Sid) : Except ClosErr CycState :=
  (sims.getD mid {}).inputDelays.foldlM (fun (st : CycState) (sd : Sid × TI) =>
    let (src, srcToMid) := sd
    -- `sim_descs[mid_sim].items()` is a live view: re-read the row for every predecessor
    (st.descs.row mid).foldlM (fun (st : CycState) (e : Sid × TI × List Sid) =>
      let (dest, _, _) := e
      -- live value (the entry may just have been updated when src = mid)
      match st.descs.get? mid dest with
      | none => .ok st
      | some (midToDest, path) =>
        match TI.add? srcToMid midToDest with
        | none => .error .assertion
        | some s2d =>
          match TI.updateMin? ((st.descs.get? src dest).map (·.1)) s2d with
          | none => .error .assertion
          | some none => .ok st
          | some (some v) => .ok { descs := st.descs.set src dest (v, src :: path), dirty := insertDirty st.dirty src }) st) st

def popAt (l : List Sid) (i : Nat) : Option (Sid × List Sid) :=
  if l.isEmpty then none else
    let j := i % l.length
    some (l.getD j 0, l.eraseIdx j)

/-- the `while dirty` loop, picks from the oracle -/
def cycLoop (sims : List SimCfg) : Nat → CycState → List Nat → Except ClosErr CycState
  | 0, st, _ => if st.dirty.isEmpty then .ok st else .error .fuel
  | fuel + 1, st, orc =>
    match popAt st.dirty (orc.headD 0) with
    | none => .ok st
    | some (mid, rest) =>
      match cycRelax sims { st with dirty := rest } mid with
      | .error e => .error e
      | .ok st' => cycLoop sims fuel st' orc.tail

/-- final scan: some simulator reaches itself with an all-zero delay → that path -/
def cycFind (n : Nat) (descs : Descs) : Option (List Sid) :=
  (List.range n).findSome? fun s =>
    match descs.get? s s with
    | some (d, path) => if d.isZero then some path else none
    | none => none

inductive CycResult where
  | ok
  | cycle (path : List Sid)         -- ScenarioError("Your scenario contains cycles, for example: …")
  | error (e : ClosErr)
deriving Repr, DecidableEq, Inhabited

def closureFuel (n : Nat) : Nat := 200 + 50 * n * n * n

/-- `World.ensure_no_dataflow_cycles()` -/
def ensureNoCycles (sims : List SimCfg) (orc : List Nat) : CycResult :=
  match cycLoop sims (closureFuel sims.length) (cycInit sims) orc with
  | .error e => .error e
  | .ok st => match cycFind sims.length st.descs with
    | some p => .cycle p
    | none => .ok

/-! executable forms of the hypotheses of the completeness theorem (`MosaikProofs/Closure/Complete.lean`) -/

/-- every connection's delay fits the depths of its two simulators -/
def shapedB (sims : List SimCfg) : Bool :=
  (List.range sims.length).all fun t => (sims.getD t {}).inputDelays.all fun sd =>
    sd.2.pre == (sims.getD sd.1 {}).depth && sd.2.tiers.length == (sims.getD t {}).depth

/-- `input_delays` has one entry per predecessor -/
def nodupKeysB (sims : List SimCfg) : Bool :=
  (List.range sims.length).all fun t => decide (((sims.getD t {}).inputDelays.map (·.1)).Nodup)

/-- all connections have one cutoff (sufficient for `Uniform`; true for every scenario without groups) -/
def constCutoffB (sims : List SimCfg) : Bool :=
  let c := (((sims.flatMap (·.inputDelays)).head?).map (·.2.cutoff)).getD 1
  (List.range sims.length).all fun t => (sims.getD t {}).inputDelays.all fun sd => sd.2.cutoff == c

/-! an executable decision of `Uniform` (all paths between two simulators have one cutoff): the smallest and the largest
path cutoff per pair, computed by rounds of relaxation and then *checked* to be closed — the soundness proof
(`MosaikProofs/Closure/Complete.lean: uniformB_sound`) only uses the check -/

abbrev CutTab := List (List Nat)      -- [src][dest], 0 = no path

def CutTab.get (t : CutTab) (s d : Sid) : Nat := (t.getD s []).getD d 0
def CutTab.put (t : CutTab) (s d : Sid) (v : Nat) : CutTab := t.set s ((t.getD s []).set d v)

/-- one round: every connection in front of every known path -/
def cutRound (sims : List SimCfg) (lohi : CutTab × CutTab) : CutTab × CutTab :=
  (List.range sims.length).foldl (fun acc m =>
    (sims.getD m {}).inputDelays.foldl (fun acc sd =>
      (List.range sims.length).foldl (fun (acc : CutTab × CutTab) t =>
        let (lo, hi) := acc
        if lo.get m t = 0 then acc else
          let cl := min sd.2.cutoff (lo.get m t)
          let ch := min sd.2.cutoff (hi.get m t)
          (lo.put sd.1 t (if lo.get sd.1 t = 0 then cl else min (lo.get sd.1 t) cl),
           hi.put sd.1 t (max (hi.get sd.1 t) ch))) acc) acc) lohi

def cutTables (sims : List SimCfg) : CutTab × CutTab :=
  let n := sims.length
  let empty : CutTab := List.replicate n (List.replicate n 0)
  let init := (List.range n).foldl (fun (acc : CutTab × CutTab) t =>
    (sims.getD t {}).inputDelays.foldl (fun (acc : CutTab × CutTab) sd =>
      let (lo, hi) := acc
      (lo.put sd.1 t (if lo.get sd.1 t = 0 then sd.2.cutoff else min (lo.get sd.1 t) sd.2.cutoff),
       hi.put sd.1 t (max (hi.get sd.1 t) sd.2.cutoff))) acc) (empty, empty)
  (List.range (n + 1)).foldl (fun acc _ => cutRound sims acc) init

/-- the tables bound every connection and are closed under putting a connection in front of a path -/
def cutClosedB (sims : List SimCfg) (lo hi : CutTab) : Bool :=
  (List.range sims.length).all fun m => (sims.getD m {}).inputDelays.all fun sd =>
    (decide (sd.1 < sims.length) && lo.get sd.1 m != 0 && decide (lo.get sd.1 m ≤ sd.2.cutoff) && decide (sd.2.cutoff ≤ hi.get sd.1 m)) &&
    (List.range sims.length).all fun t =>
      lo.get m t == 0 ||
        (lo.get sd.1 t != 0 && decide (lo.get sd.1 t ≤ min sd.2.cutoff (lo.get m t)) && decide (min sd.2.cutoff (hi.get m t) ≤ hi.get sd.1 t))

def uniformB (sims : List SimCfg) : Bool :=
  let (lo, hi) := cutTables sims
  cutClosedB sims lo hi &&
    (List.range sims.length).all fun s => (List.range sims.length).all fun t => lo.get s t == hi.get s t

/-! executable forms of the hypotheses of the ancestor-table theorem (`MosaikProofs/Closure/AncTable.lean`) -/

/-- every trigger connection's delay fits the depths of its two simulators, has `cutoff ≤ pre_length`, and its target exists -/
def shapedTB (sims : List SimCfg) : Bool :=
  (List.range sims.length).all fun s => (sims.getD s {}).triggers.all fun tr =>
    tr.2.2.pre == (sims.getD s {}).depth && tr.2.2.tiers.length == (sims.getD tr.2.1 {}).depth &&
    decide (tr.2.2.cutoff ≤ tr.2.2.pre) && decide (tr.2.1 < sims.length)

/-- all trigger connections have one cutoff (sufficient for `UniformT`; true for every scenario without groups) -/
def constCutoffTB (sims : List SimCfg) : Bool :=
  let c := (((sims.flatMap (·.triggers)).head?).map (·.2.2.cutoff)).getD 1
  (List.range sims.length).all fun s => (sims.getD s {}).triggers.all fun tr => tr.2.2.cutoff == c

/-! ### `cache_triggering_ancestors` -/

/-- `triggering_ancestors` of every simulator: `anc[dest]` = list of (ancestor, min delay) -/
structure AncState where
  anc : List (List (Sid × TI))
  dirty : List Sid
deriving Repr, Inhabited

namespace AncState
def row (st : AncState) (p : Sid) : List (Sid × TI) := st.anc.getD p []
def setRow (st : AncState) (p : Sid) (r : List (Sid × TI)) : AncState := { st with anc := st.anc.set p r }
end AncState

/-- first loop: direct triggers, keeping the minimum -/
def ancInit (sims : List SimCfg) : Except ClosErr AncState :=
  (List.range sims.length).foldlM (fun (st : AncState) src =>
    (sims.getD src {}).triggers.foldlM (fun (st : AncState) (tr : Port × Sid × TI) =>
      let (_, dest, delay) := tr
      match TI.updateMin? (lookupTI (st.row dest) src) delay with
      | none => .error .assertion
      | some none => .ok { st with dirty := insertDirty st.dirty dest }
      | some (some v) => .ok { (st.setRow dest (insertTI (st.row dest) src v)) with dirty := insertDirty st.dirty dest }) st)
    { anc := List.replicate sims.length [], dirty := [] }

/-- body of the `while dirty` loop for one popped simulator -/
def ancRelax (sims : List SimCfg) (st : AncState) (mid : Sid) : Except ClosErr AncState :=
  (sims.getD mid {}).triggers.foldlM (fun (st : AncState) (tr : Port × Sid × TI) =>
    let (_, dest, midToDest) := tr
    -- `sim.triggering_ancestors.items()` is live; iterate over a snapshot of the keys and re-read
    (st.row mid).foldlM (fun (st : AncState) (e : Sid × TI) =>
      let src := e.1
      match lookupTI (st.row mid) src with
      | none => .ok st
      | some srcToMid =>
        match TI.add? srcToMid midToDest with
        | none => .error .assertion
        | some s2d =>
          match TI.updateMin? (lookupTI (st.row dest) src) s2d with
          | none => .error .assertion
          | some none => .ok st
          | some (some v) =>
            .ok { (st.setRow dest (insertTI (st.row dest) src v)) with dirty := insertDirty st.dirty dest }) st) st

def ancLoop (sims : List SimCfg) : Nat → AncState → List Nat → Except ClosErr AncState
  | 0, st, _ => if st.dirty.isEmpty then .ok st else .error .fuel
  | fuel + 1, st, orc =>
    match popAt st.dirty (orc.headD 0) with
    | none => .ok st
    | some (mid, rest) =>
      match ancRelax sims { st with dirty := rest } mid with
      | .error e => .error e
      | .ok st' => ancLoop sims fuel st' orc.tail

/-- `World.cache_triggering_ancestors()`: returns the simulators with `trigAnc` filled in -/
def cacheTriggeringAncestors (sims : List SimCfg) (orc : List Nat) : Except ClosErr (List SimCfg) :=
  match ancInit sims with
  | .error e => .error e
  | .ok st0 =>
    match ancLoop sims (closureFuel sims.length) st0 orc with
    | .error e => .error e
    | .ok st => .ok (sims.zipIdx.map fun (s, i) => { s with trigAnc := st.row i })

end Mosaik
