/-
Model of scenario building: `World.start` (as far as the scheduler tables are concerned),
`World.connect` / `connect_one` / `connect_async_requests`, `World.set_initial_event`.
-/
import MosaikModel.Cfg
namespace Mosaik

inductive BuildErr where
  | scenarioError
  | assertion          -- an `assert` of tiered_time.py
deriving Repr, DecidableEq, Inhabited

/-- a started simulator: `world.start(...)` inside the group `group`, with one model whose
attribute classes are `cls` -/
structure SimDecl where
  ty : SimType
  group : Group
  cls : AttrClasses
deriving Repr, Inhabited

/-- one `world.connect(src, dest, *attr_pairs, async_requests=…, time_shifted=…, weak=…, initial_data=…)` -/
structure ConnectCall where
  src : Sid
  seid : Nat
  dst : Sid
  deid : Nat
  pairs : List (Nat × Nat)
  asyncReq : Bool := false
  timeShifted : Nat := 0
  weak : Bool := false
  init : List (Nat × Val) := []
deriving Repr, Inhabited

structure World where
  decls : List SimDecl := []
  sims : List SimCfg := []
  useCache : Bool := true
deriving Repr, Inhabited

namespace World

def decl (w : World) (p : Sid) : SimDecl := w.decls.getD p default
def sim (w : World) (p : Sid) : SimCfg := w.sims.getD p {}
def setSim (w : World) (p : Sid) (s : SimCfg) : World := { w with sims := w.sims.set p s }

/-- `world.start(...)` in group `g` -/
def start (w : World) (d : SimDecl) : World :=
  let depth := Group.depth d.group
  { w with
    decls := w.decls ++ [d],
    sims := w.sims ++ [{ ty := d.ty, group := d.group, depth := depth,
                         next0 := if d.ty == .eventBased then [] else [TT.zero depth] }] }

def setOutputs0 (o : List (Int × OutData)) (t : Int) (p : Port) (v : Val) : List (Int × OutData) :=
  if o.any (·.1 == t) then o.map (fun e => if e.1 == t then (t, OutData.set e.2 p v) else e)
  else o ++ [(t, [(p, v)])]

/-- the request `connect_one` validates, derived from the declared models -/
def connReq (w : World) (c : ConnectCall) (sattr dattr : Nat) : ConnReq :=
  let s := w.decl c.src
  let d := w.decl c.dst
  { srcIsOutput := IOSet.mem sattr s.cls.outputAttrs,
    destIsInput := IOSet.mem dattr d.cls.inputAttrs,
    destNonTrigger := IOSet.mem dattr d.cls.nonTrigIn,
    timeShifted := c.timeShifted, weak := c.weak,
    hasInit := (c.init.lookup sattr).isSome,
    srcGroup := s.group, destGroup := d.group }

/-- `World.connect_one`; the world is unchanged on error -/
def connectOne (w : World) (c : ConnectCall) (sattr dattr : Nat) : Except BuildErr World :=
  match connectOneCheck (w.connReq c sattr dattr) with
  | none => .error .scenarioError
  | some delay =>
    let sdecl := w.decl c.src
    let ddecl := w.decl c.dst
    let sport : Port := (c.seid, sattr)
    let dport : Port := (c.deid, dattr)
    let key : InKey := { eid := c.deid, attr := dattr, ssid := c.src, seid := c.seid }
    let persistentAttr := IOSet.mem sattr sdecl.cls.persOut
    let triggered := IOSet.mem dattr ddecl.cls.trigIn
    let isPulled := w.useCache && persistentAttr
    -- dest_sim.input_delays[src_sim] = min(old or delay, delay)
    let dsim0 := w.sim c.dst
    match TI.min2? ((lookupTI dsim0.inputDelays c.src).getD delay) delay with
    | none => .error .assertion
    | some dmin =>
      let dsim1 := { dsim0 with inputDelays := insertTI dsim0.inputDelays c.src dmin }
      let dsim2 := if persistentAttr && !w.useCache && !(InputData.has dsim1.persistent0 key)
        then { dsim1 with persistent0 := InputData.set dsim1.persistent0 key none } else dsim1
      let dsim3 := if isPulled then { dsim2 with pulled := dsim2.pulled ++ [(c.src, delay, sport, dport)] } else dsim2
      let dsim4 := match c.init.lookup sattr with
        | some v => if isPulled then dsim3 else { dsim3 with persistent0 := InputData.set dsim3.persistent0 key v }
        | none => dsim3
      let w1 := w.setSim c.dst dsim4
      -- source side (read after the destination update: src and dest may be the same simulator)
      let ssim0 := w1.sim c.src
      let ssim1 := { ssim0 with outReq := ssim0.outReq ++ [sport] }
      let ssim2 := if isPulled then ssim1 else { ssim1 with push := ssim1.push ++ [(sport, c.dst, delay, dport)] }
      match connectInterval sdecl.group ddecl.group with
      | none => .error .assertion   -- unreachable: plain intervals are always accepted
      | some plain =>
        let ssim3 := { ssim2 with succs := insertTI ssim2.succs c.dst plain }
        let ssim4 := if triggered then { ssim3 with triggers := ssim3.triggers ++ [(sport, c.dst, delay)] } else ssim3
        let ssim5 := match c.init.lookup sattr with
          | some v => if isPulled then { ssim4 with outputs0 := setOutputs0 ssim4.outputs0 (-(c.timeShifted : Int)) sport v } else ssim4
          | none => ssim4
        .ok (w1.setSim c.src ssim5)

/-- `World.connect_async_requests(src_factory, dest_factory)` -/
def connectAsync (w : World) (src dst : Sid) : World :=
  match connectInterval (w.decl src).group (w.decl dst).group with
  | none => w
  | some delay =>
    let s := w.sim src
    let w1 := w.setSim src { s with succs := insertTI s.succs dst delay, succsWait := insertTI s.succsWait dst delay }
    let d := w1.sim dst
    w1.setSim dst { d with inputDelays := insertTI d.inputDelays src delay }

/-- `World.connect`: every pair is tried, errors are collected, async requests are set up,
then the collected errors are raised.  Returns the world *after* the call and whether it raised. -/
def connect (w : World) (c : ConnectCall) : World × Option BuildErr :=
  let (w1, err) := c.pairs.foldl (fun (acc : World × Option BuildErr) pr =>
      match connectOne acc.1 c pr.1 pr.2 with
      | .ok w' => (w', acc.2)
      | .error e => (acc.1, match acc.2 with | some e0 => some e0 | none => some e)) (w, none)
  let w2 := if c.asyncReq then w1.connectAsync c.src c.dst else w1
  (w2, err)

/-- `World.set_initial_event(sid, time)` -/
def setInitialEvent (w : World) (p : Sid) (t : Nat) : World :=
  let s := w.sim p
  w.setSim p { s with next0 := [ofWorld s.depth t] }

end World
end Mosaik
