/-
Executable "reply, then run to quiescence" semantics used by the driver: every internal action
(`wake`, `deps`) that is enabled is fired, simulator by simulator, until none is enabled.
By construction this is one particular run of the fine-grained transition system `step`
(each state change goes through `step`), so every theorem about all runs of `step` covers it.
-/
import MosaikModel.Sched
namespace Mosaik

def tryStep (cfg : Cfg) (acc : State × Bool) (a : Action) : State × Bool :=
  match step cfg acc.1 a with
  | some s' => (s', true)
  | none => acc

/-- one pass over all simulators -/
def internalPass (cfg : Cfg) (s : State) : State × Bool :=
  (List.range cfg.n).foldl (fun acc p => tryStep cfg (tryStep cfg acc (.wake p)) (.deps p)) (s, false)

def saturate (cfg : Cfg) : Nat → State → State
  | 0, s => s
  | k + 1, s =>
    let (s', changed) := internalPass cfg s
    if changed then saturate cfg k s' else s'

def satFuel (cfg : Cfg) : Nat := 4 * cfg.n + 4

/-- start every simulator process (in creation order), then run to quiescence -/
def startAll (cfg : Cfg) (s : State) : State :=
  let s1 := (List.range cfg.n).foldl (fun st p => (tryStep cfg (st, false) (.start p)).1) s
  saturate cfg (satFuel cfg) s1

/-- an external action (a reply, an asynchronous request, a clock tick), then quiescence;
`none` if the action is not enabled -/
def deliver (cfg : Cfg) (s : State) (a : Action) : Option State :=
  (step cfg s a).map (saturate cfg (satFuel cfg))

end Mosaik
