/-
Line protocol between the Python correspondence harness and the model.
One request per line (blank-separated tokens), one canonical answer line per request.
Lists are length-prefixed: `k x1 … xk`.  `-` = absent / None.
-/
import MosaikModel.Tiered
import MosaikModel.IOSet
import MosaikModel.Groups
import MosaikModel.Util
import MosaikModel.Adapters
import MosaikModel.Cfg
import MosaikModel.Connect
import MosaikModel.Closure
import MosaikModel.Sched
import MosaikModel.Deliver
import MosaikModel.WF
import MosaikModel.RunShutdown
namespace Mosaik.Driver
open Mosaik

abbrev P := StateT (List String) (Except String)

def tok : P String := do
  match (← get) with
  | [] => throw "eol"
  | t :: ts => set ts; pure t

def peek? : P (Option String) := do
  match (← get) with
  | [] => pure none
  | t :: _ => pure (some t)

def nat : P Nat := do
  let t ← tok
  match t.toNat? with
  | some n => pure n
  | none => throw s!"nat expected: {t}"

def int : P Int := do
  let t ← tok
  match t.toInt? with
  | some n => pure n
  | none => throw s!"int expected: {t}"

def bool : P Bool := do
  let t ← tok
  if t == "1" || t == "true" then pure true
  else if t == "0" || t == "false" then pure false
  else throw s!"bool expected: {t}"

def opt (p : P α) : P (Option α) := do
  match (← peek?) with
  | some "-" => let _ ← tok; pure none
  | _ => some <$> p

def listOf (p : P α) : P (List α) := do
  let k ← nat
  let rec go : Nat → List α → P (List α)
    | 0, acc => pure acc.reverse
    | n + 1, acc => do let x ← p; go n (x :: acc)
  go k []

def val : P Val := opt nat

/-- ports in (entity, attribute) order without repetitions (canonical output) -/
def sortPorts (l : List Port) : List Port :=
  let ins (x : Port) (acc : List Port) : List Port :=
    if acc.contains x then acc
    else (acc.filter fun y => y.1 < x.1 || (y.1 == x.1 && y.2 < x.2)) ++ [x] ++ (acc.filter fun y => !(y.1 < x.1 || (y.1 == x.1 && y.2 < x.2)))
  l.foldl (fun acc x => ins x acc) []

def ti : P TI := do
  let pre ← nat; let cutoff ← nat; let tiers ← listOf nat
  pure { pre := pre, cutoff := cutoff, tiers := tiers }

def ioset : P IOSet := do
  let k ← tok
  let l ← listOf nat
  if k == "f" then pure (.fin l) else if k == "c" then pure (.cofin l) else throw "ioset kind"

def simType : P SimType := do
  let t ← tok
  if t == "time-based" then pure .timeBased
  else if t == "event-based" then pure .eventBased
  else if t == "hybrid" then pure .hybrid
  else throw s!"type: {t}"

/-! ### printing -/

def sNats (l : List Nat) : String := " ".intercalate (l.map toString)
def sList (l : List Nat) : String := s!"{l.length}" ++ (if l.isEmpty then "" else " " ++ sNats l)
def sTI (d : TI) : String := s!"{d.pre} {d.cutoff} {sList d.tiers}"
def sTT (t : TT) : String := ":".intercalate (t.map toString)
def sBoolOpt : Option Bool → String
  | some true => "true" | some false => "false" | none => "assert"
def sTIOpt : Option TI → String
  | some d => sTI d | none => "assert"

def sortDedup (l : List Nat) : List Nat := (l.toArray.qsort (· < ·)).toList.eraseDups
def sIOSet : IOSet → String
  | .fin l => "f " ++ sList (sortDedup l)
  | .cofin l => "c " ++ sList (sortDedup l)

def sVal : Val → String
  | some n => toString n | none => "-"

def inKeyLt (a b : InKey) : Bool :=
  a.eid < b.eid || (a.eid == b.eid && (a.attr < b.attr || (a.attr == b.attr &&
    (a.ssid < b.ssid || (a.ssid == b.ssid && a.seid < b.seid)))))

def sInputs (d : InputData) : String :=
  let l := (d.toArray.qsort (fun a b => inKeyLt a.1 b.1)).toList
  s!"{l.length}" ++ String.join (l.map fun (k, v) => s!" {k.eid} {k.attr} {k.ssid} {k.seid} {sVal v}")

def sErr : SchedErr → String
  | .progressBackwards p => s!"AssertionError progress-backwards {p}"
  | .stepInPast p => s!"SimulationError step-in-past {p}"
  | .loop p => s!"SimulationError loop {p}"
  | .badReply p k => s!"SimulationError bad-reply {p} " ++ (match k with
      | .notInt => "not-int" | .notLater => "not-later" | .noNextStep => "no-next-step" | .outputTimeEarly => "output-time")
  | .asyncRefused p => s!"ScenarioError async-refused {p}"
  | .eventNotRt p => s!"SimulationError event-not-rt {p}"
  | .rtTooSlow p => s!"RuntimeError too-slow {p}"

def sEvent : Event → Option String
  | .begin p t inp m => some s!"begin {p} {sTT t} {m} {sInputs inp}"
  | .done p => some s!"done {p}"
  | .rtWarn p => some s!"rtwarn {p}"
  | .eventIgnored p => some s!"event-ignored {p}"
  | _ => none

/-! ### sessions -/

structure Session where
  world : World := {}
  cfg : Cfg := {}
  st : State := { sims := fun _ => {} }
  seen : Nat := 0        -- number of log events already reported

/-- new events since the last report, oldest first, begins sorted by simulator -/
def report (ss : Session) : Session × String :=
  let newEv := (ss.st.log.take (ss.st.log.length - ss.seen)).reverse
  let strs := newEv.filterMap sEvent
  let sorted := (strs.toArray.qsort (· < ·)).toList
  let status := match ss.st.failed with
    | some e => "failed " ++ sErr e
    | none =>
      if (List.range ss.cfg.n).all (fun p => (ss.st.sims p).pc == .done) then "finished"
      else if (List.range ss.cfg.n).any (fun p => match (ss.st.sims p).pc with
          | .inStep => true | .inGet => true | .awaitSettle _ (some _) => true | _ => false) then "running"
      else "deadlock"
  ({ ss with seen := ss.st.log.length }, status ++ String.join (sorted.map (" | " ++ ·)))

def modelDesc : P ModelDesc := do
  let any ← bool
  let attrs ← opt (listOf nat); let trig ← opt (listOf nat); let ntrig ← opt (listOf nat)
  let pers ← opt (listOf nat); let npers ← opt (listOf nat)
  pure { anyInputs := any, attrs := attrs, trigger := trig, nonTrigger := ntrig, persistent := pers, nonPersistent := npers }

def connectCall : P ConnectCall := do
  let src ← nat; let seid ← nat; let dst ← nat; let deid ← nat
  let pairs ← listOf (do let a ← nat; let b ← nat; pure (a, b))
  let asyncReq ← bool; let ts ← nat; let weak ← bool
  let init ← listOf (do let a ← nat; let v ← val; pure (a, v))
  pure { src := src, seid := seid, dst := dst, deid := deid, pairs := pairs, asyncReq := asyncReq,
         timeShifted := ts, weak := weak, init := init }

def sRow (r : List (Sid × TI)) : String :=
  let l := (r.toArray.qsort (fun a b => a.1 < b.1)).toList
  s!"{l.length}" ++ String.join (l.map fun (a, d) => s!" {a} {sTI d}")

def cmpResult (r : Option Bool) : String := sBoolOpt r

def handle (ss : Session) : P (Session × String) := do
  let cmd ← tok
  match cmd with
  -- tiered time
  | "ti.mk" => do
    let tiers ← listOf nat; let c ← opt nat; let p ← opt nat
    pure (ss, sTIOpt (TI.mk? tiers c p))
  | "ti.add" => do let a ← ti; let b ← ti; pure (ss, sTIOpt (TI.add? a b))
  | "ti.lt" => do let a ← ti; let b ← ti; pure (ss, cmpResult (TI.lt? a b))
  | "ti.le" => do let a ← ti; let b ← ti; pure (ss, cmpResult (TI.le? a b))
  | "ti.gt" => do let a ← ti; let b ← ti; pure (ss, cmpResult (TI.gt? a b))
  | "ti.ge" => do let a ← ti; let b ← ti; pure (ss, cmpResult (TI.ge? a b))
  | "ti.eq" => do let a ← ti; let b ← ti; pure (ss, cmpResult (some (a == b)))
  | "ti.min" => do let a ← ti; let b ← ti; pure (ss, sTIOpt (TI.min2? a b))
  | "ti.umin" => do
    let a ← opt ti; let b ← ti
    pure (ss, match TI.updateMin? a b with
      | none => "assert" | some none => "keep" | some (some d) => sTI d)
  | "tt.add" => do
    let t ← listOf nat; let d ← ti
    pure (ss, match TI.act? t d with | some r => sList r | none => "assert")
  | "tt.lt" => do let a ← listOf nat; let b ← listOf nat; pure (ss, cmpResult (TT.lt? a b))
  | "tt.le" => do let a ← listOf nat; let b ← listOf nat; pure (ss, cmpResult (TT.le? a b))
  | "tt.gt" => do let a ← listOf nat; let b ← listOf nat; pure (ss, cmpResult (TT.gt? a b))
  | "tt.ge" => do let a ← listOf nat; let b ← listOf nat; pure (ss, cmpResult (TT.ge? a b))
  | "tt.eq" => do let a ← listOf nat; let b ← listOf nat; pure (ss, cmpResult (some (a == b)))
  -- sets and attribute classification
  | "ios" => do
    let op ← tok; let a ← ioset; let b ← ioset
    match op with
    | "sub" => pure (ss, sIOSet (IOSet.sub a b))
    | "and" => pure (ss, sIOSet (IOSet.inter a b))
    | "or" => pure (ss, sIOSet (IOSet.union a b))
    | "eq" => pure (ss, toString (IOSet.eq a b))
    | _ => throw "ios op"
  | "ios.in" => do let x ← nat; let a ← ioset; pure (ss, toString (IOSet.mem x a))
  | "triple" => do
    let u ← opt ioset; let a ← opt ioset; let b ← opt ioset
    pure (ss, match parseSetTriple u a b with
      | none => "ValueError" | some (x, y) => s!"ok {sIOSet x} {sIOSet y}")
  | "attrs" => do
    let ty ← simType; let m ← modelDesc
    pure (ss, match parseAttrs m ty with
      | none => "ValueError"
      | some c => s!"ok {sIOSet c.nonTrigIn} {sIOSet c.trigIn} {sIOSet c.persOut} {sIOSet c.nonPersOut}")
  -- groups and connection validation
  | "gpath" => do
    let a ← listOf nat; let b ← listOf nat
    let (asc, desc, c) := Group.path a b
    pure (ss, s!"{asc} {desc} {c.length}")
  | "cint" => do
    let a ← listOf nat; let b ← listOf nat; let ts ← nat; let w ← nat
    pure (ss, match connectInterval a b ts w with | some d => sTI d | none => "ScenarioError")
  | "conn1" => do
    let so ← bool; let di ← bool; let nt ← bool; let ts ← nat; let w ← bool; let hi ← bool
    let a ← listOf nat; let b ← listOf nat
    let r : ConnReq := { srcIsOutput := so, destIsInput := di, destNonTrigger := nt, timeShifted := ts,
                         weak := w, hasInit := hi, srcGroup := a, destGroup := b }
    pure (ss, match connectOneCheck r with | some d => "ok " ++ sTI d | none => "ScenarioError")
  -- versions
  | "ver" => do
    let rep ← opt (listOf nat); let ex ← opt (listOf nat); let loc ← bool; let tr ← bool; let ma ← bool
    match Adapters.start { reported := rep, explicit := ex, isLocal := loc, hasTimeRes := tr, hasMaxAdv := ma } with
    | none => pure (ss, "ScenarioError")
    | some s =>
      let sreq (r : Adapters.Req) : String := match Adapters.rewrite s r with
        | none => "-" | some (.step n) => s!"step{n}" | some .setupDone => "setup_done"
        | some .getData => "get_data" | some .other => "other"
      let b (x : Bool) : String := if x then "1" else "0"
      pure (ss, s!"ok v2to1={b s.v2ToV1} v3to2={b s.v3ToV2} tr={b s.timeResSent} warn={b s.warnOutdated} " ++
        s!"{sreq .setupDone} {sreq (.step 3)} {sreq .getData} {sreq .other} " ++
        s!"type={match Adapters.metaType s none with | some t => toString t | none => "-"} " ++
        s!"etype={match Adapters.metaType s (some 2) with | some t => toString t | none => "-"}")
  -- bulk connection helpers
  | "evenly" => do
    let srcs ← listOf nat; let dests ← listOf nat; let orc ← listOf nat
    match Util.connectRandomlyTop srcs dests true none orc with
    | none => pure (ss, "AssertionError")
    | some (pairs, conn) =>
      pure (ss, s!"ok {pairs.length}" ++ String.join (pairs.map fun (a, b) => s!" {a} {b}") ++ " ret " ++ sList (sortDedup conn))
  | "randomly" => do
    let srcs ← listOf nat; let dests ← listOf nat; let maxC ← opt nat; let orc ← listOf nat
    match Util.connectRandomlyTop srcs dests false maxC orc with
    | none => pure (ss, "AssertionError")
    | some (pairs, conn) =>
      pure (ss, s!"ok {pairs.length}" ++ String.join (pairs.map fun (a, b) => s!" {a} {b}") ++ " ret " ++ sList (sortDedup conn))
  | "m2o" => do
    let srcs ← listOf nat; let d ← nat
    let pairs := Util.connectManyToOne srcs d
    pure (ss, s!"ok {pairs.length}" ++ String.join (pairs.map fun (a, b) => s!" {a} {b}"))
  -- scenario building
  | "w.new" => do
    let cache ← bool
    pure ({ world := { useCache := cache } }, "ok")
  | "w.start" => do
    let ty ← simType; let g ← listOf nat; let m ← modelDesc
    match parseAttrs m ty with
    | none => pure (ss, "ValueError")
    | some cls => pure ({ ss with world := ss.world.start { ty := ty, group := g, cls := cls } }, "ok")
  | "w.connect" => do
    let c ← connectCall
    let (w, err) := ss.world.connect c
    pure ({ ss with world := w }, match err with
      | none => "ok" | some .scenarioError => "ScenarioError" | some .assertion => "AssertionError")
  | "w.initev" => do
    let p ← nat; let t ← nat
    pure ({ ss with world := ss.world.setInitialEvent p t }, "ok")
  | "w.tables" => do
    -- the connection tables that matter for scheduling, for the C11 "no trace" comparison
    let p ← nat
    let s := ss.world.sim p
    pure (ss, s!"in {sRow s.inputDelays} succ {sRow s.succs} wait {sRow s.succsWait} trig {s.triggers.length} " ++
      s!"pull {s.pulled.length} push {s.push.length} req {s.outReq.length} pers {s.persistent0.length} out0 {s.outputs0.length}")
  | "w.cyc" => do
    let orc ← listOf nat
    pure (ss, match ensureNoCycles ss.world.sims orc with
      | .ok => "ok"
      | .cycle p => "cycle " ++ sList p
      | .error .assertion => "AssertionError"
      | .error .fuel => "nonterminating")
  | "w.cychyp" => do
    -- the hypotheses of `C06.accept_complete`, evaluated on the tables `connect` built
    let sims := ss.world.sims
    pure (ss, s!"shaped={shapedB sims} nodup={nodupKeysB sims} const={constCutoffB sims} uniform={uniformB sims} tshaped={shapedTB sims} tconst={constCutoffTB sims}")
  | "w.anc" => do
    let orc ← listOf nat
    match cacheTriggeringAncestors ss.world.sims orc with
    | .error .assertion => pure (ss, "AssertionError")
    | .error .fuel => pure (ss, "nonterminating")
    | .ok sims => pure (ss, " ; ".intercalate (sims.map fun s => sRow s.trigAnc))
  -- running
  | "run" => do
    let until_ ← nat; let maxLoop ← nat; let lazy_ ← bool; let rt ← opt nat; let strict ← bool
    let orc ← listOf nat
    match ensureNoCycles ss.world.sims orc with
    | .cycle p => pure (ss, "ScenarioError cycle " ++ sList p)
    | .error .assertion => pure (ss, "AssertionError closure")
    | .error .fuel => pure (ss, "nonterminating")
    | .ok =>
      match cacheTriggeringAncestors ss.world.sims orc with
      | .error .assertion => pure (ss, "AssertionError closure")
      | .error .fuel => pure (ss, "nonterminating")
      | .ok sims =>
        let cfg : Cfg := { sims := sims, until_ := until_, maxLoop := maxLoop, lazy_ := lazy_,
                           useCache := ss.world.useCache, rt := rt, rtStrict := strict }
        let st := startAll cfg (initState cfg)
        let ss1 : Session := { ss with cfg := cfg, st := st, seen := 0 }
        pure (report ss1)
  | "act" => do
    let kind ← tok
    let a : Action ← match kind with
      | "step" => do
        let p ← nat; let r ← tok
        match r with
        | "none" => pure (Action.stepReply p .none)
        | "bad" => pure (Action.stepReply p .bad)
        | "int" => do let n ← int; pure (Action.stepReply p (.int n))
        | _ => throw "step reply kind"
      | "data" => do
        let p ← nat; let t ← opt int
        let d ← listOf (do let e ← nat; let a ← nat; let v ← val; pure ((e, a), v))
        pure (Action.dataReply p { time := t, data := d })
      | "setdata" => do
        let p ← nat; let target ← nat
        let entry : P (InKey × Val) := do
          let e ← nat; let a ← nat; let s1 ← nat; let s2 ← nat; let v ← val
          pure ({ eid := e, attr := a, ssid := s1, seid := s2 }, v)
        let es ← listOf entry
        pure (Action.setData p target es)
      | "getdata" => do let p ← nat; let target ← nat; pure (Action.getDataReq p target)
      | "setevent" => do let p ← nat; let t ← nat; pure (Action.setEvent p t)
      | "tick" => do let n ← nat; pure (Action.tick n)
      | _ => throw "act kind"
    match deliver ss.cfg ss.st a with
    | none => pure (ss, "not-enabled")
    | some st => pure (report { ss with st := st })
  | "aget" => do
    -- the answer of an asynchronous get_data of `p` towards `target` in the current state (no state change):
    -- requested ports, then what target's simulator replies to the forwarded request for the missing ones
    let p ← nat; let target ← nat
    let req ← listOf (do let e ← nat; let a ← nat; pure (e, a))
    let direct ← listOf (do let e ← nat; let a ← nat; let v ← val; pure ((e, a), v))
    let sPorts (l : List Port) : String := " ".intercalate ((sortPorts l).map fun (e, a) => s!"{e}.{a}")
    let sData (d : OutData) : String :=
      " ".intercalate ((sortPorts (d.map (·.1))).map fun k => s!"{k.1}.{k.2}={match (OutData.get? d k).getD none with | some v => toString v | none => "None"}")
    pure (ss, s!"missing [{sPorts (asyncMissing ss.cfg ss.st p target req)}] answer [{sData (asyncAnswer ss.cfg ss.st p target req direct)}]")
  | "rs.run" => do
    -- World.run / shutdown control flow: n simulators, how the run phase ended
    let n ← nat; let kind ← tok
    let e : RunShutdown.RunEnd := match kind with
      | "ok" => .ok | "keyboard" => .keyboardInterrupt | "remote-exception" => .remoteException | "systemexit" => .systemExit
      | _ => .other 1
    let (w, sf) := RunShutdown.run (fun _ => none) { n := n } e
    let (w2, _) := RunShutdown.shutdown (fun _ => none) w
    pure (ss, (match sf with | .returned => "returned" | .raised _ => "raised") ++
      s!" closed={w.loopClosed} stops={sList w.stops.reverse} second-shutdown-noop={decide (w2 = w)}")
  | "wf" => do
    -- are the hypotheses of the scheduler theorems met by the configuration of the current run?
    pure (ss, if ss.cfg.wfB then "wf" else if ss.cfg.rt.isSome then "rt" else "not-wf")
  | "wfx" => do
    -- the further hypotheses of the liveness theorems (shapes; flat configuration with a ranking)
    pure (ss, s!"shape={ss.cfg.shapeB} push={ss.cfg.pushB} pull={ss.cfg.pullB} keys={ss.cfg.pushKeysB} flat={ss.cfg.flatB ss.cfg.zeroRank}")
  | "state" => do
    -- debugging aid: control state of one simulator
    let p ← nat
    let x := ss.st.sims p
    pure (ss, s!"pc={repr x.pc} progress={sTT x.progress} next={x.next.map sTT} cur={x.cur.map sTT} newer={x.newer} clock={ss.st.clock}")
  | c => throw s!"unknown command {c}"

def handleLine (ss : Session) (line : String) : Session × String :=
  let toks := (line.splitOn " ").filter (· ≠ "")
  match (handle ss).run toks with
  | .ok ((ss', out), rest) => if rest.isEmpty then (ss', out) else (ss, "bad-request trailing " ++ " ".intercalate rest)
  | .error e => (ss, "bad-request " ++ e)

end Mosaik.Driver
