/-
Model of the group tree of mosaik/scenario.py (`SimGroup`, `group_path`, `connect_interval`)
and of the validation part of `World.connect_one`.

A group is identified by its path from the main group (list of child indices): two groups are
the same group iff their paths are equal (identity, which is what `SimGroup` compares by since
it is an `eq=False` dataclass).  The main group is `[]`.
-/
import MosaikModel.Tiered
import MosaikModel.IOSet
namespace Mosaik

/-- path from the main group; `[]` = main group -/
abbrev Group := List Nat

namespace Group

/-- `SimGroup.depth` -/
def depth (g : Group) : Nat := g.length + 1

/-- longest common prefix = the innermost group containing both -/
def common : Group → Group → Group
  | x :: xs, y :: ys => if x = y then x :: common xs ys else []
  | _, _ => []

/-- `group_path(src, dest)` = (ascent, descent, common group) -/
def path (src dest : Group) : Nat × Nat × Group :=
  let c := common src dest
  (src.length - c.length, dest.length - c.length, c)

end Group

def listSet (l : List Nat) (i v : Nat) : List Nat := l.set i v

/-- `connect_interval(src_group, dest_group, time_shifted, weak)`; `none` = ScenarioError
("Weak connections may only be used in groups") -/
def connectInterval (src dest : Group) (timeShifted : Nat := 0) (weak : Nat := 0) : Option TI :=
  let (ascent, _, commonG) := Group.path src dest
  let pre := Group.depth src
  let cutoff := pre - ascent
  let tiers0 := List.replicate (Group.depth dest) 0
  if weak ≠ 0 ∧ commonG = [] then none
  else
    let tiers1 := if timeShifted ≠ 0 then listSet tiers0 0 timeShifted else tiers0
    let tiers2 := if weak ≠ 0 then listSet tiers1 (cutoff - 1) weak else tiers1
    some { pre := pre, cutoff := cutoff, tiers := tiers2 }

/-- what `connect_one` looks at when it validates one attribute pair -/
structure ConnReq where
  srcIsOutput : Bool       -- src_attr in src.model_mock.output_attrs
  destIsInput : Bool       -- dest_attr in dest.model_mock.input_attrs
  destNonTrigger : Bool    -- dest_attr in dest.model_mock.measurement_inputs
  timeShifted : Nat
  weak : Bool
  hasInit : Bool           -- initial_data given for src_attr
  srcGroup : Group
  destGroup : Group
deriving Repr, Inhabited

/-- validation of `connect_one`: `none` = ScenarioError, `some d` = accepted with delay `d` -/
def connectOneCheck (r : ConnReq) : Option TI :=
  let p1 := !r.srcIsOutput
  let p2 := !r.destIsInput
  let p3 := (r.timeShifted ≠ 0 || r.weak) && r.destNonTrigger && !r.hasInit
  if p1 || p2 || p3 then none
  else connectInterval r.srcGroup r.destGroup r.timeShifted (if r.weak then 1 else 0)

end Mosaik
