/-
Model of mosaik/in_or_out_set.py: finite (`frozenset`) and co-finite (`OutSet`) sets,
the operators Python dispatches to (`frozenset.__op__`, `OutSet.__op__`, and the reflected
`OutSet.__rop__` when the left operand is a frozenset), `parse_set_triple`, and of
`scenario.parse_attrs`.

Elements are natural numbers (attribute names are opaque).  A set is a list; only
membership matters (`eq` is extensional), so duplicates/order are irrelevant.
-/
namespace Mosaik

inductive IOSet where
  | fin (s : List Nat)      -- frozenset(s)
  | cofin (s : List Nat)    -- OutSet(s): everything except s
deriving Repr, Inhabited, DecidableEq

namespace IOSet

def lunion (a b : List Nat) : List Nat := a ++ b
def linter (a b : List Nat) : List Nat := a.filter (fun x => b.contains x)
def ldiff (a b : List Nat) : List Nat := a.filter (fun x => !b.contains x)
def lsubset (a b : List Nat) : Bool := a.all (fun x => b.contains x)
def lseteq (a b : List Nat) : Bool := lsubset a b && lsubset b a

/-- `x in s` -/
def mem (x : Nat) : IOSet → Bool
  | fin s => s.contains x
  | cofin s => !s.contains x

/-- `a - b`:  frozenset.__sub__ / OutSet.__sub__ / OutSet.__rsub__ -/
def sub : IOSet → IOSet → IOSet
  | fin a, fin b => fin (ldiff a b)
  | cofin a, cofin b => fin (ldiff b a)          -- other._set - self._set
  | cofin a, fin b => cofin (lunion a b)         -- OutSet(self._set | other)
  | fin a, cofin b => fin (linter a b)           -- __rsub__: rother & self._set

/-- `a & b` -/
def inter : IOSet → IOSet → IOSet
  | fin a, fin b => fin (linter a b)
  | cofin a, cofin b => cofin (lunion a b)
  | cofin a, fin b => fin (ldiff b a)            -- other - self._set
  | fin a, cofin b => fin (ldiff a b)            -- __rand__: rother - self._set

/-- `a | b` -/
def union : IOSet → IOSet → IOSet
  | fin a, fin b => fin (lunion a b)
  | cofin a, cofin b => cofin (linter a b)
  | cofin a, fin b => cofin (ldiff a b)
  | fin a, cofin b => cofin (ldiff b a)          -- __ror__: OutSet(self._set - rother)

/-- `a == b` (a frozenset never equals an OutSet) -/
def eq : IOSet → IOSet → Bool
  | fin a, fin b => lseteq a b
  | cofin a, cofin b => lseteq a b
  | _, _ => false

def empty : IOSet := fin []

end IOSet

open IOSet in
/-- `parse_set_triple(union, part_a, part_b)`; `none` = ValueError -/
def parseSetTriple (union partA partB : Option IOSet) : Option (IOSet × IOSet) :=
  -- if union is None: union = part_a | part_b  (both must be given)
  let u? : Option IOSet := match union with
    | some u => some u
    | none => match partA, partB with
      | some a, some b => some (IOSet.union a b)
      | _, _ => none
  match u? with
  | none => none
  | some u =>
    -- if part_a is None: part_a = union - part_b  (part_b must be given)
    let a? : Option IOSet := match partA with
      | some a => some a
      | none => match partB with
        | some b => some (IOSet.sub u b)
        | none => none
    match a? with
    | none => none
    | some a =>
      let b : IOSet := match partB with
        | some b => b
        | none => IOSet.sub u a
      if !(IOSet.eq (IOSet.inter a b) IOSet.empty) then none
      else if !(IOSet.eq u (IOSet.union a b)) then none
      else some (a, b)

inductive SimType where
  | timeBased | eventBased | hybrid
deriving DecidableEq, Repr, Inhabited

/-- the part of a model description `parse_attrs` looks at; `none` = key absent -/
structure ModelDesc where
  anyInputs : Bool := false
  attrs : Option (List Nat) := none
  trigger : Option (List Nat) := none
  nonTrigger : Option (List Nat) := none
  persistent : Option (List Nat) := none
  nonPersistent : Option (List Nat) := none
deriving Repr, Inhabited

/-- result of `parse_attrs`: (measurement_inputs, event_inputs, measurement_outputs, event_outputs) -/
structure AttrClasses where
  nonTrigIn : IOSet
  trigIn : IOSet
  persOut : IOSet
  nonPersOut : IOSet
deriving Repr, Inhabited, DecidableEq

def wrap (l : Option (List Nat)) : Option IOSet := l.map IOSet.fin

/-- the three arguments `parse_attrs` hands to `parse_set_triple` for the inputs
(`inputs`, `measurement_inputs`, `event_inputs`), after the type's defaults -/
def inputTriple (m : ModelDesc) (ty : SimType) : Option IOSet × Option IOSet × Option IOSet :=
  let inputs : Option IOSet := if m.anyInputs then some (IOSet.cofin []) else wrap m.attrs
  let empty : Option IOSet := some (IOSet.fin [])
  let defs : Option IOSet × Option IOSet := match ty with
    | .timeBased => (none, empty)
    | .eventBased => (empty, none)
    | .hybrid => (if m.trigger.isSome then none else inputs, none)
  (inputs,
   match m.nonTrigger with | some l => some (IOSet.fin l) | none => defs.1,
   match m.trigger with | some l => some (IOSet.fin l) | none => defs.2)

/-- … and for the outputs (`outputs`, `measurement_outputs`, `event_outputs`) -/
def outputTriple (m : ModelDesc) (ty : SimType) : Option IOSet × Option IOSet × Option IOSet :=
  let empty : Option IOSet := some (IOSet.fin [])
  (wrap m.attrs,
   match m.persistent with | some l => some (IOSet.fin l) | none => (if ty == .eventBased then empty else none),
   match m.nonPersistent with | some l => some (IOSet.fin l) | none => (if ty == .eventBased then none else empty))

/-- the four `ValueError`s about kinds a simulator type forbids -/
def typeOk (ty : SimType) (c : AttrClasses) : Bool :=
  (ty != .timeBased || (IOSet.eq c.trigIn IOSet.empty && IOSet.eq c.nonPersOut IOSet.empty)) &&
  (ty != .eventBased || (IOSet.eq c.nonTrigIn IOSet.empty && IOSet.eq c.persOut IOSet.empty))

/-- `scenario.parse_attrs(model_desc, type)`; `none` = ValueError -/
def parseAttrs (m : ModelDesc) (ty : SimType) : Option AttrClasses :=
  let i := inputTriple m ty
  match parseSetTriple i.1 i.2.1 i.2.2 with
  | none => none
  | some (mi, ei) =>
    let o := outputTriple m ty
    match parseSetTriple o.1 o.2.1 o.2.2 with
    | none => none
    | some (mo, eo) =>
      let c : AttrClasses := { nonTrigIn := mi, trigIn := ei, persOut := mo, nonPersOut := eo }
      if typeOk ty c then some c else none

namespace AttrClasses
/-- `ModelMock.input_attrs` / `output_attrs` -/
def inputAttrs (c : AttrClasses) : IOSet := IOSet.union c.trigIn c.nonTrigIn
def outputAttrs (c : AttrClasses) : IOSet := IOSet.union c.nonPersOut c.persOut
end AttrClasses

end Mosaik
