/-
Model of mosaik/in_or_out_set.py: finite (`frozenset`) and co-finite (`OutSet`) sets,
the operators Python dispatches to (`frozenset.__op__`, `OutSet.__op__`, and the reflected
`OutSet.__rop__` when the left operand is a frozenset), `parse_set_triple`, and of
`scenario.parse_attrs`.

Elements are natural numbers (attribute names are opaque).  A set is a list; only
membership matters (`eq` is extensional), so duplicates/order are irrelevant.
-/
namespace Mosaik

inductive IOSet where
  | fin (s : List Nat)      -- frozenset(s)
  | cofin (s : List Nat)    -- OutSet(s): everything except s
deriving Repr, Inhabited

namespace IOSet

def lunion (a b : List Nat) : List Nat := a ++ b
def linter (a b : List Nat) : List Nat := a.filter (fun x => b.contains x)
def ldiff (a b : List Nat) : List Nat := a.filter (fun x => !b.contains x)
def lsubset (a b : List Nat) : Bool := a.all (fun x => b.contains x)
def lseteq (a b : List Nat) : Bool := lsubset a b && lsubset b a

/-- `x in s` -/
def mem (x : Nat) : IOSet → Bool
  | fin s => s.contains x
  | cofin s => !s.contains x

/-- `a - b`:  frozenset.__sub__ / OutSet.__sub__ / OutSet.__rsub__ -/
def sub : IOSet → IOSet → IOSet
  | fin a, fin b => fin (ldiff a b)
  | cofin a, cofin b => fin (ldiff b a)          -- other._set - self._set
  | cofin a, fin b => cofin (lunion a b)         -- OutSet(self._set | other)
  | fin a, cofin b => fin (linter a b)           -- __rsub__: rother & self._set

/-- `a & b` -/
def inter : IOSet → IOSet → IOSet
  | fin a, fin b => fin (linter a b)
  | cofin a, cofin b => cofin (lunion a b)
  | cofin a, fin b => fin (ldiff b a)            -- other - self._set
  | fin a, cofin b => fin (ldiff a b)            -- __rand__: rother - self._set

/-- `a | b` -/
def union : IOSet → IOSet → IOSet
  | fin a, fin b => fin (lunion a b)
  | cofin a, cofin b => cofin (linter a b)
  | cofin a, fin b => cofin (ldiff a b)
  | fin a, cofin b => cofin (ldiff b a)          -- __ror__: OutSet(self._set - rother)

/-- `a == b` (a frozenset never equals an OutSet) -/
def eq : IOSet → IOSet → Bool
  | fin a, fin b => lseteq a b
  | cofin a, cofin b => lseteq a b
  | _, _ => false

def empty : IOSet := fin []

end IOSet

open IOSet in
/-- `parse_set_triple(union, part_a, part_b)`; `none` = ValueError -/
def parseSetTriple (union partA partB : Option IOSet) : Option (IOSet × IOSet) :=
  -- if union is None: union = part_a | part_b  (both must be given)
  let u? : Option IOSet := match union with
    | some u => some u
    | none => match partA, partB with
      | some a, some b => some (IOSet.union a b)
      | _, _ => none
  match u? with
  | none => none
  | some u =>
    -- if part_a is None: part_a = union - part_b  (part_b must be given)
    let a? : Option IOSet := match partA with
      | some a => some a
      | none => match partB with
        | some b => some (IOSet.sub u b)
        | none => none
    match a? with
    | none => none
    | some a =>
      let b : IOSet := match partB with
        | some b => b
        | none => IOSet.sub u a
      if !(IOSet.eq (IOSet.inter a b) IOSet.empty) then none
      else if !(IOSet.eq u (IOSet.union a b)) then none
      else some (a, b)

inductive SimType where
  | timeBased | eventBased | hybrid
deriving DecidableEq, Repr, Inhabited

/-- the part of a model description `parse_attrs` looks at; `none` = key absent -/
structure ModelDesc where
  anyInputs : Bool := false
  attrs : Option (List Nat) := none
  trigger : Option (List Nat) := none
  nonTrigger : Option (List Nat) := none
  persistent : Option (List Nat) := none
  nonPersistent : Option (List Nat) := none
deriving Repr, Inhabited

/-- result of `parse_attrs`: (measurement_inputs, event_inputs, measurement_outputs, event_outputs) -/
structure AttrClasses where
  nonTrigIn : IOSet
  trigIn : IOSet
  persOut : IOSet
  nonPersOut : IOSet
deriving Repr, Inhabited

def wrap (l : Option (List Nat)) : Option IOSet := l.map IOSet.fin

/-- `scenario.parse_attrs(model_desc, type)`; `none` = ValueError -/
def parseAttrs (m : ModelDesc) (ty : SimType) : Option AttrClasses :=
  let inputs : Option IOSet := if m.anyInputs then some (IOSet.cofin []) else wrap m.attrs
  let empty : Option IOSet := some (IOSet.fin [])
  let (defMeas, defEv) : Option IOSet × Option IOSet := match ty with
    | .timeBased => (none, empty)
    | .eventBased => (empty, none)
    | .hybrid => (if m.trigger.isSome then none else inputs, none)
  let measIn : Option IOSet := match m.nonTrigger with | some l => some (IOSet.fin l) | none => defMeas
  let evIn : Option IOSet := match m.trigger with | some l => some (IOSet.fin l) | none => defEv
  match parseSetTriple inputs measIn evIn with
  | none => none
  | some (mi, ei) =>
    if ty == .timeBased && !(IOSet.eq ei IOSet.empty) then none
    else if ty == .eventBased && !(IOSet.eq mi IOSet.empty) then none
    else
      let outputs := wrap m.attrs
      let defMeasO : Option IOSet := if ty == .eventBased then empty else none
      let measOut : Option IOSet := match m.persistent with | some l => some (IOSet.fin l) | none => defMeasO
      let defEvO : Option IOSet := if ty == .eventBased then none else empty
      let evOut : Option IOSet := match m.nonPersistent with | some l => some (IOSet.fin l) | none => defEvO
      match parseSetTriple outputs measOut evOut with
      | none => none
      | some (mo, eo) =>
        if ty == .timeBased && !(IOSet.eq eo IOSet.empty) then none
        else if ty == .eventBased && !(IOSet.eq mo IOSet.empty) then none
        else some { nonTrigIn := mi, trigIn := ei, persOut := mo, nonPersOut := eo }

namespace AttrClasses
/-- `ModelMock.input_attrs` / `output_attrs` -/
def inputAttrs (c : AttrClasses) : IOSet := IOSet.union c.trigIn c.nonTrigIn
def outputAttrs (c : AttrClasses) : IOSet := IOSet.union c.nonPersOut c.persOut
end AttrClasses

end Mosaik
