/-
Model of the control flow of `World.run` (try / except / finally) and `World.shutdown`
(mosaik/scenario.py): how a run that ended in some way is surfaced to the caller and which
simulators are stopped.  OS processes, sockets and timeouts are not modelled (see DESIGN.md, C14).
-/
namespace Mosaik.RunShutdown

/-- how `loop.run_until_complete(scheduler.run(...))` ended -/
inductive RunEnd where
  | ok
  | keyboardInterrupt
  | remoteException              -- a remote simulator's handler raised: logged, not re-raised
  | other (cls : Nat)            -- any other exception class (SimulationError, IncompleteReadError, ValueError, …)
deriving Repr, DecidableEq, Inhabited

/-- what the caller of `World.run` sees -/
inductive Surface where
  | returned
  | raised (cls : Nat)
deriving Repr, DecidableEq, Inhabited

structure WorldSt where
  n : Nat                        -- number of simulators
  loopClosed : Bool := false
  stops : List Nat := []         -- `sim.stop()` calls so far, most recent first
deriving Repr, DecidableEq, Inhabited

/-- the `for sim in self.sims.values(): run_until_complete(sim.stop())` loop from simulator `i` on;
`stopRaises i = some cls` means `stop()` of simulator `i` raises `cls` (something `RemoteProxy.stop`
does not catch) -/
def stopFrom (stopRaises : Nat → Option Nat) : Nat → Nat → List Nat → List Nat × Option Nat
  | 0, _, log => (log, none)
  | k + 1, i, log =>
    match stopRaises i with
    | some cls => (i :: log, some cls)
    | none => stopFrom stopRaises k (i + 1) (i :: log)

/-- `World.shutdown()` -/
def shutdown (stopRaises : Nat → Option Nat) (w : WorldSt) : WorldSt × Option Nat :=
  if w.loopClosed then (w, none)
  else
    match stopFrom stopRaises w.n 0 w.stops with
    | (log, some cls) => ({ w with stops := log }, some cls)          -- loop.close() is not reached
    | (log, none) => ({ w with stops := log, loopClosed := true }, none)

/-- `World.run()` from the point where `scheduler.run` has ended -/
def run (stopRaises : Nat → Option Nat) (w : WorldSt) (e : RunEnd) : WorldSt × Surface :=
  let (w', ex) := shutdown stopRaises w
  (w', match ex with
    | some cls => .raised cls          -- an exception in `finally` replaces the original one
    | none => match e with
      | .ok => .returned
      | .keyboardInterrupt => .returned
      | .remoteException => .returned
      | .other cls => .raised cls)

end Mosaik.RunShutdown
