/-
Model of the control flow of `World.run` (try / except / finally) and `World.shutdown`
(mosaik/scenario.py): how a run that ended in some way is surfaced to the caller and which
simulators are stopped.  OS processes, sockets and timeouts are not modelled (see DESIGN.md, C14).
-/
namespace Mosaik.RunShutdown

/-- how `loop.run_until_complete(scheduler.run(...))` ended -/
inductive RunEnd where
  | ok
  | keyboardInterrupt
  | remoteException              -- a remote simulator's handler raised: logged, not re-raised
  | other (cls : Nat)            -- any other exception class (SimulationError, IncompleteReadError, ValueError, …)
  | systemExit                   -- `SystemExit` raised inside an in-process simulator (`sys.exit()` in a handler)
deriving Repr, DecidableEq, Inhabited

/-- `KeyboardInterrupt` and `SystemExit` are not handed to the failing task's waiters: they leave the event loop at once
(`Task.__step` re-raises them), so `run_until_complete` returns while the scheduler task is still pending -/
def RunEnd.leavesMainPending : RunEnd → Bool
  | .keyboardInterrupt => true
  | .systemExit => true
  | _ => false

/-- what the caller of `World.run` sees -/
inductive Surface where
  | returned
  | raised (cls : Nat)
deriving Repr, DecidableEq, Inhabited

structure WorldSt where
  n : Nat                        -- number of simulators
  loopClosed : Bool := false
  stops : List Nat := []         -- `sim.stop()` calls so far, most recent first
  mainPending : Bool := false    -- the task of `scheduler.run` is neither finished nor cancelled
deriving Repr, DecidableEq, Inhabited

/-- the `for sim in self.sims.values(): run_until_complete(sim.stop())` loop from simulator `i` on;
`stopRaises i = some cls` means `stop()` of simulator `i` raises `cls` (something `RemoteProxy.stop`
does not catch) -/
def stopFrom (stopRaises : Nat → Option Nat) : Nat → Nat → List Nat → List Nat × Option Nat
  | 0, _, log => (log, none)
  | k + 1, i, log =>
    match stopRaises i with
    | some cls => (i :: log, some cls)
    | none => stopFrom stopRaises k (i + 1) (i :: log)

/-- class number used for a `KeyboardInterrupt` / `SystemExit` that comes up again inside `shutdown()` -/
def resurfaced : Nat := 0

/-- `World.shutdown()`.  With the scheduler task still pending, the exception that left the loop comes up a second time when
the loop runs again (`loop.run_forever()` after the stop calls): `loop.close()` is not reached (observed on the tree before
fix D22: every simulator finalized, loop left open, the exception raised out of `shutdown()`) -/
def shutdown (stopRaises : Nat → Option Nat) (w : WorldSt) : WorldSt × Option Nat :=
  if w.loopClosed then (w, none)
  else
    match stopFrom stopRaises w.n 0 w.stops with
    | (log, some cls) => ({ w with stops := log }, some cls)          -- loop.close() is not reached
    | (log, none) =>
      if w.mainPending then ({ w with stops := log }, some resurfaced)
      else ({ w with stops := log, loopClosed := true }, none)

/-- `while not main_task.done(): main_task.cancel(); run_until_complete(main_task)` at the head of `World.run`'s `finally`
(fix D22): the scheduler winds down before the simulators are stopped -/
def windDown (w : WorldSt) : WorldSt := { w with mainPending := false }

/-- `World.run()` from the point where `scheduler.run` has ended -/
def run (stopRaises : Nat → Option Nat) (w : WorldSt) (e : RunEnd) : WorldSt × Surface :=
  let (w', ex) := shutdown stopRaises (windDown { w with mainPending := e.leavesMainPending })
  (w', match ex with
    | some cls => .raised cls          -- an exception in `finally` replaces the original one
    | none => match e with
      | .ok => .returned
      | .keyboardInterrupt => .returned
      | .remoteException => .returned
      | .other cls => .raised cls
      | .systemExit => .raised resurfaced)

end Mosaik.RunShutdown
