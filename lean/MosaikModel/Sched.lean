/-
Model of mosaik/scheduler.py (+ the scheduler-facing parts of simmanager.py and progress.py)
as a labelled transition system.

`sim_process` is cut at its `await`s; between two awaits a coroutine runs atomically, so the
actions are
  start p        : top of sim_process up to the first await of next_step_settled
  wake p         : next_step_settled wakes up (progress reached the awaited time, an earlier step
                   was scheduled, or — real-time mode — the poll timeout fired) and re-evaluates
  deps p         : wait_for_dependencies completes; the step is popped, inputs and max_advance
                   are computed and the `step` request goes out  (observable `begin`)
  setData/setEvent/getDataReq : asynchronous requests of a simulator during its step
  stepReply p r  : the simulator answers `step`
  dataReply p d  : the simulator answers `get_data`; triggers, progress of all simulators, cache
                   pruning, and the re-evaluation of p's next step follow in the same block
  tick           : real time passes (real-time mode only)
`step` returns `none` when the action is not enabled.  A Python exception that aborts `run()` is
recorded in `failed`; after that no action is enabled.
-/
import MosaikModel.Cfg
namespace Mosaik

inductive PC where
  | init
  | awaitSettle (a : TT) (deadline : Option Nat)   -- awaiting has_reached(a) / newer_step / timeout
  | waitDeps (t : TT)                               -- in wait_for_dependencies for next_steps[0] = t
  | inStep
  | inGet
  | done
deriving DecidableEq, Repr, Inhabited

structure BufEntry where
  time : Nat
  ctr : Nat
  key : InKey
  val : Val
deriving Repr, Inhabited, DecidableEq

inductive StepReply where
  | none                 -- `None`
  | int (n : Int)        -- an int (bool included)
  | bad                  -- anything else (float, str, …)
deriving Repr, DecidableEq, Inhabited

structure DataReply where
  time : Option Int := .none     -- the optional "time" entry
  data : OutData := []
deriving Repr, Inhabited

inductive ReplyKind where
  | notInt | notLater | noNextStep | outputTimeEarly
deriving Repr, DecidableEq, Inhabited

inductive SchedErr where
  | progressBackwards (p : Sid)         -- AssertionError "cannot progress backwards"
  | stepInPast (p : Sid)                -- SimulationError "… has already progressed to time …"
  | loop (p : Sid)                      -- SimulationError "… performed a sub-step more than …"
  | badReply (p : Sid) (k : ReplyKind)  -- SimulationError naming the simulator
  | asyncRefused (p : Sid)              -- ScenarioError of _assert_async_requests
  | eventNotRt (p : Sid)                -- SimulationError: set_event outside real-time mode
  | rtTooSlow (p : Sid)                 -- RuntimeError (rt_strict)
deriving Repr, DecidableEq, Inhabited

inductive Event where
  | begin (p : Sid) (t : TT) (inputs : InputData) (maxAdvance : Nat)
  | stepped (p : Sid) (t : TT)                                  -- step reply processed
  | got (p : Sid) (t : TT) (outTime : TT) (data : OutData)       -- get_data reply processed
  | finished (p : Sid) (t : TT)                                  -- step completely done
  | done (p : Sid)
  | rtWarn (p : Sid)                                             -- "too slow" warning
  | eventIgnored (p : Sid)                                       -- set_event at/after until
deriving Repr, Inhabited

structure SimSt where
  pc : PC := .init
  progress : TT := []
  next : List TT := []          -- `next_steps`, kept sorted (a heap is used only via min / pop-min / in)
  cur : Option TT := .none      -- `current_step`
  last : Option TT := .none     -- `last_step` (`none` = never stepped, Python has time -1)
  newer : Bool := false         -- `newer_step` event
  setData : InputData := []     -- `inputs_from_set_data`
  persistent : InputData := []  -- `persistent_inputs`
  buffer : List BufEntry := []  -- `timed_input_buffer` (sorted by (time, counter))
  ctr : Nat := 0
  outputs : List (Int × OutData) := []   -- output cache in dict (insertion) order
  data : OutData := []
  outTime : TT := []
  begun : List TT := []         -- ghost: steps begun so far, most recent first
deriving Repr, Inhabited

structure State where
  sims : Sid → SimSt
  failed : Option SchedErr := .none
  clock : Nat := 0
  log : List Event := []        -- ghost: most recent first

/-- functional update of one simulator -/
def State.upd (s : State) (p : Sid) (f : SimSt → SimSt) : State :=
  { s with sims := fun q => if q = p then f (s.sims q) else s.sims q }
def State.emit (s : State) (e : Event) : State := { s with log := e :: s.log }
def State.fail (s : State) (e : SchedErr) : State :=
  match s.failed with | .none => { s with failed := some e } | some _ => s

/-! ### helpers -/

/-- insert into a sorted list (no duplicates are inserted by `schedule`) -/
def insertSorted (t : TT) : List TT → List TT
  | [] => [t]
  | x :: xs => if t < x then t :: x :: xs else x :: insertSorted t xs

def minTT : TT → List TT → TT
  | m, [] => m
  | m, x :: xs => minTT (if x < m then x else m) xs

def front (s : SimSt) : Option TT :=
  match s.cur with
  | some c => some c
  | .none => s.next.head?

def initSim (c : SimCfg) : SimSt :=
  { progress := TT.zero c.depth, next := c.next0, persistent := c.persistent0, outputs := c.outputs0 }

def initState (cfg : Cfg) : State := { sims := fun p => initSim (cfg.sim p) }

/-- `ceil(rt_passed / rt_factor)` as a tiered time of `p`'s depth -/
def rtCap (cfg : Cfg) (s : State) (p : Sid) : List TT :=
  match cfg.rt with
  | .none => []
  | some f => [ofWorld (cfg.sim p).depth ((s.clock + f - 1) / f)]

/-- the candidates `advance_progress` takes the minimum of (the end time is always among them) -/
def candidates (cfg : Cfg) (s : State) (p : Sid) : List TT :=
  ((cfg.sim p).trigAnc.filterMap fun ad => (front (s.sims ad.1)).map (TI.act · ad.2))
  ++ (s.sims p).next.head?.toList ++ (s.sims p).cur.toList ++ rtCap cfg s p

/-- `advance_progress(sim, world)` incl. the assert of `Progress.set` -/
def advance (cfg : Cfg) (s : State) (p : Sid) : State :=
  let new := minTT (cfg.endT p) (candidates cfg s p)
  if new < (s.sims p).progress then s.fail (.progressBackwards p)
  else s.upd p fun x => { x with progress := new }

/-- `SimRunner.schedule_step` -/
def schedule (s : State) (q : Sid) (t : TT) : State :=
  let x := s.sims q
  if x.next.contains t then s
  else
    let earlier := match x.next.head? with | .none => true | some h => decide (t < h)
    s.upd q fun x => { x with next := insertSorted t x.next, newer := x.newer || earlier }

/-- the part of `next_step_settled` up to its first await -/
def settle (cfg : Cfg) (s : State) (p : Sid) : State :=
  let x := s.sims p
  if TT.time x.progress ≥ cfg.until_ then (s.upd p fun x => { x with pc := .done }).emit (.done p)
  else match x.next.head? with
    | some h =>
      if h = x.progress then s.upd p fun x => { x with pc := .waitDeps h }
      else
        let e := cfg.endT p
        s.upd p fun x => { x with pc := .awaitSettle (if e < h then e else h) (cfg.rt.map (s.clock + ·)) }
    | .none => s.upd p fun x => { x with pc := .awaitSettle (cfg.endT p) (cfg.rt.map (s.clock + ·)) }

/-- the conjunction `wait_for_dependencies` waits for -/
def depsReady (cfg : Cfg) (s : State) (p : Sid) (t : TT) : Bool :=
  let c := cfg.sim p
  c.inputDelays.all (fun qd => decide (t < TI.act (s.sims qd.1).progress qd.2))
  && c.succsWait.all (fun sd => decide (TI.act t sd.2 ≤ (s.sims sd.1).progress))
  && (!cfg.lazy_ || c.succs.all (fun sd => decide (TI.act t sd.2 ≤ (s.sims sd.1).progress)))

/-! ### data flow -/

/-- `TimedInputBuffer.get_input`: pop every entry with time ≤ step, later entries overwrite -/
def bufferTake (buf : List BufEntry) (step : Nat) (inp : InputData) : InputData × List BufEntry :=
  let due := buf.filter (·.time ≤ step)
  (due.foldl (fun acc e => InputData.set acc e.key e.val) inp, buf.filter (fun e => !(e.time ≤ step)))

def insertBuf (e : BufEntry) : List BufEntry → List BufEntry
  | [] => [e]
  | x :: xs => if e.time < x.time ∨ (e.time = x.time ∧ e.ctr < x.ctr) then e :: x :: xs else x :: insertBuf e xs

/-- `SimRunner.get_output_for(time)`: newest-inserted entry whose key is ≤ time -/
def getOutputFor (outputs : List (Int × OutData)) (time : Int) : OutData :=
  match outputs.reverse.find? (·.1 ≤ time) with
  | some e => e.2
  | .none => []

/-- pulled inputs: for every cached connection the value of the newest cache entry that is due -/
def pullInputs (cfg : Cfg) (s : State) (p : Sid) (c : TT) (inp : InputData) : InputData :=
  (cfg.sim p).pulled.foldl (fun acc (e : Sid × TI × Port × Port) =>
      let cache := getOutputFor (s.sims e.1).outputs ((TT.time c : Int) - (tier e.2.1.tiers 0 : Int))
      let v : Val := (OutData.get? cache e.2.2.1).getD .none
      InputData.set acc { eid := e.2.2.2.1, attr := e.2.2.2.2, ssid := e.1, seid := e.2.2.1.1 } v) inp

/-- the step inputs of `p` at its current step `c` -/
def stepInputs (cfg : Cfg) (s : State) (p : Sid) (c : TT) : InputData :=
  let x := s.sims p
  -- set_data inputs, then persistent memory for keys not set
  let inp0 := x.persistent.foldl (fun acc e => if InputData.has acc e.1 then acc else acc ++ [e]) x.setData
  -- pushed inputs, then pulled inputs
  pullInputs cfg s p c (bufferTake x.buffer (TT.time c) inp0).1

/-- `get_input_data(world, sim)` for `p` at its current step `c`; returns inputs and new state -/
def getInputData (cfg : Cfg) (s : State) (p : Sid) (c : TT) : InputData × State :=
  let inp := stepInputs cfg s p c
  (inp, s.upd p fun x =>
    { x with setData := [],
             buffer := (bufferTake x.buffer (TT.time c) []).2,
             -- remember persistent values (existing keys only)
             persistent := x.persistent.map fun e => match InputData.get? inp e.1 with | some v => (e.1, v) | .none => e })

/-- `get_max_advance(world, sim, until)` for `p` whose `cur = some c` has just been popped -/
def maxAdvance (cfg : Cfg) (s : State) (p : Sid) (c : TT) : Nat :=
  let ancs := (cfg.sim p).trigAnc.filterMap fun ad =>
    let a := s.sims ad.1
    match (if ad.1 = p then .none else a.cur) with
    | some ac => some (TT.time (TI.act ac ad.2))
    | .none => a.next.head?.map fun h => TT.time (TI.act h ad.2)
  let own := ((s.sims p).next.head?.map TT.time).toList
  let m := (ancs ++ own).foldl min (cfg.until_ + 1)
  max (m - 1) (TT.time c)

/-- `prune_dataflow_cache(world)` -/
def prune (cfg : Cfg) (s : State) : State :=
  let lastTime (p : Sid) : Int := match (s.sims p).last with | some t => (TT.time t : Int) | .none => -1
  let minT := (List.range cfg.n).foldl (fun m p => min m (lastTime p)) (lastTime 0)
  -- the largest time shift of a cached connection out of `q`
  let maxShift (q : Sid) : Int := (List.range cfg.n).foldl (fun m d =>
      (cfg.sim d).pulled.foldl (fun m (e : Sid × TI × Port × Port) =>
        if e.1 = q then max m (tier e.2.1.tiers 0 : Int) else m) m) 0
  { s with sims := fun q =>
      let x := s.sims q
      if q < cfg.n then
        let needed : Int := minT - maxShift q
        -- the newest entry at or before `needed` is still read by steps up to the next entry
        let keepFrom : Int := match x.outputs.filter (fun (e : Int × OutData) => decide (e.1 ≤ needed)) with
          | [] => needed
          | e :: es => es.foldl (fun (m : Int) (e' : Int × OutData) => max m e'.1) e.1
        { x with outputs := x.outputs.filter (fun (e : Int × OutData) => decide (e.1 ≥ keepFrom)) }
      else x }

/-! ### the atomic blocks -/

/-- `notify_dependencies(sim)`: schedule a step for every simulator triggered by the data of `p` -/
def notify (cfg : Cfg) (s : State) (p : Sid) : State :=
  (cfg.sim p).triggers.foldl (fun st (tr : Port × Sid × TI) =>
      if OutData.has (s.sims p).data tr.1 then schedule st tr.2.1 (TI.act (s.sims p).outTime tr.2.2) else st) s

/-- `advance_progress` for all simulators, in order; the first failing assert aborts -/
def advanceAll (cfg : Cfg) (s : State) : State :=
  (List.range cfg.n).foldl (fun st q => if st.failed.isSome then st else advance cfg st q) s

/-- `current_step = None` -/
def clearCur (s : State) (p : Sid) (c : TT) : State :=
  (s.upd p fun x => { x with cur := .none }).emit (.finished p c)

/-- what follows a completed step: `current_step = None`, `notify_dependencies`,
`advance_progress` for every simulator, cache pruning, re-evaluation of the next step -/
def finish (cfg : Cfg) (s : State) (p : Sid) (c : TT) : State :=
  let s3 := advanceAll cfg (notify cfg (clearCur s p c) p)
  if s3.failed.isSome then s3
  else settle cfg (if cfg.useCache then prune cfg s3 else s3) p

/-- `rt_check` -/
def rtCheck (cfg : Cfg) (s : State) (p : Sid) (c : TT) : State :=
  match cfg.rt with
  | .none => s
  | some f =>
    if s.clock > f * TT.time c then
      if cfg.rtStrict then s.fail (.rtTooSlow p) else s.emit (.rtWarn p)
    else s

inductive Action where
  | start (p : Sid)
  | wake (p : Sid)
  | deps (p : Sid)
  | setData (p : Sid) (target : Sid) (entries : InputData)   -- p calls set_data for entities of `target`
  | getDataReq (p : Sid) (target : Sid)                      -- p calls get_data for entities of `target`
  | setEvent (p : Sid) (t : Nat)
  | stepReply (p : Sid) (r : StepReply)
  | dataReply (p : Sid) (d : DataReply)
  | tick (n : Nat)
deriving Repr, Inhabited

/-- `_assert_async_requests(src_sim = target, dest_sim = p)` -/
def asyncAllowed (cfg : Cfg) (p target : Sid) : Bool :=
  ((cfg.sim target).succs.any (·.1 == p)) && ((cfg.sim target).succsWait.any (·.1 == p))

/-! ### the data path of an asynchronous `get_data` (`MosaikRemote.get_data`)

The request does not change the scheduler state (`stepGetDataReq`); what it *answers* is a function of the state:
for every requested (entity, attribute) of `target` the value of `target`'s cache slice at the time of the requester's
running step (`asyncLookupTime`) and, for whatever the slice does not hold (always everything when
`cache=False`), the reply of `target`'s simulator to a forwarded `get_data`, merged in with `dict.update`. -/

/-- the time the cache is read at: `max(last_step.time, current_step.time)` of the requester — the request comes from within
the running step, whose time `last_step` does not show yet (fix D23; before it the lookup used `last_step.time` alone, the step
BEFORE the running one) -/
def asyncLookupTime (s : State) (p : Sid) : Int :=
  let last : Int := match (s.sims p).last with | some t => (TT.time t : Int) | .none => -1
  match (s.sims p).cur with
  | some c => max last (TT.time c : Int)
  | .none => last

/-- the cache slice `MosaikRemote.get_data` reads for requests of `p` towards `target` -/
def asyncSlice (cfg : Cfg) (s : State) (p target : Sid) : OutData :=
  if cfg.useCache then getOutputFor (s.sims target).outputs (asyncLookupTime s p) else []

/-- values found in the cache, in request order -/
def asyncFound (cfg : Cfg) (s : State) (p target : Sid) (req : List Port) : OutData :=
  req.filterMap fun r => (OutData.get? (asyncSlice cfg s p target) r).map fun v => (r, v)

/-- the `missing` request forwarded to `target`'s simulator -/
def asyncMissing (cfg : Cfg) (s : State) (p target : Sid) (req : List Port) : List Port :=
  req.filter fun r => !(OutData.has (asyncSlice cfg s p target) r)

/-- the dictionary handed back to the requesting simulator; `direct` is what `target`'s simulator answers to the forwarded
request (consulted only if something is missing; *everything* it returns is merged in, `dict.update`) -/
def asyncAnswer (cfg : Cfg) (s : State) (p target : Sid) (req : List Port) (direct : OutData) : OutData :=
  let found := asyncFound cfg s p target req
  if (asyncMissing cfg s p target req).isEmpty then found
  else direct.foldl (fun acc e => OutData.set acc e.1 e.2) found

def zeroExt (t : Nat) (depth : Nat) : TT := t :: List.replicate (depth - 1) 0

/-- common guard: the run has not failed and `p` is a simulator -/
def live (cfg : Cfg) (s : State) (p : Sid) : Bool := s.failed.isNone && decide (p < cfg.n)

def stepStart (cfg : Cfg) (s : State) (p : Sid) : Option State :=
  if live cfg s p && (s.sims p).pc == .init then
    let s1 := advance cfg s p
    if s1.failed.isSome then some s1 else some (settle cfg s1 p)
  else .none

/-- the `timeout=world.rt_factor` of `asyncio.wait` has expired -/
def timedOut (dl : Option Nat) (clock : Nat) : Bool :=
  match dl with
  | some d => decide (d ≤ clock)
  | .none => false

def stepWake (cfg : Cfg) (s : State) (p : Sid) : Option State :=
  if live cfg s p then
    match (s.sims p).pc with
    | .awaitSettle a dl =>
      let x := s.sims p
      if a ≤ x.progress ∨ x.newer = true ∨ timedOut dl s.clock = true then
        let s1 := s.upd p fun x => { x with newer := false }
        let s2 := if cfg.rt.isSome then advance cfg s1 p else s1
        if s2.failed.isSome then some s2 else some (settle cfg s2 p)
      else .none
    | _ => .none
  else .none

/-- the part of `sim_process` between `wait_for_dependencies` and the `step` request -/
def beginStep (cfg : Cfg) (s : State) (p : Sid) (c : TT) (rest : List TT) : State :=
  let s1 := s.upd p fun x => { x with cur := some c, next := rest }
  if c ≠ (s.sims p).progress then s1.fail (.stepInPast p)
  else if c.tail.any (fun k => decide (k ≥ cfg.maxLoop)) then s1.fail (.loop p)
  else
    let (inp, s2) := getInputData cfg s1 p c
    let m := maxAdvance cfg s2 p c
    (s2.upd p fun x => { x with pc := .inStep, begun := c :: x.begun }).emit (.begin p c inp m)

def stepDeps (cfg : Cfg) (s : State) (p : Sid) : Option State :=
  if live cfg s p then
    match (s.sims p).pc with
    | .waitDeps t =>
      if depsReady cfg s p t then
        match (s.sims p).next with
        | [] => .none
        | c :: rest => some (beginStep cfg s p c rest)
      else .none
    | _ => .none
  else .none

def stepSetData (cfg : Cfg) (s : State) (p target : Sid) (entries : InputData) : Option State :=
  if live cfg s p && (s.sims p).pc == .inStep then
    if !asyncAllowed cfg p target then some (s.fail (.asyncRefused p))
    else some (s.upd target fun x => { x with setData := entries.foldl (fun acc e => InputData.set acc e.1 e.2) x.setData })
  else .none

def stepGetDataReq (cfg : Cfg) (s : State) (p target : Sid) : Option State :=
  if live cfg s p && (s.sims p).pc == .inStep then
    if !asyncAllowed cfg p target then some (s.fail (.asyncRefused p)) else some s
  else .none

def stepSetEvent (cfg : Cfg) (s : State) (p : Sid) (t : Nat) : Option State :=
  if live cfg s p then
    if cfg.rt.isNone then some (s.fail (.eventNotRt p))
    else if t < cfg.until_ then some (schedule s p (ofWorld (cfg.sim p).depth t))
    else some (s.emit (.eventIgnored p))
  else .none

/-- after a valid `step` reply: `rt_check`, then `get_data` if any output is requested -/
def afterStep (cfg : Cfg) (s2 : State) (p : Sid) (c : TT) : State :=
  let s3 := rtCheck cfg s2 p c
  if s3.failed.isSome then s3
  else if (cfg.sim p).outReq.isEmpty then finish cfg s3 p c
  else s3.upd p fun x => { x with pc := .inGet }

/-- validation of the `step` reply (scheduler.step after the await) -/
def processStepReply (cfg : Cfg) (s : State) (p : Sid) (c : TT) (r : StepReply) : State :=
  let s1 := (s.upd p fun x => { x with last := some c }).emit (.stepped p c)
  match r with
  | .bad => s1.fail (.badReply p .notInt)
  | .int n =>
    if n ≤ (TT.time c : Int) then s1.fail (.badReply p .notLater)
    else if n < (cfg.until_ : Int) then afterStep cfg (schedule s1 p (ofWorld (cfg.sim p).depth n.toNat)) p c
    else afterStep cfg s1 p c
  | .none => if (cfg.sim p).ty = .timeBased then s1.fail (.badReply p .noNextStep) else afterStep cfg s1 p c

def stepStepReply (cfg : Cfg) (s : State) (p : Sid) (r : StepReply) : Option State :=
  if live cfg s p && (s.sims p).pc == .inStep then
    match (s.sims p).cur with
    | .none => .none
    | some c => some (processStepReply cfg s p c r)
  else .none

/-- output time of a `get_data` reply as a tiered time -/
def outTimeOf (c : TT) (d : DataReply) : Int × TT :=
  let ot : Int := d.time.getD (TT.time c : Int)      -- last_step = current_step here
  (ot, if ot = (TT.time c : Int) then c else zeroExt ot.toNat c.length)

/-- cache filling and pushing of `get_outputs` -/
def storeOutputs (cfg : Cfg) (s1 : State) (p : Sid) (ot : Int) (d : DataReply) : State :=
  let s2 := if cfg.useCache then s1.upd p fun x =>
      { x with outputs := if x.outputs.any (·.1 == ot) then x.outputs.map (fun e => if e.1 == ot then (ot, d.data) else e)
                          else x.outputs ++ [(ot, d.data)] }
    else s1
  let s3 := (cfg.sim p).push.foldl (fun st (e : Port × Sid × TI × Port) =>
      let (sport, dst, shift, dport) := e
      match OutData.get? d.data sport with
      | .none => st
      | some v => st.upd dst fun y =>
          { y with buffer := insertBuf { time := ot.toNat + tier shift.tiers 0, ctr := y.ctr,
                                         key := { eid := dport.1, attr := dport.2, ssid := p, seid := sport.1 }, val := v } y.buffer,
                   ctr := y.ctr + 1 }) s2
  s3.upd p fun x => { x with data := d.data }

/-- `get_outputs` after the await, and the rest of the loop body -/
def processDataReply (cfg : Cfg) (s : State) (p : Sid) (c : TT) (d : DataReply) : State :=
  let (ot, outTT) := outTimeOf c d
  let s1 := (s.upd p fun x => { x with outTime := outTT }).emit (.got p c outTT d.data)
  if (TT.time c : Int) > ot then s1.fail (.badReply p .outputTimeEarly)
  else finish cfg (storeOutputs cfg s1 p ot d) p c

def stepDataReply (cfg : Cfg) (s : State) (p : Sid) (d : DataReply) : Option State :=
  if live cfg s p && (s.sims p).pc == .inGet then
    match (s.sims p).cur with
    | .none => .none
    | some c => some (processDataReply cfg s p c d)
  else .none

def stepTick (cfg : Cfg) (s : State) (n : Nat) : Option State :=
  if s.failed.isSome ∨ cfg.rt.isNone then .none else some { s with clock := s.clock + n }

/-- one atomic block; `none` = not enabled -/
def step (cfg : Cfg) (s : State) : Action → Option State
  | .start p => stepStart cfg s p
  | .wake p => stepWake cfg s p
  | .deps p => stepDeps cfg s p
  | .setData p target entries => stepSetData cfg s p target entries
  | .getDataReq p target => stepGetDataReq cfg s p target
  | .setEvent p t => stepSetEvent cfg s p t
  | .stepReply p r => stepStepReply cfg s p r
  | .dataReply p d => stepDataReply cfg s p d
  | .tick n => stepTick cfg s n

/-- run a list of actions; `none` if one of them is not enabled -/
def exec (cfg : Cfg) : State → List Action → Option State
  | s, [] => some s
  | s, a :: as => match step cfg s a with
    | .none => .none
    | some s' => exec cfg s' as

end Mosaik
