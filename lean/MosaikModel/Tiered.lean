/-
Model of mosaik/tiered_time.py (TieredTime, TieredInterval) and of the two
helpers that compare delays (scenario.update_min, builtin min on two values).

Python `assert` is modelled as `none`.  The tier-wise (index-wise) form of the
arithmetic is used instead of Python's slicing; that both compute the same is
what the correspondence suite `tiered` checks exhaustively on a box of shapes.
-/
namespace Mosaik

/-- A tiered time: one natural number per tier (tier 0 = world time). -/
abbrev TT := List Nat

/-- tier `i` of a tuple, 0 beyond its end -/
def tier (l : List Nat) (i : Nat) : Nat := l.getD i 0

/-- `TieredInterval`: `pre` = length of the times it can be added to, `cutoff` = number of
leading tiers that are *added*; the remaining tiers *replace*. -/
structure TI where
  pre : Nat
  cutoff : Nat
  tiers : List Nat
deriving DecidableEq, Repr, Inhabited

namespace TI

/-- the three asserts of `TieredInterval.__init__` -/
def WF (d : TI) : Prop := 1 ≤ d.cutoff ∧ d.cutoff ≤ d.pre ∧ d.cutoff ≤ d.tiers.length

instance (d : TI) : Decidable d.WF := by unfold WF; exact inferInstance

/-- `TieredInterval(*tiers, cutoff=…, pre_length=…)`; `none` = an assert fails -/
def mk? (tiers : List Nat) (cutoff : Option Nat) (pre : Option Nat) : Option TI :=
  let c := cutoff.getD tiers.length
  let p := pre.getD c
  let d : TI := { pre := p, cutoff := c, tiers := tiers }
  if d.WF then some d else none

/-- tier-wise sum used by both `+` operators -/
def addTiers (a b : List Nat) (cb : Nat) : List Nat :=
  (List.range b.length).map fun i => if i < cb then tier a i + tier b i else tier b i

/-- `TieredTime.__add__` without its assert -/
def act (t : TT) (d : TI) : TT := addTiers t d.tiers d.cutoff

/-- `TieredTime.__add__` -/
def act? (t : TT) (d : TI) : Option TT :=
  if t.length = d.pre then some (act t d) else none

/-- `TieredInterval.__add__` without its assert -/
def add (a b : TI) : TI :=
  { pre := a.pre, cutoff := min a.cutoff b.cutoff, tiers := addTiers a.tiers b.tiers b.cutoff }

/-- `TieredInterval.__add__` -/
def add? (a b : TI) : Option TI :=
  if a.tiers.length = b.pre then some (add a b) else none

/-- the loop of `TieredInterval.__lt__`; `none` = "are incomparable" -/
def ltLoop (ca cb : Nat) : Nat → List Nat → List Nat → Option Bool
  | _, [], _ => some false
  | _, _ :: _, [] => some false
  | i, s :: ss, o :: os =>
    if s < o then (if cb ≤ i ∧ i < ca then none else some true)
    else if o < s then (if ca ≤ i ∧ i < cb then none else some false)
    else ltLoop ca cb (i + 1) ss os

/-- `TieredInterval.__lt__` -/
def lt? (a b : TI) : Option Bool :=
  if a.tiers.length = b.tiers.length ∧ a.pre = b.pre then ltLoop a.cutoff b.cutoff 0 a.tiers b.tiers
  else none

/-- `__le__`, `__gt__`, `__ge__` as `functools.total_ordering` derives them from `__lt__`
and the dataclass `__eq__` -/
def le? (a b : TI) : Option Bool := (lt? a b).map fun r => r || a == b
def gt? (a b : TI) : Option Bool := (lt? a b).map fun r => !r && a != b
def ge? (a b : TI) : Option Bool := (lt? a b).map fun r => !r

/-- builtin `min(x, y)` on two intervals: `y` replaces `x` iff `y < x` -/
def min2? (x y : TI) : Option TI := (lt? y x).map fun r => if r then y else x

/-- `scenario.update_min(a, b)`: outer `none` = assert, inner `none` = "keep a" -/
def updateMin? (a : Option TI) (b : TI) : Option (Option TI) :=
  match a with
  | none => some (some b)
  | some a => (le? a b).map fun r => if r then none else some b

def isZero (d : TI) : Bool := d.tiers.all (· == 0)

end TI

namespace TT

/-- `TieredTime.__lt__` (tuple comparison after a length assert) -/
def lt? (a b : TT) : Option Bool := if a.length = b.length then some (decide (a < b)) else none
def le? (a b : TT) : Option Bool := (lt? a b).map fun r => r || a == b
def gt? (a b : TT) : Option Bool := (lt? a b).map fun r => !r && a != b
def ge? (a b : TT) : Option Bool := (lt? a b).map fun r => !r

/-- world time of a tiered time -/
def time (t : TT) : Nat := tier t 0

/-- `TieredTime(0, …, 0)` of the given depth -/
def zero (depth : Nat) : TT := List.replicate depth 0

end TT

/-- `sim.from_world_time`: `TieredInterval(0,…,0, cutoff=1, pre_length=1)` of the sim's depth -/
def fromWorld (depth : Nat) : TI := { pre := 1, cutoff := 1, tiers := List.replicate depth 0 }

/-- `TieredTime(n) + sim.from_world_time` -/
def ofWorld (depth n : Nat) : TT := TI.act [n] (fromWorld depth)

end Mosaik
