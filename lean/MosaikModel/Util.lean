/-
Model of the bulk connection helpers of mosaik/util.py: `connect_many_to_one`,
`connect_randomly` (`_connect_evenly`, `_connect_randomly`).

Randomness is an explicit oracle (a list of naturals that `random.shuffle` / `random.randint`
consume); the theorems quantify over every oracle.  `world.connect(src, dest, …)` is recorded as
the pair `(src, dest)`.  Entities are natural numbers.
-/
namespace Mosaik.Util

/-- swap positions `i` and `j` of a list -/
def swap (l : List Nat) (i j : Nat) : List Nat :=
  (l.set i (l.getD j 0)).set j (l.getD i 0)

/-- `random.shuffle` (Fisher–Yates, `for i in reversed(range(1, n)): j = randbelow(i+1); swap`),
the draws taken from the oracle (reduced mod `i+1`); returns the shuffled list and the rest of the
oracle.  `i` runs from `k` down to 1. -/
def shuffleFrom : Nat → List Nat → List Nat → List Nat × List Nat
  | 0, l, orc => (l, orc)
  | k + 1, l, orc =>
    let j := orc.headD 0 % (k + 2)
    shuffleFrom k (swap l (k + 1) j) orc.tail

def shuffle (l : List Nat) (orc : List Nat) : List Nat × List Nat :=
  shuffleFrom (l.length - 1) l orc

/-- `_connect_evenly(world, src_set, dest_set)`: returns the `connect` calls in order and the
returned `connected` collection (as a list, duplicates possible = set semantics).
`zip(src_set[pos:], dest_set)` pairs the first `k = min(len, len)` elements of both.
`fuel` bounds the number of rounds (the Python loop does not terminate for an empty `dest_set`
and a non-empty `src_set`; `connect_randomly` asserts `dest_set` beforehand). -/
def connectEvenlyLoop : Nat → List Nat → List Nat → List Nat → List (Nat × Nat) × List Nat
  | 0, _, _, _ => ([], [])
  | fuel + 1, srcs, dests, orc =>
    if srcs.isEmpty then ([], [])
    else
      let (ds, orc') := shuffle dests orc
      let k := min srcs.length ds.length
      let pairs := (srcs.take k).zip (ds.take k)
      let (restPairs, restConn) := connectEvenlyLoop fuel (srcs.drop ds.length) ds orc'
      (pairs ++ restPairs, ds.take k ++ restConn)

def connectEvenly (srcs dests orc : List Nat) : List (Nat × Nat) × List Nat :=
  connectEvenlyLoop (srcs.length + 1) srcs dests orc

/-- state of the `_connect_randomly` loop: the (shrinking) `dest_set` and the connect calls so far
(most recent first); `connects[d]` is the number of calls with destination `d`, `connected` the
set of their destinations -/
structure RState where
  dests : List Nat
  pairs : List (Nat × Nat)
deriving Repr, Inhabited

def RState.count (st : RState) (d : Nat) : Nat := (st.pairs.map (·.2)).count d

/-- one iteration of the `for src in src_set` loop of `_connect_randomly`;
`none` = `assert max_i >= 0` fails.  `maxC = none` is `max_connects = inf`. -/
def randomStep (maxC : Option Nat) (st : RState) (src : Nat) (draw : Nat) : Option RState :=
  if st.dests.isEmpty then none
  else
    let i := draw % st.dests.length             -- randint(0, max_i), max_i = len(dest_set) - 1
    let dest := st.dests.getD i 0
    let st1 : RState := { st with pairs := (src, dest) :: st.pairs }
    let full := match maxC with
      | none => false
      | some m => decide (st1.count dest ≥ m)
    some { st1 with dests := if full then st.dests.erase dest else st.dests }

def randomLoop (maxC : Option Nat) : RState → List Nat → List Nat → Option RState
  | st, [], _ => some st
  | st, src :: srcs, orc =>
    match randomStep maxC st src (orc.headD 0) with
    | none => none
    | some st' => randomLoop maxC st' srcs orc.tail

/-- `_connect_randomly(world, src_set, dest_set, max_connects=maxC)`;
`none` = AssertionError (either the size precondition or the loop assert). -/
def connectRandomly (srcs dests : List Nat) (maxC : Option Nat) (orc : List Nat) :
    Option (List (Nat × Nat) × List Nat) :=
  let sizeOk := match maxC with
    | none => !dests.isEmpty           -- len(src) <= len(dest) * inf   (0 * inf = nan: false)
    | some m => decide (srcs.length ≤ dests.length * m)
  if !sizeOk then none
  else
    match randomLoop maxC { dests := dests, pairs := [] } srcs orc with
    | none => none
    | some st => some (st.pairs.reverse, st.pairs.map (·.2))

/-- `connect_randomly(world, src_set, dest_set, evenly=…, max_connects=…)` -/
def connectRandomlyTop (srcs dests : List Nat) (evenly : Bool) (maxC : Option Nat) (orc : List Nat) :
    Option (List (Nat × Nat) × List Nat) :=
  if dests.isEmpty then none               -- assert dest_set
  else if evenly then some (connectEvenly srcs dests orc)
  else connectRandomly srcs dests maxC orc

/-- `connect_many_to_one(world, src_set, dest)` -/
def connectManyToOne (srcs : List Nat) (dest : Nat) : List (Nat × Nat) := srcs.map (·, dest)

end Mosaik.Util
