/-
Executable check of the configuration hypotheses (`WFCfg` in MosaikProofs/Sched/Inv.lean) under
which the scheduler theorems are proved.  The driver evaluates it on every scenario it runs, so a
configuration outside the theorems' hypotheses shows up as a correspondence failure.
-/
import MosaikModel.Cfg
namespace Mosaik

/-- the order on delays of one shape (`TI.le` in the proofs), as a Boolean -/
def TI.leB (a b : TI) : Bool :=
  a.pre == b.pre && a.cutoff == b.cutoff && a.tiers.length == b.tiers.length && decide (a.tiers ≤ b.tiers)

namespace Cfg

def wfSim (cfg : Cfg) (p : Sid) : Bool :=
  let c := cfg.sim p
  decide (0 < c.depth) &&
  c.triggers.all (fun tr => decide (tr.2.1 < cfg.n)) &&
  c.trigAnc.all (fun ad => decide (ad.1 < cfg.n) && decide (c.depth ≤ ad.2.tiers.length)) &&
  -- direct
  c.triggers.all (fun tr => (cfg.sim tr.2.1).trigAnc.any (fun ad => ad.1 == p && TI.leB ad.2 tr.2.2)) &&
  -- trans
  c.triggers.all (fun tr => (List.range cfg.n).all (fun q => (cfg.sim q).trigAnc.all (fun bd =>
    !(bd.1 == tr.2.1) ||
      ((cfg.sim q).trigAnc.any (fun ad => ad.1 == p && TI.leB ad.2 (TI.add tr.2.2 bd.2)) &&
       decide (bd.2.cutoff ≤ tr.2.2.tiers.length))))) &&
  -- trigInput
  c.triggers.all (fun tr => (cfg.sim tr.2.1).inputDelays.any (fun qd => qd.1 == p && TI.leB qd.2 tr.2.2)) &&
  -- next0Ok
  decide (List.Pairwise (· < ·) c.next0) && c.next0.all (fun t => decide (TT.zero c.depth ≤ t)) &&
  -- trigReq
  (!c.outReq.isEmpty || c.triggers.isEmpty)

/-- all hypotheses of the scheduler theorems -/
def wfB (cfg : Cfg) : Bool := cfg.rt.isNone && (List.range cfg.n).all (fun p => cfg.wfSim p)

/-! ### the further hypotheses of the liveness theorems (`WFShape`, `Flat` in MosaikProofs) -/

/-- delays have the length of the target's times (`WFShape`) -/
def shapeSim (cfg : Cfg) (p : Sid) : Bool :=
  let c := cfg.sim p
  c.triggers.all (fun tr => tr.2.2.tiers.length == (cfg.sim tr.2.1).depth) &&
  c.trigAnc.all (fun ad => ad.2.tiers.length == c.depth) &&
  c.next0.all (fun t => t.length == c.depth)

def shapeB (cfg : Cfg) : Bool := (List.range cfg.n).all (fun p => cfg.shapeSim p)

/-- no groups, tables in range, zero adapt intervals, `rk` increasing along zero-delay connections (`Flat`) -/
def flatSim (cfg : Cfg) (rk : List Nat) (p : Sid) : Bool :=
  let c := cfg.sim p
  c.depth == 1 &&
  c.inputDelays.all (fun qd => decide (qd.1 < cfg.n) && qd.2.cutoff == 1 && qd.2.tiers.length == 1 &&
    (tier qd.2.tiers 0 != 0 || decide (rk.getD qd.1 0 < rk.getD p 0))) &&
  c.trigAnc.all (fun ad => ad.2.cutoff == 1 && ad.2.tiers.length == 1 &&
    (tier ad.2.tiers 0 != 0 || decide (rk.getD ad.1 0 < rk.getD p 0))) &&
  c.succs.all (fun sd => decide (sd.1 < cfg.n) && sd.2.cutoff == 1 && sd.2.tiers == [0]) &&
  c.succsWait.all (fun sd => decide (sd.1 < cfg.n) && sd.2.cutoff == 1 && sd.2.tiers == [0])

def flatB (cfg : Cfg) (rk : List Nat) : Bool := (List.range cfg.n).all (fun p => cfg.flatSim rk p)

/-- pushed connections are flat and covered by the destination's input-delay table (`PushOk`) -/
def pushSim (cfg : Cfg) (p : Sid) : Bool :=
  (cfg.sim p).push.all (fun e => decide (e.2.1 < cfg.n) && e.2.2.1.cutoff == 1 && e.2.2.1.tiers.length == 1 &&
    (cfg.sim e.2.1).inputDelays.any (fun qd => qd.1 == p && TI.leB qd.2 e.2.2.1))

def pushB (cfg : Cfg) : Bool := (List.range cfg.n).all (fun p => cfg.pushSim p)

/-- cached connections are flat and covered by the destination's input-delay table (`PullOk`) -/
def pullSim (cfg : Cfg) (p : Sid) : Bool :=
  (cfg.sim p).pulled.all (fun e => decide (e.1 < cfg.n) && e.2.1.cutoff == 1 && e.2.1.tiers.length == 1 &&
    (cfg.sim p).inputDelays.any (fun qd => qd.1 == e.1 && TI.leB qd.2 e.2.1))

def pullB (cfg : Cfg) : Bool := (List.range cfg.n).all (fun p => cfg.pullSim p)

/-- every pushed connection is the only one out of its simulator that writes its input key of its destination, and no
simulator has cached connections (the hypotheses `hkey` / `hpull` of `C03.begin_push_refines_spec`, for all connections) -/
def pushKeysSim (cfg : Cfg) (p : Sid) : Bool :=
  (cfg.sim p).pulled.isEmpty &&
  (cfg.sim p).push.all fun pe =>
    ((cfg.sim p).push.filter (fun e => e.2.1 == pe.2.1 && (e.2.2.2.1 == pe.2.2.2.1 && e.2.2.2.2 == pe.2.2.2.2 && e.1.1 == pe.1.1))) == [pe]

def pushKeysB (cfg : Cfg) : Bool := (List.range cfg.n).all (fun p => cfg.pushKeysSim p)

/-- candidate ranking: length of the longest chain of zero-delay connections ending in a simulator
(`n` rounds of relaxation; correct whenever the zero-delay connections are acyclic) -/
def zeroRank (cfg : Cfg) : List Nat :=
  (List.range cfg.n).foldl (fun (rk : List Nat) _ =>
    (List.range cfg.n).map (fun p =>
      let c := cfg.sim p
      let zs := (c.inputDelays.filter (fun qd => tier qd.2.tiers 0 == 0)).map (·.1) ++
                (c.trigAnc.filter (fun ad => tier ad.2.tiers 0 == 0)).map (·.1)
      zs.foldl (fun m q => max m (rk.getD q 0 + 1)) 0)) (List.replicate cfg.n 0)

end Cfg
end Mosaik
