/-
Executable check of the configuration hypotheses (`WFCfg` in MosaikProofs/Sched/Inv.lean) under
which the scheduler theorems are proved.  The driver evaluates it on every scenario it runs, so a
configuration outside the theorems' hypotheses shows up as a correspondence failure.
-/
import MosaikModel.Cfg
namespace Mosaik

/-- the order on delays of one shape (`TI.le` in the proofs), as a Boolean -/
def TI.leB (a b : TI) : Bool :=
  a.pre == b.pre && a.cutoff == b.cutoff && a.tiers.length == b.tiers.length && decide (a.tiers ≤ b.tiers)

namespace Cfg

def wfSim (cfg : Cfg) (p : Sid) : Bool :=
  let c := cfg.sim p
  decide (0 < c.depth) &&
  c.triggers.all (fun tr => decide (tr.2.1 < cfg.n)) &&
  c.trigAnc.all (fun ad => decide (ad.1 < cfg.n) && decide (c.depth ≤ ad.2.tiers.length)) &&
  -- direct
  c.triggers.all (fun tr => (cfg.sim tr.2.1).trigAnc.any (fun ad => ad.1 == p && TI.leB ad.2 tr.2.2)) &&
  -- trans
  c.triggers.all (fun tr => (List.range cfg.n).all (fun q => (cfg.sim q).trigAnc.all (fun bd =>
    !(bd.1 == tr.2.1) ||
      ((cfg.sim q).trigAnc.any (fun ad => ad.1 == p && TI.leB ad.2 (TI.add tr.2.2 bd.2)) &&
       decide (bd.2.cutoff ≤ tr.2.2.tiers.length))))) &&
  -- trigInput
  c.triggers.all (fun tr => (cfg.sim tr.2.1).inputDelays.any (fun qd => qd.1 == p && TI.leB qd.2 tr.2.2)) &&
  -- next0Ok
  decide (List.Pairwise (· < ·) c.next0) && c.next0.all (fun t => decide (TT.zero c.depth ≤ t)) &&
  -- trigReq
  (!c.outReq.isEmpty || c.triggers.isEmpty)

/-- all hypotheses of the scheduler theorems -/
def wfB (cfg : Cfg) : Bool := cfg.rt.isNone && (List.range cfg.n).all (fun p => cfg.wfSim p)

end Cfg
end Mosaik
