import MosaikProofs.Lemmas.Tiered
import MosaikProofs.Lemmas.IOSet
import MosaikProofs.Properties.C08
import MosaikProofs.Properties.C11
import MosaikProofs.Properties.C12
import MosaikProofs.Properties.C15
import MosaikProofs.Properties.C18
import MosaikProofs.Findings
