/-
Scenarios without groups that the cycle check accepts are `Flat` (the hypothesis of `deadlock_free_flat`): a ranking of the
simulators exists along which every zero-delay connection goes strictly up.

  rank p  :=  number of simulators q from which a zero-delay path of connections leads to p

For a zero-delay connection q → p every such ancestor of q is one of p, q itself is one of p, and q is none of its own (the cycle
check accepted: `C06.accept_complete`) - so the count grows strictly.  A zero entry of the triggering-ancestor table is a zero-delay
trigger path, hence a zero-delay path of connections (`trigInput`).  Everything else `Flat` asks for is the builder invariant.
-/
import MosaikProofs.Build.RunConfig
import MosaikProofs.Sched.Deadlock
namespace Mosaik.Build
open Mosaik

/-- a path of connections q → … → p whose accumulated delay has a zero time tier -/
def ZeroPath (sims : List SimCfg) (q p : Sid) : Prop := ∃ path d, RealPath sims q p path d ∧ tier d.tiers 0 = 0

open Classical in
/-- number of zero-delay ancestors -/
noncomputable def zrank (sims : List SimCfg) (p : Sid) : Nat :=
  ((List.range sims.length).filter fun q => decide (ZeroPath sims q p)).length

theorem filter_length_lt {α : Type} (P Q : α → Bool) : ∀ (l : List α), (∀ x ∈ l, P x = true → Q x = true) →
    ∀ y ∈ l, Q y = true → P y = false → (l.filter P).length < (l.filter Q).length
  | [], _, y, hy, _, _ => by cases hy
  | a :: l, hsub, y, hy, hQ, hP => by
    have hle : (l.filter P).length ≤ (l.filter Q).length := by
      clear hy hQ hP
      induction l with
      | nil => simp
      | cons b l ih =>
        have ih' := ih (fun x hx => hsub x (by simp [List.mem_cons] at hx ⊢; rcases hx with rfl | hx; exact Or.inl rfl; exact Or.inr (Or.inr hx)))
        have hb := hsub b (by simp)
        simp only [List.filter_cons]
        by_cases hPb : P b = true
        · simp [hPb, hb hPb]; exact ih'
        · simp only [hPb]
          by_cases hQb : Q b = true
          · simp [hQb]; omega
          · simp [hQb]; exact ih'
    rcases List.mem_cons.mp hy with rfl | hyl
    · simp only [List.filter_cons, hQ, hP]
      simp; omega
    · have ih := filter_length_lt P Q l (fun x hx => hsub x (List.mem_cons_of_mem _ hx)) y hyl hQ hP
      have ha := hsub a (by simp)
      simp only [List.filter_cons]
      by_cases hPa : P a = true
      · simp [hPa, ha hPa]; exact ih
      · simp only [hPa]
        by_cases hQa : Q a = true
        · simp [hQa]; omega
        · simp [hQa]; exact ih

/-! ### flat worlds: one tier, cutoff one -/

theorem flat_input_shape {w : World} (h : BuiltOk w) (hf : FlatWorld w) {m : Sid} {e : Sid × TI}
    (he : e ∈ (w.sims.getD m {}).inputDelays) : m < w.sims.length ∧ e.1 < w.sims.length ∧ e.2.cutoff = 1 ∧ e.2.tiers.length = 1 := by
  have hm : m < w.sims.length := by
    by_cases hm : m < w.sims.length
    · exact hm
    · rw [List.getD_eq_getElem?_getD, List.getElem?_eq_none (Nat.le_of_not_lt hm)] at he
      cases he
  obtain ⟨h1, h2⟩ := h.inShape m hm e he
  rw [hf e.1 h1, hf m hm] at h2
  exact ⟨hm, h1, hasShape_flat_cutoff h2, by rw [h2.2.1]; rfl⟩

theorem flat_realPath_len {w : World} (h : BuiltOk w) (hf : FlatWorld w) {s t : Sid} {p : List Sid} {d : TI}
    (hp : RealPath w.sims s t p d) : d.tiers.length = 1 := by
  induction hp with
  | edge he => exact (flat_input_shape h hf he).2.2.2
  | cons _ _ ih => simp [TI.add, ih]

theorem flat_realPath_src {w : World} (h : BuiltOk w) (hf : FlatWorld w) {s t : Sid} {p : List Sid} {d : TI}
    (hp : RealPath w.sims s t p d) : s < w.sims.length := by
  cases hp with
  | edge he => exact (flat_input_shape h hf he).2.1
  | cons he _ => exact (flat_input_shape h hf he).2.1

/-- time tier of a sum of two flat delays -/
theorem tier0_add {a b : TI} (hb1 : b.cutoff = 1) (hb2 : b.tiers.length = 1) : tier (TI.add a b).tiers 0 = tier a.tiers 0 + tier b.tiers 0 := by
  simp only [TI.add]
  rw [TI.tier_addTiers]
  simp [hb1, hb2]

/-- a zero-delay connection appended to a zero-delay path -/
theorem zeroPath_snoc {w : World} (h : BuiltOk w) (hf : FlatWorld w) {x q p : Sid} {d : TI}
    (hx : ZeroPath w.sims x q) (he : (q, d) ∈ (w.sims.getD p {}).inputDelays) (hd : tier d.tiers 0 = 0) : ZeroPath w.sims x p := by
  obtain ⟨path, dx, hpath, hz⟩ := hx
  induction hpath with
  | @edge s t d0 he0 =>
    refine ⟨[s, t, p], TI.add d0 d, RealPath.cons he0 (RealPath.edge he), ?_⟩
    rw [tier0_add (flat_input_shape h hf he).2.2.1 (flat_input_shape h hf he).2.2.2, hz, hd]
  | @cons s m t d0 dm path0 he0 hrest ih =>
    have hdm1 := flat_realPath_cutoff h hf hrest
    have hdm2 := flat_realPath_len h hf hrest
    rw [tier0_add hdm1 hdm2] at hz
    obtain ⟨path', d', hp', hz'⟩ := ih he (by omega)
    refine ⟨s :: path', TI.add d0 d', RealPath.cons he0 hp', ?_⟩
    rw [tier0_add (flat_realPath_cutoff h hf hp') (flat_realPath_len h hf hp'), hz']
    omega

theorem zeroPath_edge {w : World} {q p : Sid} {d : TI} (he : (q, d) ∈ (w.sims.getD p {}).inputDelays) (hd : tier d.tiers 0 = 0) :
    ZeroPath w.sims q p := ⟨[q, p], d, RealPath.edge he, hd⟩

/-- zero-delay paths compose -/
theorem zeroPath_trans {w : World} (h : BuiltOk w) (hf : FlatWorld w) {a p : Sid} (hap : ZeroPath w.sims a p) :
    ∀ x, ZeroPath w.sims x a → ZeroPath w.sims x p := by
  obtain ⟨path, d, hreal2, hz2⟩ := hap
  induction hreal2 with
  | @edge s t d0 he0 => exact fun x hx => zeroPath_snoc h hf hx he0 hz2
  | @cons s m t d0 dm path0 he0 hrest ih =>
    rw [tier0_add (flat_realPath_cutoff h hf hrest) (flat_realPath_len h hf hrest)] at hz2
    exact fun x hx => ih (by omega) x (zeroPath_snoc h hf hx he0 (by omega))

/-- the cycle check accepted: nobody is its own zero-delay ancestor -/
theorem no_zero_self {w : World} (h : BuiltOk w) (hf : FlatWorld w) {orc : List Nat} (hacc : ensureNoCycles w.sims orc = .ok)
    (q : Sid) : ¬ ZeroPath w.sims q q := by
  rintro ⟨path, d, hp, hz⟩
  have hnz := accept_complete w.sims orc (built_shaped h) (built_nodupKeys h) (flat_uniform h hf) hacc q path d hp
  have hl := flat_realPath_len h hf hp
  have : d.isZero = true := by
    unfold TI.isZero
    match hd : d.tiers, hl with
    | [x], _ =>
      rw [hd] at hz
      simp [tier] at hz
      simp [hz]
  rw [this] at hnz
  cases hnz

/-- **zero-delay connections go strictly up in rank** -/
theorem zrank_lt {w : World} (h : BuiltOk w) (hf : FlatWorld w) {orc : List Nat} (hacc : ensureNoCycles w.sims orc = .ok)
    {q p : Sid} (hzp : ZeroPath w.sims q p) (hq : q < w.sims.length)
    (hstep : ∀ x, ZeroPath w.sims x q → ZeroPath w.sims x p) : zrank w.sims q < zrank w.sims p := by
  unfold zrank
  apply filter_length_lt _ _ _ ?_ q (List.mem_range.mpr hq)
  · simpa using hzp
  · simpa using no_zero_self h hf hacc q
  · intro x _ hx
    simp only [decide_eq_true_eq] at hx ⊢
    exact hstep x hx

/-- a zero-delay trigger path is a zero-delay path of connections -/
theorem zeroPath_of_trigPath {w : World} (h : BuiltOk w) (hf : FlatWorld w) {a p : Sid} {d : TI}
    (hp : TrigPath w.sims a p d) (hz : tier d.tiers 0 = 0) : ZeroPath w.sims a p := by
  -- a zero trigger connection has a zero entry in the destination's input delays
  have hedge : ∀ m tr, tr ∈ (w.sims.getD m {}).triggers → tier tr.2.2.tiers 0 = 0 →
      ∃ d0, (m, d0) ∈ (w.sims.getD tr.2.1 {}).inputDelays ∧ tier d0.tiers 0 = 0 := by
    intro m tr htr hz0
    have hm : m < w.sims.length := by
      by_cases hm : m < w.sims.length
      · exact hm
      · rw [List.getD_eq_getElem?_getD, List.getElem?_eq_none (Nat.le_of_not_lt hm)] at htr
        cases htr
    obtain ⟨h1, h2, d0, h3, h4⟩ := h.trig m hm tr htr
    refine ⟨d0, lookupTI_mem h3, ?_⟩
    have hs0 := (h.inShape tr.2.1 h1 (m, d0) (lookupTI_mem h3)).2
    rw [hf m hm, hf _ h1] at hs0 h2
    have l0 : d0.tiers.length = 1 := by rw [hs0.2.1]; rfl
    have l1 : tr.2.2.tiers.length = 1 := by rw [h2.2.1]; rfl
    match hd0 : d0.tiers, htr1 : tr.2.2.tiers, l0, l1 with
    | [x], [y], _, _ =>
      rw [hd0, htr1] at h4
      rw [htr1] at hz0
      simp [tier] at hz0 ⊢
      have : x ≤ y := by
        rw [List.cons_le_cons_iff] at h4
        rcases h4 with h5 | ⟨h5, _⟩ <;> omega
      omega
  have hcut : ∀ m tr, tr ∈ (w.sims.getD m {}).triggers → tr.2.2.cutoff = 1 ∧ tr.2.2.tiers.length = 1 := by
    intro m tr htr
    have hm : m < w.sims.length := by
      by_cases hm : m < w.sims.length
      · exact hm
      · rw [List.getD_eq_getElem?_getD, List.getElem?_eq_none (Nat.le_of_not_lt hm)] at htr
        cases htr
    obtain ⟨h1, h2, _⟩ := h.trig m hm tr htr
    rw [hf m hm, hf _ h1] at h2
    exact ⟨hasShape_flat_cutoff h2, by rw [h2.2.1]; rfl⟩
  induction hp with
  | edge he =>
    obtain ⟨d0, h1, h2⟩ := hedge _ _ he hz
    exact zeroPath_edge h1 h2
  | @snoc m dm tr hpath he ih =>
    rw [tier0_add (hcut _ _ he).1 (hcut _ _ he).2] at hz
    obtain ⟨d0, h1, h2⟩ := hedge _ _ he (by omega)
    exact zeroPath_snoc h hf (ih (by omega)) h1 h2

/-! ### `Flat` for the run configuration -/

theorem run_config_flat_of_built {w : World} (h : BuiltOk w) (hf : FlatWorld w) {orc : List Nat}
    (hacc : ensureNoCycles w.sims orc = .ok) {orc' : List Nat} {out : List SimCfg}
    (hc : cacheTriggeringAncestors w.sims orc' = .ok out) (until_ maxLoop : Nat) (lazy_ useCache strict : Bool) :
    Flat (runCfg out until_ maxLoop lazy_ useCache strict) (zrank w.sims) := by
  have hS := built_shapedT h
  have hR := built_trigRange h
  have hU := flat_uniformT h hf
  obtain ⟨hreal, _⟩ := anc_table_minimum w.sims orc' hS hR hU hc
  obtain ⟨st, hnd, hout⟩ := cta_out hc
  have hlen : out.length = w.sims.length := by rw [hout]; simp
  have hget : ∀ p, p < w.sims.length → out.getD p {} = { w.sim p with trigAnc := st.row p } := by
    intro p hp; rw [hout, getD_out, if_pos hp]; rfl
  have hpath : ∀ q, q < w.sims.length → ∀ ad ∈ (out.getD q {}).trigAnc, TrigPath w.sims ad.1 q ad.2 := by
    intro q hq ad had
    refine hreal q hq ad.1 ad.2 ?_
    rw [hget q hq] at had ⊢
    exact lookupTI_of_mem_nodup (hnd q) had
  have hplain : ∀ {a b : Sid} {d : TI}, a < w.sims.length → b < w.sims.length →
      connectInterval (w.decl a).group (w.decl b).group = some d → d.cutoff = 1 ∧ d.tiers = [0] := by
    intro a b d ha hb hd
    rw [hf a ha, hf b hb] at hd
    have hsh := connectInterval_shape hd
    exact ⟨hasShape_flat_cutoff hsh, by rw [connectInterval_plain_tiers hd]; rfl⟩
  refine ⟨?_, ?_, ?_, ?_, ?_, ?_, ?_, ?_, ?_, ?_⟩
  · intro p
    show (out.getD p {}).depth = 1
    by_cases hp : p < w.sims.length
    · rw [hget p hp]
      show (w.sim p).depth = 1
      rw [h.depth p hp, hf p hp]; rfl
    · rw [hout, getD_out, if_neg hp]
  · intro p hp qd hqd
    have hp' : p < w.sims.length := hlen ▸ hp
    change qd ∈ (out.getD p {}).inputDelays at hqd
    rw [hget p hp'] at hqd
    show qd.1 < out.length
    rw [hlen]; exact (h.inShape p hp' qd hqd).1
  · intro p hp sd hsd
    have hp' : p < w.sims.length := hlen ▸ hp
    change sd ∈ (out.getD p {}).succs at hsd
    rw [hget p hp'] at hsd
    show sd.1 < out.length
    rw [hlen]; exact (h.succOk p hp' sd hsd).1
  · intro p hp sd hsd
    have hp' : p < w.sims.length := hlen ▸ hp
    change sd ∈ (out.getD p {}).succsWait at hsd
    rw [hget p hp'] at hsd
    show sd.1 < out.length
    rw [hlen]; exact (h.succWaitOk p hp' sd hsd).1
  · intro p hp qd hqd
    have hp' : p < w.sims.length := hlen ▸ hp
    change qd ∈ (out.getD p {}).inputDelays at hqd
    rw [hget p hp'] at hqd
    exact (flat_input_shape h hf (m := p) hqd).2.2
  · intro p hp ad had
    have hp' : p < w.sims.length := hlen ▸ hp
    have htp := hpath p hp' ad had
    exact ⟨flat_trigPath_cutoff h hf htp, by rw [(trigPath_shape hS htp).2]; show (w.sim p).depth = 1; rw [h.depth p hp', hf p hp']; rfl⟩
  · intro p hp sd hsd
    have hp' : p < w.sims.length := hlen ▸ hp
    change sd ∈ (out.getD p {}).succs at hsd
    rw [hget p hp'] at hsd
    obtain ⟨h1, h2⟩ := h.succOk p hp' sd hsd
    exact hplain hp' h1 h2
  · intro p hp sd hsd
    have hp' : p < w.sims.length := hlen ▸ hp
    change sd ∈ (out.getD p {}).succsWait at hsd
    rw [hget p hp'] at hsd
    obtain ⟨h1, h2⟩ := h.succWaitOk p hp' sd hsd
    exact hplain hp' h1 h2
  · intro p hp qd hqd hz
    have hp' : p < w.sims.length := hlen ▸ hp
    change qd ∈ (out.getD p {}).inputDelays at hqd
    rw [hget p hp'] at hqd
    have he : (qd.1, qd.2) ∈ (w.sims.getD p {}).inputDelays := hqd
    exact zrank_lt h hf hacc (zeroPath_edge he hz) (flat_input_shape h hf (m := p) hqd).2.1
      (fun x hx => zeroPath_snoc h hf hx he hz)
  · intro p hp ad had hz
    have hp' : p < w.sims.length := hlen ▸ hp
    have htp := hpath p hp' ad had
    have hzp := zeroPath_of_trigPath h hf htp hz
    exact zrank_lt h hf hacc hzp (trigPath_src_lt htp) (zeroPath_trans h hf hzp)

/-- **every scenario without groups that the cycle check accepts is `Flat`** -/
theorem run_config_flat {ops : List Op} (hv : Valid {} ops) (hf : flatOps ops = true) {orc : List Nat}
    (hacc : ensureNoCycles (build ops).sims orc = .ok) {orc' : List Nat} {out : List SimCfg}
    (hc : cacheTriggeringAncestors (build ops).sims orc' = .ok out) (until_ maxLoop : Nat) (lazy_ useCache strict : Bool) :
    Flat (runCfg out until_ maxLoop lazy_ useCache strict) (zrank (build ops).sims) :=
  run_config_flat_of_built (build_builtOk ops {} builtOk_empty hv) (flatWorld_of_ops hv hf) hacc hc until_ maxLoop lazy_ useCache strict

end Mosaik.Build
