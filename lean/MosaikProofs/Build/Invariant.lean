/-
What scenario building delivers: an invariant of every sequence of `World.start` / `World.connect` /
`World.set_initial_event` calls (the model of MosaikModel/Connect.lean), by induction over the calls.

* the connection tables only mention started simulators
* every delay stored for a pair of simulators has the shape their groups dictate (pre-length = depth of the source's
  group, length = depth of the destination's group, cutoff = depth of the common group) - so `min` in `connect_one`
  always compares delays of one shape and the `assert` of `TieredInterval.__lt__` cannot fire there
* `input_delays[src]` of the destination is a lower bound of the delay of every trigger connection src -> dest
  (`WFCfg.trigInput`), a simulator that triggers somebody has a non-empty `output_request` (`WFCfg.trigReq`), the
  initial schedule is the time-zero step or one initial event (`WFCfg.next0Ok`), depths are positive (`WFCfg.depth`)

The only hypothesis on the calls: the entities handed to `connect` belong to started simulators (`Valid`), which the
real code guarantees by construction (an `Entity` only comes out of `ModelMock.create` of a started simulator).
-/
import MosaikModel.Connect
import MosaikProofs.Lemmas.Tiered
import MosaikProofs.Properties.C08
import MosaikProofs.Closure.AncTable
namespace Mosaik.Build
open Mosaik

/-! ### the calls -/

inductive Op where
  | start (d : SimDecl)
  | connect (c : ConnectCall)
  | initEv (p : Sid) (t : Nat)

def apply (w : World) : Op → World
  | .start d => w.start d
  | .connect c => (w.connect c).1
  | .initEv p t => w.setInitialEvent p t

/-- the entities handed to `connect` belong to started simulators -/
def Op.Valid (w : World) : Op → Prop
  | .connect c => c.src < w.sims.length ∧ c.dst < w.sims.length
  | _ => True

def Valid : World → List Op → Prop
  | _, [] => True
  | w, o :: os => o.Valid w ∧ Valid (apply w o) os

def build (ops : List Op) (w : World := {}) : World := ops.foldl apply w

/-! ### list / table helpers -/

theorem common_length_le_left : ∀ (a b : Group), (Group.common a b).length ≤ a.length
  | [], _ => by simp [Group.common]
  | _ :: _, [] => by simp [Group.common]
  | x :: xs, y :: ys => by
    unfold Group.common
    split
    · simpa using common_length_le_left xs ys
    · simp

theorem zero_le_of_length : ∀ (n : Nat) (l : List Nat), l.length = n → List.replicate n 0 ≤ l
  | 0, l, _ => by simp [List.replicate]
  | n + 1, [], h => by simp at h
  | n + 1, y :: ys, h => by
    rw [List.replicate_succ, List.cons_le_cons_iff]
    by_cases hy : 0 < y
    · exact Or.inl hy
    · exact Or.inr ⟨by omega, zero_le_of_length n ys (by simpa using h)⟩

theorem mem_insertTI {l : List (Sid × TI)} {k : Sid} {v : TI} {e : Sid × TI} (h : e ∈ insertTI l k v) :
    e ∈ l ∨ e = (k, v) := by
  unfold insertTI at h
  split at h
  · rw [List.mem_map] at h
    obtain ⟨a, ha, rfl⟩ := h
    split
    · exact Or.inr rfl
    · exact Or.inl ha
  · rw [List.mem_append] at h
    rcases h with h | h
    · exact Or.inl h
    · exact Or.inr (by simpa using h)

theorem keys_insertTI (l : List (Sid × TI)) (k : Sid) (v : TI) :
    (insertTI l k v).map (·.1) = if l.any (·.1 == k) then l.map (·.1) else l.map (·.1) ++ [k] := by
  unfold insertTI
  split
  · rw [List.map_map]
    apply List.map_congr_left
    intro e _
    by_cases he : (e.1 == k) = true
    · simp only [Function.comp, he, if_true]; exact (beq_iff_eq.mp he).symm
    · simp only [Function.comp, he]; rfl
  · simp

theorem nodup_insertTI {l : List (Sid × TI)} (k : Sid) (v : TI) (h : (l.map (·.1)).Nodup) :
    ((insertTI l k v).map (·.1)).Nodup := by
  rw [keys_insertTI]
  split
  · exact h
  · rename_i hany
    rw [List.nodup_append]
    refine ⟨h, by simp, ?_⟩
    intro a ha b hb
    have hb' : b = k := by simpa using hb
    subst hb'
    intro hab
    subst hab
    apply hany
    rw [List.mem_map] at ha
    obtain ⟨e, he, hek⟩ := ha
    rw [List.any_eq_true]
    exact ⟨e, he, by simpa using hek⟩

theorem insertTI_has (l : List (Sid × TI)) (k : Sid) (v : TI) : (k, v) ∈ insertTI l k v :=
  lookupTI_mem (lookupTI_insert_same l k v)

theorem insertTI_keeps {l : List (Sid × TI)} (k : Sid) (v : TI) {e : Sid × TI} (he : e ∈ l) : ∃ v', (e.1, v') ∈ insertTI l k v := by
  by_cases hk : e.1 = k
  · exact ⟨v, hk ▸ insertTI_has l k v⟩
  · obtain ⟨v0, hv0⟩ := lookupTI_of_mem he
    exact ⟨v0, lookupTI_mem (by rw [lookupTI_insert_ne _ _ _ _ hk]; exact hv0)⟩

/-! ### worlds -/

theorem sim_setSim (w : World) (p q : Sid) (s : SimCfg) :
    (w.setSim p s).sim q = if q = p ∧ p < w.sims.length then s else w.sim q := by
  unfold World.sim World.setSim
  simp only [List.getD_eq_getElem?_getD, List.getElem?_set]
  by_cases hq : p = q
  · subst hq
    by_cases hp : p < w.sims.length
    · simp [hp]
    · simp [hp]
  · have : ¬ q = p := fun h => hq h.symm
    simp [hq, this]

@[simp] theorem decls_setSim (w : World) (p : Sid) (s : SimCfg) : (w.setSim p s).decls = w.decls := rfl
@[simp] theorem decl_setSim (w : World) (p q : Sid) (s : SimCfg) : (w.setSim p s).decl q = w.decl q := rfl
@[simp] theorem len_setSim (w : World) (p : Sid) (s : SimCfg) : (w.setSim p s).sims.length = w.sims.length := by
  simp [World.setSim]

/-- shape of every delay between simulators in groups `gs` (source) and `gd` (destination) -/
def HasShape (d : TI) (gs gd : Group) : Prop :=
  d.pre = Group.depth gs ∧ d.tiers.length = Group.depth gd ∧ d.cutoff = Group.depth gs - (gs.length - (Group.common gs gd).length)

theorem HasShape.same {a b : TI} {gs gd : Group} (ha : HasShape a gs gd) (hb : HasShape b gs gd) : C08.SameShape a b :=
  ⟨ha.2.1.trans hb.2.1.symm, ha.1.trans hb.1.symm, ha.2.2.trans hb.2.2.symm⟩

theorem connectInterval_shape {s d : Group} {ts wk : Nat} {iv : TI} (h : connectInterval s d ts wk = some iv) :
    HasShape iv s d := by
  unfold connectInterval Group.path at h
  simp only at h
  split at h
  · cases h
  · cases h
    refine ⟨rfl, ?_, rfl⟩
    simp only
    split <;> split <;> simp [listSet, Group.depth]

theorem connectInterval_plain_tiers {s d : Group} {iv : TI} (h : connectInterval s d = some iv) :
    iv.tiers = List.replicate (Group.depth d) 0 := by
  unfold connectInterval Group.path at h
  simp at h
  cases h
  rfl

theorem connectOneCheck_shape {r : ConnReq} {iv : TI} (h : connectOneCheck r = some iv) : HasShape iv r.srcGroup r.destGroup := by
  unfold connectOneCheck at h
  simp only at h
  split at h
  · cases h
  · exact connectInterval_shape h

/-! ### the invariant -/

structure BuiltOk (w : World) : Prop where
  len : w.decls.length = w.sims.length
  depth : ∀ p, p < w.sims.length → (w.sim p).depth = Group.depth (w.decl p).group
  /-- `input_delays` mentions started simulators, with delays of the pair's shape -/
  inShape : ∀ q, q < w.sims.length → ∀ e ∈ (w.sim q).inputDelays,
    e.1 < w.sims.length ∧ HasShape e.2 (w.decl e.1).group (w.decl q).group
  /-- trigger connections: started target, pair's shape, covered by the target's `input_delays` -/
  trig : ∀ p, p < w.sims.length → ∀ tr ∈ (w.sim p).triggers,
    tr.2.1 < w.sims.length ∧ HasShape tr.2.2 (w.decl p).group (w.decl tr.2.1).group ∧
    ∃ d0, lookupTI (w.sim tr.2.1).inputDelays p = some d0 ∧ d0.tiers ≤ tr.2.2.tiers
  next0 : ∀ p, p < w.sims.length →
    (w.sim p).next0 = [] ∨ (w.sim p).next0 = [TT.zero (w.sim p).depth] ∨ ∃ t, (w.sim p).next0 = [ofWorld (w.sim p).depth t]
  trigReq : ∀ p, p < w.sims.length → (w.sim p).outReq = [] → (w.sim p).triggers = []
  /-- `triggering_ancestors` is only filled at the start of `run()` -/
  noAnc : ∀ p : Nat, (w.sim p).trigAnc = []
  /-- `input_delays` is a dict: one entry per predecessor -/
  nodup : ∀ q : Nat, ((w.sim q).inputDelays.map (·.1)).Nodup
  /-- `successors` / `successors_to_wait_for`: started target, the pair's plain (all-zero) delay -/
  succOk : ∀ p, p < w.sims.length → ∀ sd ∈ (w.sim p).succs,
    sd.1 < w.sims.length ∧ connectInterval (w.decl p).group (w.decl sd.1).group = some sd.2
  succWaitOk : ∀ p, p < w.sims.length → ∀ sd ∈ (w.sim p).succsWait,
    sd.1 < w.sims.length ∧ connectInterval (w.decl p).group (w.decl sd.1).group = some sd.2
  /-- every data connection registers its destination as a successor of its source (what `lazy_stepping` waits for) -/
  succPush : ∀ p, p < w.sims.length → ∀ e ∈ (w.sim p).push, ∃ d, (e.2.1, d) ∈ (w.sim p).succs
  succPull : ∀ q, q < w.sims.length → ∀ e ∈ (w.sim q).pulled, ∃ d, (q, d) ∈ (w.sim e.1).succs
  /-- pushed connections: started target, pair's shape, covered by the target's `input_delays` -/
  pushOk : ∀ p, p < w.sims.length → ∀ e ∈ (w.sim p).push,
    e.2.1 < w.sims.length ∧ HasShape e.2.2.1 (w.decl p).group (w.decl e.2.1).group ∧
    ∃ d0, lookupTI (w.sim e.2.1).inputDelays p = some d0 ∧ d0.tiers ≤ e.2.2.1.tiers
  /-- cached (pulled) connections: started source, pair's shape, covered by the own `input_delays` -/
  pullOk : ∀ p, p < w.sims.length → ∀ e ∈ (w.sim p).pulled,
    e.1 < w.sims.length ∧ HasShape e.2.1 (w.decl e.1).group (w.decl p).group ∧
    ∃ d0, lookupTI (w.sim p).inputDelays e.1 = some d0 ∧ d0.tiers ≤ e.2.1.tiers

theorem builtOk_empty : BuiltOk {} := by
  refine ⟨rfl, ?_, ?_, ?_, ?_, ?_, ?_, ?_, ?_, ?_, ?_, ?_, ?_, ?_⟩ <;> intro p <;> simp [World.sim]

/-! ### start -/

theorem sim_start_lt (w : World) (d : SimDecl) {p : Sid} (h : p < w.sims.length) : (w.start d).sim p = w.sim p := by
  simp [World.sim, World.start, List.getD_eq_getElem?_getD, List.getElem?_append_left h]

theorem decl_start_lt (w : World) (d : SimDecl) {p : Sid} (h : p < w.decls.length) : (w.start d).decl p = w.decl p := by
  simp [World.decl, World.start, List.getD_eq_getElem?_getD, List.getElem?_append_left h]

theorem sim_start_new (w : World) (d : SimDecl) : (w.start d).sim w.sims.length =
    { ty := d.ty, group := d.group, depth := Group.depth d.group,
      next0 := if d.ty == .eventBased then [] else [TT.zero (Group.depth d.group)] } := by
  simp [World.sim, World.start, List.getD_eq_getElem?_getD]

theorem decl_start_new (w : World) (d : SimDecl) : (w.start d).decl w.decls.length = d := by
  simp [World.decl, World.start, List.getD_eq_getElem?_getD]

theorem builtOk_start {w : World} (h : BuiltOk w) (d : SimDecl) : BuiltOk (w.start d) := by
  have hlen : (w.start d).sims.length = w.sims.length + 1 := by simp [World.start]
  have hcase : ∀ p, p < (w.start d).sims.length → p < w.sims.length ∨ p = w.sims.length := by
    intro p hp; rw [hlen] at hp; omega
  have hdecl : ∀ p, p < w.sims.length → (w.start d).decl p = w.decl p := fun p hp => decl_start_lt w d (h.len ▸ hp)
  have hnew : ∀ p : Nat, ¬ p < w.sims.length → (w.start d).sim p = (w.start d).sim w.sims.length ∨ (w.start d).sim p = {} := by
    intro p hp
    by_cases hp' : p = w.sims.length
    · left; rw [hp']
    · right
      simp only [World.sim, World.start, List.getD_eq_getElem?_getD]
      have hge : w.sims.length + 1 ≤ p := by omega
      rw [List.getElem?_eq_none (by simpa using hge)]
      rfl
  refine ⟨by simp [World.start, h.len], ?_, ?_, ?_, ?_, ?_, ?_, ?_, ?_, ?_, ?_, ?_, ?_, ?_⟩
  rotate_right 6
  · intro p hp sd hsd
    rcases hcase p hp with hp' | rfl
    · rw [sim_start_lt w d hp'] at hsd
      obtain ⟨h1, h2⟩ := h.succOk p hp' sd hsd
      exact ⟨by rw [hlen]; exact Nat.lt_succ_of_lt h1, by rw [hdecl _ hp', hdecl _ h1]; exact h2⟩
    · rw [sim_start_new] at hsd; simp at hsd
  · intro p hp sd hsd
    rcases hcase p hp with hp' | rfl
    · rw [sim_start_lt w d hp'] at hsd
      obtain ⟨h1, h2⟩ := h.succWaitOk p hp' sd hsd
      exact ⟨by rw [hlen]; exact Nat.lt_succ_of_lt h1, by rw [hdecl _ hp', hdecl _ h1]; exact h2⟩
    · rw [sim_start_new] at hsd; simp at hsd
  · intro p hp e he
    rcases hcase p hp with hp' | rfl
    · rw [sim_start_lt w d hp'] at he ⊢
      exact h.succPush p hp' e he
    · rw [sim_start_new] at he; simp at he
  · intro q hq e he
    rcases hcase q hq with hq' | rfl
    · rw [sim_start_lt w d hq'] at he
      obtain ⟨d0, hd0⟩ := h.succPull q hq' e he
      exact ⟨d0, by rw [sim_start_lt w d (h.pullOk q hq' e he).1]; exact hd0⟩
    · rw [sim_start_new] at he; simp at he
  · intro p hp e he
    rcases hcase p hp with hp' | rfl
    · rw [sim_start_lt w d hp'] at he
      obtain ⟨h1, h2, d0, h3, h4⟩ := h.pushOk p hp' e he
      refine ⟨by rw [hlen]; exact Nat.lt_succ_of_lt h1, ?_, d0, ?_, h4⟩
      · rw [hdecl _ hp', hdecl _ h1]; exact h2
      · rw [sim_start_lt w d h1]; exact h3
    · rw [sim_start_new] at he; simp at he
  · intro p hp e he
    rcases hcase p hp with hp' | rfl
    · rw [sim_start_lt w d hp'] at he ⊢
      obtain ⟨h1, h2, d0, h3, h4⟩ := h.pullOk p hp' e he
      refine ⟨by rw [hlen]; exact Nat.lt_succ_of_lt h1, ?_, d0, h3, h4⟩
      rw [hdecl _ hp', hdecl _ h1]; exact h2
    · rw [sim_start_new] at he; simp at he
  · intro p hp
    rcases hcase p hp with hp | rfl
    · rw [sim_start_lt w d hp, hdecl p hp]; exact h.depth p hp
    · rw [sim_start_new, ← h.len, decl_start_new]
  · intro q hq e he
    rcases hcase q hq with hq' | rfl
    · rw [sim_start_lt w d hq'] at he
      obtain ⟨h1, h2⟩ := h.inShape q hq' e he
      refine ⟨by rw [hlen]; exact Nat.lt_succ_of_lt h1, ?_⟩
      rw [hdecl _ h1, hdecl _ hq']; exact h2
    · rw [sim_start_new] at he; simp at he
  · intro p hp tr htr
    rcases hcase p hp with hp' | rfl
    · rw [sim_start_lt w d hp'] at htr
      obtain ⟨h1, h2, d0, h3, h4⟩ := h.trig p hp' tr htr
      refine ⟨by rw [hlen]; exact Nat.lt_succ_of_lt h1, ?_, d0, ?_, h4⟩
      · rw [hdecl _ hp', hdecl _ h1]; exact h2
      · rw [sim_start_lt w d h1]; exact h3
    · rw [sim_start_new] at htr; simp at htr
  · intro p hp
    rcases hcase p hp with hp' | rfl
    · rw [sim_start_lt w d hp']; exact h.next0 p hp'
    · rw [sim_start_new]
      by_cases hty : d.ty == .eventBased
      · left; simp [hty]
      · right; left; simp [hty]
  · intro p hp
    rcases hcase p hp with hp' | rfl
    · rw [sim_start_lt w d hp']; exact h.trigReq p hp'
    · rw [sim_start_new]; simp
  · intro p
    by_cases hp : p < w.sims.length
    · rw [sim_start_lt w d hp]; exact h.noAnc p
    · by_cases hp' : p = w.sims.length
      · subst hp'; rw [sim_start_new]
      · simp [World.sim, World.start, List.getD_eq_getElem?_getD]
        have hge : w.sims.length + 1 ≤ p := by omega
        rw [List.getElem?_eq_none (by simpa using hge)]
        rfl
  · intro q
    by_cases hq : q < w.sims.length
    · rw [sim_start_lt w d hq]; exact h.nodup q
    · rcases hnew q hq with hh | hh
      · rw [hh, sim_start_new]; simp
      · rw [hh]; simp

/-! ### set_initial_event -/

theorem builtOk_initEv {w : World} (h : BuiltOk w) (p : Sid) (t : Nat) : BuiltOk (w.setInitialEvent p t) := by
  unfold World.setInitialEvent
  have hs : ∀ q, ((w.setSim p { w.sim p with next0 := [ofWorld (w.sim p).depth t] }).sim q) =
      if q = p ∧ p < w.sims.length then { w.sim p with next0 := [ofWorld (w.sim p).depth t] } else w.sim q := fun q => sim_setSim w p q _
  have hfield : ∀ q, ((w.setSim p { w.sim p with next0 := [ofWorld (w.sim p).depth t] }).sim q).inputDelays = (w.sim q).inputDelays ∧
      ((w.setSim p { w.sim p with next0 := [ofWorld (w.sim p).depth t] }).sim q).triggers = (w.sim q).triggers ∧
      ((w.setSim p { w.sim p with next0 := [ofWorld (w.sim p).depth t] }).sim q).depth = (w.sim q).depth ∧
      ((w.setSim p { w.sim p with next0 := [ofWorld (w.sim p).depth t] }).sim q).outReq = (w.sim q).outReq ∧
      ((w.setSim p { w.sim p with next0 := [ofWorld (w.sim p).depth t] }).sim q).trigAnc = (w.sim q).trigAnc ∧
      ((w.setSim p { w.sim p with next0 := [ofWorld (w.sim p).depth t] }).sim q).push = (w.sim q).push ∧
      ((w.setSim p { w.sim p with next0 := [ofWorld (w.sim p).depth t] }).sim q).pulled = (w.sim q).pulled := by
    intro q
    rw [hs q]
    split
    · rename_i hq; rw [hq.1]; exact ⟨rfl, rfl, rfl, rfl, rfl, rfl, rfl⟩
    · exact ⟨rfl, rfl, rfl, rfl, rfl, rfl, rfl⟩
  have hsucc : ∀ q, ((w.setSim p { w.sim p with next0 := [ofWorld (w.sim p).depth t] }).sim q).succs = (w.sim q).succs ∧
      ((w.setSim p { w.sim p with next0 := [ofWorld (w.sim p).depth t] }).sim q).succsWait = (w.sim q).succsWait := by
    intro q
    rw [hs q]
    split
    · rename_i hq; rw [hq.1]; exact ⟨rfl, rfl⟩
    · exact ⟨rfl, rfl⟩
  refine ⟨by simpa using h.len, ?_, ?_, ?_, ?_, ?_, ?_, fun q => by rw [(hfield q).1]; exact h.nodup q, ?_, ?_, ?_, ?_, ?_, ?_⟩
  rotate_right 6
  · intro q hq sd hsd
    rw [(hsucc q).1] at hsd
    simpa using h.succOk q (by simpa using hq) sd hsd
  · intro q hq sd hsd
    rw [(hsucc q).2] at hsd
    simpa using h.succWaitOk q (by simpa using hq) sd hsd
  · intro q hq e he
    rw [(hfield q).2.2.2.2.2.1] at he
    rw [(hsucc q).1]
    exact h.succPush q (by simpa using hq) e he
  · intro q hq e he
    rw [(hfield q).2.2.2.2.2.2] at he
    rw [(hsucc e.1).1]
    exact h.succPull q (by simpa using hq) e he
  · intro q hq e he
    rw [(hfield q).2.2.2.2.2.1] at he
    obtain ⟨h1, h2, d0, h3, h4⟩ := h.pushOk q (by simpa using hq) e he
    exact ⟨by simpa using h1, h2, d0, by rw [(hfield e.2.1).1]; exact h3, h4⟩
  · intro q hq e he
    rw [(hfield q).2.2.2.2.2.2] at he
    obtain ⟨h1, h2, d0, h3, h4⟩ := h.pullOk q (by simpa using hq) e he
    exact ⟨by simpa using h1, h2, d0, by rw [(hfield q).1]; exact h3, h4⟩
  · intro q hq; rw [(hfield q).2.2.1]; exact h.depth q (by simpa using hq)
  · intro q hq e he; rw [(hfield q).1] at he; simpa using h.inShape q (by simpa using hq) e he
  · intro q hq tr htr
    rw [(hfield q).2.1] at htr
    obtain ⟨h1, h2, d0, h3, h4⟩ := h.trig q (by simpa using hq) tr htr
    exact ⟨by simpa using h1, h2, d0, by rw [(hfield tr.2.1).1]; exact h3, h4⟩
  · intro q hq
    rw [(hfield q).2.2.1, hs q]
    split
    · right; right; rename_i hq'; rw [hq'.1]; exact ⟨t, rfl⟩
    · exact h.next0 q (by simpa using hq)
  · intro q hq; rw [(hfield q).2.2.2.1, (hfield q).2.1]; exact h.trigReq q (by simpa using hq)
  · intro q; rw [(hfield q).2.2.2.2.1]; exact h.noAnc q

/-! ### one accepted attribute pair / one async registration, abstractly -/

/-- what a step changes, as far as the invariant is concerned: the destination's `input_delays[src]` becomes `dmin`;
the source may gain one trigger connection `(port, dst, delay)` -/
structure Step (w w' : World) (src dst : Sid) (port : Port) (delay dmin : TI) (trg : Bool) : Prop where
  decls : w'.decls = w.decls
  len : w'.sims.length = w.sims.length
  depth : ∀ p, (w'.sim p).depth = (w.sim p).depth
  next0 : ∀ p, (w'.sim p).next0 = (w.sim p).next0
  anc : ∀ p, (w'.sim p).trigAnc = (w.sim p).trigAnc
  inD : ∀ p, (w'.sim p).inputDelays = if p = dst then insertTI (w.sim p).inputDelays src dmin else (w.sim p).inputDelays
  trig : ∀ p, (w'.sim p).triggers = if p = src ∧ trg = true then (w.sim p).triggers ++ [(port, dst, delay)] else (w.sim p).triggers
  req : ∀ p, (w.sim p).outReq ≠ [] → (w'.sim p).outReq ≠ []
  reqSrc : trg = true → (w'.sim src).outReq ≠ []
  succs : ∀ p sd, sd ∈ (w'.sim p).succs → sd ∈ (w.sim p).succs ∨
    (p = src ∧ sd.1 = dst ∧ connectInterval (w.decl src).group (w.decl dst).group = some sd.2)
  succsWait : ∀ p sd, sd ∈ (w'.sim p).succsWait → sd ∈ (w.sim p).succsWait ∨
    (p = src ∧ sd.1 = dst ∧ connectInterval (w.decl src).group (w.decl dst).group = some sd.2)
  succsKeep : ∀ p sd, sd ∈ (w.sim p).succs → ∃ d, (sd.1, d) ∈ (w'.sim p).succs
  succsNew : ∃ d, (dst, d) ∈ (w'.sim src).succs
  push : ∀ p, (w'.sim p).push = (w.sim p).push ∨
    (p = src ∧ ∃ dport, (w'.sim p).push = (w.sim p).push ++ [(port, dst, delay, dport)])
  pulled : ∀ p, (w'.sim p).pulled = (w.sim p).pulled ∨
    (p = dst ∧ ∃ dport, (w'.sim p).pulled = (w.sim p).pulled ++ [(src, delay, port, dport)])

theorem builtOk_step {w w' : World} {src dst : Sid} {port : Port} {delay dmin : TI} {trg : Bool}
    (h : BuiltOk w) (hs : src < w.sims.length) (hd : dst < w.sims.length)
    (hdelay : HasShape delay (w.decl src).group (w.decl dst).group)
    (hdmin : HasShape dmin (w.decl src).group (w.decl dst).group)
    (hle : dmin.tiers ≤ delay.tiers)
    (hold : ∀ old, lookupTI (w.sim dst).inputDelays src = some old → dmin.tiers ≤ old.tiers)
    (st : Step w w' src dst port delay dmin trg) : BuiltOk w' := by
  have hdecl : ∀ p, w'.decl p = w.decl p := fun p => by simp [World.decl, st.decls]
  -- a covered delay stays covered: the pair's entry can only decrease
  have hlk : ∀ (a b : Sid) (d : TI), (∃ d0, lookupTI (w.sim b).inputDelays a = some d0 ∧ d0.tiers ≤ d.tiers) →
      ∃ d0, lookupTI (w'.sim b).inputDelays a = some d0 ∧ d0.tiers ≤ d.tiers := by
    intro a b d ⟨d0, h3, h4⟩
    rw [st.inD]
    split
    · rename_i hbd
      by_cases has : a = src
      · subst has
        refine ⟨dmin, lookupTI_insert_same _ _ _, ?_⟩
        rw [hbd] at h3
        exact TT.le_trans (hold d0 h3) h4
      · exact ⟨d0, by rw [lookupTI_insert_ne _ _ _ _ has]; exact h3, h4⟩
    · exact ⟨d0, h3, h4⟩
  have hnew : ∃ d0, lookupTI (w'.sim dst).inputDelays src = some d0 ∧ d0.tiers ≤ delay.tiers := by
    refine ⟨dmin, ?_, hle⟩
    rw [st.inD]; simp only [if_true]; exact lookupTI_insert_same _ _ _
  refine ⟨by rw [st.decls, st.len]; exact h.len, ?_, ?_, ?_, ?_, ?_, ?_, ?_, ?_, ?_, ?_, ?_, ?_, ?_⟩
  rotate_right 7
  · intro q; rw [st.inD]; split
    · exact nodup_insertTI _ _ (h.nodup q)
    · exact h.nodup q
  · intro p hp sd hsd
    rw [st.len] at hp ⊢
    rw [hdecl, hdecl]
    rcases st.succs p sd hsd with hold' | ⟨hps, hsd1, hci⟩
    · exact h.succOk p hp sd hold'
    · exact ⟨hsd1 ▸ hd, by rw [hps, hsd1]; exact hci⟩
  · intro p hp sd hsd
    rw [st.len] at hp ⊢
    rw [hdecl, hdecl]
    rcases st.succsWait p sd hsd with hold' | ⟨hps, hsd1, hci⟩
    · exact h.succWaitOk p hp sd hold'
    · exact ⟨hsd1 ▸ hd, by rw [hps, hsd1]; exact hci⟩
  · intro p hp e he
    rw [st.len] at hp
    rcases st.push p with hsame | ⟨hps, dport, happ⟩
    · rw [hsame] at he
      obtain ⟨d0, hd0⟩ := h.succPush p hp e he
      exact st.succsKeep p _ hd0
    · rw [happ] at he
      rcases List.mem_append.mp he with he | he
      · obtain ⟨d0, hd0⟩ := h.succPush p hp e he
        exact st.succsKeep p _ hd0
      · have : e = (port, dst, delay, dport) := by simpa using he
        subst this
        rw [hps]; exact st.succsNew
  · intro q hq e he
    rw [st.len] at hq
    rcases st.pulled q with hsame | ⟨hqd, dport, happ⟩
    · rw [hsame] at he
      obtain ⟨d0, hd0⟩ := h.succPull q hq e he
      exact st.succsKeep _ _ hd0
    · rw [happ] at he
      rcases List.mem_append.mp he with he | he
      · obtain ⟨d0, hd0⟩ := h.succPull q hq e he
        exact st.succsKeep _ _ hd0
      · have : e = (src, delay, port, dport) := by simpa using he
        subst this
        rw [hqd]; exact st.succsNew
  · intro p hp e he
    rw [st.len] at hp ⊢
    rw [hdecl, hdecl]
    rcases st.push p with hsame | ⟨hps, dport, happ⟩
    · rw [hsame] at he
      obtain ⟨h1, h2, h3⟩ := h.pushOk p hp e he
      exact ⟨h1, h2, hlk _ _ _ h3⟩
    · rw [happ] at he
      rcases List.mem_append.mp he with he | he
      · obtain ⟨h1, h2, h3⟩ := h.pushOk p hp e he
        exact ⟨h1, h2, hlk _ _ _ h3⟩
      · have : e = (port, dst, delay, dport) := by simpa using he
        subst this
        exact ⟨hd, hps ▸ hdelay, hps ▸ hnew⟩
  · intro p hp e he
    rw [st.len] at hp ⊢
    rw [hdecl, hdecl]
    rcases st.pulled p with hsame | ⟨hpd, dport, happ⟩
    · rw [hsame] at he
      obtain ⟨h1, h2, h3⟩ := h.pullOk p hp e he
      exact ⟨h1, h2, hlk _ _ _ h3⟩
    · rw [happ] at he
      rcases List.mem_append.mp he with he | he
      · obtain ⟨h1, h2, h3⟩ := h.pullOk p hp e he
        exact ⟨h1, h2, hlk _ _ _ h3⟩
      · have : e = (src, delay, port, dport) := by simpa using he
        subst this
        exact ⟨hs, hpd ▸ hdelay, hpd ▸ hnew⟩
  · intro p hp; rw [st.depth, hdecl]; exact h.depth p (st.len ▸ hp)
  · intro q hq e he
    rw [st.len] at hq ⊢
    rw [st.inD] at he
    rw [hdecl, hdecl]
    split at he
    · rename_i hqd
      rcases mem_insertTI he with he | rfl
      · exact h.inShape q hq e he
      · exact ⟨hs, hqd ▸ hdmin⟩
    · exact h.inShape q hq e he
  · intro p hp tr htr
    rw [st.len] at hp ⊢
    rw [st.trig] at htr
    rw [hdecl, hdecl]
    -- the lookup in the (possibly updated) input-delay table of the target
    have hlook : ∀ (tr : Port × Sid × TI), tr.2.1 < w.sims.length →
        HasShape tr.2.2 (w.decl p).group (w.decl tr.2.1).group →
        (∃ d0, lookupTI (w.sim tr.2.1).inputDelays p = some d0 ∧ d0.tiers ≤ tr.2.2.tiers) →
        ∃ d0, lookupTI (w'.sim tr.2.1).inputDelays p = some d0 ∧ d0.tiers ≤ tr.2.2.tiers := by
      intro tr h1 h2 ⟨d0, h3, h4⟩
      rw [st.inD]
      split
      · rename_i htd
        by_cases hps : p = src
        · subst hps
          refine ⟨dmin, lookupTI_insert_same _ _ _, ?_⟩
          rw [htd] at h3
          exact TT.le_trans (hold d0 h3) h4
        · exact ⟨d0, by rw [lookupTI_insert_ne _ _ _ _ hps]; exact h3, h4⟩
      · exact ⟨d0, h3, h4⟩
    split at htr
    · rename_i hcond
      rcases List.mem_append.mp htr with htr | htr
      · obtain ⟨h1, h2, h3⟩ := h.trig p hp tr htr
        exact ⟨h1, h2, hlook tr h1 h2 h3⟩
      · have : tr = (port, dst, delay) := by simpa using htr
        subst this
        refine ⟨hd, hcond.1 ▸ hdelay, dmin, ?_, hle⟩
        rw [st.inD]; simp only [if_true]
        rw [hcond.1]; exact lookupTI_insert_same _ _ _
    · obtain ⟨h1, h2, h3⟩ := h.trig p hp tr htr
      exact ⟨h1, h2, hlook tr h1 h2 h3⟩
  · intro p hp; rw [st.next0, st.depth]; exact h.next0 p (st.len ▸ hp)
  · intro p hp hreq
    rw [st.len] at hp
    have hreq0 : (w.sim p).outReq = [] := by
      by_cases h0 : (w.sim p).outReq = []
      · exact h0
      · exact absurd hreq (st.req p h0)
    rw [st.trig]
    split
    · rename_i hcond
      exact absurd (hcond.1 ▸ hreq) (st.reqSrc hcond.2)
    · exact h.trigReq p hp hreq0
  · intro p; rw [st.anc]; exact h.noAnc p

/-! ### `connect_one` as two table updates -/

/-- the destination's tables after an accepted pair -/
def dstUpd (w : World) (c : ConnectCall) (sattr dattr : Nat) (delay dmin : TI) : SimCfg :=
  let sdecl := w.decl c.src
  let sport : Port := (c.seid, sattr)
  let dport : Port := (c.deid, dattr)
  let key : InKey := { eid := c.deid, attr := dattr, ssid := c.src, seid := c.seid }
  let persistentAttr := IOSet.mem sattr sdecl.cls.persOut
  let isPulled := w.useCache && persistentAttr
  let dsim0 := w.sim c.dst
  let dsim1 := { dsim0 with inputDelays := insertTI dsim0.inputDelays c.src dmin }
  let dsim2 := if persistentAttr && !w.useCache && !(InputData.has dsim1.persistent0 key)
    then { dsim1 with persistent0 := InputData.set dsim1.persistent0 key none } else dsim1
  let dsim3 := if isPulled then { dsim2 with pulled := dsim2.pulled ++ [(c.src, delay, sport, dport)] } else dsim2
  match c.init.lookup sattr with
    | some v => if isPulled then dsim3 else { dsim3 with persistent0 := InputData.set dsim3.persistent0 key v }
    | none => dsim3

/-- the source's tables after an accepted pair (`ssim0` = the source's tables after the destination update) -/
def srcUpd (w : World) (c : ConnectCall) (sattr dattr : Nat) (delay plain : TI) (ssim0 : SimCfg) : SimCfg :=
  let sdecl := w.decl c.src
  let ddecl := w.decl c.dst
  let sport : Port := (c.seid, sattr)
  let dport : Port := (c.deid, dattr)
  let persistentAttr := IOSet.mem sattr sdecl.cls.persOut
  let triggered := IOSet.mem dattr ddecl.cls.trigIn
  let isPulled := w.useCache && persistentAttr
  let ssim1 := { ssim0 with outReq := ssim0.outReq ++ [sport] }
  let ssim2 := if isPulled then ssim1 else { ssim1 with push := ssim1.push ++ [(sport, c.dst, delay, dport)] }
  let ssim3 := { ssim2 with succs := insertTI ssim2.succs c.dst plain }
  let ssim4 := if triggered then { ssim3 with triggers := ssim3.triggers ++ [(sport, c.dst, delay)] } else ssim3
  match c.init.lookup sattr with
    | some v => if isPulled then { ssim4 with outputs0 := World.setOutputs0 ssim4.outputs0 (-(c.timeShifted : Int)) sport v } else ssim4
    | none => ssim4

theorem connectOne_eq (w : World) (c : ConnectCall) (sattr dattr : Nat) :
    w.connectOne c sattr dattr =
      match connectOneCheck (w.connReq c sattr dattr) with
      | none => .error .scenarioError
      | some delay =>
        match TI.min2? ((lookupTI (w.sim c.dst).inputDelays c.src).getD delay) delay with
        | none => .error .assertion
        | some dmin =>
          match connectInterval (w.decl c.src).group (w.decl c.dst).group with
          | none => .error .assertion
          | some plain =>
            .ok ((w.setSim c.dst (dstUpd w c sattr dattr delay dmin)).setSim c.src
              (srcUpd w c sattr dattr delay plain ((w.setSim c.dst (dstUpd w c sattr dattr delay dmin)).sim c.src))) := by
  unfold World.connectOne dstUpd srcUpd
  rfl

theorem dstUpd_fields (w : World) (c : ConnectCall) (sattr dattr : Nat) (delay dmin : TI) :
    (dstUpd w c sattr dattr delay dmin).inputDelays = insertTI (w.sim c.dst).inputDelays c.src dmin ∧
    (dstUpd w c sattr dattr delay dmin).triggers = (w.sim c.dst).triggers ∧
    (dstUpd w c sattr dattr delay dmin).outReq = (w.sim c.dst).outReq ∧
    (dstUpd w c sattr dattr delay dmin).depth = (w.sim c.dst).depth ∧
    (dstUpd w c sattr dattr delay dmin).next0 = (w.sim c.dst).next0 ∧
    (dstUpd w c sattr dattr delay dmin).trigAnc = (w.sim c.dst).trigAnc := by
  unfold dstUpd
  simp only
  cases c.init.lookup sattr <;> simp only <;> (repeat' split) <;> exact ⟨rfl, rfl, rfl, rfl, rfl, rfl⟩

theorem srcUpd_fields (w : World) (c : ConnectCall) (sattr dattr : Nat) (delay plain : TI) (s0 : SimCfg) :
    (srcUpd w c sattr dattr delay plain s0).inputDelays = s0.inputDelays ∧
    (srcUpd w c sattr dattr delay plain s0).triggers =
      (if IOSet.mem dattr (w.decl c.dst).cls.trigIn = true then s0.triggers ++ [((c.seid, sattr), c.dst, delay)] else s0.triggers) ∧
    (srcUpd w c sattr dattr delay plain s0).outReq = s0.outReq ++ [(c.seid, sattr)] ∧
    (srcUpd w c sattr dattr delay plain s0).depth = s0.depth ∧
    (srcUpd w c sattr dattr delay plain s0).next0 = s0.next0 ∧
    (srcUpd w c sattr dattr delay plain s0).trigAnc = s0.trigAnc := by
  unfold srcUpd
  simp only
  cases c.init.lookup sattr <;> simp only <;> (repeat' split) <;> simp_all

theorem dstUpd_pp (w : World) (c : ConnectCall) (sattr dattr : Nat) (delay dmin : TI) :
    (dstUpd w c sattr dattr delay dmin).push = (w.sim c.dst).push ∧
    ((dstUpd w c sattr dattr delay dmin).pulled = (w.sim c.dst).pulled ∨
     (dstUpd w c sattr dattr delay dmin).pulled = (w.sim c.dst).pulled ++ [(c.src, delay, (c.seid, sattr), (c.deid, dattr))]) := by
  unfold dstUpd
  simp only
  cases c.init.lookup sattr <;> simp only <;> (repeat' split) <;> simp

theorem srcUpd_pp (w : World) (c : ConnectCall) (sattr dattr : Nat) (delay plain : TI) (s0 : SimCfg) :
    (srcUpd w c sattr dattr delay plain s0).pulled = s0.pulled ∧
    ((srcUpd w c sattr dattr delay plain s0).push = s0.push ∨
     (srcUpd w c sattr dattr delay plain s0).push = s0.push ++ [((c.seid, sattr), c.dst, delay, (c.deid, dattr))]) := by
  unfold srcUpd
  simp only
  cases c.init.lookup sattr <;> simp only <;> (repeat' split) <;> simp

theorem dstUpd_succ (w : World) (c : ConnectCall) (sattr dattr : Nat) (delay dmin : TI) :
    (dstUpd w c sattr dattr delay dmin).succs = (w.sim c.dst).succs ∧
    (dstUpd w c sattr dattr delay dmin).succsWait = (w.sim c.dst).succsWait := by
  unfold dstUpd
  simp only
  cases c.init.lookup sattr <;> simp only <;> (repeat' split) <;> exact ⟨rfl, rfl⟩

theorem srcUpd_succ (w : World) (c : ConnectCall) (sattr dattr : Nat) (delay plain : TI) (s0 : SimCfg) :
    (srcUpd w c sattr dattr delay plain s0).succs = insertTI s0.succs c.dst plain ∧
    (srcUpd w c sattr dattr delay plain s0).succsWait = s0.succsWait := by
  unfold srcUpd
  simp only
  cases c.init.lookup sattr <;> simp only <;> (repeat' split) <;> exact ⟨rfl, rfl⟩

/-- an accepted attribute pair is a `Step` -/
theorem connectOne_step {w w' : World} {c : ConnectCall} {sa da : Nat}
    (hs : c.src < w.sims.length) (hd : c.dst < w.sims.length) (h : w.connectOne c sa da = .ok w') :
    ∃ delay dmin, connectOneCheck (w.connReq c sa da) = some delay ∧
      TI.min2? ((lookupTI (w.sim c.dst).inputDelays c.src).getD delay) delay = some dmin ∧
      Step w w' c.src c.dst (c.seid, sa) delay dmin (IOSet.mem da (w.decl c.dst).cls.trigIn) := by
  rw [connectOne_eq] at h
  split at h
  · cases h
  rename_i delay hdelay
  split at h
  · cases h
  rename_i dmin hdmin
  split at h
  · cases h
  rename_i plain hplain
  injection h with h
  refine ⟨delay, dmin, hdelay, hdmin, ?_⟩
  obtain ⟨dI, dT, dR, dD, dN, dA⟩ := dstUpd_fields w c sa da delay dmin
  obtain ⟨dP, dPl⟩ := dstUpd_pp w c sa da delay dmin
  obtain ⟨dS, dSW⟩ := dstUpd_succ w c sa da delay dmin
  generalize hD : dstUpd w c sa da delay dmin = D at h dI dT dR dD dN dA dP dPl dS dSW
  obtain ⟨sI, sT, sR, sD, sN, sA⟩ := srcUpd_fields w c sa da delay plain ((w.setSim c.dst D).sim c.src)
  obtain ⟨sPl, sP⟩ := srcUpd_pp w c sa da delay plain ((w.setSim c.dst D).sim c.src)
  obtain ⟨sS, sSW⟩ := srcUpd_succ w c sa da delay plain ((w.setSim c.dst D).sim c.src)
  generalize hS : srcUpd w c sa da delay plain ((w.setSim c.dst D).sim c.src) = S at h sI sT sR sD sN sA sPl sP sS sSW
  have e1 : ∀ q, (w.setSim c.dst D).sim q = if q = c.dst then D else w.sim q := by
    intro q; rw [sim_setSim]; simp [hd]
  have e2 : ∀ q, w'.sim q = if q = c.src then S else (w.setSim c.dst D).sim q := by
    intro q; rw [← h, sim_setSim]; simp [hs]
  have gD : ∀ q, ((w.setSim c.dst D).sim q).depth = (w.sim q).depth := by
    intro q; rw [e1]; split
    · rename_i hq; rw [hq]; exact dD
    · rfl
  have gN : ∀ q, ((w.setSim c.dst D).sim q).next0 = (w.sim q).next0 := by
    intro q; rw [e1]; split
    · rename_i hq; rw [hq]; exact dN
    · rfl
  have gA : ∀ q, ((w.setSim c.dst D).sim q).trigAnc = (w.sim q).trigAnc := by
    intro q; rw [e1]; split
    · rename_i hq; rw [hq]; exact dA
    · rfl
  have gT : ∀ q, ((w.setSim c.dst D).sim q).triggers = (w.sim q).triggers := by
    intro q; rw [e1]; split
    · rename_i hq; rw [hq]; exact dT
    · rfl
  have gR : ∀ q, ((w.setSim c.dst D).sim q).outReq = (w.sim q).outReq := by
    intro q; rw [e1]; split
    · rename_i hq; rw [hq]; exact dR
    · rfl
  have gI : ∀ q, ((w.setSim c.dst D).sim q).inputDelays =
      if q = c.dst then insertTI (w.sim q).inputDelays c.src dmin else (w.sim q).inputDelays := by
    intro q; rw [e1]; split
    · rename_i hq; rw [hq]; exact dI
    · rfl
  have gP : ∀ q, ((w.setSim c.dst D).sim q).push = (w.sim q).push := by
    intro q; rw [e1]; split
    · rename_i hq; rw [hq]; exact dP
    · rfl
  have gPl : ∀ q, ((w.setSim c.dst D).sim q).pulled = (w.sim q).pulled ∨
      (q = c.dst ∧ ((w.setSim c.dst D).sim q).pulled = (w.sim q).pulled ++ [(c.src, delay, (c.seid, sa), (c.deid, da))]) := by
    intro q; rw [e1]; split
    · rename_i hq; rw [hq]
      rcases dPl with hh | hh
      · exact Or.inl hh
      · exact Or.inr ⟨rfl, hh⟩
    · exact Or.inl rfl
  have gS : ∀ q, ((w.setSim c.dst D).sim q).succs = (w.sim q).succs ∧ ((w.setSim c.dst D).sim q).succsWait = (w.sim q).succsWait := by
    intro q; rw [e1]; split
    · rename_i hq; rw [hq]; exact ⟨dS, dSW⟩
    · exact ⟨rfl, rfl⟩
  refine ⟨by rw [← h]; rfl, by rw [← h]; simp, ?_, ?_, ?_, ?_, ?_, ?_, ?_, ?_, ?_, ?_, ?_, ?_, ?_⟩
  rotate_right 6
  · intro p sd hsd
    rw [e2] at hsd
    split at hsd
    · rename_i hp
      rw [sS, (gS c.src).1] at hsd
      rcases mem_insertTI hsd with hh | hh
      · left; rw [hp]; exact hh
      · right; rw [hh]; exact ⟨hp, rfl, hplain⟩
    · rw [(gS p).1] at hsd; exact Or.inl hsd
  · intro p sd hsd
    rw [e2] at hsd
    split at hsd
    · rename_i hp
      rw [sSW, (gS c.src).2] at hsd
      left; rw [hp]; exact hsd
    · rw [(gS p).2] at hsd; exact Or.inl hsd
  · intro p sd hsd
    rw [e2]
    split
    · rename_i hp
      rw [sS, (gS c.src).1]
      rw [hp] at hsd
      exact insertTI_keeps _ _ hsd
    · rw [(gS p).1]; exact ⟨sd.2, hsd⟩
  · rw [e2, if_pos rfl, sS]
    exact ⟨plain, insertTI_has _ _ _⟩
  · intro p; rw [e2]; split
    · rename_i hp
      rcases sP with hh | hh
      · left; rw [hh, hp]; exact gP _
      · right; refine ⟨hp, (c.deid, da), ?_⟩; rw [hh, hp, gP]
    · exact Or.inl (gP p)
  · intro p; rw [e2]; split
    · rename_i hp
      rw [sPl, hp]
      rcases gPl c.src with hh | ⟨hh1, hh2⟩
      · exact Or.inl hh
      · exact Or.inr ⟨hh1, (c.deid, da), hh2⟩
    · rcases gPl p with hh | ⟨hh1, hh2⟩
      · exact Or.inl hh
      · exact Or.inr ⟨hh1, (c.deid, da), hh2⟩
  · intro p; rw [e2]; split
    · rename_i hp; rw [hp, sD]; exact gD _
    · exact gD p
  · intro p; rw [e2]; split
    · rename_i hp; rw [hp, sN]; exact gN _
    · exact gN p
  · intro p; rw [e2]; split
    · rename_i hp; rw [hp, sA]; exact gA _
    · exact gA p
  · intro p; rw [e2]; split
    · rename_i hp; rw [hp, sI]; exact gI _
    · exact gI p
  · intro p; rw [e2]; split
    · rename_i hp; rw [hp, sT, gT]; simp
    · rename_i hp; rw [gT]; simp [hp]
  · intro p hne; rw [e2]; split
    · rw [sR]; simp
    · rw [gR]; exact hne
  · intro _; rw [e2]; simp only [if_true]; rw [sR]; simp

/-! ### async registration -/

theorem connectAsync_builtOk {w : World} (h : BuiltOk w) {src dst : Sid} (hs : src < w.sims.length) (hd : dst < w.sims.length) :
    BuiltOk (w.connectAsync src dst) := by
  unfold World.connectAsync
  split
  · exact h
  rename_i delay hdelay
  have hshape := connectInterval_shape hdelay
  have hz : ∀ (l : List Nat), l.length = delay.tiers.length → delay.tiers ≤ l := by
    intro l hl
    rw [connectInterval_plain_tiers hdelay] at hl ⊢
    exact zero_le_of_length _ l (by simpa using hl)
  simp only
  generalize hS : ({ w.sim src with succs := insertTI (w.sim src).succs dst delay, succsWait := insertTI (w.sim src).succsWait dst delay } : SimCfg) = S
  have sF : S.inputDelays = (w.sim src).inputDelays ∧ S.triggers = (w.sim src).triggers ∧ S.outReq = (w.sim src).outReq ∧
      S.depth = (w.sim src).depth ∧ S.next0 = (w.sim src).next0 ∧ S.trigAnc = (w.sim src).trigAnc := by
    subst hS; exact ⟨rfl, rfl, rfl, rfl, rfl, rfl⟩
  have sF2 : S.push = (w.sim src).push ∧ S.pulled = (w.sim src).pulled := by subst hS; exact ⟨rfl, rfl⟩
  have sF3 : S.succs = insertTI (w.sim src).succs dst delay ∧ S.succsWait = insertTI (w.sim src).succsWait dst delay := by
    subst hS; exact ⟨rfl, rfl⟩
  obtain ⟨sI, sT, sR, sD, sN, sA⟩ := sF
  have e1 : ∀ q, (w.setSim src S).sim q = if q = src then S else w.sim q := by
    intro q; rw [sim_setSim]; simp [hs]
  have g : ∀ q, ((w.setSim src S).sim q).inputDelays = (w.sim q).inputDelays ∧ ((w.setSim src S).sim q).triggers = (w.sim q).triggers ∧
      ((w.setSim src S).sim q).outReq = (w.sim q).outReq ∧ ((w.setSim src S).sim q).depth = (w.sim q).depth ∧
      ((w.setSim src S).sim q).next0 = (w.sim q).next0 ∧ ((w.setSim src S).sim q).trigAnc = (w.sim q).trigAnc := by
    intro q; rw [e1]; split
    · rename_i hq; rw [hq]; exact ⟨sI, sT, sR, sD, sN, sA⟩
    · exact ⟨rfl, rfl, rfl, rfl, rfl, rfl⟩
  have g2 : ∀ q, ((w.setSim src S).sim q).push = (w.sim q).push ∧ ((w.setSim src S).sim q).pulled = (w.sim q).pulled := by
    intro q; rw [e1]; split
    · rename_i hq; rw [hq]; exact sF2
    · exact ⟨rfl, rfl⟩
  have g3 : ∀ q sd, (sd ∈ ((w.setSim src S).sim q).succs → sd ∈ (w.sim q).succs ∨ (q = src ∧ sd = (dst, delay))) ∧
      (sd ∈ ((w.setSim src S).sim q).succsWait → sd ∈ (w.sim q).succsWait ∨ (q = src ∧ sd = (dst, delay))) := by
    intro q sd; rw [e1]; split
    · rename_i hq
      rw [hq, sF3.1, sF3.2]
      constructor
      · intro hm; rcases mem_insertTI hm with hh | hh
        · exact Or.inl hh
        · exact Or.inr ⟨rfl, hh⟩
      · intro hm; rcases mem_insertTI hm with hh | hh
        · exact Or.inl hh
        · exact Or.inr ⟨rfl, hh⟩
    · exact ⟨Or.inl, Or.inl⟩
  have g4 : (∀ q sd, sd ∈ (w.sim q).succs → ∃ d, (sd.1, d) ∈ ((w.setSim src S).sim q).succs) ∧
      ∃ d, (dst, d) ∈ ((w.setSim src S).sim src).succs := by
    constructor
    · intro q sd hsd
      rw [e1]; split
      · rename_i hq
        rw [sF3.1]; rw [hq] at hsd
        exact insertTI_keeps _ _ hsd
      · exact ⟨sd.2, hsd⟩
    · rw [e1, if_pos rfl, sF3.1]
      exact ⟨delay, insertTI_has _ _ _⟩
  generalize hw1 : w.setSim src S = w1 at e1 g g2 g3 g4
  have hlen1 : w1.sims.length = w.sims.length := by rw [← hw1]; simp
  have hdecl1 : w1.decls = w.decls := by rw [← hw1]; rfl
  have e2 : ∀ q, (w1.setSim dst { w1.sim dst with inputDelays := insertTI (w1.sim dst).inputDelays src delay }).sim q =
      if q = dst then { w1.sim dst with inputDelays := insertTI (w1.sim dst).inputDelays src delay } else w1.sim q := by
    intro q; rw [sim_setSim]; simp [hlen1, hd]
  refine builtOk_step (port := (0, 0)) (delay := delay) (dmin := delay) (trg := false) h hs hd hshape hshape (TT.le_refl _) ?_ ?_
  · intro old hold
    have := (h.inShape dst hd (src, old) (lookupTI_mem hold)).2
    exact hz _ (this.2.1.trans hshape.2.1.symm)
  · have hfin : ∀ q, ((w1.setSim dst { w1.sim dst with inputDelays := insertTI (w1.sim dst).inputDelays src delay }).sim q).succs = (w1.sim q).succs := by
      intro q; rw [e2]; split
      · rename_i hq; rw [hq]
      · rfl
    refine ⟨by simp [hdecl1], by simp [hlen1], ?_, ?_, ?_, ?_, ?_, ?_, ?_, ?_, ?_, ?_, ?_, ?_, ?_⟩
    rotate_right 6
    · intro p sd hsd
      rw [e2] at hsd
      have hsd' : sd ∈ (w1.sim p).succs := by
        split at hsd
        · rename_i hp; rw [hp]; exact hsd
        · exact hsd
      rcases (g3 p sd).1 hsd' with hh | ⟨hh1, hh2⟩
      · exact Or.inl hh
      · exact Or.inr ⟨hh1, by rw [hh2], by rw [hh2]; exact hdelay⟩
    · intro p sd hsd
      rw [e2] at hsd
      have hsd' : sd ∈ (w1.sim p).succsWait := by
        split at hsd
        · rename_i hp; rw [hp]; exact hsd
        · exact hsd
      rcases (g3 p sd).2 hsd' with hh | ⟨hh1, hh2⟩
      · exact Or.inl hh
      · exact Or.inr ⟨hh1, by rw [hh2], by rw [hh2]; exact hdelay⟩
    · intro p sd hsd
      rw [hfin]; exact g4.1 p sd hsd
    · rw [hfin]; exact g4.2
    · intro p; left; rw [e2]; split
      · rename_i hp; rw [hp]; exact (g2 dst).1
      · exact (g2 p).1
    · intro p; left; rw [e2]; split
      · rename_i hp; rw [hp]; exact (g2 dst).2
      · exact (g2 p).2
    · intro p; rw [e2]; split
      · rename_i hp; rw [hp]; exact (g dst).2.2.2.1
      · exact (g p).2.2.2.1
    · intro p; rw [e2]; split
      · rename_i hp; rw [hp]; exact (g dst).2.2.2.2.1
      · exact (g p).2.2.2.2.1
    · intro p; rw [e2]; split
      · rename_i hp; rw [hp]; exact (g dst).2.2.2.2.2
      · exact (g p).2.2.2.2.2
    · intro p; rw [e2]; split
      · rename_i hp; rw [hp]; simp only; rw [(g dst).1]
      · exact (g p).1
    · intro p; rw [e2]; simp only [Bool.false_eq_true, and_false, if_false]; split
      · rename_i hp; rw [hp]; exact (g dst).2.1
      · exact (g p).2.1
    · intro p hne; rw [e2]; split
      · rename_i hp; rw [hp] at hne; simp only; rw [(g dst).2.2.1]; exact hne
      · rw [(g p).2.2.1]; exact hne
    · intro hf; cases hf

/-! ### `connect_one`, `connect`, and whole scenarios -/

theorem min_of_built {w : World} (h : BuiltOk w) {src dst : Sid} (hd : dst < w.sims.length) {delay : TI}
    (hdelay : HasShape delay (w.decl src).group (w.decl dst).group) :
    ∃ m, TI.min2? ((lookupTI (w.sim dst).inputDelays src).getD delay) delay = some m ∧
      HasShape m (w.decl src).group (w.decl dst).group ∧ m.tiers ≤ delay.tiers ∧
      ∀ old, lookupTI (w.sim dst).inputDelays src = some old → m.tiers ≤ old.tiers := by
  have hx : HasShape ((lookupTI (w.sim dst).inputDelays src).getD delay) (w.decl src).group (w.decl dst).group := by
    cases hl : lookupTI (w.sim dst).inputDelays src with
    | none => simpa using hdelay
    | some old => simpa using (h.inShape dst hd (src, old) (lookupTI_mem hl)).2
  obtain ⟨m, hm, hor, h1, h2⟩ := C08.min_spec (hx.same hdelay)
  refine ⟨m, hm, ?_, h2, ?_⟩
  · rcases hor with rfl | rfl
    · exact hx
    · exact hdelay
  · intro old hold
    simpa [hold] using h1

theorem connReq_groups (w : World) (c : ConnectCall) (sa da : Nat) :
    (w.connReq c sa da).srcGroup = (w.decl c.src).group ∧ (w.connReq c sa da).destGroup = (w.decl c.dst).group := ⟨rfl, rfl⟩

theorem plain_accepted (s d : Group) : ∃ iv, connectInterval s d = some iv := by
  unfold connectInterval Group.path; simp

/-- an accepted attribute pair preserves the invariant -/
theorem connectOne_builtOk {w w' : World} {c : ConnectCall} {sa da : Nat} (h : BuiltOk w)
    (hs : c.src < w.sims.length) (hd : c.dst < w.sims.length) (hc : w.connectOne c sa da = .ok w') :
    BuiltOk w' ∧ w'.sims.length = w.sims.length := by
  obtain ⟨delay, dmin, hcheck, hmin, st⟩ := connectOne_step hs hd hc
  have hdelay : HasShape delay (w.decl c.src).group (w.decl c.dst).group := connectOneCheck_shape hcheck
  obtain ⟨m, hm, hms, hle, hold⟩ := min_of_built h hd hdelay
  rw [hmin] at hm
  cases hm
  exact ⟨builtOk_step h hs hd hdelay hms hle hold st, st.len⟩

/-- from a well-built world, `connect_one` either succeeds or raises ScenarioError: the `assert` of
`TieredInterval.__lt__` (delays of different shapes compared by `min`) cannot fire -/
theorem connectOne_no_assertion {w : World} {c : ConnectCall} {sa da : Nat} (h : BuiltOk w)
    (hd : c.dst < w.sims.length) : w.connectOne c sa da ≠ .error .assertion := by
  rw [connectOne_eq]
  split
  · intro hh; cases hh
  rename_i delay hcheck
  have hdelay : HasShape delay (w.decl c.src).group (w.decl c.dst).group := connectOneCheck_shape hcheck
  obtain ⟨m, hm, _⟩ := min_of_built h hd hdelay
  rw [hm]
  simp only
  obtain ⟨iv, hiv⟩ := plain_accepted (w.decl c.src).group (w.decl c.dst).group
  rw [hiv]
  intro hh; cases hh

def foldPairs (c : ConnectCall) (acc : World × Option BuildErr) (pr : Nat × Nat) : World × Option BuildErr :=
  match World.connectOne acc.1 c pr.1 pr.2 with
  | .ok w' => (w', acc.2)
  | .error e => (acc.1, match acc.2 with | some e0 => some e0 | none => some e)

theorem connect_eq (w : World) (c : ConnectCall) :
    w.connect c = (if c.asyncReq then ((c.pairs.foldl (foldPairs c) (w, none)).1.connectAsync c.src c.dst) else (c.pairs.foldl (foldPairs c) (w, none)).1,
      (c.pairs.foldl (foldPairs c) (w, none)).2) := by
  unfold World.connect foldPairs
  rfl

theorem foldPairs_builtOk (c : ConnectCall) : ∀ (pairs : List (Nat × Nat)) (acc : World × Option BuildErr),
    BuiltOk acc.1 → c.src < acc.1.sims.length → c.dst < acc.1.sims.length → acc.2 ≠ some .assertion →
    BuiltOk (pairs.foldl (foldPairs c) acc).1 ∧ (pairs.foldl (foldPairs c) acc).1.sims.length = acc.1.sims.length ∧
      (pairs.foldl (foldPairs c) acc).2 ≠ some .assertion
  | [], acc, h, _, _, he => ⟨h, rfl, he⟩
  | pr :: rest, acc, h, hs, hd, he => by
    rw [List.foldl_cons]
    have hstep : BuiltOk (foldPairs c acc pr).1 ∧ (foldPairs c acc pr).1.sims.length = acc.1.sims.length ∧
        (foldPairs c acc pr).2 ≠ some .assertion := by
      unfold foldPairs
      cases hc : World.connectOne acc.1 c pr.1 pr.2 with
      | ok w' =>
        obtain ⟨h1, h2⟩ := connectOne_builtOk h hs hd hc
        exact ⟨h1, h2, he⟩
      | error e =>
        refine ⟨h, rfl, ?_⟩
        have hne : e ≠ .assertion := by
          intro heq; rw [heq] at hc; exact connectOne_no_assertion h hd hc
        cases hacc : acc.2 with
        | none => simp only; intro hh; injection hh with hh; exact hne hh
        | some e0 => simp only; rw [← hacc]; exact he
    obtain ⟨h1, h2, h3⟩ := hstep
    obtain ⟨r1, r2, r3⟩ := foldPairs_builtOk c rest (foldPairs c acc pr) h1 (h2 ▸ hs) (h2 ▸ hd) h3
    exact ⟨r1, r2.trans h2, r3⟩

/-- `World.connect` preserves the invariant (whether it raises or not), and never dies with an internal assertion -/
theorem connect_builtOk {w : World} (h : BuiltOk w) (c : ConnectCall) (hs : c.src < w.sims.length) (hd : c.dst < w.sims.length) :
    BuiltOk (w.connect c).1 ∧ (w.connect c).2 ≠ some .assertion := by
  obtain ⟨r1, r2, r3⟩ := foldPairs_builtOk c c.pairs (w, none) h hs hd (by simp)
  rw [connect_eq]
  refine ⟨?_, r3⟩
  simp only
  split
  · exact connectAsync_builtOk r1 (r2 ▸ hs) (r2 ▸ hd)
  · exact r1

theorem apply_builtOk {w : World} (h : BuiltOk w) (o : Op) (hv : o.Valid w) : BuiltOk (apply w o) := by
  cases o with
  | start d => exact builtOk_start h d
  | connect c => exact (connect_builtOk h c hv.1 hv.2).1
  | initEv p t => exact builtOk_initEv h p t

/-- every scenario built by `start` / `connect` / `set_initial_event` calls satisfies the invariant -/
theorem build_builtOk : ∀ (ops : List Op) (w : World), BuiltOk w → Valid w ops → BuiltOk (build ops w)
  | [], _, h, _ => h
  | o :: os, w, h, hv => by
    unfold build
    rw [List.foldl_cons]
    exact build_builtOk os (apply w o) (apply_builtOk h o hv.1) hv.2

/-! ### what `async_requests=True` registers -/

theorem connectAsync_registers (w : World) {src dst : Sid} (hs : src < w.sims.length) (hd : dst < w.sims.length) :
    (∃ d, (dst, d) ∈ ((w.connectAsync src dst).sim src).succs) ∧ (∃ d, (dst, d) ∈ ((w.connectAsync src dst).sim src).succsWait) := by
  obtain ⟨delay, hdelay⟩ := plain_accepted (w.decl src).group (w.decl dst).group
  unfold World.connectAsync
  rw [hdelay]
  simp only
  generalize hS : ({ w.sim src with succs := insertTI (w.sim src).succs dst delay, succsWait := insertTI (w.sim src).succsWait dst delay } : SimCfg) = S
  have sF : S.succs = insertTI (w.sim src).succs dst delay ∧ S.succsWait = insertTI (w.sim src).succsWait dst delay := by
    subst hS; exact ⟨rfl, rfl⟩
  have e1 : (w.setSim src S).sim src = S := by rw [sim_setSim]; simp [hs]
  generalize hw1 : w.setSim src S = w1 at e1
  have hlen1 : w1.sims.length = w.sims.length := by rw [← hw1]; simp
  have key : ((w1.setSim dst { w1.sim dst with inputDelays := insertTI (w1.sim dst).inputDelays src delay }).sim src).succs = S.succs ∧
      ((w1.setSim dst { w1.sim dst with inputDelays := insertTI (w1.sim dst).inputDelays src delay }).sim src).succsWait = S.succsWait := by
    rw [sim_setSim]
    split
    · rename_i hsd
      rw [← hsd.1, e1]
      exact ⟨rfl, rfl⟩
    · rw [e1]; exact ⟨rfl, rfl⟩
  rw [key.1, key.2, sF.1, sF.2]
  exact ⟨⟨delay, insertTI_has _ _ _⟩, ⟨delay, insertTI_has _ _ _⟩⟩

/-- after `connect(A, B, …, async_requests=True)` (whether or not some attribute pair was rejected) B is in A's `successors` and
`successors_to_wait_for` -/
theorem connect_async_registers (w : World) (c : ConnectCall) (hs : c.src < w.sims.length) (hd : c.dst < w.sims.length)
    (hasync : c.asyncReq = true) :
    (∃ d, (c.dst, d) ∈ ((w.connect c).1.sim c.src).succs) ∧ (∃ d, (c.dst, d) ∈ ((w.connect c).1.sim c.src).succsWait) := by
  rw [connect_eq]
  simp only [hasync, if_true]
  have hlen : ∀ (pairs : List (Nat × Nat)) (acc : World × Option BuildErr), (pairs.foldl (foldPairs c) acc).1.sims.length = acc.1.sims.length := by
    intro pairs
    induction pairs with
    | nil => intro acc; rfl
    | cons pr rest ih =>
      intro acc
      rw [List.foldl_cons, ih]
      unfold foldPairs
      cases hc : World.connectOne acc.1 c pr.1 pr.2 with
      | error e => rfl
      | ok w' =>
        simp only
        rw [connectOne_eq] at hc
        split at hc
        · cases hc
        split at hc
        · cases hc
        split at hc
        · cases hc
        injection hc with hc
        rw [← hc]; simp
  exact connectAsync_registers _ (by rw [hlen]; exact hs) (by rw [hlen]; exact hd)

end Mosaik.Build
