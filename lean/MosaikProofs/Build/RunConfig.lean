/-
The configuration `World.run` hands to the scheduler satisfies the hypotheses `WFCfg` of the scheduler theorems - for
EVERY scenario built by `start` / `connect` / `set_initial_event` calls, not per scenario by the executable check `wfB`:

  `run_config_wf` : Valid ops → UniformT (build ops).sims → cacheTriggeringAncestors (build ops).sims orc = .ok out →
                    WFCfg { sims := out, rt := none, … }

The static part comes from the builder invariant (`Build.BuiltOk`), the closure part (`direct`, `trans`, `ancRange`,
`ancShape`) from the ancestor-table theorem (`anc_table_minimum`, `anc_direct_trans`), whose hypotheses `ShapedT`, `TrigRange`
and "cutoff ≤ pre-length" are themselves consequences of the builder invariant.  What remains a hypothesis is `UniformT`
(all trigger paths between two simulators have one cutoff), the complement of the recorded finding D7.
-/
import MosaikProofs.Build.Invariant
import MosaikProofs.Sched.Inv
import MosaikProofs.Sched.Shape
import MosaikProofs.Sched.Buffer
import MosaikProofs.Sched.Cached
namespace Mosaik.Build
open Mosaik

/-! ### rows of the ancestor table have one entry per ancestor -/

def RowsNodup (st : AncState) : Prop := ∀ t : Nat, ((st.row t).map (·.1)).Nodup

theorem foldlM_simple {α β ε : Type} (P : β → Prop) (f : β → α → Except ε β)
    (hstep : ∀ b a b', P b → f b a = .ok b' → P b') : ∀ (l : List α) (b0 b : β), P b0 → l.foldlM f b0 = .ok b → P b
  | [], b0, b, h0, h => by simp only [List.foldlM_nil] at h; cases h; exact h0
  | a :: l, b0, b, h0, h => by
    simp only [List.foldlM_cons] at h
    cases hf : f b0 a with
    | error e => rw [hf] at h; cases h
    | ok b1 =>
      rw [hf] at h
      exact foldlM_simple P f hstep l b1 b (hstep b0 a b1 h0 hf) h

theorem row_setRow (st : AncState) (t q : Sid) (r : List (Sid × TI)) :
    (st.setRow t r).row q = if q = t ∧ t < st.anc.length then r else st.row q := by
  unfold AncState.row AncState.setRow
  simp only [List.getD_eq_getElem?_getD, List.getElem?_set]
  by_cases hq : t = q
  · subst hq
    by_cases hp : t < st.anc.length
    · simp [hp]
    · simp [hp]
  · have : ¬ q = t := fun h => hq h.symm
    simp [hq, this]

theorem rowsNodup_put {st : AncState} (h : RowsNodup st) (t k : Sid) (v : TI) (d : List Sid) :
    RowsNodup { (st.setRow t (insertTI (st.row t) k v)) with dirty := d } := by
  intro q
  show (((st.setRow t (insertTI (st.row t) k v)).row q).map (·.1)).Nodup
  rw [row_setRow]
  split
  · exact nodup_insertTI _ _ (h t)
  · exact h q

theorem rowsNodup_dirty {st : AncState} (h : RowsNodup st) (d : List Sid) : RowsNodup { st with dirty := d } := h

theorem ancOne_nodup {mid : Sid} {tr : Port × Sid × TI} {st st' : AncState} {e : Sid × TI} (h : RowsNodup st)
    (hg : ancOne mid tr st e = .ok st') : RowsNodup st' := by
  unfold ancOne at hg
  split at hg
  · cases hg; exact h
  split at hg
  · cases hg
  split at hg
  · cases hg
  · cases hg; exact h
  · cases hg; exact rowsNodup_put h _ _ _ _

theorem ancRelax_nodup {sims : List SimCfg} {st st' : AncState} {mid : Sid} (h : RowsNodup st)
    (hr : ancRelax sims st mid = .ok st') : RowsNodup st' := by
  rw [ancRelax_eq] at hr
  refine foldlM_simple RowsNodup _ ?_ _ _ _ h hr
  intro b tr b' hb hf
  exact foldlM_simple RowsNodup _ (fun _ _ _ hP hg => ancOne_nodup hP hg) _ _ _ hb hf

theorem ancLoop_nodup {sims : List SimCfg} : ∀ (fuel : Nat) (st st' : AncState) (orc : List Nat), RowsNodup st →
    ancLoop sims fuel st orc = .ok st' → RowsNodup st'
  | 0, st, st', _, h, hr => by
    unfold ancLoop at hr
    split at hr
    · cases hr; exact h
    · cases hr
  | fuel + 1, st, st', orc, h, hr => by
    unfold ancLoop at hr
    cases hp : popAt st.dirty (orc.headD 0) with
    | none => rw [hp] at hr; cases hr; exact h
    | some v =>
      obtain ⟨mid, rest⟩ := v
      rw [hp] at hr
      simp only at hr
      cases hrel : ancRelax sims { st with dirty := rest } mid with
      | error e => rw [hrel] at hr; cases hr
      | ok st1 =>
        rw [hrel] at hr
        exact ancLoop_nodup fuel st1 st' orc.tail (ancRelax_nodup (rowsNodup_dirty h rest) hrel) hr

theorem initOne_nodup {src : Sid} {tr : Port × Sid × TI} {st st' : AncState} (h : RowsNodup st)
    (hg : initOne src st tr = .ok st') : RowsNodup st' := by
  unfold initOne at hg
  split at hg
  · cases hg
  · cases hg; exact rowsNodup_dirty h _
  · cases hg; exact rowsNodup_put h _ _ _ _

theorem ancInit_nodup {sims : List SimCfg} {st : AncState} (hi : ancInit sims = .ok st) : RowsNodup st := by
  rw [ancInit_eq] at hi
  refine foldlM_simple RowsNodup _ ?_ _ _ _ ?_ hi
  · intro b src b' hb hf
    exact foldlM_simple RowsNodup _ (fun _ _ _ hP hg => initOne_nodup hP hg) _ _ _ hb hf
  · intro t
    have : (AncState.row { anc := List.replicate sims.length [], dirty := [] } t) = [] := by
      unfold AncState.row
      simp only [List.getD_eq_getElem?_getD, List.getElem?_replicate]
      split <;> rfl
    rw [this]; simp

theorem lookupTI_of_mem_nodup : ∀ {l : List (Sid × TI)}, (l.map (·.1)).Nodup → ∀ {e : Sid × TI}, e ∈ l → lookupTI l e.1 = some e.2
  | [], _, _, he => by cases he
  | a :: l, hn, e, he => by
    rw [List.map_cons, List.nodup_cons] at hn
    unfold lookupTI
    rw [List.find?_cons]
    rcases List.mem_cons.mp he with rfl | hel
    · simp
    · have hne : ¬ (a.1 == e.1) = true := by
        intro heq
        apply hn.1
        rw [beq_iff_eq.mp heq]
        exact List.mem_map.mpr ⟨e, hel, rfl⟩
      simp only [hne]
      exact lookupTI_of_mem_nodup hn.2 hel

/-! ### the result of `cache_triggering_ancestors` -/

theorem cta_out {sims out : List SimCfg} {orc : List Nat} (h : cacheTriggeringAncestors sims orc = .ok out) :
    ∃ st, RowsNodup st ∧ out = sims.zipIdx.map fun (s, i) => { s with trigAnc := st.row i } := by
  unfold cacheTriggeringAncestors at h
  cases hi : ancInit sims with
  | error e => rw [hi] at h; cases h
  | ok st0 =>
    rw [hi] at h
    simp only at h
    cases hl : ancLoop sims (closureFuel sims.length) st0 orc with
    | error e => rw [hl] at h; cases h
    | ok st =>
      rw [hl] at h
      simp only [Except.ok.injEq] at h
      exact ⟨st, ancLoop_nodup _ _ _ _ (ancInit_nodup hi) hl, h.symm⟩

theorem getD_out (sims : List SimCfg) (st : AncState) (p : Nat) :
    (sims.zipIdx.map fun (s, i) => ({ s with trigAnc := st.row i } : SimCfg)).getD p {} =
      if p < sims.length then { sims.getD p {} with trigAnc := st.row p } else {} := by
  simp only [List.getD_eq_getElem?_getD, List.getElem?_map, List.getElem?_zipIdx]
  by_cases hp : p < sims.length
  · simp [hp]
  · simp [hp]

theorem trigPath_src_lt {sims : List SimCfg} {s t : Sid} {d : TI} (h : TrigPath sims s t d) : s < sims.length := by
  induction h with
  | @edge tr he =>
    by_cases hs : s < sims.length
    · exact hs
    · rw [List.getD_eq_getElem?_getD, List.getElem?_eq_none (Nat.le_of_not_lt hs)] at he
      cases he
  | snoc _ _ ih => exact ih

theorem trigPath_cutoff_le_pre {sims : List SimCfg} (hW : ∀ s tr, tr ∈ (sims.getD s {}).triggers → tr.2.2.cutoff ≤ tr.2.2.pre)
    {s t : Sid} {d : TI} (h : TrigPath sims s t d) : d.cutoff ≤ d.pre := by
  induction h with
  | edge he => exact hW _ _ he
  | snoc _ _ ih => simp only [TI.add]; omega

/-! ### the hypotheses of the closure theorems, from the builder invariant -/

theorem built_shapedT {w : World} (h : BuiltOk w) : ShapedT w.sims := by
  intro s tr htr
  have hs : s < w.sims.length := by
    by_cases hs : s < w.sims.length
    · exact hs
    · rw [List.getD_eq_getElem?_getD, List.getElem?_eq_none (Nat.le_of_not_lt hs)] at htr
      cases htr
  obtain ⟨h1, h2, _⟩ := h.trig s hs tr htr
  exact ⟨h2.1.trans (h.depth s hs).symm, h2.2.1.trans (h.depth _ h1).symm⟩

theorem built_trigRange {w : World} (h : BuiltOk w) : TrigRange w.sims := by
  intro s tr htr
  have hs : s < w.sims.length := by
    by_cases hs : s < w.sims.length
    · exact hs
    · rw [List.getD_eq_getElem?_getD, List.getElem?_eq_none (Nat.le_of_not_lt hs)] at htr
      cases htr
  exact (h.trig s hs tr htr).1

theorem built_cutoff_le_pre {w : World} (h : BuiltOk w) : ∀ s tr, tr ∈ (w.sims.getD s {}).triggers → tr.2.2.cutoff ≤ tr.2.2.pre := by
  intro s tr htr
  have hs : s < w.sims.length := by
    by_cases hs : s < w.sims.length
    · exact hs
    · rw [List.getD_eq_getElem?_getD, List.getElem?_eq_none (Nat.le_of_not_lt hs)] at htr
      cases htr
  obtain ⟨_, h2, _⟩ := h.trig s hs tr htr
  rw [h2.1, h2.2.2]; omega

theorem built_shaped {w : World} (h : BuiltOk w) : Shaped w.sims := by
  intro t s d hd
  have ht : t < w.sims.length := by
    by_cases ht : t < w.sims.length
    · exact ht
    · rw [List.getD_eq_getElem?_getD, List.getElem?_eq_none (Nat.le_of_not_lt ht)] at hd
      cases hd
  obtain ⟨h1, h2⟩ := h.inShape t ht (s, d) hd
  exact ⟨h2.1.trans (h.depth s h1).symm, h2.2.1.trans (h.depth t ht).symm⟩

theorem built_nodupKeys {w : World} (h : BuiltOk w) : NodupKeys w.sims := fun t => h.nodup t

/-! ### the run configuration -/

theorem run_config_wf_of_built {w : World} (h : BuiltOk w) (hU : UniformT w.sims) {orc : List Nat} {out : List SimCfg}
    (hc : cacheTriggeringAncestors w.sims orc = .ok out) (until_ maxLoop : Nat) (lazy_ useCache strict : Bool) :
    WFCfg { sims := out, until_ := until_, maxLoop := maxLoop, lazy_ := lazy_, useCache := useCache, rt := none, rtStrict := strict } := by
  have hS := built_shapedT h
  have hR := built_trigRange h
  have hW := built_cutoff_le_pre h
  obtain ⟨hreal, _⟩ := anc_table_minimum w.sims orc hS hR hU hc
  obtain ⟨hdir, htrans⟩ := anc_direct_trans w.sims orc hS hR hU hW hc
  obtain ⟨st, hnd, hout⟩ := cta_out hc
  have hlen : out.length = w.sims.length := by rw [hout]; simp
  have hget : ∀ p, p < w.sims.length → out.getD p {} = { w.sim p with trigAnc := st.row p } := by
    intro p hp; rw [hout, getD_out, if_pos hp]; rfl
  -- membership in a row is a lookup
  have hrow : ∀ q, q < w.sims.length → ∀ ad ∈ (out.getD q {}).trigAnc, lookupTI (out.getD q {}).trigAnc ad.1 = some ad.2 := by
    intro q hq ad had
    rw [hget q hq] at had ⊢
    exact lookupTI_of_mem_nodup (hnd q) had
  have hpath : ∀ q, q < w.sims.length → ∀ ad ∈ (out.getD q {}).trigAnc, TrigPath w.sims ad.1 q ad.2 :=
    fun q hq ad had => hreal q hq ad.1 ad.2 (hrow q hq ad had)
  refine ⟨rfl, ?_, ?_, ?_, ?_, ?_, ?_, ?_, ?_, ?_⟩
  · intro p hp
    have hp' : p < w.sims.length := hlen ▸ hp
    show 0 < (out.getD p {}).depth
    rw [hget p hp']
    show 0 < (w.sim p).depth
    rw [h.depth p hp']; simp [Group.depth]
  · intro x hx tr htr
    have hx' : x < w.sims.length := hlen ▸ hx
    show tr.2.1 < out.length
    rw [hlen]
    have : tr ∈ (w.sim x).triggers := by
      have := htr
      show tr ∈ (w.sim x).triggers
      change tr ∈ (out.getD x {}).triggers at this
      rw [hget x hx'] at this
      exact this
    exact (h.trig x hx' tr this).1
  · intro q hq ad had
    have hq' : q < w.sims.length := hlen ▸ hq
    show ad.1 < out.length
    rw [hlen]
    exact trigPath_src_lt (hpath q hq' ad had)
  · intro x hx tr htr
    have hx' : x < w.sims.length := hlen ▸ hx
    change tr ∈ (out.getD x {}).triggers at htr
    rw [hget x hx'] at htr
    obtain ⟨ad, had, h1, h2⟩ := hdir x tr htr
    refine ⟨ad.2, ?_, h2⟩
    show (x, ad.2) ∈ (out.getD tr.2.1 {}).trigAnc
    rw [← h1]; exact had
  · intro x hx tr htr q hq bd hbd hbd1
    have hx' : x < w.sims.length := hlen ▸ hx
    have hq' : q < w.sims.length := hlen ▸ hq
    change tr ∈ (out.getD x {}).triggers at htr
    rw [hget x hx'] at htr
    change bd ∈ (out.getD q {}).trigAnc at hbd
    have hl := hrow q hq' bd hbd
    rw [hbd1] at hl
    obtain ⟨ad, had, h1, h2⟩ := htrans x tr htr q hq' bd.2 hl
    refine ⟨⟨ad.2, ?_, h2⟩, ?_⟩
    · show (x, ad.2) ∈ (out.getD q {}).trigAnc
      rw [← h1]; exact had
    · have hp := hpath q hq' bd hbd
      rw [hbd1] at hp
      have h3 := trigPath_cutoff_le_pre hW hp
      rw [(trigPath_shape hS hp).1] at h3
      rw [(hS x tr htr).2]
      exact h3
  · intro x hx tr htr
    have hx' : x < w.sims.length := hlen ▸ hx
    change tr ∈ (out.getD x {}).triggers at htr
    rw [hget x hx'] at htr
    obtain ⟨h1, h2, d0, h3, h4⟩ := h.trig x hx' tr htr
    refine ⟨d0, ?_, ?_⟩
    · show (x, d0) ∈ (out.getD tr.2.1 {}).inputDelays
      rw [hget _ h1]
      exact lookupTI_mem h3
    · have hs0 := (h.inShape tr.2.1 h1 (x, d0) (lookupTI_mem h3)).2
      exact ⟨hs0.1.trans h2.1.symm, hs0.2.2.trans h2.2.2.symm, hs0.2.1.trans h2.2.1.symm, h4⟩
  · intro q hq ad had
    have hq' : q < w.sims.length := hlen ▸ hq
    change ad ∈ (out.getD q {}).trigAnc at had
    show (out.getD q {}).depth ≤ ad.2.tiers.length
    have hp := hpath q hq' ad had
    rw [(trigPath_shape hS hp).2, hget q hq']
    exact Nat.le_refl _
  · intro p hp
    have hp' : p < w.sims.length := hlen ▸ hp
    show SortedTT (out.getD p {}).next0 ∧ ∀ t ∈ (out.getD p {}).next0, TT.zero (out.getD p {}).depth ≤ t
    rw [hget p hp']
    show SortedTT (w.sim p).next0 ∧ ∀ t ∈ (w.sim p).next0, TT.zero (w.sim p).depth ≤ t
    rcases h.next0 p hp' with h0 | h0 | ⟨t, h0⟩
    · rw [h0]; exact ⟨List.Pairwise.nil, fun _ ht => by cases ht⟩
    · rw [h0]; exact ⟨List.pairwise_singleton _ _, fun t ht => by rw [List.mem_singleton.mp ht]; exact TT.le_refl _⟩
    · rw [h0]
      refine ⟨List.pairwise_singleton _ _, fun t' ht => ?_⟩
      rw [List.mem_singleton.mp ht]
      exact zero_le_of_length _ _ (ofWorld_length _ _)
  · intro x hx hreq
    have hx' : x < w.sims.length := hlen ▸ hx
    change (out.getD x {}).outReq.isEmpty = true at hreq
    show (out.getD x {}).triggers = []
    rw [hget x hx'] at hreq ⊢
    exact h.trigReq x hx' (List.isEmpty_iff.mp hreq)

/-- the configuration `World.run(until, lazy_stepping, …)` hands to the scheduler (`rt_factor=None`) -/
def runCfg (out : List SimCfg) (until_ maxLoop : Nat) (lazy_ useCache strict : Bool) : Cfg :=
  { sims := out, until_ := until_, maxLoop := maxLoop, lazy_ := lazy_, useCache := useCache, rt := none, rtStrict := strict }

/-- **every scenario built by valid calls satisfies the hypotheses of the scheduler theorems** (uniform trigger paths) -/
theorem run_config_wf {ops : List Op} (hv : Valid {} ops) (hU : UniformT (build ops).sims) {orc : List Nat} {out : List SimCfg}
    (hc : cacheTriggeringAncestors (build ops).sims orc = .ok out) (until_ maxLoop : Nat) (lazy_ useCache strict : Bool) :
    WFCfg (runCfg out until_ maxLoop lazy_ useCache strict) :=
  run_config_wf_of_built (build_builtOk ops {} builtOk_empty hv) hU hc until_ maxLoop lazy_ useCache strict

/-! ### scenarios without groups: the uniformity hypotheses hold outright -/

/-- every simulator was started in the main group -/
def FlatWorld (w : World) : Prop := ∀ p, p < w.sims.length → (w.decl p).group = []

theorem hasShape_flat_cutoff {d : TI} {gd : Group} (h : HasShape d [] gd) : d.cutoff = 1 := by
  rw [h.2.2]; simp [Group.depth, Group.common]

theorem flat_trigPath_cutoff {w : World} (h : BuiltOk w) (hf : FlatWorld w) {s t : Sid} {d : TI} (hp : TrigPath w.sims s t d) :
    d.cutoff = 1 := by
  have hedge : ∀ m tr, tr ∈ (w.sims.getD m {}).triggers → tr.2.2.cutoff = 1 := by
    intro m tr htr
    have hm : m < w.sims.length := by
      by_cases hm : m < w.sims.length
      · exact hm
      · rw [List.getD_eq_getElem?_getD, List.getElem?_eq_none (Nat.le_of_not_lt hm)] at htr
        cases htr
    have h2 := (h.trig m hm tr htr).2.1
    rw [hf m hm] at h2
    exact hasShape_flat_cutoff h2
  induction hp with
  | edge he => exact hedge _ _ he
  | snoc _ he ih => simp only [TI.add]; rw [ih, hedge _ _ he]; rfl

theorem flat_uniformT {w : World} (h : BuiltOk w) (hf : FlatWorld w) : UniformT w.sims :=
  fun _ _ _ _ hp hp' => (flat_trigPath_cutoff h hf hp).trans (flat_trigPath_cutoff h hf hp').symm

theorem flat_realPath_cutoff {w : World} (h : BuiltOk w) (hf : FlatWorld w) {s t : Sid} {p : List Sid} {d : TI}
    (hp : RealPath w.sims s t p d) : d.cutoff = 1 := by
  have hedge : ∀ m s' d', (s', d') ∈ (w.sims.getD m {}).inputDelays → d'.cutoff = 1 := by
    intro m s' d' hd
    have hm : m < w.sims.length := by
      by_cases hm : m < w.sims.length
      · exact hm
      · rw [List.getD_eq_getElem?_getD, List.getElem?_eq_none (Nat.le_of_not_lt hm)] at hd
        cases hd
    obtain ⟨h1, h2⟩ := h.inShape m hm (s', d') hd
    rw [hf s' h1] at h2
    exact hasShape_flat_cutoff h2
  induction hp with
  | edge he => exact hedge _ _ _ he
  | cons he _ ih => simp only [TI.add]; rw [ih, hedge _ _ _ he]; rfl

theorem flat_uniform {w : World} (h : BuiltOk w) (hf : FlatWorld w) : Uniform w.sims :=
  fun _ _ _ _ _ _ hp hp' => (flat_realPath_cutoff h hf hp).trans (flat_realPath_cutoff h hf hp').symm

/-- the group every simulator was started in is recorded at `start` and never changes: a scenario is flat iff every `start`
call names the main group -/
def flatOps : List Op → Bool
  | [] => true
  | .start d :: os => d.group.isEmpty && flatOps os
  | _ :: os => flatOps os

theorem decls_apply (w : World) (o : Op) : (apply w o).decls = match o with | .start d => w.decls ++ [d] | _ => w.decls := by
  cases o with
  | start d => rfl
  | connect c =>
    show (w.connect c).1.decls = w.decls
    rw [connect_eq]
    have hfold : ∀ (pairs : List (Nat × Nat)) (acc : World × Option BuildErr), (pairs.foldl (foldPairs c) acc).1.decls = acc.1.decls := by
      intro pairs
      induction pairs with
      | nil => intro acc; rfl
      | cons pr rest ih =>
        intro acc
        rw [List.foldl_cons, ih]
        unfold foldPairs
        cases hc : World.connectOne acc.1 c pr.1 pr.2 with
        | error e => rfl
        | ok w' =>
          simp only
          rw [connectOne_eq] at hc
          split at hc
          · cases hc
          split at hc
          · cases hc
          split at hc
          · cases hc
          injection hc with hc
          rw [← hc]; rfl
    simp only
    split
    · rw [← hfold c.pairs (w, none)]
      unfold World.connectAsync
      split <;> rfl
    · exact hfold c.pairs (w, none)
  | initEv p t => rfl

theorem flatWorld_build : ∀ (ops : List Op) (w : World), (∀ d ∈ w.decls, d.group = []) → flatOps ops = true →
    ∀ d ∈ (build ops w).decls, d.group = []
  | [], _, h, _ => h
  | o :: os, w, h, hf => by
    unfold build
    rw [List.foldl_cons]
    refine flatWorld_build os (apply w o) ?_ ?_
    · rw [decls_apply]
      cases o with
      | start d0 =>
        simp only [flatOps, Bool.and_eq_true, List.isEmpty_iff] at hf
        intro d hd
        rcases List.mem_append.mp hd with hd | hd
        · exact h d hd
        · rw [List.mem_singleton.mp hd]; exact hf.1
      | connect c => exact h
      | initEv p t => exact h
    · cases o with
      | start d0 => simp only [flatOps, Bool.and_eq_true] at hf; exact hf.2
      | connect c => exact hf
      | initEv p t => exact hf

theorem flatWorld_of_ops {ops : List Op} (hv : Valid {} ops) (hf : flatOps ops = true) : FlatWorld (build ops) := by
  intro p hp
  have hb := build_builtOk ops {} builtOk_empty hv
  have hmem : (build ops).decl p ∈ (build ops).decls := by
    unfold World.decl
    rw [List.getD_eq_getElem?_getD, List.getElem?_eq_getElem (by rw [hb.len]; exact hp)]
    simp
  exact flatWorld_build ops {} (fun d hd => by cases hd) hf _ hmem

/-- **scenarios without groups**: the run configuration satisfies `WFCfg` with no further hypothesis -/
theorem run_config_wf_flat {ops : List Op} (hv : Valid {} ops) (hf : flatOps ops = true) {orc : List Nat} {out : List SimCfg}
    (hc : cacheTriggeringAncestors (build ops).sims orc = .ok out) (until_ maxLoop : Nat) (lazy_ useCache strict : Bool) :
    WFCfg (runCfg out until_ maxLoop lazy_ useCache strict) :=
  run_config_wf hv (flat_uniformT (build_builtOk ops {} builtOk_empty hv) (flatWorld_of_ops hv hf)) hc until_ maxLoop lazy_ useCache strict

/-- the shape hypotheses of the liveness theorems (`WFShape`): delays and scheduled steps have the length of the target's times -/
theorem run_config_wfShape_of_built {w : World} (h : BuiltOk w) (hU : UniformT w.sims) {orc : List Nat} {out : List SimCfg}
    (hc : cacheTriggeringAncestors w.sims orc = .ok out) (until_ maxLoop : Nat) (lazy_ useCache strict : Bool) :
    WFShape (runCfg out until_ maxLoop lazy_ useCache strict) := by
  have hS := built_shapedT h
  have hR := built_trigRange h
  obtain ⟨hreal, _⟩ := anc_table_minimum w.sims orc hS hR hU hc
  obtain ⟨st, hnd, hout⟩ := cta_out hc
  have hlen : out.length = w.sims.length := by rw [hout]; simp
  have hget : ∀ p, p < w.sims.length → out.getD p {} = { w.sim p with trigAnc := st.row p } := by
    intro p hp; rw [hout, getD_out, if_pos hp]; rfl
  refine ⟨?_, ?_, ?_⟩
  · intro x hx tr htr
    have hx' : x < w.sims.length := hlen ▸ hx
    change tr ∈ (out.getD x {}).triggers at htr
    rw [hget x hx'] at htr
    obtain ⟨h1, h2, _⟩ := h.trig x hx' tr htr
    show tr.2.2.tiers.length = (out.getD tr.2.1 {}).depth
    rw [hget _ h1]
    exact h2.2.1.trans (h.depth _ h1).symm
  · intro q hq ad had
    have hq' : q < w.sims.length := hlen ▸ hq
    change ad ∈ (out.getD q {}).trigAnc at had
    show ad.2.tiers.length = (out.getD q {}).depth
    have hl : lookupTI (out.getD q {}).trigAnc ad.1 = some ad.2 := by
      rw [hget q hq'] at had ⊢
      exact lookupTI_of_mem_nodup (hnd q) had
    have hp := hreal q hq' ad.1 ad.2 hl
    rw [(trigPath_shape hS hp).2, hget q hq']
    rfl
  · intro p t ht
    change t ∈ (out.getD p {}).next0 at ht
    show t.length = (out.getD p {}).depth
    by_cases hp : p < w.sims.length
    · rw [hget p hp] at ht ⊢
      change t ∈ (w.sim p).next0 at ht
      show t.length = (w.sim p).depth
      rcases h.next0 p hp with h0 | h0 | ⟨t0, h0⟩
      · rw [h0] at ht; cases ht
      · rw [h0] at ht; rw [List.mem_singleton.mp ht]; simp [TT.zero]
      · rw [h0] at ht; rw [List.mem_singleton.mp ht]; exact ofWorld_length _ _
    · rw [hout, getD_out, if_neg hp] at ht
      cases ht

theorem run_config_wfShape {ops : List Op} (hv : Valid {} ops) (hU : UniformT (build ops).sims) {orc : List Nat} {out : List SimCfg}
    (hc : cacheTriggeringAncestors (build ops).sims orc = .ok out) (until_ maxLoop : Nat) (lazy_ useCache strict : Bool) :
    WFShape (runCfg out until_ maxLoop lazy_ useCache strict) :=
  run_config_wfShape_of_built (build_builtOk ops {} builtOk_empty hv) hU hc until_ maxLoop lazy_ useCache strict

/-! ### scenarios without groups: the hypotheses on pushed and cached connections (`PushOk`, `PullOk`) -/

theorem run_config_pushOk_flat_of_built {w : World} (h : BuiltOk w) (hf : FlatWorld w) {orc : List Nat} {out : List SimCfg}
    (hc : cacheTriggeringAncestors w.sims orc = .ok out) (until_ maxLoop : Nat) (lazy_ useCache strict : Bool) :
    PushOk (runCfg out until_ maxLoop lazy_ useCache strict) := by
  obtain ⟨st, _, hout⟩ := cta_out hc
  have hlen : out.length = w.sims.length := by rw [hout]; simp
  have hget : ∀ p, p < w.sims.length → out.getD p {} = { w.sim p with trigAnc := st.row p } := by
    intro p hp; rw [hout, getD_out, if_pos hp]; rfl
  have key : ∀ p, p < out.length → ∀ e ∈ (out.getD p {}).push,
      e.2.1 < w.sims.length ∧ HasShape e.2.2.1 [] [] ∧ ∃ d0, (p, d0) ∈ (out.getD e.2.1 {}).inputDelays ∧ TI.le d0 e.2.2.1 := by
    intro p hp e he
    have hp' : p < w.sims.length := hlen ▸ hp
    rw [hget p hp'] at he
    obtain ⟨h1, h2, d0, h3, h4⟩ := h.pushOk p hp' e he
    rw [hf p hp', hf _ h1] at h2
    refine ⟨h1, h2, d0, ?_, ?_⟩
    · rw [hget _ h1]; exact lookupTI_mem h3
    · have hs0 := (h.inShape e.2.1 h1 (p, d0) (lookupTI_mem h3)).2
      rw [hf p hp', hf _ h1] at hs0
      exact ⟨hs0.1.trans h2.1.symm, hs0.2.2.trans h2.2.2.symm, hs0.2.1.trans h2.2.1.symm, h4⟩
  refine ⟨fun p hp e he => ?_, fun p hp e he => ?_, fun p hp e he => (key p hp e he).2.2⟩
  · show e.2.1 < out.length
    rw [hlen]; exact (key p hp e he).1
  · obtain ⟨_, h2, _⟩ := key p hp e he
    exact ⟨hasShape_flat_cutoff h2, by rw [h2.2.1]; rfl⟩

theorem run_config_pullOk_flat_of_built {w : World} (h : BuiltOk w) (hf : FlatWorld w) {orc : List Nat} {out : List SimCfg}
    (hc : cacheTriggeringAncestors w.sims orc = .ok out) (until_ maxLoop : Nat) (lazy_ useCache strict : Bool) :
    PullOk (runCfg out until_ maxLoop lazy_ useCache strict) := by
  obtain ⟨st, _, hout⟩ := cta_out hc
  have hlen : out.length = w.sims.length := by rw [hout]; simp
  have hget : ∀ p, p < w.sims.length → out.getD p {} = { w.sim p with trigAnc := st.row p } := by
    intro p hp; rw [hout, getD_out, if_pos hp]; rfl
  have key : ∀ p, p < out.length → ∀ e ∈ (out.getD p {}).pulled,
      e.1 < w.sims.length ∧ HasShape e.2.1 [] [] ∧ ∃ d0, (e.1, d0) ∈ (out.getD p {}).inputDelays ∧ TI.le d0 e.2.1 := by
    intro p hp e he
    have hp' : p < w.sims.length := hlen ▸ hp
    rw [hget p hp'] at he ⊢
    obtain ⟨h1, h2, d0, h3, h4⟩ := h.pullOk p hp' e he
    rw [hf p hp', hf _ h1] at h2
    refine ⟨h1, h2, d0, lookupTI_mem h3, ?_⟩
    have hs0 := (h.inShape p hp' (e.1, d0) (lookupTI_mem h3)).2
    rw [hf p hp', hf _ h1] at hs0
    exact ⟨hs0.1.trans h2.1.symm, hs0.2.2.trans h2.2.2.symm, hs0.2.1.trans h2.2.1.symm, h4⟩
  refine ⟨fun p hp e he => ?_, fun p hp e he => ?_, fun p hp e he => (key p hp e he).2.2⟩
  · show e.1 < out.length
    rw [hlen]; exact (key p hp e he).1
  · obtain ⟨_, h2, _⟩ := key p hp e he
    exact ⟨hasShape_flat_cutoff h2, by rw [h2.2.1]; rfl⟩

/-- scenarios without groups: all four static hypotheses of the data-flow theorems at once -/
theorem run_config_dataflow_flat {ops : List Op} (hv : Valid {} ops) (hf : flatOps ops = true) {orc : List Nat} {out : List SimCfg}
    (hc : cacheTriggeringAncestors (build ops).sims orc = .ok out) (until_ maxLoop : Nat) (lazy_ useCache strict : Bool) :
    WFCfg (runCfg out until_ maxLoop lazy_ useCache strict) ∧ WFShape (runCfg out until_ maxLoop lazy_ useCache strict) ∧
    PushOk (runCfg out until_ maxLoop lazy_ useCache strict) ∧ PullOk (runCfg out until_ maxLoop lazy_ useCache strict) := by
  have hb := build_builtOk ops {} builtOk_empty hv
  have hfw := flatWorld_of_ops hv hf
  exact ⟨run_config_wf_flat hv hf hc _ _ _ _ _, run_config_wfShape hv (flat_uniformT hb hfw) hc _ _ _ _ _,
    run_config_pushOk_flat_of_built hb hfw hc _ _ _ _ _, run_config_pullOk_flat_of_built hb hfw hc _ _ _ _ _⟩

/-! ### uniform connection paths give uniform trigger paths -/

/-- a connection appended to a path of connections: the cutoff is the minimum -/
theorem realPath_snoc_cutoff {sims : List SimCfg} {s m t : Sid} {path : List Sid} {d d0 : TI}
    (hp : RealPath sims s m path d) (he : (m, d0) ∈ (sims.getD t {}).inputDelays) :
    ∃ path' d', RealPath sims s t path' d' ∧ d'.cutoff = min d.cutoff d0.cutoff := by
  induction hp with
  | @edge s m d1 he1 => exact ⟨[s, m, t], TI.add d1 d0, RealPath.cons he1 (RealPath.edge he), rfl⟩
  | @cons s x m d1 dm path0 he1 _ ih =>
    obtain ⟨path', d', hp', hc'⟩ := ih he
    refine ⟨s :: path', TI.add d1 d', RealPath.cons he1 hp', ?_⟩
    simp only [TI.add, hc']
    omega

/-- along every trigger path runs a path of connections with the same cutoff (a trigger connection and the pair's
`input_delays` entry have the same shape) -/
theorem trigPath_realPath_cutoff {w : World} (h : BuiltOk w) {s t : Sid} {d : TI} (hp : TrigPath w.sims s t d) :
    ∃ path d', RealPath w.sims s t path d' ∧ d'.cutoff = d.cutoff := by
  have hedge : ∀ m tr, tr ∈ (w.sims.getD m {}).triggers →
      ∃ d0, (m, d0) ∈ (w.sims.getD tr.2.1 {}).inputDelays ∧ d0.cutoff = tr.2.2.cutoff := by
    intro m tr htr
    have hm : m < w.sims.length := by
      by_cases hm : m < w.sims.length
      · exact hm
      · rw [List.getD_eq_getElem?_getD, List.getElem?_eq_none (Nat.le_of_not_lt hm)] at htr
        cases htr
    obtain ⟨h1, h2, d0, h3, _⟩ := h.trig m hm tr htr
    have hs0 := (h.inShape tr.2.1 h1 (m, d0) (lookupTI_mem h3)).2
    exact ⟨d0, lookupTI_mem h3, hs0.2.2.trans h2.2.2.symm⟩
  induction hp with
  | edge he =>
    obtain ⟨d0, h1, h2⟩ := hedge _ _ he
    exact ⟨_, d0, RealPath.edge h1, h2⟩
  | @snoc m dm tr _ he ih =>
    obtain ⟨path, d', hp', hc'⟩ := ih
    obtain ⟨d0, h1, h2⟩ := hedge _ _ he
    obtain ⟨path'', d'', hp'', hc''⟩ := realPath_snoc_cutoff hp' h1
    exact ⟨path'', d'', hp'', by rw [hc'', hc', h2]; rfl⟩

theorem uniformT_of_uniform {w : World} (h : BuiltOk w) (hU : Uniform w.sims) : UniformT w.sims := by
  intro s t d d' hp hp'
  obtain ⟨p1, e1, hr1, hc1⟩ := trigPath_realPath_cutoff h hp
  obtain ⟨p2, e2, hr2, hc2⟩ := trigPath_realPath_cutoff h hp'
  rw [← hc1, ← hc2]
  exact hU s t p1 e1 p2 e2 hr1 hr2

/-- **the executable uniformity check suffices**: for every scenario built by valid calls whose tables pass `uniformB` (every
generated scenario outside finding D7 does), the run configuration satisfies `WFCfg` and `WFShape` -/
theorem run_config_wf_of_uniformB {ops : List Op} (hv : Valid {} ops) (hub : uniformB (build ops).sims = true) {orc : List Nat}
    {out : List SimCfg} (hc : cacheTriggeringAncestors (build ops).sims orc = .ok out) (until_ maxLoop : Nat)
    (lazy_ useCache strict : Bool) :
    WFCfg (runCfg out until_ maxLoop lazy_ useCache strict) ∧ WFShape (runCfg out until_ maxLoop lazy_ useCache strict) := by
  have hb := build_builtOk ops {} builtOk_empty hv
  have hU := uniformT_of_uniform hb (uniformB_sound hub)
  exact ⟨run_config_wf hv hU hc _ _ _ _ _, run_config_wfShape hv hU hc _ _ _ _ _⟩

/-! ### `successors` is complete: every data connection made by `connect` is one `lazy_stepping` waits for -/

theorem run_config_succ_complete_of_built {w : World} (h : BuiltOk w) {orc : List Nat} {out : List SimCfg}
    (hc : cacheTriggeringAncestors w.sims orc = .ok out) (until_ maxLoop : Nat) (lazy_ useCache strict : Bool) :
    (∀ p, p < out.length → ∀ e ∈ ((runCfg out until_ maxLoop lazy_ useCache strict).sim p).push,
      e.2.1 < out.length ∧ ∃ d, (e.2.1, d) ∈ ((runCfg out until_ maxLoop lazy_ useCache strict).sim p).succs) ∧
    (∀ q, q < out.length → ∀ e ∈ ((runCfg out until_ maxLoop lazy_ useCache strict).sim q).pulled,
      e.1 < out.length ∧ ∃ d, (q, d) ∈ ((runCfg out until_ maxLoop lazy_ useCache strict).sim e.1).succs) := by
  obtain ⟨st, _, hout⟩ := cta_out hc
  have hlen : out.length = w.sims.length := by rw [hout]; simp
  have hget : ∀ p, p < w.sims.length → out.getD p {} = { w.sim p with trigAnc := st.row p } := by
    intro p hp; rw [hout, getD_out, if_pos hp]; rfl
  constructor
  · intro p hp e he
    have hp' : p < w.sims.length := hlen ▸ hp
    change e ∈ (out.getD p {}).push at he
    show e.2.1 < out.length ∧ ∃ d, (e.2.1, d) ∈ (out.getD p {}).succs
    rw [hget p hp'] at he ⊢
    exact ⟨hlen ▸ (h.pushOk p hp' e he).1, h.succPush p hp' e he⟩
  · intro q hq e he
    have hq' : q < w.sims.length := hlen ▸ hq
    change e ∈ (out.getD q {}).pulled at he
    show e.1 < out.length ∧ ∃ d, (q, d) ∈ (out.getD e.1 {}).succs
    rw [hget q hq'] at he
    have h1 := (h.pullOk q hq' e he).1
    rw [hget e.1 h1]
    exact ⟨hlen ▸ h1, h.succPull q hq' e he⟩

end Mosaik.Build
