/-
The triggering-ancestor table (`World.cache_triggering_ancestors`) holds the true minimum over all trigger paths
(anchor of C05 / C07: `SimRunner.triggering_ancestors`).

For every pop order of the worklist for which the computation succeeds:
* `anc_real`      every entry `anc[t][s] = d` is the accumulated delay of a real path of trigger connections s → … → t
* `anc_complete`  for every real trigger path s → … → t with accumulated delay `d` there is an entry `anc[t][s] ≤ d`
hence the entries are the minima over all trigger paths, and the two closure hypotheses of the scheduler theorems
(`WFCfg.direct`, `WFCfg.trans`) hold for the computed table (`anc_direct`, `anc_trans`).

Hypotheses (about the trigger tables only): delays fit the depths of their simulators (`ShapedT`), triggered simulators
exist (`TrigRange`), and all trigger paths between two simulators have one cutoff (`UniformT`, the complement of finding D7).
-/
import MosaikModel.Closure
import MosaikProofs.Lemmas.Tiered
import MosaikProofs.Closure.Complete
namespace Mosaik
open TI

/-! ### association lists -/

theorem lookupTI_insert_same (l : List (Sid × TI)) (k : Sid) (v : TI) : lookupTI (insertTI l k v) k = some v := by
  unfold insertTI
  split
  · rename_i hany
    unfold lookupTI
    induction l with
    | nil => simp at hany
    | cons e l ih =>
      simp only [List.map_cons, List.find?_cons]
      by_cases he : e.1 == k
      · simp [he]
      · simp only [he, Bool.false_eq_true, if_false]
        have : l.any (·.1 == k) = true := by
          simp only [List.any_cons, Bool.or_eq_true] at hany
          rcases hany with h | h
          · exact absurd h he
          · exact h
        simpa [he] using ih this
  · rename_i hany
    unfold lookupTI
    have hnone : l.find? (·.1 == k) = none := by
      rw [List.find?_eq_none]
      intro x hx hk
      exact hany (List.any_eq_true.mpr ⟨x, hx, hk⟩)
    simp [List.find?_append, hnone]

theorem find?_map_replace_ne (l : List (Sid × TI)) (k k' : Sid) (v : TI) (h : k' ≠ k) :
    (l.map (fun e => if e.1 == k then (k, v) else e)).find? (·.1 == k') = l.find? (·.1 == k') := by
  induction l with
  | nil => rfl
  | cons e l ih =>
    simp only [List.map_cons, List.find?_cons]
    by_cases he : e.1 == k
    · have hk : e.1 = k := by simpa using he
      have hne : ¬ (e.1 == k') = true := by simp only [beq_iff_eq, hk]; exact fun e' => h e'.symm
      have hne2 : ¬ (k == k') = true := by simp only [beq_iff_eq]; exact fun e' => h e'.symm
      simp only [he, if_true, hne, hne2]
      exact ih
    · simp only [he, Bool.false_eq_true, if_false]
      by_cases hk : e.1 == k'
      · simp [hk]
      · simp only [hk]
        exact ih

theorem lookupTI_insert_ne (l : List (Sid × TI)) (k k' : Sid) (v : TI) (h : k' ≠ k) :
    lookupTI (insertTI l k v) k' = lookupTI l k' := by
  unfold insertTI
  split
  · unfold lookupTI
    rw [find?_map_replace_ne l k k' v h]
  · unfold lookupTI
    rw [List.find?_append]
    have : ([(k, v)] : List (Sid × TI)).find? (·.1 == k') = none := by
      simp only [List.find?_cons, List.find?_nil]
      have : ¬ (k == k') = true := by simp only [beq_iff_eq]; exact fun e' => h e'.symm
      simp [this]
    rw [this]
    simp

theorem lookupTI_mem {l : List (Sid × TI)} {k : Sid} {v : TI} (h : lookupTI l k = some v) : (k, v) ∈ l := by
  unfold lookupTI at h
  rw [Option.map_eq_some_iff] at h
  obtain ⟨e, he, hv⟩ := h
  have hmem := List.mem_of_find?_eq_some he
  have hkey := List.find?_some he
  simp only [beq_iff_eq] at hkey
  have : e = (k, v) := by rw [← hkey, ← hv]
  rw [← this]; exact hmem

theorem lookupTI_of_mem {l : List (Sid × TI)} {e : Sid × TI} (h : e ∈ l) : ∃ v, lookupTI l e.1 = some v := by
  unfold lookupTI
  cases hf : l.find? (·.1 == e.1) with
  | none =>
    rw [List.find?_eq_none] at hf
    exact absurd (by simp) (hf e h)
  | some x => exact ⟨x.2, rfl⟩

/-! ### the table -/

def AncState.get (st : AncState) (t s : Sid) : Option TI := lookupTI (st.row t) s

/-- `anc[t][s] := v` -/
def AncState.put (st : AncState) (t s : Sid) (v : TI) : AncState := st.setRow t (insertTI (st.row t) s v)

theorem AncState.get_put_same (st : AncState) (t s : Sid) (v : TI) (ht : t < st.anc.length) : (st.put t s v).get t s = some v := by
  unfold AncState.get AncState.put AncState.setRow AncState.row
  simp only
  rw [List.getD_eq_getElem?_getD, List.getElem?_set_self ht]
  exact lookupTI_insert_same _ _ _

theorem AncState.get_put_ne (st : AncState) (t s t' s' : Sid) (v : TI) (h : (t', s') ≠ (t, s)) : (st.put t s v).get t' s' = st.get t' s' := by
  unfold AncState.get AncState.put AncState.setRow AncState.row
  simp only
  by_cases ht : t' = t
  · subst ht
    have hs : s' ≠ s := fun e => h (by rw [e])
    by_cases hlen : t' < st.anc.length
    · rw [List.getD_eq_getElem?_getD, List.getElem?_set_self hlen]
      simp only [Option.getD_some]
      exact lookupTI_insert_ne _ _ _ _ hs
    · rw [List.set_eq_of_length_le (Nat.le_of_not_lt hlen)]
  · rw [List.getD_eq_getElem?_getD, List.getElem?_set_ne (fun e => ht e.symm), ← List.getD_eq_getElem?_getD]

theorem AncState.put_length (st : AncState) (t s : Sid) (v : TI) : (st.put t s v).anc.length = st.anc.length := by
  simp [AncState.put, AncState.setRow]

theorem AncState.put_dirty (st : AncState) (t s : Sid) (v : TI) : (st.put t s v).dirty = st.dirty := rfl

/-! ### trigger paths and the hypotheses -/

/-- a path of trigger connections with its delay, accumulated the way the worklist does (a connection is appended to a
known path: `src_to_mid + mid_to_dest`) -/
inductive TrigPath (sims : List SimCfg) : Sid → Sid → TI → Prop
  | edge {s : Sid} {tr : Port × Sid × TI} : tr ∈ (sims.getD s {}).triggers → TrigPath sims s tr.2.1 tr.2.2
  | snoc {s m : Sid} {dm : TI} {tr : Port × Sid × TI} : TrigPath sims s m dm → tr ∈ (sims.getD m {}).triggers →
      TrigPath sims s tr.2.1 (TI.add dm tr.2.2)

def ShapedT (sims : List SimCfg) : Prop :=
  ∀ s tr, tr ∈ (sims.getD s {}).triggers → tr.2.2.pre = (sims.getD s {}).depth ∧ tr.2.2.tiers.length = (sims.getD tr.2.1 {}).depth

def TrigRange (sims : List SimCfg) : Prop := ∀ s tr, tr ∈ (sims.getD s {}).triggers → tr.2.1 < sims.length

def UniformT (sims : List SimCfg) : Prop := ∀ s t d d', TrigPath sims s t d → TrigPath sims s t d' → d.cutoff = d'.cutoff

theorem trigPath_shape {sims : List SimCfg} (hS : ShapedT sims) {s t : Sid} {d : TI} (h : TrigPath sims s t d) :
    d.pre = (sims.getD s {}).depth ∧ d.tiers.length = (sims.getD t {}).depth := by
  induction h with
  | edge he => exact hS _ _ he
  | snoc _ he ih => exact ⟨ih.1, by simp [TI.add, TI.addTiers, (hS _ _ he).2]⟩

theorem trigPath_sameShape {sims : List SimCfg} (hS : ShapedT sims) (hU : UniformT sims) {s t : Sid} {d d' : TI}
    (h : TrigPath sims s t d) (h' : TrigPath sims s t d') : C08.SameShape d d' := by
  have a := trigPath_shape hS h
  have b := trigPath_shape hS h'
  exact ⟨a.2.trans b.2.symm, a.1.trans b.1.symm, hU _ _ _ _ h h'⟩

def AncReal (sims : List SimCfg) (st : AncState) : Prop := ∀ t s d, st.get t s = some d → TrigPath sims s t d

/-- every trigger connection is in the table, with at most its own delay -/
def EdgeLeA (sims : List SimCfg) (st : AncState) : Prop :=
  ∀ s tr, tr ∈ (sims.getD s {}).triggers → ∃ e, st.get tr.2.1 s = some e ∧ TI.le e tr.2.2

/-- entries only appear or decrease -/
def BelowA (st' st : AncState) : Prop := ∀ t s e, st.get t s = some e → ∃ e', st'.get t s = some e' ∧ TI.le e' e

theorem BelowA.refl (st : AncState) : BelowA st st := fun _ _ e h => ⟨e, h, TI.le_refl _⟩

theorem belowA_put {st : AncState} {t s : Sid} {v : TI} (ht : t < st.anc.length) (h : ∀ a, st.get t s = some a → TI.le v a)
    (dirty : List Sid) : BelowA { (st.put t s v) with dirty := dirty } st := by
  intro t' s' e he
  by_cases hk : (t', s') = (t, s)
  · cases hk
    exact ⟨v, AncState.get_put_same st t s v ht, h e he⟩
  · exact ⟨e, by
      show (st.put t s v).get t' s' = some e
      rw [AncState.get_put_ne _ _ _ _ _ _ hk]; exact he, TI.le_refl _⟩

/-- closedness at one trigger connection `mid → dest` for one ancestor -/
def DestClosedA (st : AncState) (mid : Sid) (tr : Port × Sid × TI) (src : Sid) : Prop :=
  ∀ a, st.get mid src = some a → ∃ e, st.get tr.2.1 src = some e ∧ TI.le e (TI.add a tr.2.2)

def TrClosedA (st : AncState) (mid : Sid) (tr : Port × Sid × TI) : Prop := ∀ src, DestClosedA st mid tr src

def ClosedAtA (sims : List SimCfg) (st : AncState) (mid : Sid) : Prop := ∀ tr, tr ∈ (sims.getD mid {}).triggers → TrClosedA st mid tr

theorem destClosedA_mono {st st' : AncState} {mid : Sid} {tr : Port × Sid × TI} {src : Sid}
    (hrow : ∀ s, st'.get mid s = st.get mid s) (hb : BelowA st' st) (h : DestClosedA st mid tr src) : DestClosedA st' mid tr src := by
  intro a ha
  rw [hrow] at ha
  obtain ⟨e, he, hle⟩ := h a ha
  obtain ⟨e', he', hle'⟩ := hb _ _ _ he
  exact ⟨e', he', TI.le_trans hle' hle⟩

theorem edgeLeA_below {sims : List SimCfg} {st st' : AncState} (hb : BelowA st' st) (h : EdgeLeA sims st) : EdgeLeA sims st' := by
  intro s tr htr
  obtain ⟨e, he, hle⟩ := h s tr htr
  obtain ⟨e', he', hle'⟩ := hb _ _ _ he
  exact ⟨e', he', TI.le_trans hle' hle⟩

/-! ### one relaxation, as cases -/

def ancOne (mid : Sid) (tr : Port × Sid × TI) (st : AncState) (e : Sid × TI) : Except ClosErr AncState :=
  match lookupTI (st.row mid) e.1 with
  | none => .ok st
  | some srcToMid =>
    match TI.add? srcToMid tr.2.2 with
    | none => .error .assertion
    | some s2d =>
      match TI.updateMin? (lookupTI (st.row tr.2.1) e.1) s2d with
      | none => .error .assertion
      | some none => .ok st
      | some (some v) =>
        .ok { (st.setRow tr.2.1 (insertTI (st.row tr.2.1) e.1 v)) with dirty := insertDirty st.dirty tr.2.1 }

theorem ancRelax_eq (sims : List SimCfg) (st : AncState) (mid : Sid) :
    ancRelax sims st mid = (sims.getD mid {}).triggers.foldlM (fun st tr => (st.row mid).foldlM (ancOne mid tr) st) st := rfl

theorem ancOne_cases {sims : List SimCfg} (hS : ShapedT sims) (hU : UniformT sims) {mid : Sid} {tr : Port × Sid × TI}
    (htr : tr ∈ (sims.getD mid {}).triggers) {c c' : AncState} {e : Sid × TI} (hreal : AncReal sims c)
    (hg : ancOne mid tr c e = .ok c') :
    (c' = c ∧ DestClosedA c mid tr e.1) ∨
    (∃ a, c.get mid e.1 = some a ∧
      c' = { (c.put tr.2.1 e.1 (TI.add a tr.2.2)) with dirty := insertDirty c.dirty tr.2.1 } ∧
      TrigPath sims e.1 tr.2.1 (TI.add a tr.2.2) ∧
      ∀ old, c.get tr.2.1 e.1 = some old → TI.le (TI.add a tr.2.2) old) := by
  unfold ancOne at hg
  cases hget : lookupTI (c.row mid) e.1 with
  | none =>
    rw [hget] at hg
    cases hg
    left
    exact ⟨rfl, fun a ha => by unfold AncState.get at ha; rw [hget] at ha; cases ha⟩
  | some a =>
    rw [hget] at hg
    simp only at hg
    cases hadd : TI.add? a tr.2.2 with
    | none => rw [hadd] at hg; cases hg
    | some s2d =>
      rw [hadd] at hg
      simp only at hg
      have hs : s2d = TI.add a tr.2.2 := add?_value hadd
      subst hs
      have hareal : TrigPath sims e.1 mid a := hreal mid e.1 a hget
      have hnew : TrigPath sims e.1 tr.2.1 (TI.add a tr.2.2) := TrigPath.snoc hareal htr
      cases hold : lookupTI (c.row tr.2.1) e.1 with
      | none =>
        rw [hold] at hg
        simp only [TI.updateMin?] at hg
        cases hg
        right
        exact ⟨a, hget, rfl, hnew, fun old ho => by unfold AncState.get at ho; rw [hold] at ho; cases ho⟩
      | some old =>
        rw [hold] at hg
        have horeal : TrigPath sims e.1 tr.2.1 old := hreal tr.2.1 e.1 old hold
        have hshape : C08.SameShape old (TI.add a tr.2.2) := trigPath_sameShape hS hU horeal hnew
        cases hup : TI.updateMin? (some old) (TI.add a tr.2.2) with
        | none => rw [hup] at hg; cases hg
        | some r =>
          rw [hup] at hg
          cases r with
          | none =>
            cases hg
            left
            refine ⟨rfl, fun a' ha' => ?_⟩
            unfold AncState.get at ha'
            rw [hget] at ha'
            cases ha'
            exact ⟨old, hold, updateMin?_keep hshape hup⟩
          | some v =>
            simp only at hg
            cases hg
            have hv : v = TI.add a tr.2.2 := updateMin?_value hup
            subst hv
            right
            refine ⟨a, hget, rfl, hnew, fun old' ho' => ?_⟩
            unfold AncState.get at ho'
            rw [hold] at ho'
            cases ho'
            exact updateMin?_replace hshape hup

/-! ### invariants of one relaxation -/

structure RInvA (sims : List SimCfg) (mid : Sid) (st0 : AncState) (c : AncState) : Prop where
  real : AncReal sims c
  edge : EdgeLeA sims c
  len : c.anc.length = sims.length
  mono : ∀ x, x ∈ st0.dirty → x ∈ c.dirty
  closed : ∀ x, x ∉ c.dirty → x ≠ mid → ClosedAtA sims c x
  row : mid ∉ c.dirty → ∀ s, c.get mid s = st0.get mid s

theorem ancReal_put {sims : List SimCfg} {c : AncState} (h : AncReal sims c) {t s : Sid} {v : TI} (hv : TrigPath sims s t v)
    (dirty : List Sid) : AncReal sims { (c.put t s v) with dirty := dirty } := by
  intro t' s' d hd
  by_cases hk : (t', s') = (t, s)
  · cases hk
    by_cases ht : t < c.anc.length
    · have : ({ (c.put t s v) with dirty := dirty } : AncState).get t s = some v := AncState.get_put_same c t s v ht
      rw [this] at hd
      cases hd
      exact hv
    · -- the row does not exist: nothing was stored
      have : ({ (c.put t s v) with dirty := dirty } : AncState).get t s = c.get t s := by
        unfold AncState.get AncState.put AncState.setRow AncState.row
        simp only
        rw [List.set_eq_of_length_le (Nat.le_of_not_lt ht)]
      rw [this] at hd
      exact h t s d hd
  · have : ({ (c.put t s v) with dirty := dirty } : AncState).get t' s' = c.get t' s' := AncState.get_put_ne c t s t' s' v hk
    rw [this] at hd
    exact h t' s' d hd

theorem rinvA_put {sims : List SimCfg} {mid : Sid} {st0 c : AncState} (h : RInvA sims mid st0 c) {src dest : Sid} {v : TI}
    (hd : dest < sims.length) (hv : TrigPath sims src dest v) (hle : ∀ a, c.get dest src = some a → TI.le v a) :
    RInvA sims mid st0 { (c.put dest src v) with dirty := insertDirty c.dirty dest } := by
  have hlen : dest < c.anc.length := by rw [h.len]; exact hd
  have hb : BelowA { (c.put dest src v) with dirty := insertDirty c.dirty dest } c := belowA_put hlen hle _
  have hrowx : ∀ x, x ≠ dest → ∀ s, ({ (c.put dest src v) with dirty := insertDirty c.dirty dest } : AncState).get x s = c.get x s := by
    intro x hx s
    exact AncState.get_put_ne c dest src x s v (by intro e; cases e; exact hx rfl)
  refine ⟨ancReal_put h.real hv _, edgeLeA_below hb h.edge, by rw [← h.len]; exact AncState.put_length c dest src v,
    fun x hx => mem_insertDirty.mpr (Or.inl (h.mono x hx)), ?_, ?_⟩
  · intro x hx hxm tr htr s
    simp only [mem_insertDirty, not_or] at hx
    exact destClosedA_mono (hrowx x hx.2) hb (h.closed x hx.1 hxm tr htr s)
  · intro hm s
    simp only [mem_insertDirty, not_or] at hm
    rw [hrowx mid hm.2 s]
    exact h.row hm.1 s

/-- the inner loop (one trigger connection `tr` of `mid`, all ancestors in `mid`'s row) -/
theorem innerA_inv {sims : List SimCfg} (hS : ShapedT sims) (hR : TrigRange sims) (hU : UniformT sims) {mid : Sid} {st0 : AncState}
    {tr : Port × Sid × TI} (htr : tr ∈ (sims.getD mid {}).triggers) (doneOuter : List (Port × Sid × TI)) {c0 c : AncState}
    (h0 : RInvA sims mid st0 c0) (hp0 : mid ∉ c0.dirty → ∀ tr' ∈ doneOuter, TrClosedA c0 mid tr')
    (hf : (c0.row mid).foldlM (ancOne mid tr) c0 = .ok c) :
    RInvA sims mid st0 c ∧ (mid ∉ c.dirty → ∀ tr' ∈ tr :: doneOuter, TrClosedA c mid tr') := by
  let P : List (Sid × TI) → AncState → Prop := fun done c =>
    RInvA sims mid st0 c ∧ (∀ x, x ∈ c0.dirty → x ∈ c.dirty) ∧
      (mid ∉ c.dirty → (∀ tr' ∈ doneOuter, TrClosedA c mid tr') ∧ ∀ e ∈ done, DestClosedA c mid tr e.1)
  have key := foldlM_inv_done P (ancOne mid tr) (c0.row mid) [] c0 c
    ⟨h0, fun _ h => h, fun hm => ⟨hp0 hm, fun e he => by cases he⟩⟩ ?_ hf
  · obtain ⟨hr, hmono, hcl⟩ := key
    refine ⟨hr, fun hm tr' htr' => ?_⟩
    obtain ⟨hout, hdone⟩ := hcl hm
    rcases List.mem_cons.mp htr' with rfl | htr'
    · intro src a hget
      have hm0 : mid ∉ c0.dirty := fun h => hm (hmono _ h)
      have hrow : c0.get mid src = some a := by rw [h0.row hm0, ← hr.row hm]; exact hget
      have hmem : (src, a) ∈ c0.row mid := lookupTI_mem hrow
      exact hdone (src, a) (by simpa using hmem) a hget
    · exact hout tr' htr'
  · intro done b e b' _ hP hg
    obtain ⟨hr, hmono, hcl⟩ := hP
    rcases ancOne_cases hS hU htr hr.real hg with ⟨rfl, hdc⟩ | ⟨a, hget, rfl, hnew, hle⟩
    · refine ⟨hr, hmono, fun hm => ?_⟩
      obtain ⟨hout, hdone⟩ := hcl hm
      refine ⟨hout, fun e' he' => ?_⟩
      rcases List.mem_cons.mp he' with rfl | he'
      · exact hdc
      · exact hdone e' he'
    · have hd : tr.2.1 < sims.length := hR mid tr htr
      have hr' := rinvA_put hr hd hnew hle
      refine ⟨hr', fun x hx => mem_insertDirty.mpr (Or.inl (hmono x hx)), fun hm => ?_⟩
      simp only [mem_insertDirty, not_or] at hm
      obtain ⟨hout, hdone⟩ := hcl hm.1
      have hlen : tr.2.1 < b.anc.length := by rw [hr.len]; exact hd
      have hb : BelowA { (b.put tr.2.1 e.1 (TI.add a tr.2.2)) with dirty := insertDirty b.dirty tr.2.1 } b := belowA_put hlen hle _
      have hrow : ∀ s, ({ (b.put tr.2.1 e.1 (TI.add a tr.2.2)) with dirty := insertDirty b.dirty tr.2.1 } : AncState).get mid s = b.get mid s :=
        fun s => AncState.get_put_ne b tr.2.1 e.1 mid s _ (by intro h; cases h; exact hm.2 rfl)
      refine ⟨fun tr' htr' src => destClosedA_mono hrow hb (hout tr' htr' src), fun e' he' => ?_⟩
      rcases List.mem_cons.mp he' with rfl | he'
      · intro a' ha'
        rw [hrow, hget] at ha'
        cases ha'
        exact ⟨_, AncState.get_put_same b tr.2.1 e'.1 _ hlen, TI.le_refl _⟩
      · exact destClosedA_mono hrow hb (hdone e' he')

theorem ancRelax_inv {sims : List SimCfg} (hS : ShapedT sims) (hR : TrigRange sims) (hU : UniformT sims) {mid : Sid} {st0 st' : AncState}
    (h0 : RInvA sims mid st0 st0) (hr : ancRelax sims st0 mid = .ok st') :
    RInvA sims mid st0 st' ∧ (mid ∉ st'.dirty → ClosedAtA sims st' mid) := by
  rw [ancRelax_eq] at hr
  let P : List (Port × Sid × TI) → AncState → Prop := fun done c =>
    RInvA sims mid st0 c ∧ (mid ∉ c.dirty → ∀ tr' ∈ done, TrClosedA c mid tr')
  have key := foldlM_inv_done P _ (sims.getD mid {}).triggers [] st0 st' ⟨h0, fun _ tr' h => by cases h⟩ ?_ hr
  · obtain ⟨hrinv, hcl⟩ := key
    exact ⟨hrinv, fun hm tr htr => hcl hm tr (by simpa using htr)⟩
  · intro done b tr b' htr hP hg
    exact innerA_inv hS hR hU htr done hP.1 hP.2 hg

/-! ### the loop -/

structure LInvA (sims : List SimCfg) (st : AncState) : Prop where
  real : AncReal sims st
  edge : EdgeLeA sims st
  len : st.anc.length = sims.length
  closed : ∀ x, x ∉ st.dirty → ClosedAtA sims st x

theorem ancLoop_inv {sims : List SimCfg} (hS : ShapedT sims) (hR : TrigRange sims) (hU : UniformT sims) :
    ∀ (fuel : Nat) (st st' : AncState) (orc : List Nat), LInvA sims st → ancLoop sims fuel st orc = .ok st' →
      LInvA sims st' ∧ st'.dirty = []
  | 0, st, st', _, h, hr => by
    unfold ancLoop at hr
    split at hr
    · rename_i he
      cases hr
      exact ⟨h, by simpa using he⟩
    · cases hr
  | fuel + 1, st, st', orc, h, hr => by
    unfold ancLoop at hr
    cases hp : popAt st.dirty (orc.headD 0) with
    | none =>
      rw [hp] at hr
      cases hr
      exact ⟨h, popAt_none hp⟩
    | some v =>
      obtain ⟨mid, rest⟩ := v
      rw [hp] at hr
      simp only at hr
      cases hrel : ancRelax sims { st with dirty := rest } mid with
      | error e => rw [hrel] at hr; cases hr
      | ok st1 =>
        rw [hrel] at hr
        have h0 : RInvA sims mid { st with dirty := rest } { st with dirty := rest } :=
          ⟨h.real, h.edge, h.len, fun _ hx => hx, fun x hx hxm => h.closed x (fun hd => hx (popAt_spec hp x hd hxm)), fun _ _ => rfl⟩
        obtain ⟨hr1, hmid⟩ := ancRelax_inv hS hR hU h0 hrel
        refine ancLoop_inv hS hR hU fuel st1 st' orc.tail ⟨hr1.real, hr1.edge, hr1.len, fun x hx => ?_⟩ hr
        by_cases hxm : x = mid
        · subst hxm; exact hmid hx
        · exact hr1.closed x hx hxm

/-- in a closed table the stored delay is at most the accumulated delay of every real trigger path -/
theorem stored_le_trigPath {sims : List SimCfg} {st : AncState} (hedge : EdgeLeA sims st) (hcl : ∀ x, ClosedAtA sims st x)
    {s t : Sid} {d : TI} (h : TrigPath sims s t d) : ∃ e, st.get t s = some e ∧ TI.le e d := by
  induction h with
  | edge he => exact hedge _ _ he
  | @snoc m dm tr hpath he ih =>
    obtain ⟨e, hget, hle⟩ := ih
    obtain ⟨e', hget', hle'⟩ := hcl m tr he s e hget
    exact ⟨e', hget', TI.le_trans hle' (TI.add_mono_left tr.2.2 hle)⟩

/-! ### the first loop: direct triggers -/

def initOne (src : Sid) (st : AncState) (tr : Port × Sid × TI) : Except ClosErr AncState :=
  match TI.updateMin? (lookupTI (st.row tr.2.1) src) tr.2.2 with
  | none => .error .assertion
  | some none => .ok { st with dirty := insertDirty st.dirty tr.2.1 }
  | some (some v) => .ok { (st.setRow tr.2.1 (insertTI (st.row tr.2.1) src v)) with dirty := insertDirty st.dirty tr.2.1 }

theorem ancInit_eq (sims : List SimCfg) :
    ancInit sims = (List.range sims.length).foldlM (fun st src => (sims.getD src {}).triggers.foldlM (initOne src) st)
      { anc := List.replicate sims.length [], dirty := [] } := rfl

/-- what holds during the first loop -/
structure IInv (sims : List SimCfg) (st : AncState) : Prop where
  real : AncReal sims st
  len : st.anc.length = sims.length
  marked : ∀ t s a, st.get t s = some a → t ∈ st.dirty

def EdgeOk (st : AncState) (src : Sid) (tr : Port × Sid × TI) : Prop := ∃ e, st.get tr.2.1 src = some e ∧ TI.le e tr.2.2

theorem edgeOk_below {st st' : AncState} (hb : BelowA st' st) {src : Sid} {tr : Port × Sid × TI} (h : EdgeOk st src tr) : EdgeOk st' src tr := by
  obtain ⟨e, he, hle⟩ := h
  obtain ⟨e', he', hle'⟩ := hb _ _ _ he
  exact ⟨e', he', TI.le_trans hle' hle⟩

theorem initOne_step {sims : List SimCfg} (hS : ShapedT sims) (hR : TrigRange sims) (hU : UniformT sims) {src : Sid} {tr : Port × Sid × TI}
    (htr : tr ∈ (sims.getD src {}).triggers) {st st' : AncState} (h : IInv sims st) (hg : initOne src st tr = .ok st') :
    IInv sims st' ∧ BelowA st' st ∧ EdgeOk st' src tr ∧ (∀ x, x ∈ st.dirty → x ∈ st'.dirty) := by
  have hd : tr.2.1 < sims.length := hR src tr htr
  have hlen : tr.2.1 < st.anc.length := by rw [h.len]; exact hd
  have hedge : TrigPath sims src tr.2.1 tr.2.2 := TrigPath.edge htr
  unfold initOne at hg
  cases hold : lookupTI (st.row tr.2.1) src with
  | none =>
    rw [hold] at hg
    simp only [TI.updateMin?] at hg
    cases hg
    have hb : BelowA { (st.put tr.2.1 src tr.2.2) with dirty := insertDirty st.dirty tr.2.1 } st :=
      belowA_put hlen (fun a ha => by unfold AncState.get at ha; rw [hold] at ha; cases ha) _
    refine ⟨⟨ancReal_put h.real hedge _, by rw [← h.len]; exact AncState.put_length st tr.2.1 src tr.2.2, ?_⟩, hb,
      ⟨tr.2.2, AncState.get_put_same st tr.2.1 src tr.2.2 hlen, TI.le_refl _⟩, fun x hx => mem_insertDirty.mpr (Or.inl hx)⟩
    intro t s a ha
    by_cases hk : (t, s) = (tr.2.1, src)
    · cases hk; exact mem_insertDirty.mpr (Or.inr rfl)
    · have : ({ (st.put tr.2.1 src tr.2.2) with dirty := insertDirty st.dirty tr.2.1 } : AncState).get t s = st.get t s :=
        AncState.get_put_ne st tr.2.1 src t s _ hk
      have ha' : st.get t s = some a := by rw [← this]; exact ha
      exact mem_insertDirty.mpr (Or.inl (h.marked t s a ha'))
  | some old =>
    rw [hold] at hg
    have horeal : TrigPath sims src tr.2.1 old := h.real tr.2.1 src old hold
    have hshape : C08.SameShape old tr.2.2 := trigPath_sameShape hS hU horeal hedge
    cases hup : TI.updateMin? (some old) tr.2.2 with
    | none => rw [hup] at hg; cases hg
    | some r =>
      rw [hup] at hg
      cases r with
      | none =>
        simp only at hg
        cases hg
        refine ⟨⟨h.real, h.len, fun t s a ha => mem_insertDirty.mpr (Or.inl (h.marked t s a ha))⟩, BelowA.refl st,
          ⟨old, hold, updateMin?_keep hshape hup⟩, fun x hx => mem_insertDirty.mpr (Or.inl hx)⟩
      | some v =>
        simp only at hg
        cases hg
        have hv : v = tr.2.2 := updateMin?_value hup
        subst hv
        have hle : ∀ a, st.get tr.2.1 src = some a → TI.le tr.2.2 a := by
          intro a ha
          unfold AncState.get at ha
          rw [hold] at ha
          cases ha
          exact updateMin?_replace hshape hup
        have hb : BelowA { (st.put tr.2.1 src tr.2.2) with dirty := insertDirty st.dirty tr.2.1 } st := belowA_put hlen hle _
        refine ⟨⟨ancReal_put h.real hedge _, by rw [← h.len]; exact AncState.put_length st tr.2.1 src tr.2.2, ?_⟩, hb,
          ⟨tr.2.2, AncState.get_put_same st tr.2.1 src tr.2.2 hlen, TI.le_refl _⟩, fun x hx => mem_insertDirty.mpr (Or.inl hx)⟩
        intro t s a ha
        by_cases hk : (t, s) = (tr.2.1, src)
        · cases hk; exact mem_insertDirty.mpr (Or.inr rfl)
        · have : ({ (st.put tr.2.1 src tr.2.2) with dirty := insertDirty st.dirty tr.2.1 } : AncState).get t s = st.get t s :=
            AncState.get_put_ne st tr.2.1 src t s _ hk
          have ha' : st.get t s = some a := by rw [← this]; exact ha
          exact mem_insertDirty.mpr (Or.inl (h.marked t s a ha'))

theorem triggers_nil_of_ge {sims : List SimCfg} {x : Sid} (h : sims.length ≤ x) : (sims.getD x {}).triggers = [] := by
  rw [List.getD_eq_getElem?_getD, List.getElem?_eq_none h]; rfl

theorem ancInit_inv {sims : List SimCfg} (hS : ShapedT sims) (hR : TrigRange sims) (hU : UniformT sims) {st : AncState}
    (h : ancInit sims = .ok st) : LInvA sims st := by
  rw [ancInit_eq] at h
  let P : List Sid → AncState → Prop := fun done st =>
    IInv sims st ∧ ∀ src ∈ done, ∀ tr ∈ (sims.getD src {}).triggers, EdgeOk st src tr
  have key := foldlM_inv_done P _ (List.range sims.length) [] _ st ?_ ?_ h
  · obtain ⟨hi, hdone⟩ := key
    refine ⟨hi.real, ?_, hi.len, ?_⟩
    · intro s tr htr
      have hs : s < sims.length := by
        apply Classical.byContradiction
        intro hn
        rw [triggers_nil_of_ge (Nat.le_of_not_lt hn)] at htr
        cases htr
      exact hdone s (by simpa using hs) tr htr
    · intro x hx tr _ s a ha
      exact absurd (hi.marked x s a ha) hx
  · refine ⟨⟨?_, by simp, ?_⟩, fun src h => by cases h⟩
    · intro t s d hd
      simp [AncState.get, AncState.row, lookupTI, List.getD_eq_getElem?_getD, List.getElem?_replicate] at hd
      split at hd <;> simp at hd
    · intro t s a ha
      simp [AncState.get, AncState.row, lookupTI, List.getD_eq_getElem?_getD, List.getElem?_replicate] at ha
      split at ha <;> simp at ha
  · intro done b src b' _ hP hg
    let Q : List (Port × Sid × TI) → AncState → Prop := fun doneTr st =>
      IInv sims st ∧ (∀ src' ∈ done, ∀ tr ∈ (sims.getD src' {}).triggers, EdgeOk st src' tr) ∧ ∀ tr ∈ doneTr, EdgeOk st src tr
    have key2 := foldlM_inv_done Q (initOne src) (sims.getD src {}).triggers [] b b' ⟨hP.1, hP.2, fun _ h => by cases h⟩ ?_ hg
    · obtain ⟨hi, hold, hnew⟩ := key2
      refine ⟨hi, fun src' hs' tr htr => ?_⟩
      rcases List.mem_cons.mp hs' with rfl | hs'
      · exact hnew tr (by simpa using htr)
      · exact hold src' hs' tr htr
    · intro doneTr c tr c' htr hQ hg1
      obtain ⟨hi', hb, hok, _⟩ := initOne_step hS hR hU htr hQ.1 hg1
      refine ⟨hi', fun src' hs' tr' htr' => edgeOk_below hb (hQ.2.1 src' hs' tr' htr'), fun tr' htr' => ?_⟩
      rcases List.mem_cons.mp htr' with rfl | htr'
      · exact hok
      · exact edgeOk_below hb (hQ.2.2 tr' htr')

/-! ### the result of `cache_triggering_ancestors` -/

theorem cta_rows {sims out : List SimCfg} {orc : List Nat} (h : cacheTriggeringAncestors sims orc = .ok out) :
    ∃ st0 st, ancInit sims = .ok st0 ∧ ancLoop sims (closureFuel sims.length) st0 orc = .ok st ∧
      ∀ i, i < sims.length → (out.getD i {}).trigAnc = st.row i := by
  unfold cacheTriggeringAncestors at h
  cases hi : ancInit sims with
  | error e => rw [hi] at h; cases h
  | ok st0 =>
    rw [hi] at h
    simp only at h
    cases hl : ancLoop sims (closureFuel sims.length) st0 orc with
    | error e => rw [hl] at h; cases h
    | ok st =>
      rw [hl] at h
      simp only [Except.ok.injEq] at h
      refine ⟨st0, st, rfl, hl, fun i hi' => ?_⟩
      rw [← h, List.getD_eq_getElem?_getD, List.getElem?_map, List.getElem?_zipIdx]
      simp [List.getElem?_eq_getElem hi']

/-- **the triggering-ancestor table is the minimum over all trigger paths** — for every pop order for which the
computation succeeds: every entry is the accumulated delay of a real path of trigger connections, and for every real
trigger path there is an entry that is at most the path's accumulated delay -/
theorem anc_table_minimum (sims : List SimCfg) (orc : List Nat) (hS : ShapedT sims) (hR : TrigRange sims) (hU : UniformT sims)
    {out : List SimCfg} (h : cacheTriggeringAncestors sims orc = .ok out) :
    (∀ t, t < sims.length → ∀ s d, lookupTI (out.getD t {}).trigAnc s = some d → TrigPath sims s t d) ∧
    (∀ s t d, TrigPath sims s t d → ∃ e, lookupTI (out.getD t {}).trigAnc s = some e ∧ TI.le e d) := by
  obtain ⟨st0, st, hi, hl, hrows⟩ := cta_rows h
  obtain ⟨hinv, hempty⟩ := ancLoop_inv hS hR hU _ _ _ _ (ancInit_inv hS hR hU hi) hl
  constructor
  · intro t ht s d hd
    rw [hrows t ht] at hd
    exact hinv.real t s d hd
  · intro s t d hp
    have ht : t < sims.length := by
      cases hp with
      | edge he => exact hR _ _ he
      | snoc _ he => exact hR _ _ he
    rw [hrows t ht]
    exact stored_le_trigPath hinv.edge (fun x => hinv.closed x (by rw [hempty]; simp)) hp

/-- a trigger connection in front of a trigger path is a trigger path; its delay is the connection's plus the path's -/
theorem trigPath_cons {sims : List SimCfg} (hS : ShapedT sims) (hW : ∀ s tr, tr ∈ (sims.getD s {}).triggers → tr.2.2.cutoff ≤ tr.2.2.pre)
    {p : Sid} {tr : Port × Sid × TI} (htr : tr ∈ (sims.getD p {}).triggers) {q : Sid} {bd : TI} (h : TrigPath sims tr.2.1 q bd) :
    TrigPath sims p q (TI.add tr.2.2 bd) := by
  induction h with
  | edge he => exact TrigPath.snoc (TrigPath.edge htr) he
  | @snoc m dm tr' hpath he ih =>
    have hc : tr'.2.2.cutoff ≤ dm.tiers.length := by
      rw [(trigPath_shape hS hpath).2, ← (hS _ _ he).1]
      exact hW _ _ he
    rw [← TI.add_assoc tr.2.2 dm tr'.2.2 hc]
    exact TrigPath.snoc ih he

/-- the two closure hypotheses of the scheduler theorems (`WFCfg.direct`, `WFCfg.trans`) hold for the computed table -/
theorem anc_direct_trans (sims : List SimCfg) (orc : List Nat) (hS : ShapedT sims) (hR : TrigRange sims) (hU : UniformT sims)
    (hW : ∀ s tr, tr ∈ (sims.getD s {}).triggers → tr.2.2.cutoff ≤ tr.2.2.pre)
    {out : List SimCfg} (h : cacheTriggeringAncestors sims orc = .ok out) :
    (∀ p tr, tr ∈ (sims.getD p {}).triggers → ∃ ad ∈ (out.getD tr.2.1 {}).trigAnc, ad.1 = p ∧ TI.le ad.2 tr.2.2) ∧
    (∀ p tr, tr ∈ (sims.getD p {}).triggers → ∀ q, q < sims.length → ∀ bd, lookupTI (out.getD q {}).trigAnc tr.2.1 = some bd →
      ∃ ad ∈ (out.getD q {}).trigAnc, ad.1 = p ∧ TI.le ad.2 (TI.add tr.2.2 bd)) := by
  obtain ⟨hreal, hcomp⟩ := anc_table_minimum sims orc hS hR hU h
  constructor
  · intro p tr htr
    obtain ⟨e, he, hle⟩ := hcomp p tr.2.1 tr.2.2 (TrigPath.edge htr)
    exact ⟨(p, e), lookupTI_mem he, rfl, hle⟩
  · intro p tr htr q hq bd hbd
    have hpath := trigPath_cons hS hW htr (hreal q hq tr.2.1 bd hbd)
    obtain ⟨e, he, hle⟩ := hcomp p q _ hpath
    exact ⟨(p, e), lookupTI_mem he, rfl, hle⟩

/-! ### executable hypothesis checks -/

theorem mem_triggers_lt {sims : List SimCfg} {s : Sid} {tr : Port × Sid × TI} (h : tr ∈ (sims.getD s {}).triggers) : s < sims.length := by
  apply Classical.byContradiction
  intro hn
  rw [triggers_nil_of_ge (Nat.le_of_not_lt hn)] at h
  cases h

theorem shapedTB_sound {sims : List SimCfg} (h : shapedTB sims = true) :
    ShapedT sims ∧ TrigRange sims ∧ ∀ s tr, tr ∈ (sims.getD s {}).triggers → tr.2.2.cutoff ≤ tr.2.2.pre := by
  have key : ∀ s tr, tr ∈ (sims.getD s {}).triggers →
      (tr.2.2.pre = (sims.getD s {}).depth ∧ tr.2.2.tiers.length = (sims.getD tr.2.1 {}).depth) ∧ tr.2.2.cutoff ≤ tr.2.2.pre ∧ tr.2.1 < sims.length := by
    intro s tr htr
    unfold shapedTB at h
    rw [List.all_eq_true] at h
    have := h s (List.mem_range.mpr (mem_triggers_lt htr))
    rw [List.all_eq_true] at this
    have := this tr htr
    simp only [Bool.and_eq_true, beq_iff_eq, decide_eq_true_eq] at this
    exact ⟨⟨this.1.1.1, this.1.1.2⟩, this.1.2, this.2⟩
  exact ⟨fun s tr htr => (key s tr htr).1, fun s tr htr => (key s tr htr).2.2, fun s tr htr => (key s tr htr).2.1⟩

theorem trigPath_cutoff_const {sims : List SimCfg} {c : Nat} (hc : ∀ s tr, tr ∈ (sims.getD s {}).triggers → tr.2.2.cutoff = c)
    {s t : Sid} {d : TI} (h : TrigPath sims s t d) : d.cutoff = c := by
  induction h with
  | edge he => exact hc _ _ he
  | snoc _ he ih => simp [TI.add, hc _ _ he, ih]

theorem constCutoffTB_sound {sims : List SimCfg} (h : constCutoffTB sims = true) : UniformT sims := by
  unfold constCutoffTB at h
  simp only at h
  have hc : ∀ s tr, tr ∈ (sims.getD s {}).triggers → tr.2.2.cutoff = (((sims.flatMap (·.triggers)).head?).map (·.2.2.cutoff)).getD 1 := by
    intro s tr htr
    rw [List.all_eq_true] at h
    have := h s (List.mem_range.mpr (mem_triggers_lt htr))
    rw [List.all_eq_true] at this
    simpa using this tr htr
  exact fun _ _ _ _ h1 h2 => (trigPath_cutoff_const hc h1).trans (trigPath_cutoff_const hc h2).symm

end Mosaik
