/-
Completeness of `ensure_no_dataflow_cycles` (C06, "no false acceptance").

When the worklist empties without an assertion, the table is closed under relaxation
(`Closed`: for every connection src → mid and every stored delay mid → dest the stored delay
src → dest is at most their sum), whatever the pop order was.  By induction on a path the stored delay
is then at most the accumulated delay of *every* real path (`stored_le_path`), so a cycle whose
delays sum to all-zero forces an all-zero stored delay and the final scan rejects (`accept_complete`).

Hypotheses (all three are about the connection tables, none about the run):
* `Shaped`   the delay of a connection src → dest can be added to times of src's depth and yields dest's depth
             (what `connect_interval` builds)
* `NodupKeys` `input_delays` is a dict: one delay per predecessor
* `Uniform`  all paths between the same two simulators have the same cutoff.  This is exactly the complement of
             finding D7-reentrant-paths: with two cutoffs the delays are not totally ordered, `update_min`
             compares incomparable values and the result (and termination) depends on the pop order.
-/
import MosaikModel.Closure
import MosaikProofs.Lemmas.Tiered
import MosaikProofs.Closure.Sound
import MosaikProofs.Properties.C08
namespace Mosaik
open TI

/-! ### the table -/

theorem Descs.get?_set_same (d : Descs) (s t : Sid) (v : TI × List Sid) : (d.set s t v).get? s t = some v := by
  unfold Descs.set
  split
  · rename_i hany
    unfold Descs.get?
    induction d with
    | nil => simp at hany
    | cons e d ih =>
      simp only [List.map_cons, List.find?_cons]
      by_cases he : e.1 == (s, t)
      · simp [he]
      · simp only [he, Bool.false_eq_true, if_false]
        have : d.any (·.1 == (s, t)) = true := by
          simp only [List.any_cons, Bool.or_eq_true] at hany
          rcases hany with h | h
          · exact absurd h he
          · exact h
        simpa [he] using ih this
  · rename_i hany
    unfold Descs.get?
    have hnone : d.find? (·.1 == (s, t)) = none := by
      rw [List.find?_eq_none]
      intro x hx hk
      exact hany (List.any_eq_true.mpr ⟨x, hx, hk⟩)
    simp [List.find?_append, hnone]

theorem Descs.find?_map_ne (d : Descs) (s t s' t' : Sid) (v : TI × List Sid) (h : (s', t') ≠ (s, t)) :
    (d.map (fun e => if e.1 == (s, t) then ((s, t), v) else e)).find? (·.1 == (s', t')) = d.find? (·.1 == (s', t')) := by
  have hne2 : ¬ (((s, t) : Sid × Sid) == (s', t')) = true := by
    simp only [beq_iff_eq]; exact fun e' => h e'.symm
  induction d with
  | nil => rfl
  | cons e d ih =>
    simp only [List.map_cons, List.find?_cons]
    by_cases he : e.1 == (s, t)
    · have hk : e.1 = (s, t) := by simpa using he
      have hne : ¬ (e.1 == (s', t')) = true := by
        simp only [beq_iff_eq, hk]; exact fun e' => h e'.symm
      simp only [he, if_true, hne, hne2]
      exact ih
    · simp only [he, Bool.false_eq_true, if_false]
      by_cases hk : e.1 == (s', t')
      · simp [hk]
      · simp only [hk]
        exact ih

theorem Descs.get?_set_ne (d : Descs) (s t s' t' : Sid) (v : TI × List Sid) (h : (s', t') ≠ (s, t)) :
    (d.set s t v).get? s' t' = d.get? s' t' := by
  unfold Descs.set
  split
  · unfold Descs.get?
    rw [Descs.find?_map_ne d s t s' t' v h]
  · unfold Descs.get?
    rw [List.find?_append]
    have : ([((s, t), v)] : Descs).find? (·.1 == (s', t')) = none := by
      simp only [List.find?_cons, List.find?_nil]
      have : ¬ (((s, t) : Sid × Sid) == (s', t')) = true := by
        simp only [beq_iff_eq]; exact fun e' => h e'.symm
      simp [this]
    rw [this]
    simp

theorem Descs.mem_row_of_get? {d : Descs} {s t : Sid} {v : TI × List Sid} (h : d.get? s t = some v) :
    (t, v.1, v.2) ∈ d.row s := by
  have hm := Descs.get?_mem h
  unfold Descs.row
  rw [List.mem_map]
  exact ⟨((s, t), v), List.mem_filter.mpr ⟨hm, by simp⟩, rfl⟩

/-! ### hypotheses on the connection tables -/

/-- the delay of a connection src → dest fits the two simulators' depths -/
def Shaped (sims : List SimCfg) : Prop :=
  ∀ t s d, (s, d) ∈ (sims.getD t {}).inputDelays → d.pre = (sims.getD s {}).depth ∧ d.tiers.length = (sims.getD t {}).depth

/-- `input_delays` is a dict -/
def NodupKeys (sims : List SimCfg) : Prop := ∀ t, ((sims.getD t {}).inputDelays.map (·.1)).Nodup

/-- all paths between two simulators have the same cutoff (the complement of finding D7) -/
def Uniform (sims : List SimCfg) : Prop :=
  ∀ s t p d p' d', RealPath sims s t p d → RealPath sims s t p' d' → d.cutoff = d'.cutoff

theorem realPath_shape {sims : List SimCfg} (hS : Shaped sims) {s t : Sid} {p : List Sid} {d : TI}
    (h : RealPath sims s t p d) : d.pre = (sims.getD s {}).depth ∧ d.tiers.length = (sims.getD t {}).depth := by
  induction h with
  | edge he => exact hS _ _ _ he
  | cons he _ ih => exact ⟨(hS _ _ _ he).1, by simp [TI.add, TI.addTiers, ih.2]⟩

theorem realPath_sameShape {sims : List SimCfg} (hS : Shaped sims) (hU : Uniform sims) {s t : Sid} {p p' : List Sid} {d d' : TI}
    (h : RealPath sims s t p d) (h' : RealPath sims s t p' d') : C08.SameShape d d' := by
  have a := realPath_shape hS h
  have b := realPath_shape hS h'
  exact ⟨a.2.trans b.2.symm, a.1.trans b.1.symm, hU _ _ _ _ _ _ h h'⟩

theorem realPath_dest_lt {sims : List SimCfg} {s t : Sid} {p : List Sid} {d : TI} (h : RealPath sims s t p d) : t < sims.length := by
  induction h with
  | @edge s t d he =>
    apply Classical.byContradiction
    intro hn
    have : sims.getD t {} = {} := by
      rw [List.getD_eq_getElem?_getD, List.getElem?_eq_none (Nat.le_of_not_lt hn)]; rfl
    rw [this] at he
    cases he
  | cons _ _ ih => exact ih

/-- for delays of one shape `<=` is the lexicographic order -/
theorem le?_sameShape {a b : TI} (h : C08.SameShape a b) : TI.le? a b = some (decide (a.tiers ≤ b.tiers)) := by
  unfold TI.le?
  rw [C08.lt_same_shape h]
  simp only [Option.map_some, Option.some.injEq]
  by_cases hlt : a.tiers < b.tiers
  · simp [hlt, TT.le_of_lt hlt]
  · by_cases heq : a = b
    · subst heq; simp [TT.le_refl]
    · have hne : ¬ a.tiers ≤ b.tiers := by
        intro hle
        rcases TT.le_iff_lt_or_eq.mp hle with h1 | h1
        · exact hlt h1
        · apply heq
          obtain ⟨hl, hp, hc⟩ := h
          cases a; cases b; simp_all
      simp [hlt, heq, hne]

/-- what `update_min` decides on two delays of one shape -/
theorem updateMin?_keep {a b : TI} (h : C08.SameShape a b) (hu : TI.updateMin? (some a) b = some none) : TI.le a b := by
  simp only [TI.updateMin?] at hu
  rw [le?_sameShape h] at hu
  simp only [Option.map_some, Option.some.injEq] at hu
  split at hu
  · rename_i hle
    exact ⟨h.2.1, h.2.2, h.1, by simpa using hle⟩
  · cases hu

theorem updateMin?_replace {a b v : TI} (h : C08.SameShape a b) (hu : TI.updateMin? (some a) b = some (some v)) : TI.le b a := by
  simp only [TI.updateMin?] at hu
  rw [le?_sameShape h] at hu
  simp only [Option.map_some, Option.some.injEq] at hu
  split at hu
  · cases hu
  · rename_i hle
    have : ¬ a.tiers ≤ b.tiers := by simpa using hle
    exact ⟨h.2.1.symm, h.2.2.symm, h.1.symm, TT.le_of_lt (TT.not_le.mp this)⟩

/-! ### one relaxation, as cases -/

/-- the body of the two inner loops for one connection `sd` into `mid` and one row entry `e` -/
def relaxOne (mid : Sid) (sd : Sid × TI) (st : CycState) (e : Sid × TI × List Sid) : Except ClosErr CycState :=
  match st.descs.get? mid e.1 with
  | none => .ok st
  | some (midToDest, path) =>
    match TI.add? sd.2 midToDest with
    | none => .error .assertion
    | some s2d =>
      match TI.updateMin? ((st.descs.get? sd.1 e.1).map (·.1)) s2d with
      | none => .error .assertion
      | some none => .ok st
      | some (some v) => .ok { descs := st.descs.set sd.1 e.1 (v, sd.1 :: path), dirty := insertDirty st.dirty sd.1 }

theorem cycRelax_eq (sims : List SimCfg) (st : CycState) (mid : Sid) :
    cycRelax sims st mid =
      (sims.getD mid {}).inputDelays.foldlM (fun st sd => (st.descs.row mid).foldlM (relaxOne mid sd) st) st := rfl

/-- closedness of the table at one connection `s → mid` (delay `w`) for one destination -/
def DestClosed (d : Descs) (mid s : Sid) (w : TI) (dest : Sid) : Prop :=
  ∀ m, d.get? mid dest = some m → ∃ e, d.get? s dest = some e ∧ TI.le e.1 (TI.add w m.1)

def PairClosed (d : Descs) (mid : Sid) (sd : Sid × TI) : Prop := ∀ dest, DestClosed d mid sd.1 sd.2 dest

def ClosedAt (sims : List SimCfg) (d : Descs) (mid : Sid) : Prop :=
  ∀ sd, sd ∈ (sims.getD mid {}).inputDelays → PairClosed d mid sd

/-- every connection is in the table, with at most its own delay -/
def EdgeLe (sims : List SimCfg) (d : Descs) : Prop :=
  ∀ t s w, (s, w) ∈ (sims.getD t {}).inputDelays → ∃ e, d.get? s t = some e ∧ TI.le e.1 w

/-- entries only appear or decrease -/
def Below (d' d : Descs) : Prop := ∀ s t e, d.get? s t = some e → ∃ e', d'.get? s t = some e' ∧ TI.le e'.1 e.1

theorem Below.refl (d : Descs) : Below d d := fun _ _ e h => ⟨e, h, TI.le_refl _⟩

theorem Below.trans {a b c : Descs} (h1 : Below a b) (h2 : Below b c) : Below a c := by
  intro s t e he
  obtain ⟨e1, h1e, hle1⟩ := h2 s t e he
  obtain ⟨e2, h2e, hle2⟩ := h1 s t e1 h1e
  exact ⟨e2, h2e, TI.le_trans hle2 hle1⟩

theorem below_set {d : Descs} {s t : Sid} {v : TI × List Sid} (h : ∀ a, d.get? s t = some a → TI.le v.1 a.1) :
    Below (d.set s t v) d := by
  intro s' t' e he
  by_cases hk : (s', t') = (s, t)
  · cases hk
    exact ⟨v, Descs.get?_set_same _ _ _ _, h e he⟩
  · exact ⟨e, by rw [Descs.get?_set_ne _ _ _ _ _ _ hk]; exact he, TI.le_refl _⟩

/-- the two things one inner iteration can do: nothing (and then the table is closed at this connection and
destination), or store the smaller sum and mark the source dirty -/
theorem relaxOne_cases {sims : List SimCfg} (hS : Shaped sims) (hU : Uniform sims) {mid : Sid} {sd : Sid × TI}
    (hsd : sd ∈ (sims.getD mid {}).inputDelays) {c c' : CycState} {e : Sid × TI × List Sid}
    (hreal : AllReal sims c.descs) (hg : relaxOne mid sd c e = .ok c') :
    (c' = c ∧ DestClosed c.descs mid sd.1 sd.2 e.1) ∨
    (∃ m path, c.descs.get? mid e.1 = some (m, path) ∧
      c' = { descs := c.descs.set sd.1 e.1 (TI.add sd.2 m, sd.1 :: path), dirty := insertDirty c.dirty sd.1 } ∧
      RealPath sims sd.1 e.1 (sd.1 :: path) (TI.add sd.2 m) ∧
      ∀ a, c.descs.get? sd.1 e.1 = some a → TI.le (TI.add sd.2 m) a.1) := by
  unfold relaxOne at hg
  cases hget : c.descs.get? mid e.1 with
  | none =>
    rw [hget] at hg
    cases hg
    left
    exact ⟨rfl, fun m hm => by rw [hget] at hm; cases hm⟩
  | some v =>
    obtain ⟨m, path⟩ := v
    rw [hget] at hg
    simp only at hg
    cases hadd : TI.add? sd.2 m with
    | none => rw [hadd] at hg; cases hg
    | some s2d =>
      rw [hadd] at hg
      simp only at hg
      have hs : s2d = TI.add sd.2 m := add?_value hadd
      subst hs
      have hmreal := hreal _ (Descs.get?_mem hget)
      simp only at hmreal
      have hnew : RealPath sims sd.1 e.1 (sd.1 :: path) (TI.add sd.2 m) := RealPath.cons hsd hmreal
      cases hold : c.descs.get? sd.1 e.1 with
      | none =>
        rw [hold] at hg
        simp only [Option.map_none, TI.updateMin?] at hg
        cases hg
        right
        exact ⟨m, path, rfl, rfl, hnew, fun a ha => by cases ha⟩
      | some a =>
        rw [hold] at hg
        simp only [Option.map_some] at hg
        have hareal := hreal _ (Descs.get?_mem hold)
        simp only at hareal
        have hshape : C08.SameShape a.1 (TI.add sd.2 m) := realPath_sameShape hS hU hareal hnew
        cases hup : TI.updateMin? (some a.1) (TI.add sd.2 m) with
        | none => rw [hup] at hg; cases hg
        | some r =>
          rw [hup] at hg
          cases r with
          | none =>
            cases hg
            left
            refine ⟨rfl, fun m' hm' => ?_⟩
            rw [hget] at hm'
            cases hm'
            exact ⟨a, hold, updateMin?_keep hshape hup⟩
          | some v =>
            simp only at hg
            cases hg
            have hv : v = TI.add sd.2 m := updateMin?_value hup
            subst hv
            right
            refine ⟨m, path, rfl, rfl, hnew, fun a' ha' => ?_⟩
            cases ha'
            exact updateMin?_replace hshape hup

/-! ### invariants of one relaxation -/

theorem mem_insertDirty {l : List Sid} {s x : Sid} : x ∈ insertDirty l s ↔ x ∈ l ∨ x = s := by
  unfold insertDirty
  split
  · rename_i h
    have hs : s ∈ l := by simpa using h
    constructor
    · exact Or.inl
    · rintro (h | h)
      · exact h
      · exact h ▸ hs
  · simp

theorem destClosed_mono {d d' : Descs} {mid s : Sid} {w : TI} {dest : Sid} (hrow : ∀ t, d'.get? mid t = d.get? mid t)
    (hb : Below d' d) (h : DestClosed d mid s w dest) : DestClosed d' mid s w dest := by
  intro m hm
  rw [hrow] at hm
  obtain ⟨e, he, hle⟩ := h m hm
  obtain ⟨e', he', hle'⟩ := hb _ _ _ he
  exact ⟨e', he', TI.le_trans hle' hle⟩

theorem edgeLe_below {sims : List SimCfg} {d d' : Descs} (hb : Below d' d) (h : EdgeLe sims d) : EdgeLe sims d' := by
  intro t s w hw
  obtain ⟨e, he, hle⟩ := h t s w hw
  obtain ⟨e', he', hle'⟩ := hb _ _ _ he
  exact ⟨e', he', TI.le_trans hle' hle⟩

/-- what holds while the connections into the popped simulator `mid` are relaxed; `d0` is the table and `dirty0` the
worklist when the relaxation started -/
structure RInv (sims : List SimCfg) (mid : Sid) (d0 : Descs) (dirty0 : List Sid) (c : CycState) : Prop where
  real : AllReal sims c.descs
  edge : EdgeLe sims c.descs
  mono : ∀ x, x ∈ dirty0 → x ∈ c.dirty
  closed : ∀ x, x ∉ c.dirty → x ≠ mid → ClosedAt sims c.descs x
  row : mid ∉ c.dirty → ∀ dest, c.descs.get? mid dest = d0.get? mid dest

/-- storing a smaller delay for (src, dest) and marking src dirty keeps the invariant -/
theorem rinv_set {sims : List SimCfg} {mid : Sid} {d0 : Descs} {dirty0 : List Sid} {c : CycState} (h : RInv sims mid d0 dirty0 c)
    {src dest : Sid} {v : TI × List Sid} (hv : RealPath sims src dest v.2 v.1)
    (hle : ∀ a, c.descs.get? src dest = some a → TI.le v.1 a.1) :
    RInv sims mid d0 dirty0 { descs := c.descs.set src dest v, dirty := insertDirty c.dirty src } := by
  have hb : Below (c.descs.set src dest v) c.descs := below_set hle
  refine ⟨allReal_set h.real hv, edgeLe_below hb h.edge, fun x hx => mem_insertDirty.mpr (Or.inl (h.mono x hx)), ?_, ?_⟩
  · intro x hx hxm sd hsd dest'
    simp only [mem_insertDirty, not_or] at hx
    have hrow : ∀ t, (c.descs.set src dest v).get? x t = c.descs.get? x t := fun t =>
      Descs.get?_set_ne _ _ _ _ _ _ (by intro e; cases e; exact hx.2 rfl)
    exact destClosed_mono hrow hb (h.closed x hx.1 hxm sd hsd dest')
  · intro hm dest'
    simp only [mem_insertDirty, not_or] at hm
    rw [Descs.get?_set_ne _ _ _ _ _ _ (by intro e; cases e; exact hm.2 rfl)]
    exact h.row hm.1 dest'

/-- invariants of a monadic fold that can fail, with the list of processed elements -/
theorem foldlM_inv_done {α β ε : Type} (P : List α → β → Prop) (f : β → α → Except ε β) :
    ∀ (l done : List α) (b0 b : β), P done b0 →
      (∀ done b a b', a ∈ l → P done b → f b a = .ok b' → P (a :: done) b') →
      l.foldlM f b0 = .ok b → P (l.reverse ++ done) b
  | [], done, b0, b, h0, _, h => by
    simp only [List.foldlM_nil] at h
    cases h; simpa using h0
  | a :: l, done, b0, b, h0, hstep, h => by
    simp only [List.foldlM_cons] at h
    cases hf : f b0 a with
    | error e => rw [hf] at h; cases h
    | ok b1 =>
      rw [hf] at h
      have := foldlM_inv_done P f l (a :: done) b1 b (hstep done b0 a b1 List.mem_cons_self h0 hf)
        (fun d b a' b' ha' => hstep d b a' b' (List.mem_cons_of_mem _ ha')) h
      simpa [List.append_assoc] using this

end Mosaik
