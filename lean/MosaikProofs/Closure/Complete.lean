/-
Completeness of `ensure_no_dataflow_cycles` (C06, "no false acceptance").

When the worklist empties without an assertion, the table is closed under relaxation
(`Closed`: for every connection src → mid and every stored delay mid → dest the stored delay
src → dest is at most their sum), whatever the pop order was.  By induction on a path the stored delay
is then at most the accumulated delay of *every* real path (`stored_le_path`), so a cycle whose
delays sum to all-zero forces an all-zero stored delay and the final scan rejects (`accept_complete`).

Hypotheses (all three are about the connection tables, none about the run):
* `Shaped`   the delay of a connection src → dest can be added to times of src's depth and yields dest's depth
             (what `connect_interval` builds)
* `NodupKeys` `input_delays` is a dict: one delay per predecessor
* `Uniform`  all paths between the same two simulators have the same cutoff.  This is exactly the complement of
             finding D7-reentrant-paths: with two cutoffs the delays are not totally ordered, `update_min`
             compares incomparable values and the result (and termination) depends on the pop order.
-/
import MosaikModel.Closure
import MosaikProofs.Lemmas.Tiered
import MosaikProofs.Closure.Sound
import MosaikProofs.Properties.C08
namespace Mosaik
open TI

/-! ### the table -/

theorem Descs.get?_set_same (d : Descs) (s t : Sid) (v : TI × List Sid) : (d.set s t v).get? s t = some v := by
  unfold Descs.set
  split
  · rename_i hany
    unfold Descs.get?
    induction d with
    | nil => simp at hany
    | cons e d ih =>
      simp only [List.map_cons, List.find?_cons]
      by_cases he : e.1 == (s, t)
      · simp [he]
      · simp only [he, Bool.false_eq_true, if_false]
        have : d.any (·.1 == (s, t)) = true := by
          simp only [List.any_cons, Bool.or_eq_true] at hany
          rcases hany with h | h
          · exact absurd h he
          · exact h
        simpa [he] using ih this
  · rename_i hany
    unfold Descs.get?
    have hnone : d.find? (·.1 == (s, t)) = none := by
      rw [List.find?_eq_none]
      intro x hx hk
      exact hany (List.any_eq_true.mpr ⟨x, hx, hk⟩)
    simp [List.find?_append, hnone]

theorem Descs.find?_map_ne (d : Descs) (s t s' t' : Sid) (v : TI × List Sid) (h : (s', t') ≠ (s, t)) :
    (d.map (fun e => if e.1 == (s, t) then ((s, t), v) else e)).find? (·.1 == (s', t')) = d.find? (·.1 == (s', t')) := by
  have hne2 : ¬ (((s, t) : Sid × Sid) == (s', t')) = true := by
    simp only [beq_iff_eq]; exact fun e' => h e'.symm
  induction d with
  | nil => rfl
  | cons e d ih =>
    simp only [List.map_cons, List.find?_cons]
    by_cases he : e.1 == (s, t)
    · have hk : e.1 = (s, t) := by simpa using he
      have hne : ¬ (e.1 == (s', t')) = true := by
        simp only [beq_iff_eq, hk]; exact fun e' => h e'.symm
      simp only [he, if_true, hne, hne2]
      exact ih
    · simp only [he, Bool.false_eq_true, if_false]
      by_cases hk : e.1 == (s', t')
      · simp [hk]
      · simp only [hk]
        exact ih

theorem Descs.get?_set_ne (d : Descs) (s t s' t' : Sid) (v : TI × List Sid) (h : (s', t') ≠ (s, t)) :
    (d.set s t v).get? s' t' = d.get? s' t' := by
  unfold Descs.set
  split
  · unfold Descs.get?
    rw [Descs.find?_map_ne d s t s' t' v h]
  · unfold Descs.get?
    rw [List.find?_append]
    have : ([((s, t), v)] : Descs).find? (·.1 == (s', t')) = none := by
      simp only [List.find?_cons, List.find?_nil]
      have : ¬ (((s, t) : Sid × Sid) == (s', t')) = true := by
        simp only [beq_iff_eq]; exact fun e' => h e'.symm
      simp [this]
    rw [this]
    simp

theorem Descs.mem_row_of_get? {d : Descs} {s t : Sid} {v : TI × List Sid} (h : d.get? s t = some v) :
    (t, v.1, v.2) ∈ d.row s := by
  have hm := Descs.get?_mem h
  unfold Descs.row
  rw [List.mem_map]
  exact ⟨((s, t), v), List.mem_filter.mpr ⟨hm, by simp⟩, rfl⟩

/-! ### hypotheses on the connection tables -/

/-- the delay of a connection src → dest fits the two simulators' depths -/
def Shaped (sims : List SimCfg) : Prop :=
  ∀ t s d, (s, d) ∈ (sims.getD t {}).inputDelays → d.pre = (sims.getD s {}).depth ∧ d.tiers.length = (sims.getD t {}).depth

/-- `input_delays` is a dict -/
def NodupKeys (sims : List SimCfg) : Prop := ∀ t, ((sims.getD t {}).inputDelays.map (·.1)).Nodup

/-- all paths between two simulators have the same cutoff (the complement of finding D7) -/
def Uniform (sims : List SimCfg) : Prop :=
  ∀ s t p d p' d', RealPath sims s t p d → RealPath sims s t p' d' → d.cutoff = d'.cutoff

theorem realPath_shape {sims : List SimCfg} (hS : Shaped sims) {s t : Sid} {p : List Sid} {d : TI}
    (h : RealPath sims s t p d) : d.pre = (sims.getD s {}).depth ∧ d.tiers.length = (sims.getD t {}).depth := by
  induction h with
  | edge he => exact hS _ _ _ he
  | cons he _ ih => exact ⟨(hS _ _ _ he).1, by simp [TI.add, TI.addTiers, ih.2]⟩

theorem realPath_sameShape {sims : List SimCfg} (hS : Shaped sims) (hU : Uniform sims) {s t : Sid} {p p' : List Sid} {d d' : TI}
    (h : RealPath sims s t p d) (h' : RealPath sims s t p' d') : C08.SameShape d d' := by
  have a := realPath_shape hS h
  have b := realPath_shape hS h'
  exact ⟨a.2.trans b.2.symm, a.1.trans b.1.symm, hU _ _ _ _ _ _ h h'⟩

theorem realPath_dest_lt {sims : List SimCfg} {s t : Sid} {p : List Sid} {d : TI} (h : RealPath sims s t p d) : t < sims.length := by
  induction h with
  | @edge s t d he =>
    apply Classical.byContradiction
    intro hn
    have : sims.getD t {} = {} := by
      rw [List.getD_eq_getElem?_getD, List.getElem?_eq_none (Nat.le_of_not_lt hn)]; rfl
    rw [this] at he
    cases he
  | cons _ _ ih => exact ih

/-- for delays of one shape `<=` is the lexicographic order -/
theorem le?_sameShape {a b : TI} (h : C08.SameShape a b) : TI.le? a b = some (decide (a.tiers ≤ b.tiers)) := by
  unfold TI.le?
  rw [C08.lt_same_shape h]
  simp only [Option.map_some, Option.some.injEq]
  by_cases hlt : a.tiers < b.tiers
  · simp [hlt, TT.le_of_lt hlt]
  · by_cases heq : a = b
    · subst heq; simp [TT.le_refl]
    · have hne : ¬ a.tiers ≤ b.tiers := by
        intro hle
        rcases TT.le_iff_lt_or_eq.mp hle with h1 | h1
        · exact hlt h1
        · apply heq
          obtain ⟨hl, hp, hc⟩ := h
          cases a; cases b; simp_all
      simp [hlt, heq, hne]

/-- what `update_min` decides on two delays of one shape -/
theorem updateMin?_keep {a b : TI} (h : C08.SameShape a b) (hu : TI.updateMin? (some a) b = some none) : TI.le a b := by
  simp only [TI.updateMin?] at hu
  rw [le?_sameShape h] at hu
  simp only [Option.map_some, Option.some.injEq] at hu
  split at hu
  · rename_i hle
    exact ⟨h.2.1, h.2.2, h.1, by simpa using hle⟩
  · cases hu

theorem updateMin?_replace {a b v : TI} (h : C08.SameShape a b) (hu : TI.updateMin? (some a) b = some (some v)) : TI.le b a := by
  simp only [TI.updateMin?] at hu
  rw [le?_sameShape h] at hu
  simp only [Option.map_some, Option.some.injEq] at hu
  split at hu
  · cases hu
  · rename_i hle
    have : ¬ a.tiers ≤ b.tiers := by simpa using hle
    exact ⟨h.2.1.symm, h.2.2.symm, h.1.symm, TT.le_of_lt (TT.not_le.mp this)⟩

/-- `update_min` on two delays of one shape: keep (old ≤ new) or replace (new < old), nothing else -/
theorem updateMin?_cases {a b : TI} (h : C08.SameShape a b) :
    (TI.updateMin? (some a) b = some none ∧ a.tiers ≤ b.tiers) ∨
    (TI.updateMin? (some a) b = some (some b) ∧ b.tiers < a.tiers) := by
  simp only [TI.updateMin?, le?_sameShape h, Option.map_some]
  by_cases hle : a.tiers ≤ b.tiers
  · left
    simp only [hle, decide_true, if_true, and_self]
  · right
    simp only [hle, decide_false, Bool.false_eq_true, if_false, true_and]
    exact TT.not_le.mp hle

/-! ### one relaxation, as cases -/

/-- the body of the two inner loops for one connection `sd` into `mid` and one row entry `e` -/
def relaxOne (mid : Sid) (sd : Sid × TI) (st : CycState) (e : Sid × TI × List Sid) : Except ClosErr CycState :=
  match st.descs.get? mid e.1 with
  | none => .ok st
  | some (midToDest, path) =>
    match TI.add? sd.2 midToDest with
    | none => .error .assertion
    | some s2d =>
      match TI.updateMin? ((st.descs.get? sd.1 e.1).map (·.1)) s2d with
      | none => .error .assertion
      | some none => .ok st
      | some (some v) => .ok { descs := st.descs.set sd.1 e.1 (v, sd.1 :: path), dirty := insertDirty st.dirty sd.1 }

theorem cycRelax_eq (sims : List SimCfg) (st : CycState) (mid : Sid) :
    cycRelax sims st mid =
      (sims.getD mid {}).inputDelays.foldlM (fun st sd => (st.descs.row mid).foldlM (relaxOne mid sd) st) st := rfl

/-- closedness of the table at one connection `s → mid` (delay `w`) for one destination -/
def DestClosed (d : Descs) (mid s : Sid) (w : TI) (dest : Sid) : Prop :=
  ∀ m, d.get? mid dest = some m → ∃ e, d.get? s dest = some e ∧ TI.le e.1 (TI.add w m.1)

def PairClosed (d : Descs) (mid : Sid) (sd : Sid × TI) : Prop := ∀ dest, DestClosed d mid sd.1 sd.2 dest

def ClosedAt (sims : List SimCfg) (d : Descs) (mid : Sid) : Prop :=
  ∀ sd, sd ∈ (sims.getD mid {}).inputDelays → PairClosed d mid sd

/-- every connection is in the table, with at most its own delay -/
def EdgeLe (sims : List SimCfg) (d : Descs) : Prop :=
  ∀ t s w, (s, w) ∈ (sims.getD t {}).inputDelays → ∃ e, d.get? s t = some e ∧ TI.le e.1 w

/-- entries only appear or decrease -/
def Below (d' d : Descs) : Prop := ∀ s t e, d.get? s t = some e → ∃ e', d'.get? s t = some e' ∧ TI.le e'.1 e.1

theorem Below.refl (d : Descs) : Below d d := fun _ _ e h => ⟨e, h, TI.le_refl _⟩

theorem Below.trans {a b c : Descs} (h1 : Below a b) (h2 : Below b c) : Below a c := by
  intro s t e he
  obtain ⟨e1, h1e, hle1⟩ := h2 s t e he
  obtain ⟨e2, h2e, hle2⟩ := h1 s t e1 h1e
  exact ⟨e2, h2e, TI.le_trans hle2 hle1⟩

theorem below_set {d : Descs} {s t : Sid} {v : TI × List Sid} (h : ∀ a, d.get? s t = some a → TI.le v.1 a.1) :
    Below (d.set s t v) d := by
  intro s' t' e he
  by_cases hk : (s', t') = (s, t)
  · cases hk
    exact ⟨v, Descs.get?_set_same _ _ _ _, h e he⟩
  · exact ⟨e, by rw [Descs.get?_set_ne _ _ _ _ _ _ hk]; exact he, TI.le_refl _⟩

/-- the two things one inner iteration can do: nothing (and then the table is closed at this connection and
destination), or store the smaller sum and mark the source dirty -/
theorem relaxOne_cases {sims : List SimCfg} (hS : Shaped sims) (hU : Uniform sims) {mid : Sid} {sd : Sid × TI}
    (hsd : sd ∈ (sims.getD mid {}).inputDelays) {c c' : CycState} {e : Sid × TI × List Sid}
    (hreal : AllReal sims c.descs) (hg : relaxOne mid sd c e = .ok c') :
    (c' = c ∧ DestClosed c.descs mid sd.1 sd.2 e.1) ∨
    (∃ m path, c.descs.get? mid e.1 = some (m, path) ∧
      c' = { descs := c.descs.set sd.1 e.1 (TI.add sd.2 m, sd.1 :: path), dirty := insertDirty c.dirty sd.1 } ∧
      RealPath sims sd.1 e.1 (sd.1 :: path) (TI.add sd.2 m) ∧
      ∀ a, c.descs.get? sd.1 e.1 = some a → TI.le (TI.add sd.2 m) a.1) := by
  unfold relaxOne at hg
  cases hget : c.descs.get? mid e.1 with
  | none =>
    rw [hget] at hg
    cases hg
    left
    exact ⟨rfl, fun m hm => by rw [hget] at hm; cases hm⟩
  | some v =>
    obtain ⟨m, path⟩ := v
    rw [hget] at hg
    simp only at hg
    cases hadd : TI.add? sd.2 m with
    | none => rw [hadd] at hg; cases hg
    | some s2d =>
      rw [hadd] at hg
      simp only at hg
      have hs : s2d = TI.add sd.2 m := add?_value hadd
      subst hs
      have hmreal := hreal _ (Descs.get?_mem hget)
      simp only at hmreal
      have hnew : RealPath sims sd.1 e.1 (sd.1 :: path) (TI.add sd.2 m) := RealPath.cons hsd hmreal
      cases hold : c.descs.get? sd.1 e.1 with
      | none =>
        rw [hold] at hg
        simp only [Option.map_none, TI.updateMin?] at hg
        cases hg
        right
        exact ⟨m, path, rfl, rfl, hnew, fun a ha => by cases ha⟩
      | some a =>
        rw [hold] at hg
        simp only [Option.map_some] at hg
        have hareal := hreal _ (Descs.get?_mem hold)
        simp only at hareal
        have hshape : C08.SameShape a.1 (TI.add sd.2 m) := realPath_sameShape hS hU hareal hnew
        cases hup : TI.updateMin? (some a.1) (TI.add sd.2 m) with
        | none => rw [hup] at hg; cases hg
        | some r =>
          rw [hup] at hg
          cases r with
          | none =>
            cases hg
            left
            refine ⟨rfl, fun m' hm' => ?_⟩
            rw [hget] at hm'
            cases hm'
            exact ⟨a, hold, updateMin?_keep hshape hup⟩
          | some v =>
            simp only at hg
            cases hg
            have hv : v = TI.add sd.2 m := updateMin?_value hup
            subst hv
            right
            refine ⟨m, path, rfl, rfl, hnew, fun a' ha' => ?_⟩
            cases ha'
            exact updateMin?_replace hshape hup

/-! ### invariants of one relaxation -/

theorem mem_insertDirty {l : List Sid} {s x : Sid} : x ∈ insertDirty l s ↔ x ∈ l ∨ x = s := by
  unfold insertDirty
  split
  · rename_i h
    have hs : s ∈ l := by simpa using h
    constructor
    · exact Or.inl
    · rintro (h | h)
      · exact h
      · exact h ▸ hs
  · simp

theorem destClosed_mono {d d' : Descs} {mid s : Sid} {w : TI} {dest : Sid} (hrow : ∀ t, d'.get? mid t = d.get? mid t)
    (hb : Below d' d) (h : DestClosed d mid s w dest) : DestClosed d' mid s w dest := by
  intro m hm
  rw [hrow] at hm
  obtain ⟨e, he, hle⟩ := h m hm
  obtain ⟨e', he', hle'⟩ := hb _ _ _ he
  exact ⟨e', he', TI.le_trans hle' hle⟩

theorem edgeLe_below {sims : List SimCfg} {d d' : Descs} (hb : Below d' d) (h : EdgeLe sims d) : EdgeLe sims d' := by
  intro t s w hw
  obtain ⟨e, he, hle⟩ := h t s w hw
  obtain ⟨e', he', hle'⟩ := hb _ _ _ he
  exact ⟨e', he', TI.le_trans hle' hle⟩

/-- what holds while the connections into the popped simulator `mid` are relaxed; `d0` is the table and `dirty0` the
worklist when the relaxation started -/
structure RInv (sims : List SimCfg) (mid : Sid) (d0 : Descs) (dirty0 : List Sid) (c : CycState) : Prop where
  real : AllReal sims c.descs
  edge : EdgeLe sims c.descs
  mono : ∀ x, x ∈ dirty0 → x ∈ c.dirty
  closed : ∀ x, x ∉ c.dirty → x ≠ mid → ClosedAt sims c.descs x
  row : mid ∉ c.dirty → ∀ dest, c.descs.get? mid dest = d0.get? mid dest

/-- storing a smaller delay for (src, dest) and marking src dirty keeps the invariant -/
theorem rinv_set {sims : List SimCfg} {mid : Sid} {d0 : Descs} {dirty0 : List Sid} {c : CycState} (h : RInv sims mid d0 dirty0 c)
    {src dest : Sid} {v : TI × List Sid} (hv : RealPath sims src dest v.2 v.1)
    (hle : ∀ a, c.descs.get? src dest = some a → TI.le v.1 a.1) :
    RInv sims mid d0 dirty0 { descs := c.descs.set src dest v, dirty := insertDirty c.dirty src } := by
  have hb : Below (c.descs.set src dest v) c.descs := below_set hle
  refine ⟨allReal_set h.real hv, edgeLe_below hb h.edge, fun x hx => mem_insertDirty.mpr (Or.inl (h.mono x hx)), ?_, ?_⟩
  · intro x hx hxm sd hsd dest'
    simp only [mem_insertDirty, not_or] at hx
    have hrow : ∀ t, (c.descs.set src dest v).get? x t = c.descs.get? x t := fun t =>
      Descs.get?_set_ne _ _ _ _ _ _ (by intro e; cases e; exact hx.2 rfl)
    exact destClosed_mono hrow hb (h.closed x hx.1 hxm sd hsd dest')
  · intro hm dest'
    simp only [mem_insertDirty, not_or] at hm
    rw [Descs.get?_set_ne _ _ _ _ _ _ (by intro e; cases e; exact hm.2 rfl)]
    exact h.row hm.1 dest'

/-- invariants of a monadic fold that can fail, with the list of processed elements -/
theorem foldlM_inv_done {α β ε : Type} (P : List α → β → Prop) (f : β → α → Except ε β) :
    ∀ (l done : List α) (b0 b : β), P done b0 →
      (∀ done b a b', a ∈ l → P done b → f b a = .ok b' → P (a :: done) b') →
      l.foldlM f b0 = .ok b → P (l.reverse ++ done) b
  | [], done, b0, b, h0, _, h => by
    simp only [List.foldlM_nil] at h
    cases h; simpa using h0
  | a :: l, done, b0, b, h0, hstep, h => by
    simp only [List.foldlM_cons] at h
    cases hf : f b0 a with
    | error e => rw [hf] at h; cases h
    | ok b1 =>
      rw [hf] at h
      have := foldlM_inv_done P f l (a :: done) b1 b (hstep done b0 a b1 List.mem_cons_self h0 hf)
        (fun d b a' b' ha' => hstep d b a' b' (List.mem_cons_of_mem _ ha')) h
      simpa [List.append_assoc] using this

/-- the inner loop (one connection `sd` into `mid`, all entries of `mid`'s row): afterwards the table is closed at
this connection unless `mid` became dirty again -/
theorem inner_inv {sims : List SimCfg} (hS : Shaped sims) (hU : Uniform sims) {mid : Sid} {d0 : Descs} {dirty0 : List Sid}
    {sd : Sid × TI} (hsd : sd ∈ (sims.getD mid {}).inputDelays) (doneOuter : List (Sid × TI)) {c0 c : CycState}
    (h0 : RInv sims mid d0 dirty0 c0) (hp0 : mid ∉ c0.dirty → ∀ sd' ∈ doneOuter, PairClosed c0.descs mid sd')
    (hf : (c0.descs.row mid).foldlM (relaxOne mid sd) c0 = .ok c) :
    RInv sims mid d0 dirty0 c ∧ (mid ∉ c.dirty → ∀ sd' ∈ sd :: doneOuter, PairClosed c.descs mid sd') := by
  let P : List (Sid × TI × List Sid) → CycState → Prop := fun done c =>
    RInv sims mid d0 dirty0 c ∧ (∀ x, x ∈ c0.dirty → x ∈ c.dirty) ∧
      (mid ∉ c.dirty → (∀ sd' ∈ doneOuter, PairClosed c.descs mid sd') ∧ ∀ e ∈ done, DestClosed c.descs mid sd.1 sd.2 e.1)
  have key := foldlM_inv_done P (relaxOne mid sd) (c0.descs.row mid) [] c0 c
    ⟨h0, fun _ h => h, fun hm => ⟨hp0 hm, fun e he => by cases he⟩⟩ ?_ hf
  · obtain ⟨hr, hmono, hcl⟩ := key
    refine ⟨hr, fun hm sd' hsd' => ?_⟩
    obtain ⟨hout, hdone⟩ := hcl hm
    rcases List.mem_cons.mp hsd' with rfl | hsd'
    · intro dest m hget
      have hm0 : mid ∉ c0.dirty := fun h => hm (hmono _ h)
      have hrow : c0.descs.get? mid dest = some m := by rw [h0.row hm0, ← hr.row hm]; exact hget
      have hmem := Descs.mem_row_of_get? hrow
      exact hdone _ (by simpa using hmem) m hget
    · exact hout sd' hsd'
  · intro done b e b' _ hP hg
    obtain ⟨hr, hmono, hcl⟩ := hP
    rcases relaxOne_cases hS hU hsd hr.real hg with ⟨rfl, hdc⟩ | ⟨m, path, hget, rfl, hnew, hle⟩
    · refine ⟨hr, hmono, fun hm => ?_⟩
      obtain ⟨hout, hdone⟩ := hcl hm
      refine ⟨hout, fun e' he' => ?_⟩
      rcases List.mem_cons.mp he' with rfl | he'
      · exact hdc
      · exact hdone e' he'
    · have hr' := rinv_set hr (v := (TI.add sd.2 m, sd.1 :: path)) hnew hle
      refine ⟨hr', fun x hx => mem_insertDirty.mpr (Or.inl (hmono x hx)), fun hm => ?_⟩
      simp only [mem_insertDirty, not_or] at hm
      obtain ⟨hout, hdone⟩ := hcl hm.1
      have hb : Below (b.descs.set sd.1 e.1 (TI.add sd.2 m, sd.1 :: path)) b.descs := below_set hle
      have hrow : ∀ t, (b.descs.set sd.1 e.1 (TI.add sd.2 m, sd.1 :: path)).get? mid t = b.descs.get? mid t := fun t =>
        Descs.get?_set_ne _ _ _ _ _ _ (by intro h; cases h; exact hm.2 rfl)
      refine ⟨fun sd' hsd' dest => destClosed_mono hrow hb (hout sd' hsd' dest), fun e' he' => ?_⟩
      rcases List.mem_cons.mp he' with rfl | he'
      · intro m' hm'
        rw [hrow, hget] at hm'
        cases hm'
        exact ⟨_, Descs.get?_set_same _ _ _ _, TI.le_refl _⟩
      · exact destClosed_mono hrow hb (hdone e' he')

/-- relaxing all connections into `mid`: the invariant is kept and `mid` is closed afterwards unless it is dirty again -/
theorem cycRelax_inv {sims : List SimCfg} (hS : Shaped sims) (hU : Uniform sims) {mid : Sid} {st0 st' : CycState}
    (h0 : RInv sims mid st0.descs st0.dirty st0) (hr : cycRelax sims st0 mid = .ok st') :
    RInv sims mid st0.descs st0.dirty st' ∧ (mid ∉ st'.dirty → ClosedAt sims st'.descs mid) := by
  rw [cycRelax_eq] at hr
  let P : List (Sid × TI) → CycState → Prop := fun done c =>
    RInv sims mid st0.descs st0.dirty c ∧ (mid ∉ c.dirty → ∀ sd' ∈ done, PairClosed c.descs mid sd')
  have key := foldlM_inv_done P _ (sims.getD mid {}).inputDelays [] st0 st' ⟨h0, fun _ sd' h => by cases h⟩ ?_ hr
  · obtain ⟨hrinv, hcl⟩ := key
    exact ⟨hrinv, fun hm sd hsd => hcl hm sd (by simpa using hsd)⟩
  · intro done b sd b' hsd hP hg
    exact inner_inv hS hU hsd done hP.1 hP.2 hg

/-! ### the loop -/

/-- the worklist invariant: every simulator that is not dirty is closed -/
structure LInv (sims : List SimCfg) (st : CycState) : Prop where
  real : AllReal sims st.descs
  edge : EdgeLe sims st.descs
  closed : ∀ x, x ∉ st.dirty → ClosedAt sims st.descs x

theorem popAt_spec {l : List Sid} {i : Nat} {mid : Sid} {rest : List Sid} (h : popAt l i = some (mid, rest)) :
    ∀ x, x ∈ l → x ≠ mid → x ∈ rest := by
  unfold popAt at h
  split at h
  · cases h
  · rename_i hne
    simp only [Option.some.injEq, Prod.mk.injEq] at h
    obtain ⟨hmid, hrest⟩ := h
    intro x hx hxm
    have hpos : 0 < l.length := by
      cases l with
      | nil => simp at hne
      | cons => simp
    have hj : i % l.length < l.length := Nat.mod_lt _ hpos
    rw [← hrest, List.mem_eraseIdx_iff_getElem]
    obtain ⟨k, hk, hkx⟩ := List.getElem_of_mem hx
    refine ⟨k, hk, ?_, hkx⟩
    intro hki
    apply hxm
    subst hki
    rw [← hmid, ← hkx, List.getD_eq_getElem?_getD, List.getElem?_eq_getElem hj]
    rfl

theorem popAt_none {l : List Sid} {i : Nat} (h : popAt l i = none) : l = [] := by
  unfold popAt at h
  split at h
  · rename_i he; simpa using he
  · cases h

theorem cycLoop_inv {sims : List SimCfg} (hS : Shaped sims) (hU : Uniform sims) :
    ∀ (fuel : Nat) (st st' : CycState) (orc : List Nat), LInv sims st → cycLoop sims fuel st orc = .ok st' →
      LInv sims st' ∧ st'.dirty = []
  | 0, st, st', _, h, hr => by
    unfold cycLoop at hr
    split at hr
    · rename_i he
      cases hr
      exact ⟨h, by simpa using he⟩
    · cases hr
  | fuel + 1, st, st', orc, h, hr => by
    unfold cycLoop at hr
    cases hp : popAt st.dirty (orc.headD 0) with
    | none =>
      rw [hp] at hr
      cases hr
      exact ⟨h, popAt_none hp⟩
    | some v =>
      obtain ⟨mid, rest⟩ := v
      rw [hp] at hr
      simp only at hr
      cases hrel : cycRelax sims { st with dirty := rest } mid with
      | error e => rw [hrel] at hr; cases hr
      | ok st1 =>
        rw [hrel] at hr
        have h0 : RInv sims mid st.descs rest { st with dirty := rest } :=
          ⟨h.real, h.edge, fun _ hx => hx, fun x hx hxm => h.closed x (fun hd => hx (popAt_spec hp x hd hxm)), fun _ _ => rfl⟩
        obtain ⟨hr1, hmid⟩ := cycRelax_inv hS hU (st0 := { st with dirty := rest }) h0 hrel
        refine cycLoop_inv hS hU fuel st1 st' orc.tail ⟨hr1.real, hr1.edge, fun x hx => ?_⟩ hr
        by_cases hxm : x = mid
        · subst hxm; exact hmid hx
        · exact hr1.closed x hx hxm

/-- in a closed table the stored delay is at most the accumulated delay of every real path -/
theorem stored_le_path {sims : List SimCfg} {d : Descs} (hedge : EdgeLe sims d) (hcl : ∀ x, ClosedAt sims d x)
    {s t : Sid} {p : List Sid} {dl : TI} (h : RealPath sims s t p dl) : ∃ e, d.get? s t = some e ∧ TI.le e.1 dl := by
  induction h with
  | edge he => exact hedge _ _ _ he
  | @cons s m t w dm path he _ ih =>
    obtain ⟨e, hget, hle⟩ := ih
    obtain ⟨e', hget', hle'⟩ := hcl m (s, w) he t e hget
    exact ⟨e', hget', TI.le_trans hle' (TI.add_mono_right w hle)⟩

/-! ### the initial table -/

theorem initRow_spec (dst : Sid) : ∀ (ps : List (Sid × TI)) (acc : Descs), (ps.map (·.1)).Nodup →
    (∀ pd ∈ ps, (ps.foldl (fun acc pd => acc.set pd.1 dst (pd.2, [pd.1, dst])) acc).get? pd.1 dst = some (pd.2, [pd.1, dst])) ∧
    (∀ s t, (t ≠ dst ∨ s ∉ ps.map (·.1)) →
      (ps.foldl (fun acc pd => acc.set pd.1 dst (pd.2, [pd.1, dst])) acc).get? s t = acc.get? s t)
  | [], acc, _ => ⟨fun _ h => (by cases h), fun _ _ _ => rfl⟩
  | pd :: ps, acc, hnd => by
    simp only [List.map_cons, List.nodup_cons] at hnd
    obtain ⟨ih1, ih2⟩ := initRow_spec dst ps (acc.set pd.1 dst (pd.2, [pd.1, dst])) hnd.2
    simp only [List.foldl_cons]
    constructor
    · intro pd' hpd'
      rcases List.mem_cons.mp hpd' with rfl | hpd'
      · rw [ih2 _ _ (Or.inr hnd.1)]
        exact Descs.get?_set_same _ _ _ _
      · exact ih1 pd' hpd'
    · intro s t hst
      have hst' : t ≠ dst ∨ s ∉ ps.map (·.1) := by
        rcases hst with h | h
        · exact Or.inl h
        · exact Or.inr (fun hm => h (by simp only [List.map_cons, List.mem_cons]; exact Or.inr hm))
      rw [ih2 s t hst']
      apply Descs.get?_set_ne
      intro heq
      cases heq
      rcases hst with h | h
      · exact h rfl
      · exact h (by simp)

theorem init_spec (sims : List SimCfg) (hN : NodupKeys sims) : ∀ (l : List Nat) (acc : Descs), l.Nodup →
    (∀ t ∈ l, ∀ pd ∈ (sims.getD t {}).inputDelays,
      (l.foldl (fun (acc : Descs) dst =>
        (sims.getD dst {}).inputDelays.foldl (fun acc pd => acc.set pd.1 dst (pd.2, [pd.1, dst])) acc) acc).get? pd.1 t
        = some (pd.2, [pd.1, t])) ∧
    (∀ s t, t ∉ l →
      (l.foldl (fun (acc : Descs) dst =>
        (sims.getD dst {}).inputDelays.foldl (fun acc pd => acc.set pd.1 dst (pd.2, [pd.1, dst])) acc) acc).get? s t = acc.get? s t)
  | [], acc, _ => ⟨fun _ h => (by cases h), fun _ _ _ => rfl⟩
  | dst :: l, acc, hnd => by
    simp only [List.nodup_cons] at hnd
    obtain ⟨r1, r2⟩ := initRow_spec dst (sims.getD dst {}).inputDelays acc (hN dst)
    obtain ⟨ih1, ih2⟩ := init_spec sims hN l
      ((sims.getD dst {}).inputDelays.foldl (fun acc pd => acc.set pd.1 dst (pd.2, [pd.1, dst])) acc) hnd.2
    simp only [List.foldl_cons]
    constructor
    · intro t ht pd hpd
      rcases List.mem_cons.mp ht with rfl | ht
      · rw [ih2 _ _ hnd.1]
        exact r1 pd hpd
      · exact ih1 t ht pd hpd
    · intro s t ht
      simp only [List.mem_cons, not_or] at ht
      rw [ih2 s t ht.2]
      exact r2 s t (Or.inl ht.1)

theorem inputDelays_nil_of_ge {sims : List SimCfg} {x : Sid} (h : sims.length ≤ x) : (sims.getD x {}).inputDelays = [] := by
  rw [List.getD_eq_getElem?_getD, List.getElem?_eq_none h]; rfl

theorem cycInit_inv (sims : List SimCfg) (hN : NodupKeys sims) : LInv sims (cycInit sims) := by
  refine ⟨cycInit_real sims, ?_, ?_⟩
  · intro t s w hw
    have ht : t < sims.length := by
      apply Classical.byContradiction
      intro hn
      rw [inputDelays_nil_of_ge (Nat.le_of_not_lt hn)] at hw
      cases hw
    obtain ⟨h1, _⟩ := init_spec sims hN (List.range sims.length) [] List.nodup_range
    exact ⟨_, h1 t (List.mem_range.mpr ht) (s, w) hw, TI.le_refl _⟩
  · intro x hx sd hsd
    have : sims.length ≤ x := by
      simp only [cycInit, List.mem_range] at hx
      omega
    rw [inputDelays_nil_of_ge this] at hsd
    cases hsd

/-! ### completeness -/

theorem tiers_eq_of_le_zero {a z : List Nat} (hl : a.length = z.length) (hz : ∀ i, tier z i = 0) (h : a ≤ z) : ∀ i, tier a i = 0 := by
  rcases TT.le_iff_lt_or_eq.mp h with hlt | heq
  · rw [TT.lt_iff_of_length_eq hl] at hlt
    obtain ⟨i, _, _, hi⟩ := hlt
    rw [hz i] at hi
    omega
  · rw [heq]; exact hz

/-- the final scan finds nothing in a table the emptied worklist left ⇒ no cycle of connections sums to all-zero
(for whatever fuel the loop was given) -/
theorem no_zero_cycle_of_loop {sims : List SimCfg} (hS : Shaped sims) (hN : NodupKeys sims) (hU : Uniform sims)
    {fuel : Nat} {orc : List Nat} {st : CycState} (hl : cycLoop sims fuel (cycInit sims) orc = .ok st)
    (hf : cycFind sims.length st.descs = none) : ∀ s p d, RealPath sims s s p d → d.isZero = false := by
  intro s p d hp
  obtain ⟨hinv, hempty⟩ := cycLoop_inv hS hU _ _ _ _ (cycInit_inv sims hN) hl
  obtain ⟨e, hget, hle⟩ := stored_le_path hinv.edge (fun x => hinv.closed x (by rw [hempty]; simp)) hp
  cases hz : d.isZero with
  | false => rfl
  | true =>
    exfalso
    have hzero : ∀ i, tier d.tiers i = 0 := by
      intro i
      unfold TI.isZero at hz
      rw [List.all_eq_true] at hz
      by_cases hi : i < d.tiers.length
      · rw [tier_eq_getElem hi]
        simpa using hz _ (List.getElem_mem hi)
      · exact tier_eq_zero (by omega)
    have he0 := tiers_eq_of_le_zero hle.2.2.1 hzero hle.2.2.2
    have hez : e.1.isZero = true := by
      unfold TI.isZero
      rw [List.all_eq_true]
      intro x hx
      obtain ⟨i, hi, rfl⟩ := List.getElem_of_mem hx
      have := he0 i
      rw [tier_eq_getElem hi] at this
      simpa using this
    unfold cycFind at hf
    rw [List.findSome?_eq_none_iff] at hf
    have := hf s (List.mem_range.mpr (realPath_dest_lt hp))
    rw [hget] at this
    simp [hez] at this

/-- … and what the final scan finds is a real all-zero cycle -/
theorem zero_cycle_of_loop {sims : List SimCfg} {fuel : Nat} {orc : List Nat} {st : CycState}
    (hl : cycLoop sims fuel (cycInit sims) orc = .ok st) {q : List Sid} (hf : cycFind sims.length st.descs = some q) :
    ∃ s d, s < sims.length ∧ RealPath sims s s q d ∧ d.isZero = true := by
  obtain ⟨s, d, hs, hget, hz⟩ := cycFind_some _ _ _ hf
  have hreal := cycLoop_real _ _ _ _ (cycInit_real sims) hl _ (Descs.get?_mem hget)
  exact ⟨s, d, hs, hreal, hz⟩

/-- **C06, no false acceptance.**  If `ensure_no_dataflow_cycles` accepts the scenario — for whatever pop order of the
worklist — then no cycle of connections has an all-zero accumulated delay. -/
theorem accept_complete (sims : List SimCfg) (orc : List Nat) (hS : Shaped sims) (hN : NodupKeys sims) (hU : Uniform sims)
    (h : ensureNoCycles sims orc = .ok) : ∀ s p d, RealPath sims s s p d → d.isZero = false := by
  intro s p d hp
  unfold ensureNoCycles at h
  cases hl : cycLoop sims (closureFuel sims.length) (cycInit sims) orc with
  | error e => rw [hl] at h; cases h
  | ok st =>
    rw [hl] at h
    simp only at h
    cases hf : cycFind sims.length st.descs with
    | some q => rw [hf] at h; cases h
    | none =>
      obtain ⟨hinv, hempty⟩ := cycLoop_inv hS hU _ _ _ _ (cycInit_inv sims hN) hl
      obtain ⟨e, hget, hle⟩ := stored_le_path hinv.edge (fun x => hinv.closed x (by rw [hempty]; simp)) hp
      cases hz : d.isZero with
      | false => rfl
      | true =>
        exfalso
        have hzero : ∀ i, tier d.tiers i = 0 := by
          intro i
          unfold TI.isZero at hz
          rw [List.all_eq_true] at hz
          by_cases hi : i < d.tiers.length
          · rw [tier_eq_getElem hi]
            simpa using hz _ (List.getElem_mem hi)
          · exact tier_eq_zero (by omega)
        have he0 := tiers_eq_of_le_zero hle.2.2.1 hzero hle.2.2.2
        have hez : e.1.isZero = true := by
          unfold TI.isZero
          rw [List.all_eq_true]
          intro x hx
          obtain ⟨i, hi, rfl⟩ := List.getElem_of_mem hx
          have := he0 i
          rw [tier_eq_getElem hi] at this
          simpa using this
        unfold cycFind at hf
        rw [List.findSome?_eq_none_iff] at hf
        have := hf s (List.mem_range.mpr (realPath_dest_lt hp))
        rw [hget] at this
        simp [hez] at this

/-! ### no assertion fires on uniform tables -/

theorem foldlM_ok {α β ε : Type} (P : β → Prop) (f : β → α → Except ε β) :
    ∀ (l : List α) (b0 : β), P b0 → (∀ b a, a ∈ l → P b → ∃ b', f b a = .ok b' ∧ P b') → ∃ b, l.foldlM f b0 = .ok b ∧ P b
  | [], b0, h0, _ => ⟨b0, rfl, h0⟩
  | a :: l, b0, h0, hstep => by
    obtain ⟨b1, hf, h1⟩ := hstep b0 a List.mem_cons_self h0
    obtain ⟨b, hb, hP⟩ := foldlM_ok P f l b1 h1 (fun b a' ha' => hstep b a' (List.mem_cons_of_mem _ ha'))
    exact ⟨b, by simp only [List.foldlM_cons, hf]; exact hb, hP⟩

theorem relaxOne_ok {sims : List SimCfg} (hS : Shaped sims) (hU : Uniform sims) {mid : Sid} {sd : Sid × TI}
    (hsd : sd ∈ (sims.getD mid {}).inputDelays) {c : CycState} (e : Sid × TI × List Sid) (hreal : AllReal sims c.descs) :
    ∃ c', relaxOne mid sd c e = .ok c' ∧ AllReal sims c'.descs := by
  unfold relaxOne
  cases hget : c.descs.get? mid e.1 with
  | none => exact ⟨c, rfl, hreal⟩
  | some v =>
    obtain ⟨m, path⟩ := v
    simp only
    have hmreal := hreal _ (Descs.get?_mem hget)
    simp only at hmreal
    have hadd : TI.add? sd.2 m = some (TI.add sd.2 m) := by
      unfold TI.add?
      rw [if_pos]
      rw [(hS _ _ _ hsd).2, (realPath_shape hS hmreal).1]
    rw [hadd]
    simp only
    have hnew : RealPath sims sd.1 e.1 (sd.1 :: path) (TI.add sd.2 m) := RealPath.cons hsd hmreal
    cases hold : c.descs.get? sd.1 e.1 with
    | none =>
      simp only [Option.map_none, TI.updateMin?]
      exact ⟨_, rfl, allReal_set hreal hnew⟩
    | some a =>
      simp only [Option.map_some]
      have hareal := hreal _ (Descs.get?_mem hold)
      simp only at hareal
      have hshape : C08.SameShape a.1 (TI.add sd.2 m) := realPath_sameShape hS hU hareal hnew
      simp only [TI.updateMin?, le?_sameShape hshape, Option.map_some]
      by_cases hle : a.1.tiers ≤ (TI.add sd.2 m).tiers
      · simp only [hle, decide_true, if_true]
        exact ⟨c, rfl, hreal⟩
      · simp only [hle, decide_false, Bool.false_eq_true, if_false]
        exact ⟨_, rfl, allReal_set hreal hnew⟩

theorem cycRelax_ok {sims : List SimCfg} (hS : Shaped sims) (hU : Uniform sims) (st : CycState) (mid : Sid)
    (hreal : AllReal sims st.descs) : ∃ st', cycRelax sims st mid = .ok st' ∧ AllReal sims st'.descs := by
  rw [cycRelax_eq]
  apply foldlM_ok (fun c => AllReal sims c.descs) _ _ st hreal
  intro b sd hsd hb
  apply foldlM_ok (fun c => AllReal sims c.descs) _ _ b hb
  intro c e _ hc
  exact relaxOne_ok hS hU hsd e hc

theorem cycLoop_no_assertion {sims : List SimCfg} (hS : Shaped sims) (hU : Uniform sims) :
    ∀ (fuel : Nat) (st : CycState) (orc : List Nat), AllReal sims st.descs → cycLoop sims fuel st orc ≠ .error .assertion
  | 0, st, _, _ => by
    unfold cycLoop
    split <;> simp
  | fuel + 1, st, orc, h => by
    unfold cycLoop
    cases hp : popAt st.dirty (orc.headD 0) with
    | none => simp
    | some v =>
      obtain ⟨mid, rest⟩ := v
      simp only
      obtain ⟨st1, hrel, hreal1⟩ := cycRelax_ok hS hU { st with dirty := rest } mid h
      rw [hrel]
      exact cycLoop_no_assertion hS hU fuel st1 orc.tail hreal1

/-- on well-shaped uniform tables no assert of the delay arithmetic can fire in the cycle check (they are what finding
D7 is about): the only error left is the model's own fuel bound -/
theorem no_assertion_uniform (sims : List SimCfg) (orc : List Nat) (hS : Shaped sims) (hU : Uniform sims) :
    ensureNoCycles sims orc ≠ .error .assertion := by
  unfold ensureNoCycles
  cases hl : cycLoop sims (closureFuel sims.length) (cycInit sims) orc with
  | error e =>
    simp only
    intro h
    cases h
    exact cycLoop_no_assertion hS hU _ _ _ (cycInit_real sims) hl
  | ok st =>
    simp only
    split <;> simp

/-! ### a sufficient condition for `Uniform` -/

theorem realPath_cutoff_const {sims : List SimCfg} {c : Nat} (hc : ∀ t s d, (s, d) ∈ (sims.getD t {}).inputDelays → d.cutoff = c)
    {s t : Sid} {p : List Sid} {d : TI} (h : RealPath sims s t p d) : d.cutoff = c := by
  induction h with
  | edge he => exact hc _ _ _ he
  | cons he _ ih => simp [TI.add, hc _ _ _ he, ih]

/-- all connections have the same cutoff (e.g. a scenario without groups: every cutoff is 1) -/
theorem uniform_of_const_cutoff {sims : List SimCfg} {c : Nat}
    (hc : ∀ t s d, (s, d) ∈ (sims.getD t {}).inputDelays → d.cutoff = c) : Uniform sims :=
  fun _ _ _ _ _ _ h h' => (realPath_cutoff_const hc h).trans (realPath_cutoff_const hc h').symm

/-! ### the executable hypothesis checks are sound -/

theorem mem_inputDelays_lt {sims : List SimCfg} {t : Sid} {sd : Sid × TI} (h : sd ∈ (sims.getD t {}).inputDelays) : t < sims.length := by
  apply Classical.byContradiction
  intro hn
  rw [inputDelays_nil_of_ge (Nat.le_of_not_lt hn)] at h
  cases h

theorem shapedB_sound {sims : List SimCfg} (h : shapedB sims = true) : Shaped sims := by
  intro t s d hd
  unfold shapedB at h
  rw [List.all_eq_true] at h
  have := h t (List.mem_range.mpr (mem_inputDelays_lt hd))
  rw [List.all_eq_true] at this
  have := this (s, d) hd
  simpa using this

theorem nodupKeysB_sound {sims : List SimCfg} (h : nodupKeysB sims = true) : NodupKeys sims := by
  intro t
  by_cases ht : t < sims.length
  · unfold nodupKeysB at h
    rw [List.all_eq_true] at h
    simpa using h t (List.mem_range.mpr ht)
  · rw [inputDelays_nil_of_ge (Nat.le_of_not_lt ht)]
    simp

theorem constCutoffB_sound {sims : List SimCfg} (h : constCutoffB sims = true) : Uniform sims := by
  unfold constCutoffB at h
  simp only at h
  apply uniform_of_const_cutoff (c := (((sims.flatMap (·.inputDelays)).head?).map (·.2.cutoff)).getD 1)
  intro t s d hd
  rw [List.all_eq_true] at h
  have := h t (List.mem_range.mpr (mem_inputDelays_lt hd))
  rw [List.all_eq_true] at this
  have := this (s, d) hd
  simpa using this

/-! ### the executable decision of `Uniform` is sound -/

theorem uniformB_sound {sims : List SimCfg} (h : uniformB sims = true) : Uniform sims := by
  unfold uniformB at h
  cases hp : cutTables sims with
  | mk lo hi =>
  rw [hp] at h
  simp only [Bool.and_eq_true] at h
  obtain ⟨hclosed, heq⟩ := h
  -- unpack the check
  have hE : ∀ m sd, sd ∈ (sims.getD m {}).inputDelays →
      (sd.1 < sims.length ∧ lo.get sd.1 m ≠ 0 ∧ lo.get sd.1 m ≤ sd.2.cutoff ∧ sd.2.cutoff ≤ hi.get sd.1 m) ∧
      ∀ t, t < sims.length → lo.get m t ≠ 0 →
        lo.get sd.1 t ≠ 0 ∧ lo.get sd.1 t ≤ min sd.2.cutoff (lo.get m t) ∧ min sd.2.cutoff (hi.get m t) ≤ hi.get sd.1 t := by
    intro m sd hsd
    unfold cutClosedB at hclosed
    rw [List.all_eq_true] at hclosed
    have h1 := hclosed m (List.mem_range.mpr (mem_inputDelays_lt hsd))
    rw [List.all_eq_true] at h1
    have h2 := h1 sd hsd
    simp only [Bool.and_eq_true, bne_iff_ne, ne_eq, decide_eq_true_eq, List.all_eq_true, List.mem_range, Bool.or_eq_true, beq_iff_eq] at h2
    refine ⟨⟨h2.1.1.1.1, h2.1.1.1.2, h2.1.1.2, h2.1.2⟩, fun t ht hne => ?_⟩
    rcases h2.2 t ht with h0 | h3
    · exact absurd h0 hne
    · exact ⟨h3.1.1, h3.1.2, h3.2⟩
  have hpath : ∀ {s t : Sid} {p : List Sid} {d : TI}, RealPath sims s t p d →
      s < sims.length ∧ lo.get s t ≠ 0 ∧ lo.get s t ≤ d.cutoff ∧ d.cutoff ≤ hi.get s t := by
    intro s t p d hr
    induction hr with
    | edge he => exact (hE _ _ he).1
    | @cons s m t d dm path he hrest ih =>
      obtain ⟨h1, h2, h3⟩ := (hE m (s, d) he).2 t (realPath_dest_lt hrest) ih.2.1
      simp only at h1 h2 h3
      refine ⟨(hE m (s, d) he).1.1, h1, ?_, ?_⟩
      · simp only [TI.add]
        have := ih.2.2.1
        omega
      · simp only [TI.add]
        have := ih.2.2.2
        omega
  intro s t p d p' d' h1 h2
  have a := hpath h1
  have b := hpath h2
  have ht : t < sims.length := realPath_dest_lt h1
  rw [List.all_eq_true] at heq
  have e1 := heq s (List.mem_range.mpr a.1)
  rw [List.all_eq_true] at e1
  have e2 := e1 t (List.mem_range.mpr ht)
  simp only [beq_iff_eq] at e2
  omega

end Mosaik
