/-
Completeness of `ensure_no_dataflow_cycles` (C06, "no false acceptance").

When the worklist empties without an assertion, the table is closed under relaxation
(`Closed`: for every connection src → mid and every stored delay mid → dest the stored delay
src → dest is at most their sum), whatever the pop order was.  By induction on a path the stored delay
is then at most the accumulated delay of *every* real path (`stored_le_path`), so a cycle whose
delays sum to all-zero forces an all-zero stored delay and the final scan rejects (`accept_complete`).

Hypotheses (all three are about the connection tables, none about the run):
* `Shaped`   the delay of a connection src → dest can be added to times of src's depth and yields dest's depth
             (what `connect_interval` builds)
* `NodupKeys` `input_delays` is a dict: one delay per predecessor
* `Uniform`  all paths between the same two simulators have the same cutoff.  This is exactly the complement of
             finding D7-reentrant-paths: with two cutoffs the delays are not totally ordered, `update_min`
             compares incomparable values and the result (and termination) depends on the pop order.
-/
import MosaikModel.Closure
import MosaikProofs.Lemmas.Tiered
import MosaikProofs.Closure.Sound
import MosaikProofs.Properties.C08
namespace Mosaik
open TI

/-! ### the table -/

theorem Descs.get?_set_same (d : Descs) (s t : Sid) (v : TI × List Sid) : (d.set s t v).get? s t = some v := by
  unfold Descs.set
  split
  · rename_i hany
    unfold Descs.get?
    induction d with
    | nil => simp at hany
    | cons e d ih =>
      simp only [List.map_cons, List.find?_cons]
      by_cases he : e.1 == (s, t)
      · simp [he]
      · simp only [he, Bool.false_eq_true, if_false]
        have : d.any (·.1 == (s, t)) = true := by
          simp only [List.any_cons, Bool.or_eq_true] at hany
          rcases hany with h | h
          · exact absurd h he
          · exact h
        simpa [he] using ih this
  · rename_i hany
    unfold Descs.get?
    have hnone : d.find? (·.1 == (s, t)) = none := by
      rw [List.find?_eq_none]
      intro x hx hk
      exact hany (List.any_eq_true.mpr ⟨x, hx, hk⟩)
    simp [List.find?_append, hnone]

theorem Descs.find?_map_ne (d : Descs) (s t s' t' : Sid) (v : TI × List Sid) (h : (s', t') ≠ (s, t)) :
    (d.map (fun e => if e.1 == (s, t) then ((s, t), v) else e)).find? (·.1 == (s', t')) = d.find? (·.1 == (s', t')) := by
  have hne2 : ¬ (((s, t) : Sid × Sid) == (s', t')) = true := by
    simp only [beq_iff_eq]; exact fun e' => h e'.symm
  induction d with
  | nil => rfl
  | cons e d ih =>
    simp only [List.map_cons, List.find?_cons]
    by_cases he : e.1 == (s, t)
    · have hk : e.1 = (s, t) := by simpa using he
      have hne : ¬ (e.1 == (s', t')) = true := by
        simp only [beq_iff_eq, hk]; exact fun e' => h e'.symm
      simp only [he, if_true, hne, hne2]
      exact ih
    · simp only [he, Bool.false_eq_true, if_false]
      by_cases hk : e.1 == (s', t')
      · simp [hk]
      · simp only [hk]
        exact ih

theorem Descs.get?_set_ne (d : Descs) (s t s' t' : Sid) (v : TI × List Sid) (h : (s', t') ≠ (s, t)) :
    (d.set s t v).get? s' t' = d.get? s' t' := by
  unfold Descs.set
  split
  · unfold Descs.get?
    rw [Descs.find?_map_ne d s t s' t' v h]
  · unfold Descs.get?
    rw [List.find?_append]
    have : ([((s, t), v)] : Descs).find? (·.1 == (s', t')) = none := by
      simp only [List.find?_cons, List.find?_nil]
      have : ¬ (((s, t) : Sid × Sid) == (s', t')) = true := by
        simp only [beq_iff_eq]; exact fun e' => h e'.symm
      simp [this]
    rw [this]
    simp

theorem Descs.mem_row_of_get? {d : Descs} {s t : Sid} {v : TI × List Sid} (h : d.get? s t = some v) :
    (t, v.1, v.2) ∈ d.row s := by
  have hm := Descs.get?_mem h
  unfold Descs.row
  rw [List.mem_map]
  exact ⟨((s, t), v), List.mem_filter.mpr ⟨hm, by simp⟩, rfl⟩

/-! ### hypotheses on the connection tables -/

/-- the delay of a connection src → dest fits the two simulators' depths -/
def Shaped (sims : List SimCfg) : Prop :=
  ∀ t s d, (s, d) ∈ (sims.getD t {}).inputDelays → d.pre = (sims.getD s {}).depth ∧ d.tiers.length = (sims.getD t {}).depth

/-- `input_delays` is a dict -/
def NodupKeys (sims : List SimCfg) : Prop := ∀ t, ((sims.getD t {}).inputDelays.map (·.1)).Nodup

/-- all paths between two simulators have the same cutoff (the complement of finding D7) -/
def Uniform (sims : List SimCfg) : Prop :=
  ∀ s t p d p' d', RealPath sims s t p d → RealPath sims s t p' d' → d.cutoff = d'.cutoff

theorem realPath_shape {sims : List SimCfg} (hS : Shaped sims) {s t : Sid} {p : List Sid} {d : TI}
    (h : RealPath sims s t p d) : d.pre = (sims.getD s {}).depth ∧ d.tiers.length = (sims.getD t {}).depth := by
  induction h with
  | edge he => exact hS _ _ _ he
  | cons he _ ih => exact ⟨(hS _ _ _ he).1, by simp [TI.add, TI.addTiers, ih.2]⟩

theorem realPath_sameShape {sims : List SimCfg} (hS : Shaped sims) (hU : Uniform sims) {s t : Sid} {p p' : List Sid} {d d' : TI}
    (h : RealPath sims s t p d) (h' : RealPath sims s t p' d') : C08.SameShape d d' := by
  have a := realPath_shape hS h
  have b := realPath_shape hS h'
  exact ⟨a.2.trans b.2.symm, a.1.trans b.1.symm, hU _ _ _ _ _ _ h h'⟩

theorem realPath_dest_lt {sims : List SimCfg} {s t : Sid} {p : List Sid} {d : TI} (h : RealPath sims s t p d) : t < sims.length := by
  induction h with
  | @edge s t d he =>
    apply Classical.byContradiction
    intro hn
    have : sims.getD t {} = {} := by
      rw [List.getD_eq_getElem?_getD, List.getElem?_eq_none (by omega)]; rfl
    rw [this] at he
    cases he
  | cons _ _ ih => exact ih

/-- for delays of one shape `<=` is the lexicographic order -/
theorem le?_sameShape {a b : TI} (h : C08.SameShape a b) : TI.le? a b = some (decide (a.tiers ≤ b.tiers)) := by
  unfold TI.le?
  rw [C08.lt_same_shape h]
  simp only [Option.map_some, Option.some.injEq]
  by_cases hlt : a.tiers < b.tiers
  · simp [hlt, TT.le_of_lt hlt]
  · by_cases heq : a = b
    · subst heq; simp [TT.le_refl]
    · have hne : ¬ a.tiers ≤ b.tiers := by
        intro hle
        rcases TT.le_iff_lt_or_eq.mp hle with h1 | h1
        · exact hlt h1
        · apply heq
          obtain ⟨hl, hp, hc⟩ := h
          cases a; cases b; simp_all
      simp [hlt, heq, hne]

/-- what `update_min` decides on two delays of one shape -/
theorem updateMin?_keep {a b : TI} (h : C08.SameShape a b) (hu : TI.updateMin? (some a) b = some none) : TI.le a b := by
  unfold TI.updateMin? at hu
  rw [le?_sameShape h] at hu
  simp only [Option.map_some, Option.some.injEq] at hu
  split at hu
  · rename_i hle
    exact ⟨h.2.1, h.2.2, h.1, by simpa using hle⟩
  · cases hu

theorem updateMin?_replace {a b v : TI} (h : C08.SameShape a b) (hu : TI.updateMin? (some a) b = some (some v)) : TI.le b a := by
  unfold TI.updateMin? at hu
  rw [le?_sameShape h] at hu
  simp only [Option.map_some, Option.some.injEq] at hu
  split at hu
  · cases hu
  · rename_i hle
    have : ¬ a.tiers ≤ b.tiers := by simpa using hle
    exact ⟨h.2.1.symm, h.2.2.symm, h.1.symm, TT.le_of_lt (TT.not_le.mp this)⟩

end Mosaik
