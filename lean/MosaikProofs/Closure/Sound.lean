/-
Soundness of `ensure_no_dataflow_cycles` (C06, "no false rejections").

Every delay the worklist stores for a pair (src, dest) is the accumulated delay of a *real* path
src → … → dest of connections (`AllReal`, preserved by the initialisation, by every relaxation and
hence by the whole loop, for every pop order).  Consequently the cycle named in the ScenarioError is
a real cycle of connections whose accumulated delay is all-zero (`reject_sound`): a scenario
without an unresolved cycle is never rejected.
-/
import MosaikModel.Closure
import MosaikProofs.Lemmas.Tiered
namespace Mosaik

/-- a path of connections with its delay, accumulated the way the worklist does (a connection is
prefixed to a known path: `src_to_mid + mid_to_dest`) -/
inductive RealPath (sims : List SimCfg) : Sid → Sid → List Sid → TI → Prop
  | edge {s t : Sid} {d : TI} : (s, d) ∈ (sims.getD t {}).inputDelays → RealPath sims s t [s, t] d
  | cons {s m t : Sid} {d dm : TI} {path : List Sid} : (s, d) ∈ (sims.getD m {}).inputDelays →
      RealPath sims m t path dm → RealPath sims s t (s :: path) (TI.add d dm)

def AllReal (sims : List SimCfg) (descs : Descs) : Prop :=
  ∀ e ∈ descs, RealPath sims e.1.1 e.1.2 e.2.2 e.2.1

theorem Descs.get?_mem {d : Descs} {s t : Sid} {v : TI × List Sid} (h : d.get? s t = some v) : ((s, t), v) ∈ d := by
  unfold Descs.get? at h
  rw [Option.map_eq_some_iff] at h
  obtain ⟨e, he, hv⟩ := h
  have hmem := List.mem_of_find?_eq_some he
  have hkey := List.find?_some he
  simp only [beq_iff_eq] at hkey
  have : e = ((s, t), v) := by
    rw [← hkey, ← hv]
  rw [← this]; exact hmem

theorem allReal_set {sims : List SimCfg} {d : Descs} (h : AllReal sims d) {s t : Sid} {v : TI × List Sid}
    (hv : RealPath sims s t v.2 v.1) : AllReal sims (d.set s t v) := by
  unfold Descs.set
  split
  · intro e he
    rw [List.mem_map] at he
    obtain ⟨e0, he0, rfl⟩ := he
    split
    · exact hv
    · exact h e0 he0
  · intro e he
    rcases List.mem_append.mp he with he | he
    · exact h e he
    · simp only [List.mem_singleton] at he
      subst he
      exact hv

/-- invariants of a monadic fold that can fail -/
theorem foldlM_inv {α β ε : Type} (P : β → Prop) (f : β → α → Except ε β) :
    ∀ (l : List α) (b0 b : β), P b0 → (∀ b a b', a ∈ l → P b → f b a = .ok b' → P b') → l.foldlM f b0 = .ok b → P b
  | [], b0, b, h0, _, h => by
    simp only [List.foldlM_nil] at h
    cases h; exact h0
  | a :: l, b0, b, h0, hstep, h => by
    simp only [List.foldlM_cons] at h
    cases hf : f b0 a with
    | error e => rw [hf] at h; cases h
    | ok b1 =>
      rw [hf] at h
      exact foldlM_inv P f l b1 b (hstep b0 a b1 List.mem_cons_self h0 hf)
        (fun b a' b' ha' => hstep b a' b' (List.mem_cons_of_mem _ ha')) h

theorem updateMin?_value {o : Option TI} {n v : TI} (h : TI.updateMin? o n = some (some v)) : v = n := by
  unfold TI.updateMin? at h
  cases o with
  | none => simp at h; exact h.symm
  | some a =>
    simp only [Option.map_eq_some_iff] at h
    obtain ⟨r, _, hr⟩ := h
    split at hr
    · cases hr
    · simp at hr; exact hr.symm

theorem add?_value {a b c : TI} (h : TI.add? a b = some c) : c = TI.add a b := by
  unfold TI.add? at h
  split at h
  · simp at h; exact h.symm
  · cases h

/-- the initial table holds the connections -/
theorem cycInit_real (sims : List SimCfg) : AllReal sims (cycInit sims).descs := by
  unfold cycInit
  simp only
  have key : ∀ (l : List Nat) (acc : Descs), AllReal sims acc →
      AllReal sims (l.foldl (fun (acc : Descs) dst =>
        (sims.getD dst {}).inputDelays.foldl (fun acc pd => acc.set pd.1 dst (pd.2, [pd.1, dst])) acc) acc) := by
    intro l
    induction l with
    | nil => intro acc h; exact h
    | cons dst l ih =>
      intro acc h
      simp only [List.foldl_cons]
      apply ih
      have inner : ∀ (ps : List (Sid × TI)) (acc : Descs), (∀ pd ∈ ps, pd ∈ (sims.getD dst {}).inputDelays) → AllReal sims acc →
          AllReal sims (ps.foldl (fun acc pd => acc.set pd.1 dst (pd.2, [pd.1, dst])) acc) := by
        intro ps
        induction ps with
        | nil => intro acc _ h; exact h
        | cons pd ps ih2 =>
          intro acc hps h
          simp only [List.foldl_cons]
          apply ih2 _ (fun x hx => hps x (List.mem_cons_of_mem _ hx))
          exact allReal_set h (RealPath.edge (hps pd List.mem_cons_self))
      exact inner _ acc (fun _ h => h) h
  exact key _ [] (fun e he => by cases he)

/-- one relaxation keeps every stored delay real -/
theorem cycRelax_real {sims : List SimCfg} {st st' : CycState} {mid : Sid} (h : AllReal sims st.descs)
    (hr : cycRelax sims st mid = .ok st') : AllReal sims st'.descs := by
  unfold cycRelax at hr
  refine foldlM_inv (fun s => AllReal sims s.descs) _ _ st st' h ?_ hr
  intro b sd b' hsd hb hf
  refine foldlM_inv (fun s => AllReal sims s.descs) _ _ b b' hb ?_ hf
  intro c e c' _ hc hg
  simp only at hg
  cases hget : c.descs.get? mid e.1 with
  | none => rw [hget] at hg; cases hg; exact hc
  | some v =>
    obtain ⟨midToDest, path⟩ := v
    rw [hget] at hg
    simp only at hg
    cases hadd : TI.add? sd.2 midToDest with
    | none => rw [hadd] at hg; cases hg
    | some s2d =>
      rw [hadd] at hg
      simp only at hg
      cases hup : TI.updateMin? ((c.descs.get? sd.1 e.1).map (·.1)) s2d with
      | none => rw [hup] at hg; cases hg
      | some r =>
        rw [hup] at hg
        cases r with
        | none => cases hg; exact hc
        | some v =>
          simp only at hg
          cases hg
          apply allReal_set hc
          have hv : v = s2d := updateMin?_value hup
          have hs : s2d = TI.add sd.2 midToDest := add?_value hadd
          have hreal := hc _ (Descs.get?_mem hget)
          simp only at hreal ⊢
          rw [hv, hs]
          exact RealPath.cons hsd hreal

/-- … and so does the whole loop, for every pop order -/
theorem cycLoop_real {sims : List SimCfg} : ∀ (fuel : Nat) (st st' : CycState) (orc : List Nat), AllReal sims st.descs →
    cycLoop sims fuel st orc = .ok st' → AllReal sims st'.descs
  | 0, st, st', _, h, hr => by
    unfold cycLoop at hr
    split at hr
    · cases hr; exact h
    · cases hr
  | fuel + 1, st, st', orc, h, hr => by
    unfold cycLoop at hr
    cases hp : popAt st.dirty (orc.headD 0) with
    | none => rw [hp] at hr; cases hr; exact h
    | some v =>
      obtain ⟨mid, rest⟩ := v
      rw [hp] at hr
      simp only at hr
      cases hrel : cycRelax sims { st with dirty := rest } mid with
      | error e => rw [hrel] at hr; cases hr
      | ok st1 =>
        rw [hrel] at hr
        exact cycLoop_real fuel st1 st' orc.tail (cycRelax_real (st := { st with dirty := rest }) h hrel) hr

theorem cycFind_some (n : Nat) (descs : Descs) (p : List Sid) (h : cycFind n descs = some p) :
    ∃ s d, s < n ∧ descs.get? s s = some (d, p) ∧ d.isZero = true := by
  unfold cycFind at h
  obtain ⟨s, hs, hsome⟩ := List.exists_of_findSome?_eq_some h
  refine ⟨s, ?_⟩
  cases hg : descs.get? s s with
  | none => simp [hg] at hsome
  | some v =>
    obtain ⟨d, path⟩ := v
    simp only [hg] at hsome
    split at hsome
    · rename_i hz
      cases hsome
      exact ⟨d, by simpa using hs, rfl, hz⟩
    · cases hsome

/-- **C06, no false rejections.**  If `ensure_no_dataflow_cycles` rejects the scenario naming the cycle `p`, then — for
every pop order of the worklist — `p` is a real cycle of connections from a simulator back to itself whose accumulated
delay is all-zero, i.e. a cycle no connection on it resolves. -/
theorem reject_sound (sims : List SimCfg) (orc : List Nat) (p : List Sid) (h : ensureNoCycles sims orc = .cycle p) :
    ∃ s d, s < sims.length ∧ RealPath sims s s p d ∧ d.isZero = true := by
  unfold ensureNoCycles at h
  cases hl : cycLoop sims (closureFuel sims.length) (cycInit sims) orc with
  | error e => rw [hl] at h; cases h
  | ok st =>
    rw [hl] at h
    simp only at h
    cases hf : cycFind sims.length st.descs with
    | none => rw [hf] at h; cases h
    | some q =>
      rw [hf] at h
      simp only [CycResult.cycle.injEq] at h
      subst h
      obtain ⟨s, d, hs, hget, hz⟩ := cycFind_some _ _ _ hf
      have hreal := cycLoop_real _ _ _ _ (cycInit_real sims) hl _ (Descs.get?_mem hget)
      exact ⟨s, d, hs, hreal, hz⟩

end Mosaik
