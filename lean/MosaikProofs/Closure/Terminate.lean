/-
Termination of the worklist of `ensure_no_dataflow_cycles` (C06).

The executable model iterates the relaxation with fuel (`cycLoop`, error `.fuel` when the fuel runs out — a model artefact);
`accept_complete` / `reject_sound` are about runs in which the worklist empties.  Here: on well-shaped tables with uniform
path cutoffs (`Shaped`, `Uniform` — the complement of finding D7) and sources in range **the worklist empties for every pop
order**: for every oracle there is an amount of fuel from which on `cycLoop` never answers `.fuel`.

No polynomial bound is claimed (label-correcting relaxation with an adversarial pop order has none): the argument is a
well-founded descent.  Measure: the table as a function `Fin n → Fin n → WithTop (Lex (Fin K → ℕ))` (no entry = ⊤, an entry =
its tiers, compared lexicographically) under the product order, which is well-founded (Mathlib: `Pi.wellFoundedLT`,
`Pi.Lex.wellFoundedLT`, `WithTop`).  Every store of `update_min` strictly decreases one component and leaves the others alone;
a pop that stores nothing shortens the worklist.
-/
import Mathlib.Data.DFinsupp.WellFounded
import Mathlib.Order.WithBot
import MosaikProofs.Closure.Complete
import MosaikProofs.Closure.AncTable
namespace Mosaik

/-- every connection's source is a simulator (for built scenarios: `Build.BuiltOk.inShape`) -/
def SrcRange (sims : List SimCfg) : Prop := ∀ t s d, (s, d) ∈ (sims.getD t {}).inputDelays → s < sims.length

abbrev Meas (n K : ℕ) := Fin n → Fin n → WithTop (Lex (Fin K → ℕ))

def tierFn (K : ℕ) (l : List Nat) : Lex (Fin K → ℕ) := toLex fun j => tier l j.1

def meas (n K : ℕ) (d : Descs) : Meas n K := fun s t =>
  match d.get? s.1 t.1 with
  | none => ⊤
  | some e => ((tierFn K e.1.tiers : Lex (Fin K → ℕ)) : WithTop (Lex (Fin K → ℕ)))

theorem tierFn_lt {K : ℕ} {a b : List Nat} (hl : a.length = b.length) (hK : a.length ≤ K) (h : a < b) :
    tierFn K a < tierFn K b := by
  obtain ⟨i, hi, hpre, hlt⟩ := (TT.lt_iff_of_length_eq hl).mp h
  refine ⟨⟨i, by omega⟩, ?_, ?_⟩
  · intro j hj
    exact hpre j.1 hj
  · exact hlt

/-- storing a strictly smaller delay (or a first one) for a pair in range strictly decreases the measure -/
theorem meas_set_lt {n K : ℕ} (d : Descs) {s t : Sid} (hs : s < n) (ht : t < n) (v : TI × List Sid)
    (h : ∀ a, d.get? s t = some a → v.1.tiers < a.1.tiers ∧ v.1.tiers.length = a.1.tiers.length ∧ v.1.tiers.length ≤ K) :
    meas n K (d.set s t v) < meas n K d := by
  have hother : ∀ (s' t' : Fin n), (s'.1, t'.1) ≠ (s, t) → meas n K (d.set s t v) s' t' = meas n K d s' t' := by
    intro s' t' hne
    unfold meas
    rw [Descs.get?_set_ne _ _ _ _ _ _ hne]
  have hat : meas n K (d.set s t v) ⟨s, hs⟩ ⟨t, ht⟩ < meas n K d ⟨s, hs⟩ ⟨t, ht⟩ := by
    unfold meas
    simp only [Descs.get?_set_same]
    cases hold : d.get? s t with
    | none => exact WithTop.coe_lt_top _
    | some a =>
      obtain ⟨hlt, hlen, hK⟩ := h a hold
      exact WithTop.coe_lt_coe.mpr (tierFn_lt hlen hK hlt)
  have hle : ∀ (s' t' : Fin n), meas n K (d.set s t v) s' t' ≤ meas n K d s' t' := by
    intro s' t'
    by_cases hne : (s'.1, t'.1) = (s, t)
    · have hs' : s' = ⟨s, hs⟩ := Fin.ext (by simpa using congrArg Prod.fst hne)
      have ht' : t' = ⟨t, ht⟩ := Fin.ext (by simpa using congrArg Prod.snd hne)
      subst hs' ht'
      exact le_of_lt hat
    · exact le_of_eq (hother s' t' hne)
  rw [Pi.lt_def]
  refine ⟨fun s' => Pi.le_def.mpr (hle s'), ⟨s, hs⟩, ?_⟩
  rw [Pi.lt_def]
  exact ⟨fun t' => hle _ t', ⟨t, ht⟩, hat⟩

/-- progress of the relaxation: nothing stored, or the measure strictly smaller -/
def Prog (n K : ℕ) (c0 c : CycState) : Prop := c = c0 ∨ meas n K c.descs < meas n K c0.descs

theorem Prog.refl {n K : ℕ} (c : CycState) : Prog n K c c := Or.inl rfl

theorem Prog.trans {n K : ℕ} {a b c : CycState} (h1 : Prog n K a b) (h2 : Prog n K b c) : Prog n K a c := by
  rcases h1 with rfl | h1
  · exact h2
  · rcases h2 with rfl | h2
    · exact Or.inr h1
    · exact Or.inr (lt_trans h2 h1)

/-- one inner iteration: defined (no assert), keeps `AllReal`, and makes progress -/
theorem relaxOne_prog {sims : List SimCfg} (hS : Shaped sims) (hU : Uniform sims) (hR : SrcRange sims) {K : ℕ}
    (hK : ∀ t, (sims.getD t {}).depth ≤ K) {mid : Sid} {sd : Sid × TI}
    (hsd : sd ∈ (sims.getD mid {}).inputDelays) {c : CycState} (e : Sid × TI × List Sid) (hreal : AllReal sims c.descs) :
    ∃ c', relaxOne mid sd c e = .ok c' ∧ AllReal sims c'.descs ∧ Prog sims.length K c c' := by
  unfold relaxOne
  cases hget : c.descs.get? mid e.1 with
  | none => exact ⟨c, rfl, hreal, Prog.refl c⟩
  | some v =>
    obtain ⟨m, path⟩ := v
    simp only
    have hmreal : RealPath sims mid e.1 path m := hreal _ (Descs.get?_mem hget)
    have hadd : TI.add? sd.2 m = some (TI.add sd.2 m) := by
      unfold TI.add?
      rw [if_pos]
      rw [(hS _ _ _ hsd).2, (realPath_shape hS hmreal).1]
    rw [hadd]
    simp only
    have hnew : RealPath sims sd.1 e.1 (sd.1 :: path) (TI.add sd.2 m) := RealPath.cons hsd hmreal
    have hsrc : sd.1 < sims.length := hR _ _ _ hsd
    have hdst : e.1 < sims.length := realPath_dest_lt hnew
    have hlenK : (TI.add sd.2 m).tiers.length ≤ K := by rw [(realPath_shape hS hnew).2]; exact hK _
    cases hold : c.descs.get? sd.1 e.1 with
    | none =>
      simp only [Option.map_none, TI.updateMin?]
      refine ⟨_, rfl, allReal_set hreal hnew, Or.inr ?_⟩
      exact meas_set_lt c.descs hsrc hdst _ (fun a ha => by rw [hold] at ha; cases ha)
    | some a =>
      simp only [Option.map_some]
      have hareal : RealPath sims sd.1 e.1 a.2 a.1 := hreal _ (Descs.get?_mem hold)
      have hshape : C08.SameShape a.1 (TI.add sd.2 m) := realPath_sameShape hS hU hareal hnew
      rcases updateMin?_cases hshape with ⟨hu, _⟩ | ⟨hu, hlt⟩
      · rw [hu]
        exact ⟨c, rfl, hreal, Prog.refl c⟩
      · rw [hu]
        refine ⟨_, rfl, allReal_set hreal hnew, Or.inr ?_⟩
        apply meas_set_lt c.descs hsrc hdst
        intro a' ha'
        rw [hold] at ha'
        cases ha'
        exact ⟨hlt, hshape.1.symm, hlenK⟩

/-- a monadic fold whose every step is defined and keeps `P`, relative to the start -/
theorem foldlM_ok_rel {α β ε : Type} (P : β → Prop) (R : β → β → Prop) (hrefl : ∀ b, R b b)
    (htrans : ∀ a b c, R a b → R b c → R a c) (f : β → α → Except ε β) :
    ∀ (l : List α) (b0 : β), P b0 → (∀ b a, a ∈ l → P b → ∃ b', f b a = .ok b' ∧ P b' ∧ R b b') →
      ∃ b, l.foldlM f b0 = .ok b ∧ P b ∧ R b0 b
  | [], b0, h0, _ => ⟨b0, rfl, h0, hrefl b0⟩
  | a :: l, b0, h0, hstep => by
    obtain ⟨b1, hf, h1, hr1⟩ := hstep b0 a List.mem_cons_self h0
    obtain ⟨b, hb, hP, hr⟩ := foldlM_ok_rel P R hrefl htrans f l b1 h1 (fun b a' ha' => hstep b a' (List.mem_cons_of_mem _ ha'))
    exact ⟨b, by simp only [List.foldlM_cons, hf]; exact hb, hP, htrans _ _ _ hr1 hr⟩

/-- one pop: the relaxation is defined, keeps `AllReal` and makes progress -/
theorem cycRelax_prog {sims : List SimCfg} (hS : Shaped sims) (hU : Uniform sims) (hR : SrcRange sims) {K : ℕ}
    (hK : ∀ t, (sims.getD t {}).depth ≤ K) (st : CycState) (mid : Sid) (hreal : AllReal sims st.descs) :
    ∃ st', cycRelax sims st mid = .ok st' ∧ AllReal sims st'.descs ∧ Prog sims.length K st st' := by
  rw [cycRelax_eq]
  apply foldlM_ok_rel (fun c => AllReal sims c.descs) (Prog sims.length K) Prog.refl (fun _ _ _ => Prog.trans) _ _ st hreal
  intro b sd hsd hb
  apply foldlM_ok_rel (fun c => AllReal sims c.descs) (Prog sims.length K) Prog.refl (fun _ _ _ => Prog.trans) _ _ b hb
  intro c e _ hc
  exact relaxOne_prog hS hU hR hK hsd e hc

theorem popAt_length {l : List Sid} {i : Nat} {mid : Sid} {rest : List Sid} (h : popAt l i = some (mid, rest)) :
    rest.length + 1 = l.length := by
  unfold popAt at h
  split at h
  · cases h
  · rename_i hne
    simp only [Option.some.injEq, Prod.mk.injEq] at h
    have hpos : 0 < l.length := by
      cases l with
      | nil => simp at hne
      | cons => simp
    have hj : i % l.length < l.length := Nat.mod_lt _ hpos
    rw [← h.2, List.length_eraseIdx_of_lt hj]
    omega

/-- **the worklist empties**: from every state whose entries are real paths, for every oracle, there is an amount of fuel
from which on the loop does not run out of fuel -/
theorem cycLoop_terminates {sims : List SimCfg} (hS : Shaped sims) (hU : Uniform sims) (hR : SrcRange sims) {K : ℕ}
    (hK : ∀ t, (sims.getD t {}).depth ≤ K) :
    ∀ (M : Meas sims.length K) (L : ℕ) (st : CycState), AllReal sims st.descs → meas sims.length K st.descs = M →
      st.dirty.length = L → ∀ orc, ∃ k, ∀ fuel, k ≤ fuel → cycLoop sims fuel st orc ≠ .error .fuel := by
  intro M
  induction M using (wellFounded_lt (α := Meas sims.length K)).induction with
  | _ M ihM =>
    intro L
    induction L using Nat.strongRecOn with
    | ind L ihL =>
      intro st hreal hM hL orc
      cases hp : popAt st.dirty (orc.headD 0) with
      | none =>
        refine ⟨0, fun fuel _ => ?_⟩
        have hd : st.dirty = [] := popAt_none hp
        cases fuel with
        | zero => unfold cycLoop; simp [hd]
        | succ f => unfold cycLoop; rw [hp]; simp
      | some v =>
        obtain ⟨mid, rest⟩ := v
        obtain ⟨st1, hrel, hreal1, hprog⟩ := cycRelax_prog hS hU hR hK { st with dirty := rest } mid hreal
        have hrest : rest.length + 1 = st.dirty.length := popAt_length hp
        have ih : ∃ k, ∀ fuel, k ≤ fuel → cycLoop sims fuel st1 orc.tail ≠ .error .fuel := by
          rcases hprog with heq | hlt
          · -- nothing stored: the worklist is shorter
            subst heq
            exact ihL rest.length (by omega) _ hreal1 hM rfl orc.tail
          · -- something stored: the table is smaller
            exact ihM (meas sims.length K st1.descs) (by rw [← hM]; exact hlt) _ st1 hreal1 rfl rfl orc.tail
        obtain ⟨k, hk⟩ := ih
        refine ⟨k + 1, fun fuel hf => ?_⟩
        cases fuel with
        | zero => omega
        | succ f =>
          unfold cycLoop
          rw [hp]
          simp only [hrel]
          exact hk f (by omega)

/-- a bound on the depths: one more than their sum (the default configuration of a non-simulator has depth 1) -/
theorem depth_le_sum (sims : List SimCfg) (t : Sid) : (sims.getD t {}).depth ≤ 1 + (sims.map (·.depth)).sum := by
  induction sims generalizing t with
  | nil => simp [List.getD]
  | cons a l ih =>
    cases t with
    | zero => simp [List.getD]; omega
    | succ t =>
      have := ih t
      simp only [List.getD_eq_getElem?_getD, List.getElem?_cons_succ, List.map_cons, List.sum_cons] at this ⊢
      omega

/-- **`ensure_no_dataflow_cycles` terminates**: on well-shaped, uniform tables with sources in range, for every pop order the
worklist of the cycle check empties — with enough fuel the model never answers `nonterminating` -/
theorem worklist_terminates (sims : List SimCfg) (orc : List Nat) (hS : Shaped sims) (hU : Uniform sims) (hR : SrcRange sims) :
    ∃ k, ∀ fuel, k ≤ fuel → cycLoop sims fuel (cycInit sims) orc ≠ .error .fuel :=
  cycLoop_terminates hS hU hR (depth_le_sum sims) _ _ (cycInit sims) (cycInit_real sims) rfl rfl orc

/-- the cycle check with the loop's fuel as a parameter (`ensureNoCycles` is the instance `closureFuel n`; the real
algorithm has no fuel) -/
def ensureNoCyclesWith (fuel : Nat) (sims : List SimCfg) (orc : List Nat) : CycResult :=
  match cycLoop sims fuel (cycInit sims) orc with
  | .error e => .error e
  | .ok st => match cycFind sims.length st.descs with
    | some p => .cycle p
    | none => .ok

theorem ensureNoCycles_eq (sims : List SimCfg) (orc : List Nat) :
    ensureNoCycles sims orc = ensureNoCyclesWith (closureFuel sims.length) sims orc := rfl

/-- **the cycle check is total and exact** (every pop order): there is an amount of fuel from which on the check answers —
never an assertion, never "out of fuel" — and rejects exactly the scenarios with a cycle of connections whose accumulated delay
is all-zero -/
theorem cycle_check_total_exact (sims : List SimCfg) (orc : List Nat) (hS : Shaped sims) (hN : NodupKeys sims) (hU : Uniform sims)
    (hR : SrcRange sims) :
    ∃ k, ∀ fuel, k ≤ fuel →
      (ensureNoCyclesWith fuel sims orc = .ok ∨ ∃ p, ensureNoCyclesWith fuel sims orc = .cycle p) ∧
      ((∃ p, ensureNoCyclesWith fuel sims orc = .cycle p) ↔ ∃ s p d, RealPath sims s s p d ∧ d.isZero = true) := by
  obtain ⟨k, hk⟩ := worklist_terminates sims orc hS hU hR
  refine ⟨k, fun fuel hf => ?_⟩
  unfold ensureNoCyclesWith
  cases hl : cycLoop sims fuel (cycInit sims) orc with
  | error e =>
    exfalso
    cases e with
    | assertion => exact cycLoop_no_assertion hS hU fuel _ orc (cycInit_real sims) hl
    | fuel => exact hk fuel hf hl
  | ok st =>
    cases hfind : cycFind sims.length st.descs with
    | some q =>
      obtain ⟨s, d, _, hreal, hz⟩ := zero_cycle_of_loop hl hfind
      simp only [hfind]
      exact ⟨Or.inr ⟨q, rfl⟩, ⟨fun _ => ⟨s, q, d, hreal, hz⟩, fun _ => ⟨q, rfl⟩⟩⟩
    | none =>
      simp only [hfind]
      refine ⟨Or.inl trivial, ⟨?_, ?_⟩⟩
      · rintro ⟨p, hp⟩
        exact absurd hp (by simp)
      · rintro ⟨s, p, d, hreal, hz⟩
        have := no_zero_cycle_of_loop hS hN hU hl hfind s p d hreal
        rw [hz] at this
        cases this

/-! ### the worklist of `cache_triggering_ancestors`

The same descent for the second closure; the table is indexed (destination, ancestor). -/

def measA (n K : ℕ) (st : AncState) : Meas n K := fun t s =>
  match st.get t.1 s.1 with
  | none => ⊤
  | some d => ((tierFn K d.tiers : Lex (Fin K → ℕ)) : WithTop (Lex (Fin K → ℕ)))

theorem AncState.get_with_dirty (st : AncState) (dirty : List Sid) (t s : Sid) :
    ({ st with dirty := dirty } : AncState).get t s = st.get t s := rfl

theorem measA_put_lt {n K : ℕ} (c : AncState) {t s : Sid} (ht : t < n) (hs : s < n) (hlen : c.anc.length = n) (v : TI)
    (dirty : List Sid)
    (h : ∀ a, c.get t s = some a → v.tiers < a.tiers ∧ v.tiers.length = a.tiers.length ∧ v.tiers.length ≤ K) :
    measA n K { (c.put t s v) with dirty := dirty } < measA n K c := by
  have hother : ∀ (t' s' : Fin n), (t'.1, s'.1) ≠ (t, s) →
      measA n K { (c.put t s v) with dirty := dirty } t' s' = measA n K c t' s' := by
    intro t' s' hne
    unfold measA
    rw [AncState.get_with_dirty, AncState.get_put_ne _ _ _ _ _ _ hne]
  have hat : measA n K { (c.put t s v) with dirty := dirty } ⟨t, ht⟩ ⟨s, hs⟩ < measA n K c ⟨t, ht⟩ ⟨s, hs⟩ := by
    have hput : (c.put t s v).get t s = some v := AncState.get_put_same c t s v (by rw [hlen]; exact ht)
    unfold measA
    simp only [AncState.get_with_dirty, hput]
    cases hold : c.get t s with
    | none => exact WithTop.coe_lt_top _
    | some a =>
      obtain ⟨hlt, hl, hK⟩ := h a hold
      exact WithTop.coe_lt_coe.mpr (tierFn_lt hl hK hlt)
  have hle : ∀ (t' s' : Fin n), measA n K { (c.put t s v) with dirty := dirty } t' s' ≤ measA n K c t' s' := by
    intro t' s'
    by_cases hne : (t'.1, s'.1) = (t, s)
    · have ht' : t' = ⟨t, ht⟩ := Fin.ext (by simpa using congrArg Prod.fst hne)
      have hs' : s' = ⟨s, hs⟩ := Fin.ext (by simpa using congrArg Prod.snd hne)
      subst ht' hs'
      exact le_of_lt hat
    · exact le_of_eq (hother t' s' hne)
  rw [Pi.lt_def]
  refine ⟨fun t' => Pi.le_def.mpr (hle t'), ⟨t, ht⟩, ?_⟩
  rw [Pi.lt_def]
  exact ⟨fun s' => hle _ s', ⟨s, hs⟩, hat⟩

def ProgA (n K : ℕ) (c0 c : AncState) : Prop := c = c0 ∨ measA n K c < measA n K c0

theorem ProgA.refl {n K : ℕ} (c : AncState) : ProgA n K c c := Or.inl rfl

theorem ProgA.trans {n K : ℕ} {a b c : AncState} (h1 : ProgA n K a b) (h2 : ProgA n K b c) : ProgA n K a c := by
  rcases h1 with rfl | h1
  · exact h2
  · rcases h2 with rfl | h2
    · exact Or.inr h1
    · exact Or.inr (lt_trans h2 h1)

theorem trigPath_src_lt {sims : List SimCfg} {s t : Sid} {d : TI} (h : TrigPath sims s t d) : s < sims.length := by
  induction h with
  | edge he => exact mem_triggers_lt he
  | snoc _ _ ih => exact ih

/-- what the descent carries along: entries are real trigger paths, one row per simulator -/
def AncOk (sims : List SimCfg) (c : AncState) : Prop := AncReal sims c ∧ c.anc.length = sims.length

theorem ancOne_prog {sims : List SimCfg} (hS : ShapedT sims) (hR : TrigRange sims) (hU : UniformT sims) {K : ℕ}
    (hK : ∀ t, (sims.getD t {}).depth ≤ K) {mid : Sid} {tr : Port × Sid × TI}
    (htr : tr ∈ (sims.getD mid {}).triggers) {c : AncState} (e : Sid × TI) (hok : AncOk sims c) :
    ∃ c', ancOne mid tr c e = .ok c' ∧ AncOk sims c' ∧ ProgA sims.length K c c' := by
  obtain ⟨hreal, hlen⟩ := hok
  unfold ancOne
  cases hget : lookupTI (c.row mid) e.1 with
  | none => exact ⟨c, rfl, ⟨hreal, hlen⟩, ProgA.refl c⟩
  | some a =>
    simp only
    have hareal : TrigPath sims e.1 mid a := hreal mid e.1 a hget
    have hadd : TI.add? a tr.2.2 = some (TI.add a tr.2.2) := by
      unfold TI.add?
      rw [if_pos]
      rw [(trigPath_shape hS hareal).2, (hS _ _ htr).1]
    rw [hadd]
    simp only
    have hnew : TrigPath sims e.1 tr.2.1 (TI.add a tr.2.2) := TrigPath.snoc hareal htr
    have hsrc : e.1 < sims.length := trigPath_src_lt hnew
    have hdst : tr.2.1 < sims.length := hR _ _ htr
    have hlenK : (TI.add a tr.2.2).tiers.length ≤ K := by rw [(trigPath_shape hS hnew).2]; exact hK _
    have hput : ∀ dirty, AncOk sims { (c.put tr.2.1 e.1 (TI.add a tr.2.2)) with dirty := dirty } := fun dirty =>
      ⟨ancReal_put hreal hnew dirty, by rw [← hlen]; exact AncState.put_length c _ _ _⟩
    cases hold : lookupTI (c.row tr.2.1) e.1 with
    | none =>
      simp only [TI.updateMin?]
      refine ⟨_, rfl, hput _, Or.inr ?_⟩
      exact measA_put_lt c hdst hsrc hlen _ _ (fun x hx => by unfold AncState.get at hx; rw [hold] at hx; cases hx)
    | some old =>
      have horeal : TrigPath sims e.1 tr.2.1 old := hreal tr.2.1 e.1 old hold
      have hshape : C08.SameShape old (TI.add a tr.2.2) := trigPath_sameShape hS hU horeal hnew
      rcases updateMin?_cases hshape with ⟨hu, _⟩ | ⟨hu, hlt⟩
      · rw [hu]
        exact ⟨c, rfl, ⟨hreal, hlen⟩, ProgA.refl c⟩
      · rw [hu]
        refine ⟨_, rfl, hput _, Or.inr ?_⟩
        apply measA_put_lt c hdst hsrc hlen
        intro x hx
        unfold AncState.get at hx
        rw [hold] at hx
        cases hx
        exact ⟨hlt, hshape.1.symm, hlenK⟩

theorem ancRelax_prog {sims : List SimCfg} (hS : ShapedT sims) (hR : TrigRange sims) (hU : UniformT sims) {K : ℕ}
    (hK : ∀ t, (sims.getD t {}).depth ≤ K) (st : AncState) (mid : Sid) (hok : AncOk sims st) :
    ∃ st', ancRelax sims st mid = .ok st' ∧ AncOk sims st' ∧ ProgA sims.length K st st' := by
  rw [ancRelax_eq]
  apply foldlM_ok_rel (AncOk sims) (ProgA sims.length K) ProgA.refl (fun _ _ _ => ProgA.trans) _ _ st hok
  intro b tr htr hb
  apply foldlM_ok_rel (AncOk sims) (ProgA sims.length K) ProgA.refl (fun _ _ _ => ProgA.trans) _ _ b hb
  intro c e _ hc
  exact ancOne_prog hS hR hU hK htr e hc

/-- **the second worklist empties** as well, for every pop order -/
theorem ancLoop_terminates {sims : List SimCfg} (hS : ShapedT sims) (hR : TrigRange sims) (hU : UniformT sims) {K : ℕ}
    (hK : ∀ t, (sims.getD t {}).depth ≤ K) :
    ∀ (M : Meas sims.length K) (L : ℕ) (st : AncState), AncOk sims st → measA sims.length K st = M →
      st.dirty.length = L → ∀ orc, ∃ k, ∀ fuel, k ≤ fuel → ∃ st', ancLoop sims fuel st orc = .ok st' := by
  intro M
  induction M using (wellFounded_lt (α := Meas sims.length K)).induction with
  | _ M ihM =>
    intro L
    induction L using Nat.strongRecOn with
    | ind L ihL =>
      intro st hok hM hL orc
      cases hp : popAt st.dirty (orc.headD 0) with
      | none =>
        refine ⟨0, fun fuel _ => ?_⟩
        have hd : st.dirty = [] := popAt_none hp
        cases fuel with
        | zero => exact ⟨st, by unfold ancLoop; simp [hd]⟩
        | succ f => exact ⟨st, by unfold ancLoop; rw [hp]⟩
      | some v =>
        obtain ⟨mid, rest⟩ := v
        obtain ⟨st1, hrel, hok1, hprog⟩ := ancRelax_prog hS hR hU hK { st with dirty := rest } mid hok
        have hrest : rest.length + 1 = st.dirty.length := popAt_length hp
        have ih : ∃ k, ∀ fuel, k ≤ fuel → ∃ st', ancLoop sims fuel st1 orc.tail = .ok st' := by
          rcases hprog with heq | hlt
          · subst heq
            exact ihL rest.length (by omega) _ hok1 hM rfl orc.tail
          · exact ihM (measA sims.length K st1) (by rw [← hM]; exact hlt) _ st1 hok1 rfl rfl orc.tail
        obtain ⟨k, hk⟩ := ih
        refine ⟨k + 1, fun fuel hf => ?_⟩
        cases fuel with
        | zero => omega
        | succ f =>
          obtain ⟨st', hst'⟩ := hk f (by omega)
          refine ⟨st', ?_⟩
          unfold ancLoop
          rw [hp]
          simp only [hrel]
          exact hst'

/-- **`cache_triggering_ancestors` terminates**: when its first loop succeeds, the worklist empties for every pop order -/
theorem anc_worklist_terminates (sims : List SimCfg) (orc : List Nat) (hS : ShapedT sims) (hR : TrigRange sims) (hU : UniformT sims)
    {st0 : AncState} (h0 : ancInit sims = .ok st0) :
    ∃ k, ∀ fuel, k ≤ fuel → ∃ st, ancLoop sims fuel st0 orc = .ok st :=
  have hinv := ancInit_inv hS hR hU h0
  ancLoop_terminates hS hR hU (depth_le_sum sims) _ _ st0 ⟨hinv.real, hinv.len⟩ rfl rfl orc

end Mosaik
