/-
For each known finding that concerns a theorem: the negation of the property on the concrete
witness, proved by evaluation of the model (`decide`).  The same witness is replayed on the real
code by the check of the property on every run.
-/
import MosaikModel.Tiered
namespace Mosaik.Findings
open Mosaik TI

/-- C08-mixed-cutoff: for two delays of different cutoff `<` can hold although the "smaller" one
arrives later -/
theorem c08_mixed_cutoff :
    let a : TI := ⟨2, 2, [0, 1, 0]⟩
    let b : TI := ⟨2, 1, [0, 1, 1]⟩
    lt? a b = some true ∧ act [0, 5] b < act [0, 5] a := by decide

/-- … and two delays with equal tiers but different cutoffs are neither `<` nor `==`, so the
derived `>` holds in both directions -/
theorem c08_mixed_cutoff_unordered :
    let a : TI := ⟨2, 2, [0, 1]⟩
    let b : TI := ⟨2, 1, [0, 1]⟩
    gt? a b = some true ∧ gt? b a = some true := by decide

end Mosaik.Findings
