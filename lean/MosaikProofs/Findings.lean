/-
For each known finding that concerns a theorem: the negation of the property on the concrete
witness, proved by evaluation of the model (`decide`).  The same witness is replayed on the real
code by the check of the property on every run.
-/
import MosaikProofs.Build.RunConfig
import MosaikModel.Deliver
import MosaikModel.Tiered
import MosaikModel.Sched
namespace Mosaik.Findings
open Mosaik TI

/-- C08-mixed-cutoff: for two delays of different cutoff `<` can hold although the "smaller" one
arrives later -/
theorem c08_mixed_cutoff :
    let a : TI := ⟨2, 2, [0, 1, 0]⟩
    let b : TI := ⟨2, 1, [0, 1, 1]⟩
    lt? a b = some true ∧ act [0, 5] b < act [0, 5] a := by decide

/-- … and two delays with equal tiers but different cutoffs are neither `<` nor `==`, so the
derived `>` holds in both directions -/
theorem c08_mixed_cutoff_unordered :
    let a : TI := ⟨2, 2, [0, 1]⟩
    let b : TI := ⟨2, 1, [0, 1]⟩
    gt? a b = some true ∧ gt? b a = some true := by decide

/-- C09-shift-carries-substep (D20): one event-based simulator in a group, a weak self-connection (the same-time loop) and a
time-shifted self-connection (the hand-over to the next time step), `max_loop_iterations = 2`.  The loop needs two sub-steps per
time step: (0,0) triggers (0,1), whose output - shifted by one - triggers (1,1): the sub-step index is carried into time 1.  The loop
event of (1,1) demands (1,2) and the guard fires, although at time 1 a single sub-step has been performed and the blocked one would
only be the second - "loops that settle within the bound are never interrupted" fails, for the scenario built by these calls. -/
def d20Ops : List Build.Op :=
  [ .start { ty := .eventBased, group := [0],
             cls := (parseAttrs { anyInputs := false, attrs := some [0, 1, 2, 3] } .eventBased).getD default },
    .connect { src := 0, seid := 0, dst := 0, deid := 0, pairs := [(3, 1)], weak := true },
    .connect { src := 0, seid := 1, dst := 0, deid := 0, pairs := [(2, 0)], timeShifted := 1 },
    .initEv 0 0 ]

def d20Cfg : Cfg :=
  Build.runCfg ((cacheTriggeringAncestors (Build.build d20Ops).sims []).toOption.getD []) 3 2 true false false

def d20Run : List Action :=
  [.stepReply 0 .none, .dataReply 0 { data := [((0, 3), some 1)] },      -- (0,0): loop event
   .stepReply 0 .none, .dataReply 0 { data := [((1, 2), some 2)] },      -- (0,1): settled, hand-over over the shifted connection
   .stepReply 0 .none, .dataReply 0 { data := [((0, 3), some 3)] }]      -- (1,1): loop event -> (1,2) is refused

theorem c09_shift_carries_substep :
    d20Cfg.maxLoop = 2 ∧
    ((d20Run.foldlM (deliver d20Cfg) (startAll d20Cfg (initState d20Cfg))).map fun s =>
      (s.failed, (s.sims 0).begun, ((s.sims 0).begun.filter fun t => tier t 0 == 1).length)) =
        some (some (.loop 0), [[1, 1], [0, 1], [0, 0]], 1) := by
  decide

/-- C03-same-connection-events-collapse: two event values of one connection (same input key), produced for times 3 and 4, are
both buffered when the destination steps at time 4: `TimedInputBuffer.get_input` hands over one value per key - the later one -
and empties the buffer, so the value 11 is never delivered ("each produced value exactly once" fails by design of the step
request: one slot per (input attribute, source entity)) -/
theorem c03_same_connection_events_collapse :
    let k : InKey := { eid := 0, attr := 0, ssid := 0, seid := 0 }
    let buf : List BufEntry := [{ time := 3, ctr := 0, key := k, val := some 11 }, { time := 4, ctr := 1, key := k, val := some 27 }]
    bufferTake buf 4 [] = ([(k, some 27)], []) := by decide

end Mosaik.Findings

namespace Mosaik.Findings
open Mosaik

/-- C17-instant-too-slow (D13): A → B, rt_factor 1, every reply arrives without any real time passing
between the step request and the reply (no `tick` between a `deps` and the replies of that step), and
yet `rt_check` reports B's step at time 0 as too slow: it could only begin at clock 1. -/
def d13Cfg : Cfg :=
  { sims := [ { ty := .timeBased, next0 := [[0]], outReq := [(0, 0)], succs := [(1, ⟨1, 1, [0]⟩)],
                push := [((0, 0), 1, ⟨1, 1, [0]⟩, (0, 0))] },
              { ty := .timeBased, next0 := [[0]], inputDelays := [(0, ⟨1, 1, [0]⟩)] } ],
    until_ := 2, lazy_ := true, useCache := false, rt := some 1 }

def d13Run : List Action :=
  [.start 0, .start 1, .deps 0, .stepReply 0 (.int 1), .dataReply 0 { data := [((0, 0), some 7)] },
   .tick 1, .wake 0, .deps 1, .stepReply 1 (.int 1)]

theorem c17_instant_too_slow :
    ((exec d13Cfg (initState d13Cfg) d13Run).map fun s =>
      (s.failed.isNone, s.clock, s.log.any fun e => match e with | .rtWarn 1 => true | _ => false)) = some (true, 1, true) := by
  decide

end Mosaik.Findings
