/-
Lemmas about the flattened input dictionaries (`InputData`) and the timed input buffer.
-/
import MosaikModel.Sched
namespace Mosaik

namespace InputData

theorem get?_nil (k : InKey) : get? [] k = none := rfl

theorem get?_cons (e : InKey × Val) (d : InputData) (k : InKey) :
    get? (e :: d) k = if e.1 = k then some e.2 else get? d k := by
  unfold get?
  simp only [List.find?_cons]
  by_cases h : e.1 = k
  · simp [h]
  · have : (e.1 == k) = false := by simpa using h
    simp [this, h]

theorem has_eq (d : InputData) (k : InKey) : has d k = (get? d k).isSome := by
  induction d with
  | nil => rfl
  | cons e d ih =>
    rw [get?_cons]
    unfold has at ih ⊢
    simp only [List.any_cons]
    by_cases h : e.1 = k
    · simp [h]
    · have : (e.1 == k) = false := by simpa using h
      simp [this, h, ih]

theorem get?_map_other (d : InputData) (k k' : InKey) (v : Val) (hne : k ≠ k') :
    get? (d.map fun e => if e.1 == k then (k, v) else e) k' = get? d k' := by
  induction d with
  | nil => rfl
  | cons e d ih =>
    simp only [List.map_cons, get?_cons, ih]
    by_cases h : e.1 = k
    · have hb : (e.1 == k) = true := by simpa using h
      have : ¬ e.1 = k' := fun e' => hne (h.symm.trans e')
      simp [hb, hne, this]
    · have hb : (e.1 == k) = false := by simpa using h
      simp [hb]

theorem get?_map_same (d : InputData) (k : InKey) (v : Val) (h : d.any (·.1 == k) = true) :
    get? (d.map fun e => if e.1 == k then (k, v) else e) k = some v := by
  induction d with
  | nil => simp at h
  | cons e d ih =>
    simp only [List.map_cons, get?_cons]
    by_cases he : e.1 = k
    · have hb : (e.1 == k) = true := by simpa using he
      simp [hb]
    · have hb : (e.1 == k) = false := by simpa using he
      simp only [List.any_cons, hb, Bool.false_or] at h
      have := ih h
      simp only [hb, Bool.false_eq_true, if_false, he]
      exact this

theorem get?_append_single (d : InputData) (k k' : InKey) (v : Val) :
    get? (d ++ [(k, v)]) k' = match get? d k' with | some x => some x | none => if k = k' then some v else none := by
  induction d with
  | nil => simp [get?_cons, get?_nil]
  | cons e d ih =>
    simp only [List.cons_append, get?_cons, ih]
    by_cases he : e.1 = k' <;> simp [he]

theorem get?_none_of_not_any (d : InputData) (k : InKey) (h : d.any (·.1 == k) = false) : get? d k = none := by
  induction d with
  | nil => rfl
  | cons e d ih =>
    simp only [List.any_cons, Bool.or_eq_false_iff] at h
    have : ¬ e.1 = k := by simpa using h.1
    simp [get?_cons, this, ih h.2]

/-- `d[k] = v` followed by a lookup of `k` -/
theorem get?_set_same (d : InputData) (k : InKey) (v : Val) : get? (set d k v) k = some v := by
  unfold set
  cases h : d.any (·.1 == k) with
  | true => simp only [if_true]; exact get?_map_same d k v h
  | false =>
    simp only [Bool.false_eq_true, if_false]
    rw [get?_append_single, get?_none_of_not_any d k h]; simp

/-- … and of any other key -/
theorem get?_set_other (d : InputData) (k k' : InKey) (v : Val) (hne : k ≠ k') : get? (set d k v) k' = get? d k' := by
  unfold set
  cases h : d.any (·.1 == k) with
  | true => simp only [if_true]; exact get?_map_other d k k' v hne
  | false =>
    simp only [Bool.false_eq_true, if_false]
    rw [get?_append_single]
    cases get? d k' <;> simp [hne]

end InputData

/-- folding buffer entries into the inputs: a key no entry mentions keeps its value -/
theorem foldl_set_other (es : List BufEntry) (inp : InputData) (k : InKey) (h : ∀ e ∈ es, e.key ≠ k) :
    InputData.get? (es.foldl (fun acc e => InputData.set acc e.key e.val) inp) k = InputData.get? inp k := by
  induction es generalizing inp with
  | nil => rfl
  | cons e es ih =>
    simp only [List.foldl_cons]
    rw [ih _ (fun f hf => h f (List.mem_cons_of_mem _ hf)),
        InputData.get?_set_other _ _ _ _ (h e List.mem_cons_self)]

/-- … and a key some entry mentions gets the value of the last such entry -/
theorem foldl_set_last (es : List BufEntry) (inp : InputData) (k : InKey) (e : BufEntry) (rest : List BufEntry)
    (hsplit : ∃ pre, es = pre ++ e :: rest) (hk : e.key = k) (hrest : ∀ f ∈ rest, f.key ≠ k) :
    InputData.get? (es.foldl (fun acc e => InputData.set acc e.key e.val) inp) k = some e.val := by
  obtain ⟨pre, rfl⟩ := hsplit
  rw [List.foldl_append, List.foldl_cons, foldl_set_other rest _ k hrest, ← hk, InputData.get?_set_same]

end Mosaik
