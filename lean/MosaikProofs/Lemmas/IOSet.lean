/-
Helper lemmas for the finite / co-finite set model: membership semantics of the list helpers,
extensionality of `IOSet.eq`.
-/
import MosaikModel.IOSet
namespace Mosaik.IOSet

theorem contains_lunion (a b : List Nat) (x : Nat) : (lunion a b).contains x = (a.contains x || b.contains x) := by
  simp [lunion]

theorem contains_linter (a b : List Nat) (x : Nat) : (linter a b).contains x = (a.contains x && b.contains x) := by
  simp only [linter, List.contains_eq_mem]
  by_cases h1 : x ∈ a <;> by_cases h2 : x ∈ b <;> simp [List.mem_filter, h1, h2]

theorem contains_ldiff (a b : List Nat) (x : Nat) : (ldiff a b).contains x = (a.contains x && !b.contains x) := by
  simp only [ldiff, List.contains_eq_mem]
  by_cases h1 : x ∈ a <;> by_cases h2 : x ∈ b <;> simp [List.mem_filter, h1, h2]

theorem lsubset_iff (a b : List Nat) : lsubset a b = true ↔ ∀ x, x ∈ a → x ∈ b := by
  simp [lsubset, List.all_eq_true]

theorem lseteq_iff (a b : List Nat) : lseteq a b = true ↔ ∀ x, a.contains x = b.contains x := by
  simp only [lseteq, Bool.and_eq_true, lsubset_iff, List.contains_eq_mem]
  constructor
  · rintro ⟨h1, h2⟩ x
    by_cases hx : x ∈ a
    · simp [hx, h1 x hx]
    · by_cases hy : x ∈ b
      · exact absurd (h2 x hy) hx
      · simp [hx, hy]
  · intro h
    constructor
    · intro x hx
      have := h x
      simp [hx] at this
      exact this
    · intro x hx
      have := h x
      simp [hx] at this
      exact this

/-- an element larger than every element of a list -/
def fresh (l : List Nat) : Nat := l.foldl max 0 + 1

theorem le_foldl_max (l : List Nat) (m : Nat) : m ≤ l.foldl max m ∧ ∀ y ∈ l, y ≤ l.foldl max m := by
  induction l generalizing m with
  | nil => simp
  | cons z zs ih =>
    simp only [List.foldl_cons, List.mem_cons, forall_eq_or_imp]
    have := ih (max m z)
    refine ⟨by omega, by omega, this.2⟩

theorem fresh_not_mem (l : List Nat) : fresh l ∉ l := by
  intro h
  have := (le_foldl_max l 0).2 _ h
  unfold fresh at this
  omega

/-- membership semantics of the three binary operators, for every combination of finite and
co-finite operands (i.e. for `frozenset.__op__`, `OutSet.__op__` and the reflected `OutSet.__rop__`) -/
theorem mem_sub (a b : IOSet) (x : Nat) : mem x (sub a b) = (mem x a && !mem x b) := by
  cases a <;> cases b <;> simp only [sub, mem, contains_ldiff, contains_lunion, contains_linter] <;>
    cases List.contains _ x <;> cases List.contains _ x <;> rfl

theorem mem_inter (a b : IOSet) (x : Nat) : mem x (inter a b) = (mem x a && mem x b) := by
  cases a <;> cases b <;> simp only [inter, mem, contains_ldiff, contains_lunion, contains_linter] <;>
    cases List.contains _ x <;> cases List.contains _ x <;> rfl

theorem mem_union (a b : IOSet) (x : Nat) : mem x (union a b) = (mem x a || mem x b) := by
  cases a <;> cases b <;> simp only [union, mem, contains_ldiff, contains_lunion, contains_linter] <;>
    cases List.contains _ x <;> cases List.contains _ x <;> rfl

@[simp] theorem mem_empty (x : Nat) : mem x empty = false := by simp [empty, mem]

/-- `==` is extensional equality (a finite set never equals a co-finite one: the universe of
attribute names is infinite) -/
theorem eq_iff (a b : IOSet) : eq a b = true ↔ ∀ x, mem x a = mem x b := by
  cases a with
  | fin a => cases b with
    | fin b => simp [eq, mem, lseteq_iff]
    | cofin b =>
      simp only [eq, mem, Bool.false_eq_true, false_iff]
      intro h
      have h1 := h (fresh (a ++ b))
      have hn := fresh_not_mem (a ++ b)
      simp only [List.mem_append, not_or] at hn
      simp [hn.1, hn.2] at h1
  | cofin a => cases b with
    | fin b =>
      simp only [eq, mem, Bool.false_eq_true, false_iff]
      intro h
      have h1 := h (fresh (a ++ b))
      have hn := fresh_not_mem (a ++ b)
      simp only [List.mem_append, not_or] at hn
      simp [hn.1, hn.2] at h1
    | cofin b =>
      simp only [eq, mem, lseteq_iff]
      constructor
      · intro h x; rw [h x]
      · intro h x
        have := h x
        cases h1 : a.contains x <;> cases h2 : b.contains x <;> simp_all

end Mosaik.IOSet
