/-
Basic lemmas about the scheduler model: functional state update, sorted insertion, `minTT`, `front`.
-/
import MosaikModel.Sched
import MosaikProofs.Lemmas.Tiered
namespace Mosaik

/-! ### state update -/

@[simp] theorem State.upd_same (s : State) (p : Sid) (f : SimSt → SimSt) : (s.upd p f).sims p = f (s.sims p) := by
  simp [State.upd]

theorem State.upd_other (s : State) {p q : Sid} (f : SimSt → SimSt) (h : q ≠ p) : (s.upd p f).sims q = s.sims q := by
  simp [State.upd, h]

theorem State.upd_sims (s : State) (p q : Sid) (f : SimSt → SimSt) :
    (s.upd p f).sims q = if q = p then f (s.sims q) else s.sims q := rfl

@[simp] theorem State.upd_failed (s : State) (p : Sid) (f : SimSt → SimSt) : (s.upd p f).failed = s.failed := rfl
@[simp] theorem State.upd_clock (s : State) (p : Sid) (f : SimSt → SimSt) : (s.upd p f).clock = s.clock := rfl
@[simp] theorem State.emit_sims (s : State) (e : Event) : (s.emit e).sims = s.sims := rfl
@[simp] theorem State.emit_failed (s : State) (e : Event) : (s.emit e).failed = s.failed := rfl
@[simp] theorem State.emit_clock (s : State) (e : Event) : (s.emit e).clock = s.clock := rfl
@[simp] theorem State.fail_sims (s : State) (e : SchedErr) : (s.fail e).sims = s.sims := by
  unfold State.fail; split <;> rfl
theorem State.fail_failed (s : State) (e : SchedErr) : (s.fail e).failed.isSome = true := by
  unfold State.fail; split <;> simp_all

/-! ### sorted lists of times -/

/-- strictly increasing -/
def SortedTT (l : List TT) : Prop := l.Pairwise (· < ·)

theorem mem_insertSorted (t : TT) : ∀ (l : List TT) (x : TT), x ∈ insertSorted t l ↔ x = t ∨ x ∈ l
  | [], x => by simp [insertSorted]
  | y :: ys, x => by
    unfold insertSorted
    split
    · simp
    · simp only [List.mem_cons, mem_insertSorted t ys x]
      constructor
      · rintro (h | h | h)
        · exact Or.inr (Or.inl h)
        · exact Or.inl h
        · exact Or.inr (Or.inr h)
      · rintro (h | h | h)
        · exact Or.inr (Or.inl h)
        · exact Or.inl h
        · exact Or.inr (Or.inr h)

theorem sorted_insertSorted (t : TT) : ∀ (l : List TT), SortedTT l → t ∉ l → SortedTT (insertSorted t l)
  | [], _, _ => by simp [insertSorted, SortedTT]
  | y :: ys, hs, hn => by
    unfold insertSorted
    unfold SortedTT at hs ⊢
    rw [List.pairwise_cons] at hs
    split
    · rename_i hlt
      rw [List.pairwise_cons]
      refine ⟨?_, List.pairwise_cons.mpr hs⟩
      intro a ha
      rcases List.mem_cons.mp ha with rfl | ha
      · exact hlt
      · exact TT.lt_trans hlt (hs.1 a ha)
    · rename_i hnlt
      have hne : t ≠ y := fun e => hn (e ▸ List.mem_cons_self)
      have hyt : y < t := by
        rcases TT.le_iff_lt_or_eq.mp (TT.not_lt.mp hnlt) with h | h
        · exact h
        · exact absurd h.symm hne
      rw [List.pairwise_cons]
      refine ⟨?_, sorted_insertSorted t ys hs.2 (fun h => hn (List.mem_cons_of_mem _ h))⟩
      intro a ha
      rcases (mem_insertSorted t ys a).mp ha with rfl | ha
      · exact hyt
      · exact hs.1 a ha

/-- the head of a sorted list is its minimum -/
theorem head_le_of_sorted {l : List TT} {h x : TT} (hs : SortedTT l) (hh : l.head? = some h) (hx : x ∈ l) : h ≤ x := by
  cases l with
  | nil => simp at hh
  | cons y ys =>
    simp at hh; subst hh
    rcases List.mem_cons.mp hx with rfl | hx
    · exact TT.le_refl _
    · exact TT.le_of_lt ((List.pairwise_cons.mp hs).1 x hx)

theorem head_insertSorted (t : TT) (l : List TT) :
    (insertSorted t l).head? = some (match l.head? with | none => t | some h => if t < h then t else h) := by
  cases l with
  | nil => simp [insertSorted]
  | cons y ys =>
    unfold insertSorted
    by_cases h : t < y <;> simp [h]

/-! ### minimum of a list of times -/

theorem minTT_le_init : ∀ (l : List TT) (m : TT), minTT m l ≤ m
  | [], m => TT.le_refl m
  | x :: xs, m => by
    unfold minTT
    split
    · rename_i h
      exact TT.le_trans (minTT_le_init xs x) (TT.le_of_lt h)
    · exact minTT_le_init xs m

theorem minTT_le_mem : ∀ (l : List TT) (m x : TT), x ∈ l → minTT m l ≤ x
  | [], _, _, h => by simp at h
  | y :: ys, m, x, h => by
    unfold minTT
    rcases List.mem_cons.mp h with rfl | h
    · split
      · exact minTT_le_init ys x
      · rename_i hn
        exact TT.le_trans (minTT_le_init ys m) (TT.not_lt.mp hn)
    · exact minTT_le_mem ys _ x h

/-- a common lower bound of the start value and all elements is a lower bound of the minimum -/
theorem le_minTT : ∀ (l : List TT) (m b : TT), b ≤ m → (∀ x ∈ l, b ≤ x) → b ≤ minTT m l
  | [], _, _, h, _ => h
  | y :: ys, m, b, h, hl => by
    unfold minTT
    split
    · exact le_minTT ys y b (hl y List.mem_cons_self) (fun x hx => hl x (List.mem_cons_of_mem _ hx))
    · exact le_minTT ys m b h (fun x hx => hl x (List.mem_cons_of_mem _ hx))

/-- the minimum is the start value or an element -/
theorem minTT_mem : ∀ (l : List TT) (m : TT), minTT m l = m ∨ minTT m l ∈ l
  | [], _ => Or.inl rfl
  | y :: ys, m => by
    unfold minTT
    split
    · rcases minTT_mem ys y with h | h
      · exact Or.inr (by rw [h]; exact List.mem_cons_self)
      · exact Or.inr (List.mem_cons_of_mem _ h)
    · rcases minTT_mem ys m with h | h
      · exact Or.inl h
      · exact Or.inr (List.mem_cons_of_mem _ h)

/-! ### front -/

theorem front_cur {x : SimSt} {c : TT} (h : x.cur = some c) : front x = some c := by simp [front, h]
theorem front_none {x : SimSt} (h : x.cur = none) : front x = x.next.head? := by simp [front, h]

end Mosaik
