/-
Helper lemmas about the tiered-time model: tier-wise characterisations, the lexicographic order
on `List Nat` (core's `<` / `≤`), monotonicity of `act`, the action law and associativity.
-/
import MosaikModel.Tiered
namespace Mosaik

theorem tier_eq_getElem {l : List Nat} {i : Nat} (h : i < l.length) : tier l i = l[i] := by
  simp [tier, List.getD_eq_getElem?_getD, h]

theorem tier_eq_zero {l : List Nat} {i : Nat} (h : l.length ≤ i) : tier l i = 0 := by
  simp [tier, List.getD_eq_getElem?_getD, h]

theorem tier_map_range (n : Nat) (f : Nat → Nat) (i : Nat) :
    tier ((List.range n).map f) i = if i < n then f i else 0 := by
  unfold tier
  by_cases h : i < n <;> simp [h, List.getD_eq_getElem?_getD]

theorem list_ext_tier {l m : List Nat} (hl : l.length = m.length)
    (h : ∀ i, i < l.length → tier l i = tier m i) : l = m := by
  apply List.ext_getElem hl
  intro i h1 h2
  have := h i h1
  rwa [tier_eq_getElem h1, tier_eq_getElem h2] at this

namespace TI

@[simp] theorem addTiers_length (a b : List Nat) (c : Nat) : (addTiers a b c).length = b.length := by
  simp [addTiers]

theorem tier_addTiers (a b : List Nat) (c i : Nat) :
    tier (addTiers a b c) i = if i < b.length then (if i < c then tier a i + tier b i else tier b i) else 0 := by
  unfold addTiers; rw [tier_map_range]

@[simp] theorem act_length (t : TT) (d : TI) : (act t d).length = d.tiers.length := by simp [act]
@[simp] theorem add_length (a b : TI) : (add a b).tiers.length = b.tiers.length := by simp [add]
@[simp] theorem add_cutoff (a b : TI) : (add a b).cutoff = min a.cutoff b.cutoff := rfl
@[simp] theorem add_pre (a b : TI) : (add a b).pre = a.pre := rfl

theorem tier_act (t : TT) (d : TI) (i : Nat) :
    tier (act t d) i = if i < d.tiers.length then (if i < d.cutoff then tier t i + tier d.tiers i else tier d.tiers i) else 0 :=
  tier_addTiers _ _ _ _

theorem tier_add (a b : TI) (i : Nat) :
    tier (add a b).tiers i = if i < b.tiers.length then (if i < b.cutoff then tier a.tiers i + tier b.tiers i else tier b.tiers i) else 0 :=
  tier_addTiers _ _ _ _

/-- action law: applying two delays one after the other = applying their sum -/
theorem act_act (t : TT) (a b : TI) (hb : b.cutoff ≤ a.tiers.length) :
    act (act t a) b = act t (add a b) := by
  apply list_ext_tier (by simp)
  intro i hi
  simp only [act_length] at hi
  rw [tier_act, tier_act, tier_act, tier_add]
  simp only [add_length, add_cutoff, hi, if_true]
  by_cases h1 : i < b.cutoff
  · have h3 : i < a.tiers.length := by omega
    by_cases h2 : i < a.cutoff
    · have : i < min a.cutoff b.cutoff := by omega
      simp [h1, h2, h3, this]; omega
    · have : ¬ i < min a.cutoff b.cutoff := by omega
      simp [h1, h2, h3, this]
  · have : ¬ i < min a.cutoff b.cutoff := by omega
    simp [h1, this]

theorem add_assoc (a b c : TI) (hc : c.cutoff ≤ b.tiers.length) :
    add (add a b) c = add a (add b c) := by
  have h3 : (add (add a b) c).tiers = (add a (add b c)).tiers := by
    apply list_ext_tier (by simp)
    intro i hi
    simp only [add_length] at hi
    rw [tier_add, tier_add, tier_add, tier_add]
    simp only [add_length, add_cutoff, hi, if_true]
    by_cases k1 : i < c.cutoff
    · have k3 : i < b.tiers.length := by omega
      by_cases k2 : i < b.cutoff
      · have : i < min b.cutoff c.cutoff := by omega
        simp [k1, k2, k3, this]; omega
      · have : ¬ i < min b.cutoff c.cutoff := by omega
        simp [k1, k2, k3, this]
    · have : ¬ i < min b.cutoff c.cutoff := by omega
      simp [k1, this]
  have h2 : (add (add a b) c).cutoff = (add a (add b c)).cutoff := by simp [Nat.min_assoc]
  have h1 : (add (add a b) c).pre = (add a (add b c)).pre := rfl
  cases hx : add (add a b) c; cases hy : add a (add b c)
  simp_all

end TI

/-! ### lexicographic order on tuples -/

namespace TT

/-- for tuples of equal length, `<` is "first differing tier is smaller" -/
theorem lt_iff_of_length_eq {a b : List Nat} (h : a.length = b.length) :
    a < b ↔ ∃ i, i < a.length ∧ (∀ j, j < i → tier a j = tier b j) ∧ tier a i < tier b i := by
  rw [List.lt_iff_exists]
  constructor
  · rintro (⟨_, hlt⟩ | ⟨i, h1, h2, hpre, hlt⟩)
    · omega
    · refine ⟨i, h1, ?_, ?_⟩
      · intro j hj
        rw [tier_eq_getElem (by omega), tier_eq_getElem (by omega)]
        exact hpre j hj
      · rwa [tier_eq_getElem h1, tier_eq_getElem h2]
  · rintro ⟨i, h1, hpre, hlt⟩
    right
    refine ⟨i, h1, by omega, ?_, ?_⟩
    · intro j hj
      have := hpre j hj
      rwa [tier_eq_getElem (by omega), tier_eq_getElem (by omega)] at this
    · rwa [tier_eq_getElem h1, tier_eq_getElem (by omega)] at hlt

/-- general characterisation via tiers (0-padded), any lengths: if `b < a` fails to hold… we only
need one direction: a first strictly smaller tier (with equal tiers before) makes the tuple smaller. -/
theorem lt_of_tier_lt {a b : List Nat} (i : Nat) (hpre : ∀ j, j < i → tier a j = tier b j)
    (hlt : tier a i < tier b i) : a < b := by
  have hib : i < b.length := by
    rcases Nat.lt_or_ge i b.length with hh | hh
    · exact hh
    · rw [tier_eq_zero hh] at hlt
      omega
  rw [List.lt_iff_exists]
  by_cases hia : i < a.length
  · right
    refine ⟨i, hia, hib, ?_, ?_⟩
    · intro j hj
      have := hpre j hj
      rwa [tier_eq_getElem (by omega), tier_eq_getElem (by omega)] at this
    · rwa [tier_eq_getElem hia, tier_eq_getElem hib] at hlt
  · left
    refine ⟨?_, by omega⟩
    apply List.ext_getElem (by simp; omega)
    intro j h1 h2
    have := hpre j (by omega)
    rw [tier_eq_getElem h1, tier_eq_getElem (by omega)] at this
    simp [this]

theorem le_refl (a : List Nat) : a ≤ a := List.le_refl a
theorem le_trans {a b c : List Nat} (h1 : a ≤ b) (h2 : b ≤ c) : a ≤ c := List.le_trans h1 h2
theorem lt_of_le_of_lt {a b c : List Nat} (h1 : a ≤ b) (h2 : b < c) : a < c := List.lt_of_le_of_lt h1 h2
theorem lt_of_lt_of_le {a b c : List Nat} (h1 : a < b) (h2 : b ≤ c) : a < c := by
  rcases List.le_iff_lt_or_eq.mp h2 with h | h
  · exact List.lt_trans h1 h
  · exact h ▸ h1
theorem lt_trans {a b c : List Nat} (h1 : a < b) (h2 : b < c) : a < c := List.lt_trans h1 h2
theorem le_of_lt {a b : List Nat} (h : a < b) : a ≤ b := List.le_of_lt h
theorem le_total (a b : List Nat) : a ≤ b ∨ b ≤ a := List.le_total a b
theorem lt_irrefl (a : List Nat) : ¬ a < a := List.lt_irrefl a
theorem not_lt {a b : List Nat} : ¬ a < b ↔ b ≤ a := List.not_lt
theorem not_le {a b : List Nat} : ¬ a ≤ b ↔ b < a := List.not_le
theorem le_antisymm {a b : List Nat} (h1 : a ≤ b) (h2 : b ≤ a) : a = b := List.le_antisymm h1 h2
theorem le_of_eq {a b : List Nat} (h : a = b) : a ≤ b := h ▸ le_refl a
theorem lt_or_ge (a b : List Nat) : a < b ∨ b ≤ a := by
  by_cases h : a < b
  · exact Or.inl h
  · exact Or.inr (not_lt.mp h)
theorem le_iff_lt_or_eq {a b : List Nat} : a ≤ b ↔ a < b ∨ a = b := List.le_iff_lt_or_eq

/-- world time is monotone in the tiered order -/
theorem time_mono {a b : List Nat} (h : a ≤ b) : time a ≤ time b := by
  unfold time
  apply Nat.le_of_not_lt
  intro hlt
  have : b < a := lt_of_tier_lt 0 (by intro j hj; omega) hlt
  exact (not_lt.mpr h) this

/-- a strictly later world time makes a tuple later -/
theorem lt_of_time_lt {a b : List Nat} (h : time a < time b) : a < b :=
  lt_of_tier_lt 0 (by intro j hj; omega) h

end TT

namespace TI

/-- `act` is monotone in the time (any lengths) -/
theorem act_mono_left (d : TI) {t t' : TT} (h : t ≤ t') : act t d ≤ act t' d := by
  apply TT.not_lt.mp
  intro hlt
  rw [TT.lt_iff_of_length_eq (by simp)] at hlt
  obtain ⟨i, hi, hpre, hlt⟩ := hlt
  simp only [act_length] at hi
  rw [tier_act, tier_act] at hlt
  simp only [hi, if_true] at hlt
  by_cases hc : i < d.cutoff
  · simp only [hc, if_true] at hlt
    have hpre' : ∀ j, j < i → tier t' j = tier t j := by
      intro j hj
      have := hpre j hj
      rw [tier_act, tier_act] at this
      have hj1 : j < d.tiers.length := by omega
      have hj2 : j < d.cutoff := by omega
      simp only [hj1, hj2, if_true] at this
      omega
    have : t' < t := TT.lt_of_tier_lt i hpre' (by omega)
    exact (TT.not_lt.mpr h) this
  · simp [hc] at hlt

/-- the order on delays of one shape: same pre-length, cutoff and length, tiers compared
lexicographically (this is what `TieredInterval.__le__` computes for equal cutoffs) -/
def le (a b : TI) : Prop :=
  a.pre = b.pre ∧ a.cutoff = b.cutoff ∧ a.tiers.length = b.tiers.length ∧ a.tiers ≤ b.tiers

def lt (a b : TI) : Prop :=
  a.pre = b.pre ∧ a.cutoff = b.cutoff ∧ a.tiers.length = b.tiers.length ∧ a.tiers < b.tiers

theorem le_refl (a : TI) : le a a := ⟨rfl, rfl, rfl, TT.le_refl _⟩

theorem le_trans {a b c : TI} (h1 : le a b) (h2 : le b c) : le a c :=
  ⟨h1.1.trans h2.1, h1.2.1.trans h2.2.1, h1.2.2.1.trans h2.2.2.1, TT.le_trans h1.2.2.2 h2.2.2.2⟩

/-- a strictly smaller delay arrives strictly earlier -/
theorem act_strict_mono_right (t : TT) {a b : TI} (h : lt a b) : act t a < act t b := by
  obtain ⟨_, hc, hl, hlt⟩ := h
  rw [TT.lt_iff_of_length_eq hl] at hlt
  obtain ⟨i, hi, hpre, hlt⟩ := hlt
  rw [TT.lt_iff_of_length_eq (by simp [hl])]
  refine ⟨i, by simpa using hi, ?_, ?_⟩
  · intro j hj
    rw [tier_act, tier_act, ← hl, ← hc, hpre j hj]
  · rw [tier_act, tier_act, ← hl, ← hc]
    simp only [hi, if_true]
    split <;> omega

/-- a smaller delay never arrives later -/
theorem act_mono_right (t : TT) {a b : TI} (h : le a b) : act t a ≤ act t b := by
  obtain ⟨hp, hc, hl, hle⟩ := h
  rcases TT.le_iff_lt_or_eq.mp hle with hlt | heq
  · exact TT.le_of_lt (act_strict_mono_right t ⟨hp, hc, hl, hlt⟩)
  · have : a = b := by cases a; cases b; simp_all
    exact this ▸ TT.le_refl _

/-- adding a delay never decreases a tier that is kept -/
theorem tier_le_tier_act (t : TT) (d : TI) {i : Nat} (h1 : i < d.cutoff) (h2 : i < d.tiers.length) :
    tier t i ≤ tier (act t d) i := by
  rw [tier_act]; simp [h1, h2]

/-- adding a delay never moves world time backwards -/
theorem time_le_time_act (t : TT) (d : TI) (h : d.WF) : TT.time t ≤ TT.time (act t d) :=
  tier_le_tier_act t d (by unfold WF at h; omega) (by unfold WF at h; omega)

/-- composition is monotone in its right argument -/
theorem add_mono_right (c : TI) {a b : TI} (h : le a b) : le (add c a) (add c b) := by
  obtain ⟨hp, hc, hl, hle⟩ := h
  refine ⟨rfl, by simp [hc], by simp [hl], ?_⟩
  rcases TT.le_iff_lt_or_eq.mp hle with hlt | heq
  · apply TT.le_of_lt
    rw [TT.lt_iff_of_length_eq hl] at hlt
    obtain ⟨i, hi, hpre, hlt⟩ := hlt
    rw [TT.lt_iff_of_length_eq (by simp [hl])]
    refine ⟨i, by simpa using hi, ?_, ?_⟩
    · intro j hj
      rw [tier_add, tier_add, ← hl, ← hc, hpre j hj]
    · rw [tier_add, tier_add, ← hl, ← hc]
      simp only [hi, if_true]
      split <;> omega
  · have : a = b := by cases a; cases b; simp_all
    exact this ▸ TT.le_refl _

/-- composition is monotone in its left argument -/
theorem add_mono_left (c : TI) {a b : TI} (h : le a b) : le (add a c) (add b c) := by
  obtain ⟨hp, hc, hl, hle⟩ := h
  refine ⟨hp, by simp [hc], by simp, ?_⟩
  apply TT.not_lt.mp
  intro hlt
  rw [TT.lt_iff_of_length_eq (by simp)] at hlt
  obtain ⟨i, hi, hpre, hlt⟩ := hlt
  simp only [add_length] at hi
  rw [tier_add, tier_add] at hlt
  simp only [hi, if_true] at hlt
  by_cases hcc : i < c.cutoff
  · simp only [hcc, if_true] at hlt
    have hpre' : ∀ j, j < i → tier b.tiers j = tier a.tiers j := by
      intro j hj
      have := hpre j hj
      rw [tier_add, tier_add] at this
      have hj1 : j < c.tiers.length := by omega
      have hj2 : j < c.cutoff := by omega
      simp only [hj1, hj2, if_true] at this
      omega
    have : b.tiers < a.tiers := TT.lt_of_tier_lt i hpre' (by omega)
    exact (TT.not_lt.mpr hle) this
  · simp [hcc] at hlt

end TI

/-! ### `ofWorld` -/

theorem ofWorld_length (depth n : Nat) : (ofWorld depth n).length = depth := by
  simp [ofWorld, fromWorld]

theorem tier_ofWorld (depth n i : Nat) : tier (ofWorld depth n) i = if i = 0 ∧ 0 < depth then n else 0 := by
  unfold ofWorld
  rw [TI.tier_act]
  simp only [fromWorld, List.length_replicate]
  by_cases h : i < depth
  · have hz : tier (List.replicate depth 0) i = 0 := by
      rw [tier_eq_getElem (by simpa using h)]; simp
    by_cases h0 : i = 0
    · subst h0; simp [h, tier]
    · have : ¬ i < 1 := by omega
      simp [h, hz, this, h0]
  · have : ¬ (i = 0 ∧ 0 < depth) := by omega
    simp [h, this]

theorem time_ofWorld {depth : Nat} (h : 0 < depth) (n : Nat) : TT.time (ofWorld depth n) = n := by
  unfold TT.time; rw [tier_ofWorld]; simp [h]

end Mosaik
