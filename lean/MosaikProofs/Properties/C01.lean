/-
C01  Causal input readiness (conservative synchronisation).

For every configuration satisfying `WFCfg` (checked on every generated scenario, see WF.lean),
every behaviour of the simulators and every interleaving (= every sequence of enabled actions of the
transition system of MosaikModel/Sched.lean), with lazy stepping and the cache on or off.
`d` is the tiered delay of the connection (time shift, weak sub-step, group boundary), `<` the tiered
order, so all connection kinds are covered at once.
-/
import MosaikProofs.Sched.Trace
import MosaikProofs.Sched.WF
import MosaikProofs.Build.RunConfig
namespace Mosaik.C01
open Mosaik

/-- State form.  In every reachable state: if consumer `C` has begun a step `t` and `P` feeds `C`
with delay `d`, then `P`'s progress, its step in flight (if any) and every step still scheduled for
it all have a delayed output time after `t` — i.e. every step of `P` whose output is due at or
before `t` is completely finished. -/
theorem causal_state {cfg : Cfg} (hw : WFCfg cfg) {s : State} (hr : Reach cfg s) (hnf : s.failed = none)
    {C : Sid} (hC : C < cfg.n) {t : TT} (ht : t ∈ (s.sims C).begun)
    {qd : Sid × TI} (hqd : qd ∈ (cfg.sim C).inputDelays) (hP : qd.1 < cfg.n) :
    t < TI.act (s.sims qd.1).progress qd.2 ∧
    (∀ c, (s.sims qd.1).cur = some c → t < TI.act c qd.2) ∧
    (∀ x ∈ (s.sims qd.1).next, t < TI.act x qd.2) := by
  obtain ⟨hc, _⟩ := reach_good hw hr hnf
  have h1 := (hc C hC).inputs t ht qd hqd
  refine ⟨h1, ?_, ?_⟩
  · intro c hcur
    rw [← (hc qd.1 hP).cur_eq c hcur]; exact h1
  · intro x hx
    exact TT.lt_of_lt_of_le h1 (TI.act_mono_left _ ((hc qd.1 hP).le_next x hx))

/-- Begin form.  A step of `C` begins (`deps C` fires) only at a time `c` such that every provider's
progress, delayed, has passed `c`. -/
theorem causal_begin {cfg : Cfg} (hw : WFCfg cfg) {s s' : State} (hr : Reach cfg s) {C : Sid}
    (h : step cfg s (.deps C) = some s') (hnf : s'.failed = none) :
    ∃ c, (s'.sims C).cur = some c ∧ (s'.sims C).begun = c :: (s.sims C).begun ∧
      ∀ qd ∈ (cfg.sim C).inputDelays, c < TI.act (s.sims qd.1).progress qd.2 := by
  rcases step_frame hw (reach_good hw hr) h hnf with hl | ⟨p, c, ha, _, _, hready, _, _, _, _, _, hbeg, hcur, _⟩
  · -- `deps` always begins a step: `Later` is impossible here, but it also suffices
    exfalso
    have hg' := good_step hw (reach_good hw hr) h hnf
    simp only [step] at h
    unfold stepDeps at h
    split at h
    · rename_i hguard
      obtain ⟨hf, hp⟩ := live_iff.mp hguard
      obtain ⟨_, hpcs⟩ := reach_good hw hr hf
      split at h
      · rename_i t hpc
        split at h
        · cases hnext : (s.sims C).next with
          | nil => simp [hnext] at h
          | cons c rest =>
            simp only [hnext, Option.some.injEq] at h
            -- in s' the pc is inStep, hence cur is some c', c' ∈ begun s' = begun s, but c' = progress s C and all begun < next head
            have hin := (hg'.2 C hp)
            have hc := (reach_good hw hr hf).1 C hp
            obtain ⟨w1, w2, _⟩ := (hpcs C hp).waiting t hpc
            -- begun s' C = begun s C, cur s' C = some c'
            subst h
            unfold beginStep at hin hnf hl
            have hct : c = t := by rw [hnext] at w1; simpa using w1
            subst hct
            simp only [w2, ne_eq, not_true_eq_false, if_false] at hin hnf hl
            cases hloop : (c.tail.any fun k => decide (k ≥ cfg.maxLoop)) with
            | true =>
              simp only [hloop, if_true] at hnf
              have := State.fail_failed (s.upd C fun x => { x with cur := some c, next := rest }) (.loop C)
              rw [hnf] at this; cases this
            | false =>
              simp only [hloop, Bool.false_eq_true, if_false] at hl
              have := hl.begun C
              simp only [State.emit_sims, State.upd_same] at this
              obtain ⟨f, hfctrl, hsnd⟩ := getInputData_snd cfg (s.upd C fun x => { x with cur := some c, next := rest }) C c
              rw [hsnd] at this
              have hfc := hfctrl ({ s.sims C with cur := some c, next := rest })
              simp only [SimSt.ctrl, Prod.mk.injEq] at hfc
              simp only [State.upd_same] at this
              rw [hfc.2.2.2.2] at this
              simp at this
        · cases h
      · cases h
    · cases h
  · cases ha
    refine ⟨c, hcur, hbeg, ?_⟩
    intro qd hqd
    unfold depsReady at hready
    simp only [Bool.and_eq_true, List.all_eq_true, decide_eq_true_eq] at hready
    exact hready.1.1 qd hqd

/-- Run form (the statement of the property).  Once consumer `C` has begun a step at `t`, no
simulator `P` feeding it is ever (later in the run, under any interleaving) stepped at a time `c`
whose delayed output time `c + d` is at or before `t`. -/
theorem causal_run {cfg : Cfg} (hw : WFCfg cfg) : ∀ (as : List Action) {s s' : State}, Reach cfg s →
    exec cfg s as = some s' → s'.failed = none →
    ∀ {C : Sid}, C < cfg.n → ∀ {t : TT}, t ∈ (s.sims C).begun →
    ∀ {qd : Sid × TI}, qd ∈ (cfg.sim C).inputDelays →
    ∀ c ∈ (s'.sims qd.1).begun, c ∉ (s.sims qd.1).begun → t < TI.act c qd.2
  | [], s, s', _, h, _, _, _, _, _, _, _, c, hc, hnc => by
    simp [exec] at h; subst h; exact absurd hc hnc
  | a :: as, s, s', hr, h, hnf, C, hC, t, ht, qd, hqd, c, hc, hnc => by
    simp only [exec] at h
    cases hs : step cfg s a with
    | none => simp [hs] at h
    | some s1 =>
      simp only [hs] at h
      have hnf1 := exec_cons_not_failed hs h hnf
      have hr1 := Reach.step hr hs
      have hf0 : s.failed = none := by
        cases hf : s.failed with
        | none => rfl
        | some e => rw [step_none_of_failed (by rw [hf]; rfl)] at hs; cases hs
      obtain ⟨hcore, _⟩ := reach_good hw hr hf0
      -- t is still begun in s1
      have ht1 : t ∈ (s1.sims C).begun := (exec_mono hw [a] hr (by simp [exec, hs]) hnf1).2 C t ht
      by_cases hc1 : c ∈ (s1.sims qd.1).begun
      · -- the step c began with this very action
        rcases step_frame hw (reach_good hw hr) hs hnf1 with hl | ⟨p, c', _, _, _, _, hprog, _, _, _, _, hbeg, _, hoth⟩
        · rw [hl.begun] at hc1; exact absurd hc1 hnc
        · by_cases hqp : qd.1 = p
          · rw [hqp, hbeg] at hc1
            rcases List.mem_cons.mp hc1 with rfl | hc1
            · rw [← hprog, ← hqp]
              exact (hcore C hC).inputs t ht qd hqd
            · rw [hqp] at hnc; exact absurd hc1 hnc
          · rw [hoth _ hqp] at hc1; exact absurd hc1 hnc
      · exact causal_run hw as hr1 h hnf hC ht1 hqd c hc hc1

/-! non-vacuity: the hypotheses are satisfiable — a two-simulator configuration A → B with a
trigger connection satisfies the executable check behind `WFCfg`, and a run exists in which both
step. -/
def exCfg : Cfg :=
  { sims := [ { ty := .timeBased, next0 := [[0]], triggers := [((0, 0), 1, ⟨1, 1, [0]⟩)], outReq := [(0, 0)],
                succs := [(1, ⟨1, 1, [0]⟩)], push := [((0, 0), 1, ⟨1, 1, [0]⟩, (0, 0))] },
              { ty := .eventBased, inputDelays := [(0, ⟨1, 1, [0]⟩)], trigAnc := [(0, ⟨1, 1, [0]⟩)] } ],
    until_ := 2, lazy_ := false, useCache := false }

example : exCfg.wfB = true := by decide

/-- a run of that configuration in which A steps at 0 and B, triggered by A's output, steps at 0 after it -/
def exRun : List Action :=
  [.start 0, .start 1, .deps 0, .stepReply 0 (.int 1), .dataReply 0 { data := [((0, 0), some 7)] }, .wake 1, .deps 1]

example : ((exec exCfg (initState exCfg) exRun).map fun s => (s.failed.isNone, (s.sims 0).begun, (s.sims 1).begun))
    = some (true, [[0]], [[0]]) := by decide

/-- **causality for every built scenario** - without a `WFCfg` hypothesis: the configuration is the one `World.run` derives
(`cache_triggering_ancestors`) from a scenario built by ANY valid sequence of `start` / `connect` / `set_initial_event` calls
(`Build.run_config_wf`; `UniformT`: all trigger paths between two simulators have one cutoff, the complement of finding D7) -/
theorem causal_run_built {ops : List Build.Op} (hv : Build.Valid {} ops) (hU : UniformT (Build.build ops).sims)
    {orc : List Nat} {out : List SimCfg} (hc : cacheTriggeringAncestors (Build.build ops).sims orc = .ok out)
    (until_ maxLoop : Nat) (lazy_ useCache strict : Bool) (as : List Action) {s s' : State}
    (hr : Reach (Build.runCfg out until_ maxLoop lazy_ useCache strict) s)
    (he : exec (Build.runCfg out until_ maxLoop lazy_ useCache strict) s as = some s') (hnf : s'.failed = none)
    {C : Sid} (hC : C < (Build.runCfg out until_ maxLoop lazy_ useCache strict).n) {t : TT} (ht : t ∈ (s.sims C).begun)
    {qd : Sid × TI} (hqd : qd ∈ ((Build.runCfg out until_ maxLoop lazy_ useCache strict).sim C).inputDelays)
    (c : TT) (hc1 : c ∈ (s'.sims qd.1).begun) (hc2 : c ∉ (s.sims qd.1).begun) : t < TI.act c qd.2 :=
  causal_run (Build.run_config_wf hv hU hc until_ maxLoop lazy_ useCache strict) as hr he hnf hC ht hqd c hc1 hc2

/-- non-vacuity: a built scenario (A time-based, B hybrid, A.2 → B.1 a trigger connection) is valid, its ancestor table is
computed, and its run configuration passes the executable form of `WFCfg` -/
def exOps : List Build.Op :=
  [ .start { ty := .timeBased, group := [], cls := (parseAttrs { anyInputs := false, attrs := some [0, 1, 2, 3] } .timeBased).getD default },
    .start { ty := .hybrid, group := [], cls := (parseAttrs { anyInputs := false, attrs := some [0, 1, 2, 3], trigger := some [1], nonPersistent := some [3] } .hybrid).getD default },
    .connect { src := 0, seid := 0, dst := 1, deid := 0, pairs := [(2, 1)] } ]

example : (Build.build exOps).sims.length = 2 ∧ ((Build.build exOps).sim 0).triggers.length = 1 ∧
    ((cacheTriggeringAncestors (Build.build exOps).sims []).toOption.map fun out => (Build.runCfg out 3 100 true true false).wfB) = some true := by
  decide

/-- non-vacuity of the flat form: `exOps` starts every simulator in the main group -/
example : Build.flatOps exOps = true := by decide

end Mosaik.C01
