/-
C02  Exact step set: no spurious, duplicated or out-of-order steps.

Proved (safety half, all `WFCfg` configurations, behaviours, interleavings): the steps a simulator
begins are strictly increasing in tiered time (sub-steps of one time in order, no time twice), lie
in `[0, until)`, and each was the earliest scheduled step at the moment it began; and (`only_demanded_steps`) every step begun
or scheduled was demanded somewhere in the run's own history: it is in the initial schedule (time 0 /
initial events), or it is the next step the simulator itself returned from a step before `until`, or it
is the delayed output time of an output that another simulator's step delivered to one of its trigger
connections.
`complete_at_end`: conversely, when a run has ended (every process has ended, no failure), every step
of the initial schedule and every step demanded during the run whose time lies before `until` has been
executed.  Together: at the end of a run the set of executed steps is exactly the demanded set, each
executed once, in increasing order.
NOT proved (liveness half, `complete`): that every demanded time is eventually executed; it needs
the termination argument of C05 and is covered by the correspondence runs and the monitor only.
-/
import MosaikProofs.Sched.Errors
import MosaikProofs.Sched.Sources
import MosaikProofs.Sched.Complete
namespace Mosaik.C02
open Mosaik

/-- strictly increasing, no duplicates: `begun` lists the steps most recent first -/
theorem steps_strictly_increasing {cfg : Cfg} (hw : WFCfg cfg) {s : State} (hr : Reach cfg s) (hnf : s.failed = none)
    (p : Sid) (hp : p < cfg.n) : (s.sims p).begun.Pairwise (fun later earlier => earlier < later) :=
  ((reach_good hw hr hnf).1 p hp).begun_sorted

theorem no_duplicate_steps {cfg : Cfg} (hw : WFCfg cfg) {s : State} (hr : Reach cfg s) (hnf : s.failed = none)
    (p : Sid) (hp : p < cfg.n) : (s.sims p).begun.Nodup := by
  have := steps_strictly_increasing hw hr hnf p hp
  rw [List.nodup_iff_pairwise_ne]
  exact this.imp (fun {a b} h e => by subst e; exact TT.lt_irrefl _ h)

/-- no step at or after `until` -/
theorem steps_before_until {cfg : Cfg} (hw : WFCfg cfg) {s : State} (hr : Reach cfg s) :
    s.failed = none → ∀ p, ∀ b ∈ (s.sims p).begun, TT.time b < cfg.until_ := by
  induction hr with
  | init => intro _ p b hb; simp [initState, initSim] at hb
  | @step s s' a hr hstep ih =>
    intro hnf p b hb
    have hf0 : s.failed = none := by
      cases hf : s.failed with
      | none => rfl
      | some e => rw [step_none_of_failed (by rw [hf]; rfl)] at hstep; cases hstep
    rcases step_frame hw (reach_good hw hr) hstep hnf with hl | ⟨q, c, _, _, _, _, _, _, htime, _, _, hbeg, _, hoth⟩
    · rw [hl.begun] at hb; exact ih hf0 p b hb
    · by_cases hpq : p = q
      · subst hpq
        rw [hbeg] at hb
        rcases List.mem_cons.mp hb with rfl | hb
        · exact htime
        · exact ih hf0 p b hb
      · rw [hoth p hpq] at hb; exact ih hf0 p b hb

/-- a step begins only at the earliest scheduled time, which equals the simulator's progress; a
scheduled step is executed at most once (it is removed when it begins, and everything that remains
or is scheduled later is strictly after it) -/
theorem step_is_earliest_scheduled {cfg : Cfg} (hw : WFCfg cfg) {s s' : State} {p : Sid} (hr : Reach cfg s)
    (h : step cfg s (.deps p) = some s') (hnf : s'.failed = none) :
    ∃ c, (s.sims p).next.head? = some c ∧ (s.sims p).progress = c ∧ (s'.sims p).cur = some c ∧
      (∀ x ∈ (s'.sims p).next, c < x) := by
  have hg' := good_step hw (reach_good hw hr) h hnf
  rcases step_frame hw (reach_good hw hr) h hnf with hl | ⟨q, c, ha, hq, _, _, hprog, hhead, _, _, _, hbeg, hcur, _⟩
  · -- `deps` begins a step, so the begun list cannot be unchanged; use the other invariants
    exfalso
    obtain ⟨c, hc1, hc2, _⟩ := C01_aux hw hr h hnf
    have := hl.begun p
    rw [hc2] at this
    simp at this
  · cases ha
    refine ⟨c, hhead, hprog, hcur, ?_⟩
    intro x hx
    exact (hg'.1 p hq).begun_lt_next c ((hg'.1 p hq).cur_begun c hcur) x hx
where
  C01_aux {cfg : Cfg} (hw : WFCfg cfg) {s s' : State} {p : Sid} (hr : Reach cfg s)
      (h : step cfg s (.deps p) = some s') (hnf : s'.failed = none) :
      ∃ c, (s'.sims p).cur = some c ∧ (s'.sims p).begun = c :: (s.sims p).begun ∧ True := by
    rcases step_frame hw (reach_good hw hr) h hnf with hl | ⟨q, c, ha, _, _, _, _, _, _, _, _, hbeg, hcur, _⟩
    · exfalso
      simp only [step] at h
      unfold stepDeps at h
      split at h
      · rename_i hguard
        obtain ⟨hf, hp⟩ := live_iff.mp hguard
        obtain ⟨_, hpcs⟩ := reach_good hw hr hf
        split at h
        · rename_i t hpc
          split at h
          · cases hnext : (s.sims p).next with
            | nil => simp [hnext] at h
            | cons c rest =>
              simp only [hnext, Option.some.injEq] at h
              obtain ⟨w1, w2, _⟩ := (hpcs p hp).waiting t hpc
              subst h
              unfold beginStep at hnf hl
              have hct : c = t := by rw [hnext] at w1; simpa using w1
              subst hct
              simp only [w2, ne_eq, not_true_eq_false, if_false] at hnf hl
              cases hloop : (c.tail.any fun k => decide (k ≥ cfg.maxLoop)) with
              | true =>
                simp only [hloop, if_true] at hnf
                have := State.fail_failed (s.upd p fun x => { x with cur := some c, next := rest }) (.loop p)
                rw [hnf] at this; cases this
              | false =>
                simp only [hloop, Bool.false_eq_true, if_false] at hl
                have := hl.begun p
                simp only [State.emit_sims, State.upd_same] at this
                obtain ⟨f, hfctrl, hsnd⟩ := getInputData_snd cfg (s.upd p fun x => { x with cur := some c, next := rest }) p c
                rw [hsnd] at this
                have hfc := hfctrl ({ s.sims p with cur := some c, next := rest })
                simp only [SimSt.ctrl, Prod.mk.injEq] at hfc
                simp only [State.upd_same] at this
                rw [hfc.2.2.2.2] at this
                simp at this
          · cases h
        · cases h
      · cases h
    · cases ha; exact ⟨c, hcur, hbeg, trivial⟩

/-- scheduled steps are never in the simulator's past, so none can be lost by being skipped: every
scheduled time is at or after the progress, and strictly after every step already begun -/
theorem scheduled_not_skipped {cfg : Cfg} (hw : WFCfg cfg) {s : State} (hr : Reach cfg s) (hnf : s.failed = none)
    (p : Sid) (hp : p < cfg.n) :
    (∀ t ∈ (s.sims p).next, (s.sims p).progress ≤ t) ∧ (∀ b ∈ (s.sims p).begun, ∀ t ∈ (s.sims p).next, b < t) :=
  ⟨((reach_good hw hr hnf).1 p hp).le_next, ((reach_good hw hr hnf).1 p hp).begun_lt_next⟩

/-- a demand raised by action `a` fired in state `s0`: a returned next step or a delivered trigger -/
def Demand (cfg : Cfg) (s0 : State) (a : Action) (b : Sid) (x : TT) : Prop := SelfSrc cfg s0 a b x ∨ TrigSrc cfg s0 a b x

/-- the demand was raised at some point of the run `as` started in `s` -/
def DemandedIn (cfg : Cfg) (s : State) (as : List Action) (b : Sid) (x : TT) : Prop :=
  ∃ as1 a as2 s0, as = as1 ++ a :: as2 ∧ exec cfg s as1 = some s0 ∧ Demand cfg s0 a b x

theorem DemandedIn.cons {cfg : Cfg} {s s1 : State} {a : Action} {as : List Action} {b : Sid} {x : TT}
    (hs : step cfg s a = some s1) (h : DemandedIn cfg s1 as b x) : DemandedIn cfg s (a :: as) b x := by
  obtain ⟨as1, a', as2, s0, he, hx, hd⟩ := h
  exact ⟨a :: as1, a', as2, s0, by rw [he]; rfl, by simp only [exec, hs]; exact hx, hd⟩

/-- along a run, whatever is scheduled or has begun was so before or was demanded during the run -/
theorem demanded_from {cfg : Cfg} (hw : WFCfg cfg) : ∀ (as : List Action) {s s' : State}, Reach cfg s →
    exec cfg s as = some s' → s'.failed = none → ∀ b x, (x ∈ (s'.sims b).next ∨ x ∈ (s'.sims b).begun) →
      (x ∈ (s.sims b).next ∨ x ∈ (s.sims b).begun) ∨ DemandedIn cfg s as b x
  | [], s, s', _, h, _ => by
    simp [exec] at h; subst h
    intro b x hx; exact Or.inl hx
  | a :: as, s, s', hr, h, hnf => by
    simp only [exec] at h
    cases hs : step cfg s a with
    | none => simp [hs] at h
    | some s1 =>
      rw [hs] at h
      have hnf1 := exec_cons_not_failed hs h hnf
      intro b x hx
      rcases demanded_from hw as (Reach.step hr hs) h hnf b x hx with h1 | h1
      · -- in `s1`: trace one step back
        have hnext : x ∈ (s1.sims b).next → (x ∈ (s.sims b).next ∨ x ∈ (s.sims b).begun) ∨ DemandedIn cfg s (a :: as) b x := by
          intro hn
          rcases step_sources hs b x hn with h2 | h2 | h2 | ⟨t, _, hrt⟩
          · exact Or.inl (Or.inl h2)
          · exact Or.inr ⟨[], a, as, s, rfl, rfl, Or.inl h2⟩
          · exact Or.inr ⟨[], a, as, s, rfl, rfl, Or.inr h2⟩
          · rw [hw.noRt] at hrt; cases hrt
        rcases h1 with h1 | h1
        · exact hnext h1
        · rcases step_frame hw (reach_good hw hr) hs hnf1 with hl | ⟨q, c, _, _, _, _, _, hhead, _, _, _, hbeg, _, hoth⟩
          · rw [hl.begun] at h1; exact Or.inl (Or.inr h1)
          · by_cases hbq : b = q
            · subst hbq
              rw [hbeg] at h1
              rcases List.mem_cons.mp h1 with rfl | h1
              · exact Or.inl (Or.inl (List.mem_of_mem_head? hhead))
              · exact Or.inl (Or.inr h1)
            · rw [hoth b hbq] at h1; exact Or.inl (Or.inr h1)
      · exact Or.inr (h1.cons hs)

/-- **C02, "and at no others".**  Every step a simulator has begun (or has scheduled) in a run from the
initial state was demanded: it belongs to the initial schedule, or the demand was raised by an action of
this very run — the simulator's own returned next step (`SelfSrc`: an integer later than the step's time
and before `until`) or an output delivered to one of its trigger connections (`TrigSrc`: the delayed
output time of an output present in another step's data). -/
theorem only_demanded_steps {cfg : Cfg} (hw : WFCfg cfg) (as : List Action) {s : State}
    (he : exec cfg (initState cfg) as = some s) (hnf : s.failed = none) (b : Sid) (x : TT)
    (hx : x ∈ (s.sims b).begun ∨ x ∈ (s.sims b).next) :
    x ∈ (cfg.sim b).next0 ∨ DemandedIn cfg (initState cfg) as b x := by
  rcases demanded_from hw as Reach.init he hnf b x hx.symm with h | h
  · left
    rcases h with h | h
    · simpa [initState, initSim] using h
    · simp [initState, initSim] at h
  · exact Or.inr h

/-! ### completeness -/

theorem exec_append {cfg : Cfg} : ∀ (l1 l2 : List Action) (s : State),
    exec cfg s (l1 ++ l2) = (exec cfg s l1).bind (fun s' => exec cfg s' l2)
  | [], _, _ => rfl
  | a :: l1, l2, s => by
    simp only [List.cons_append, exec]
    cases step cfg s a with
    | none => rfl
    | some s1 => exact exec_append l1 l2 s1

/-- along a run, a step that is scheduled stays scheduled until it has begun -/
theorem scheduled_or_begun {cfg : Cfg} (hw : WFCfg cfg) : ∀ (as : List Action) {s s' : State}, Reach cfg s →
    exec cfg s as = some s' → s'.failed = none → ∀ b x, (x ∈ (s.sims b).next ∨ x ∈ (s.sims b).begun) →
      (x ∈ (s'.sims b).next ∨ x ∈ (s'.sims b).begun)
  | [], s, s', _, h, _ => by
    simp [exec] at h; subst h
    intro b x hx; exact hx
  | a :: as, s, s', hr, h, hnf => by
    simp only [exec] at h
    cases hs : step cfg s a with
    | none => simp [hs] at h
    | some s1 =>
      rw [hs] at h
      have hnf1 := exec_cons_not_failed hs h hnf
      intro b x hx
      apply scheduled_or_begun hw as (Reach.step hr hs) h hnf b x
      have hfr := step_frame hw (reach_good hw hr) hs hnf1
      rcases hx with hx | hx
      · rcases step_next_keeps hs b x hx with h1 | ⟨ha, hhead⟩
        · exact Or.inl h1
        · right
          rcases hfr with hl | ⟨q, c, haq, _, _, _, _, hhead2, _, _, _, hbeg, _, _⟩
          · -- a `deps` action that begins nothing does not exist
            exfalso
            subst ha
            simp only [step, stepDeps] at hs
            split at hs
            · cases hpc : (s.sims b).pc with
              | waitDeps t =>
                simp only [hpc] at hs
                split at hs
                · cases hn : (s.sims b).next with
                  | nil => rw [hn] at hhead; cases hhead
                  | cons c rest =>
                    simp only [hn, Option.some.injEq] at hs
                    subst hs
                    have h1 := hl.begun b
                    have h2 := beginStep_pc cfg s b c rest hnf1
                    unfold beginStep at h1
                    have hprog : ¬ c ≠ (s.sims b).progress := by
                      intro hne
                      have : (beginStep cfg s b c rest).failed.isSome = true := by
                        unfold beginStep; rw [if_pos hne]; exact State.fail_failed _ _
                      rw [hnf1] at this; cases this
                    rw [if_neg hprog] at h1
                    have hloop : ¬ (c.tail.any fun k => decide (k ≥ cfg.maxLoop)) = true := by
                      intro hl2
                      have : (beginStep cfg s b c rest).failed.isSome = true := by
                        unfold beginStep; rw [if_neg hprog, if_pos hl2]; exact State.fail_failed _ _
                      rw [hnf1] at this; cases this
                    rw [if_neg hloop] at h1
                    obtain ⟨f, hfctrl, hsnd⟩ := getInputData_snd cfg (s.upd b fun z => { z with cur := some c, next := rest }) b c
                    simp only [hsnd, State.emit_sims, State.upd_same] at h1
                    have hf := hfctrl ({ s.sims b with cur := some c, next := rest })
                    simp only [SimSt.ctrl, Prod.mk.injEq] at hf
                    rw [hf.2.2.2.2] at h1
                    simp at h1
                · cases hs
              | init => simp [hpc] at hs
              | awaitSettle a dl => simp [hpc] at hs
              | inStep => simp [hpc] at hs
              | inGet => simp [hpc] at hs
              | done => simp [hpc] at hs
            · cases hs
          · rw [ha] at haq
            cases haq
            rw [hbeg]
            rw [hhead] at hhead2
            cases hhead2
            exact List.mem_cons_self
      · right
        rcases hfr with hl | ⟨q, c, _, _, _, _, _, _, _, _, _, hbeg, _, hoth⟩
        · rw [hl.begun]; exact hx
        · by_cases hbq : b = q
          · subst hbq; rw [hbeg]; exact List.mem_cons_of_mem _ hx
          · rw [hoth b hbq]; exact hx

/-- **C02, "every demanded time is executed" (at the end of a run).**  `as` is a complete run: it leads from
the initial state to a state that has not failed and in which every simulator's process has ended.  Then every
step of the initial schedule and every step demanded during the run (own returned next step, delivered trigger)
whose time lies before `until` has been executed. -/
theorem complete_at_end {cfg : Cfg} (hw : WFCfg cfg) (as : List Action) {s : State}
    (he : exec cfg (initState cfg) as = some s) (hnf : s.failed = none) (hend : ∀ p, p < cfg.n → (s.sims p).pc = .done)
    {b : Sid} (hb : b < cfg.n) {x : TT} (hx : x ∈ (cfg.sim b).next0 ∨ DemandedIn cfg (initState cfg) as b x)
    (ht : TT.time x < cfg.until_) : x ∈ (s.sims b).begun := by
  have hr : Reach cfg s := exec_reach as Reach.init he
  have hsb : x ∈ (s.sims b).next ∨ x ∈ (s.sims b).begun := by
    rcases hx with hx | ⟨as1, a, as2, s0, hsplit, hx0, hd⟩
    · exact scheduled_or_begun hw as Reach.init he hnf b x (Or.inl (by simpa [initState, initSim] using hx))
    · rw [hsplit, exec_append, hx0] at he
      simp only [Option.bind_some, exec] at he
      cases hs : step cfg s0 a with
      | none => rw [hs] at he; cases he
      | some s1 =>
        rw [hs] at he
        have hr0 : Reach cfg s0 := exec_reach as1 Reach.init hx0
        have hnf1 := exec_cons_not_failed hs he hnf
        exact scheduled_or_begun hw as2 (Reach.step hr0 hs) he hnf b x (Or.inl (demand_scheduled hs hnf1 hd))
  rcases hsb with h | h
  · exfalso
    have h1 := ((reach_good hw hr hnf).1 b hb).le_next x h
    have h2 := reach_doneOk hr hnf b (hend b hb)
    have := TT.time_mono h1
    omega
  · exact h

/-- **C02, the exact step set.**  At the end of a run (no failure, every process ended) the steps before `until` a
simulator has executed are exactly the demanded ones — the initial schedule, the next steps it returned and the
delayed output times of outputs delivered to its trigger connections — each executed once, in increasing order. -/
theorem exact_step_set {cfg : Cfg} (hw : WFCfg cfg) (as : List Action) {s : State}
    (he : exec cfg (initState cfg) as = some s) (hnf : s.failed = none) (hend : ∀ p, p < cfg.n → (s.sims p).pc = .done)
    {b : Sid} (hb : b < cfg.n) :
    (∀ x, TT.time x < cfg.until_ → (x ∈ (s.sims b).begun ↔ (x ∈ (cfg.sim b).next0 ∨ DemandedIn cfg (initState cfg) as b x))) ∧
    (s.sims b).begun.Nodup ∧ (s.sims b).begun.Pairwise (fun later earlier => earlier < later) := by
  have hr : Reach cfg s := exec_reach as Reach.init he
  refine ⟨?_, no_duplicate_steps hw hr hnf b hb, steps_strictly_increasing hw hr hnf b hb⟩
  intro x ht
  constructor
  · intro hx; exact only_demanded_steps hw as he hnf b x (Or.inl hx)
  · intro hx; exact complete_at_end hw as he hnf hend hb hx ht

end Mosaik.C02
