/-
C03  Data-flow fidelity of step inputs — the building blocks.

Proved (for every buffer content, step time and prior inputs):
* `event_kept_until_due`, `event_removed_when_delivered` : a pushed value stays in the timed input
  buffer exactly until the destination's first step at or after its due time, and is removed by that
  step — so it can neither be lost before nor delivered twice
* `event_delivered` : at that step it is in the inputs under its own (source entity, destination
  entity, attribute) key, unless a later-due value of the same connection is delivered with it
* `undue_not_delivered` : a value that is not yet due does not reach the inputs; nothing is
  invented: a key changes only if a due entry carries it
* `set_data_wins`, `persistent_default` : values from set_data take precedence over the remembered
  persistent value, which is used exactly for the keys not set
* `pulled_is_cached_value` : with the cache on, a pulled input is the cached output of the newest
  cache entry at or before (step time − shift), or `None`
* `begin_consumes_inputs` : the inputs handed to `step` are `stepInputs` of the state in which the
  step begins, and beginning the step empties the set_data inputs and the due part of the buffer

Whole runs, flat configurations (`Sched/Buffer.lean`):
* `no_late_arrival` : in every reachable state every value waiting in a simulator's input buffer is
  due strictly after every step that simulator has begun — nothing arrives too late to be delivered
* `taken_at_first_due_step` : when a simulator begins a step, every buffered value the step takes
  (due at or before it) is due after all its earlier steps: the step is the destination's first step
  at or after the value's due time; and what stays in the buffer is not yet due
Provenance, all configurations (`Sched/BufferSrc.lean`):
* `buffered_values_are_outputs` : an action adds an entry to a simulator's input buffer only if it is the
  `get_data` reply of a simulator with a pushed connection to it, and then the entry carries exactly the value the
  reply holds for that connection's source attribute, keyed by that source and the connection's destination
  port, stamped with output time + shift — nothing is invented, nothing is attributed to another source
* `input_from_buffer_or_before` : the value a step receives under a key is the one it had before the buffer was
  consulted (set_data / remembered persistent value), or the value of a due buffer entry with that key
Cache path (`Sched/Prune.lean`):
* `prune_keeps_pulled` : `prune_dataflow_cache` (as repaired, fix D8) never changes a lookup a consumer can
  still make: for a source whose output times have not gone back, every cached connection and every step time
  at or after the consumer's last step, the newest entry at or before (time − shift) is the same in the pruned
  cache (list-level statement `prune_keeps_lookups`)
Cache path, whole runs, all configurations (`Sched/CacheRef.lean`):
* `pull_refines_spec`, `begin_pulls_history` : with the cache on, in every run whose reported output times do not go
  back, the values a step pulls over its cached (persistent) connections are those of the *never-pruned history* of
  the source — the declared initial data followed by every `get_data` reply of the run, entered the way `get_outputs`
  enters it: for each connection the newest output at or before (step time − shift), `hist_lookup_newest` — and these
  are the values sent with the step request.  Invariant `CacheRef`: the real, pruned cache and the history give the
  same entry for every lookup a consumer can still make.  Hypotheses: initial cache content in key order
  (`InitSorted`; its complement is the known finding about initial data of several shifted connections) and
  `MonoAct` on the replies (complement of the known finding about non-monotone output times).
Push path, whole runs, flat configurations (`Sched/PushRef.lean`; all connections when `cache=False`):
* `push_buffer_is_pending_history` : in every reachable state, the values of a pushed connection waiting in the
  destination's timed input buffer are exactly the values the source has produced on it that were not yet due at the
  destination's last step, in production order — nothing lost, duplicated, invented or attributed to another source
* `push_persistent_is_latest` : for a persistent connection the remembered value is the last produced value that was due
  at the last step, the declared initial value if there is none
* `begin_push_refines_spec` : hence the step request for time `c` carries, under the connection's key, the last value
  produced on the connection whose due time (output time + shift) is at or before `c` (persistent), resp. the last value that
  became due since the previous step (event) — each produced value leaves the buffer exactly once, with the destination's
  first step at or after its due time.
  Hypotheses: those of `no_late_arrival` (flat configuration, evaluated by the driver's `wf`/`wfx`), no cached connection
  into the destination, the connection's input key is used by no other connection into the destination (`hkey`), no
  asynchronous `set_data` in the run (C16 covers it) and reported output times that do not go back (`ReachP`; executable
  form `runPB`).
NOT proved: the same for grouped configurations (where the known finding C03-subtier-blind lives) — decided by the
specification monitor on implementation traces (clean class) and by the correspondence; the known findings D12, D14,
event-with-initial-data and non-monotone output times are exactly where the refinement fails (see known_findings.json).
-/
import MosaikProofs.Lemmas.Data
import MosaikProofs.Sched.Reach
import MosaikProofs.Sched.Buffer
import MosaikProofs.Sched.Prune
import MosaikProofs.Sched.BufferSrc
import MosaikProofs.Sched.CacheRef
import MosaikProofs.Sched.PushRef
import MosaikProofs.Sched.WFLive
import MosaikModel.WF
import MosaikProofs.Build.RunConfig
namespace Mosaik.C03
open Mosaik

theorem buffer_rest (buf : List BufEntry) (step : Nat) (inp : InputData) :
    (bufferTake buf step inp).2 = buf.filter (fun e => !(e.time ≤ step)) := rfl

/-- not lost: an entry that is not yet due stays in the buffer -/
theorem event_kept_until_due (buf : List BufEntry) (step : Nat) (inp : InputData) (e : BufEntry)
    (he : e ∈ buf) (hnd : ¬ e.time ≤ step) : e ∈ (bufferTake buf step inp).2 := by
  rw [buffer_rest]; simp [List.mem_filter, he, hnd]

/-- not duplicated: a due entry leaves the buffer with the step that takes it -/
theorem event_removed_when_delivered (buf : List BufEntry) (step : Nat) (inp : InputData) (e : BufEntry)
    (hd : e.time ≤ step) : e ∉ (bufferTake buf step inp).2 := by
  rw [buffer_rest]; simp [List.mem_filter, hd]

/-- delivered: the last due entry of a connection key is in the inputs of that step -/
theorem event_delivered (buf : List BufEntry) (step : Nat) (inp : InputData) (e : BufEntry) (pre rest : List BufEntry)
    (hsplit : buf.filter (fun e => decide (e.time ≤ step)) = pre ++ e :: rest)
    (hlast : ∀ f ∈ rest, f.key ≠ e.key) :
    InputData.get? (bufferTake buf step inp).1 e.key = some e.val := by
  unfold bufferTake
  simp only
  exact foldl_set_last _ inp e.key e rest ⟨pre, hsplit⟩ rfl hlast

/-- nothing undue, nothing invented: a key that no due entry carries keeps its value -/
theorem undue_not_delivered (buf : List BufEntry) (step : Nat) (inp : InputData) (k : InKey)
    (h : ∀ e ∈ buf, e.time ≤ step → e.key ≠ k) :
    InputData.get? (bufferTake buf step inp).1 k = InputData.get? inp k := by
  unfold bufferTake
  simp only
  apply foldl_set_other
  intro e he
  simp only [List.mem_filter, decide_eq_true_eq] at he
  exact h e he.1 he.2

/-- the merge of set_data inputs and remembered persistent inputs -/
def mergePersistent (setData persistent : InputData) : InputData :=
  persistent.foldl (fun acc e => if InputData.has acc e.1 then acc else acc ++ [e]) setData

theorem merge_keeps (persistent : InputData) : ∀ (acc : InputData) (k : InKey) (v : Val),
    InputData.get? acc k = some v →
    InputData.get? (persistent.foldl (fun acc e => if InputData.has acc e.1 then acc else acc ++ [e]) acc) k = some v := by
  induction persistent with
  | nil => intro acc k v h; exact h
  | cons e ps ih =>
    intro acc k v h
    simp only [List.foldl_cons]
    apply ih
    split
    · exact h
    · rw [InputData.get?_append_single, h]

/-- a value given with set_data is what the step sees, whatever was remembered -/
theorem set_data_wins (setData persistent : InputData) (k : InKey) (v : Val)
    (h : InputData.get? setData k = some v) : InputData.get? (mergePersistent setData persistent) k = some v :=
  merge_keeps persistent setData k v h

/-- a key that set_data did not provide gets the remembered persistent value (the first entry of
that key) -/
theorem persistent_default (persistent : InputData) : ∀ (acc : InputData) (k : InKey),
    InputData.get? acc k = none →
    InputData.get? (persistent.foldl (fun acc e => if InputData.has acc e.1 then acc else acc ++ [e]) acc) k
      = InputData.get? persistent k := by
  induction persistent with
  | nil => intro acc k h; simpa [InputData.get?_nil] using h
  | cons e ps ih =>
    intro acc k h
    simp only [List.foldl_cons, InputData.get?_cons]
    by_cases hek : e.1 = k
    · subst hek
      have hhas : InputData.has acc e.1 = false := by rw [InputData.has_eq, h]; rfl
      simp only [hhas, Bool.false_eq_true, if_false, if_true]
      apply merge_keeps
      rw [InputData.get?_append_single, h]; simp
    · simp only [hek, if_false]
      apply ih
      split
      · exact h
      · rw [InputData.get?_append_single, h]; simp [hek]

/-- one pulled connection: the value is the cached output of the source at (step time − shift) -/
theorem pulled_is_cached_value (cfg : Cfg) (s : State) (c : TT) (e : Sid × TI × Port × Port) (acc : InputData) :
    let key : InKey := { eid := e.2.2.2.1, attr := e.2.2.2.2, ssid := e.1, seid := e.2.2.1.1 }
    let cache := getOutputFor (s.sims e.1).outputs ((TT.time c : Int) - (tier e.2.1.tiers 0 : Int))
    InputData.get? (InputData.set acc key ((OutData.get? cache e.2.2.1).getD none)) key
      = some ((OutData.get? cache e.2.2.1).getD none) := by
  intro key cache
  exact InputData.get?_set_same _ _ _

/-- the cache entry used is the most recently inserted one whose time is at or before the requested time -/
theorem getOutputFor_spec (outputs : List (Int × OutData)) (time : Int) :
    (getOutputFor outputs time = [] ∧ ∀ e ∈ outputs, ¬ e.1 ≤ time ∨ e.2 = []) ∨
    (∃ e ∈ outputs, e.1 ≤ time ∧ getOutputFor outputs time = e.2) := by
  unfold getOutputFor
  cases h : outputs.reverse.find? (fun e => decide (e.1 ≤ time)) with
  | none =>
    left
    refine ⟨rfl, ?_⟩
    intro e he
    left
    have := List.find?_eq_none.mp h e (List.mem_reverse.mpr he)
    simpa using this
  | some e =>
    right
    refine ⟨e, List.mem_reverse.mp (List.mem_of_find?_eq_some h), ?_, rfl⟩
    simpa using List.find?_some h

/-- the inputs of the step request are `stepInputs` of the state in which the step begins; the step
consumes the set_data inputs and the due part of the buffer, and leaves everything else alone -/
theorem begin_consumes_inputs (cfg : Cfg) (s : State) (p : Sid) (c : TT) :
    (getInputData cfg s p c).1 = stepInputs cfg s p c ∧
    ((getInputData cfg s p c).2.sims p).setData = [] ∧
    ((getInputData cfg s p c).2.sims p).buffer = (s.sims p).buffer.filter (fun e => !(e.time ≤ TT.time c)) ∧
    (∀ q, q ≠ p → (getInputData cfg s p c).2.sims q = s.sims q) := by
  unfold getInputData
  refine ⟨rfl, by simp, by simp [bufferTake], ?_⟩
  intro q hq
  simp [State.upd_other _ _ hq]

/-- persistent memory: only keys that exist are updated, with the value the step received -/
theorem persistent_only_existing_keys (cfg : Cfg) (s : State) (p : Sid) (c : TT) :
    ((getInputData cfg s p c).2.sims p).persistent.map (·.1) = (s.sims p).persistent.map (·.1) := by
  unfold getInputData
  simp only [State.upd_same, List.map_map]
  apply List.map_congr_left
  intro e _
  simp only [Function.comp]
  split <;> rfl

/-! ### whole runs (flat configurations) -/

/-- nothing arrives too late: buffered values are due after every step the destination has begun -/
theorem no_late_arrival {cfg : Cfg} (hw : WFCfg cfg) (hs : WFShape cfg) {rank : Sid → Nat} (hfl : Flat cfg rank) (hpo : PushOk cfg)
    {s : State} (hr : Reach cfg s) (hnf : s.failed = none) {q : Sid} (hq : q < cfg.n) :
    ∀ e ∈ (s.sims q).buffer, ∀ b ∈ (s.sims q).begun, TT.time b < e.time :=
  reach_bufOk hw hs hfl hpo hr hnf q hq

/-- the step that takes a buffered value is the destination's first step at or after the value's due time, and
what it leaves in the buffer is not yet due -/
theorem taken_at_first_due_step {cfg : Cfg} (hw : WFCfg cfg) (hs : WFShape cfg) {rank : Sid → Nat} (hfl : Flat cfg rank)
    (hpo : PushOk cfg) {s s' : State} {q : Sid} (hr : Reach cfg s) (hnf0 : s.failed = none) (hq : q < cfg.n)
    (h : step cfg s (.deps q) = some s') (hnf : s'.failed = none) :
    ∃ c, (s'.sims q).cur = some c ∧
      (∀ e ∈ (s.sims q).buffer, e.time ≤ TT.time c → ∀ b ∈ (s.sims q).begun, TT.time b < e.time) ∧
      (∀ e ∈ (s'.sims q).buffer, TT.time c < e.time) := by
  rcases step_frame hw (reach_good hw hr) h hnf with hl | ⟨p, c, hp, _, _, _, _, _, _, _, _, hbeg, hcur, _⟩
  · -- a `deps` action that does not fail begins a step
    exfalso
    have := reach_bufOk hw hs hfl hpo (Reach.step hr h) hnf q hq
    simp only [step, stepDeps] at h
    split at h
    · cases hpc : (s.sims q).pc with
      | waitDeps t =>
        simp only [hpc] at h
        split at h
        · cases hn : (s.sims q).next with
          | nil => simp [hn] at h
          | cons c rest =>
            simp only [hn, Option.some.injEq] at h
            subst h
            have h1 := hl.begun q
            rw [(beginStep_bb cfg s q c rest hnf).2] at h1
            simp at h1
        · cases h
      | init => simp [hpc] at h
      | awaitSettle a dl => simp [hpc] at h
      | inStep => simp [hpc] at h
      | inGet => simp [hpc] at h
      | done => simp [hpc] at h
    · cases h
  · cases hp
    refine ⟨c, hcur, ?_, ?_⟩
    · intro e he _ b hb
      exact reach_bufOk hw hs hfl hpo hr hnf0 q hq e he b hb
    · intro e he
      have := reach_bufOk hw hs hfl hpo (Reach.step hr h) hnf q hq e he c (by rw [hbeg]; exact List.mem_cons_self)
      exact this

/-! ### cache pruning -/

/-- pruning the cache does not change what a consumer can still read -/
theorem prune_keeps_pulled (cfg : Cfg) (s : State) {q d : Sid} (hq : q < cfg.n) (hd : d < cfg.n)
    {e : Sid × TI × Port × Port} (he : e ∈ (cfg.sim d).pulled) (heq : e.1 = q) (hsorted : Sorted (s.sims q).outputs)
    (c : Int) (hc : lastTime s d ≤ c) :
    getOutputFor ((prune cfg s).sims q).outputs (c - (tier e.2.1.tiers 0 : Int)) =
    getOutputFor (s.sims q).outputs (c - (tier e.2.1.tiers 0 : Int)) :=
  prune_state_lookups cfg s hq hd he heq hsorted c hc

/-- non-vacuity and the defect the repair removed: with entries at 0, 2, 5 and `needed = 3` the entry at 2 is kept
(a step at 4 still reads it); dropping everything older than 3 would lose it -/
example : (pruneList [(0, []), (2, [((0, 0), some 7)]), (5, [])] 3).map (·.1) = [2, 5] := by decide
example : getOutputFor (pruneList [(0, []), (2, [((0, 0), some 7)]), (5, [])] 3) 4 = [((0, 0), some 7)] := by decide
example : getOutputFor ([(0, []), (2, [((0, 0), some 7)]), (5, [])].filter (fun (e : Int × OutData) => decide (e.1 ≥ 3))) 4 = [] := by decide

/-! ### provenance -/

/-- nothing invented, nothing attributed to another source: where buffered values come from -/
theorem buffered_values_are_outputs {cfg : Cfg} {s s' : State} {a : Action} (h : step cfg s a = some s') (q : Sid) :
    ∀ e ∈ (s'.sims q).buffer, e ∈ (s.sims q).buffer ∨
      ∃ p d c, a = .dataReply p d ∧ (s.sims p).cur = some c ∧ PushedBy cfg p q (outTimeOf c d).1 d e :=
  step_buffer_sources h q

theorem foldl_set_get (k : InKey) : ∀ (es : List BufEntry) (inp : InputData),
    InputData.get? (es.foldl (fun acc e => InputData.set acc e.key e.val) inp) k = InputData.get? inp k ∨
    ∃ e ∈ es, e.key = k ∧ InputData.get? (es.foldl (fun acc e => InputData.set acc e.key e.val) inp) k = some e.val
  | [], inp => Or.inl rfl
  | a :: es, inp => by
    simp only [List.foldl_cons]
    rcases foldl_set_get k es (InputData.set inp a.key a.val) with h | ⟨e, he, hk, hv⟩
    · by_cases hak : a.key = k
      · right
        refine ⟨a, List.mem_cons_self, hak, ?_⟩
        rw [h, hak, InputData.get?_set_same]
      · left
        rw [h, InputData.get?_set_other _ _ _ _ hak]
    · exact Or.inr ⟨e, List.mem_cons_of_mem _ he, hk, hv⟩

/-- the value a step receives under a key was there before the buffer was consulted, or is the value of a due buffer
entry with that key -/
theorem input_from_buffer_or_before (buf : List BufEntry) (step : Nat) (inp : InputData) (k : InKey) :
    InputData.get? (bufferTake buf step inp).1 k = InputData.get? inp k ∨
    ∃ e ∈ buf, e.time ≤ step ∧ e.key = k ∧ InputData.get? (bufferTake buf step inp).1 k = some e.val := by
  unfold bufferTake
  simp only
  rcases foldl_set_get k (buf.filter (·.time ≤ step)) inp with h | ⟨e, he, hk, hv⟩
  · exact Or.inl h
  · right
    simp only [List.mem_filter, decide_eq_true_eq] at he
    exact ⟨e, he.1, he.2, hk, hv⟩

/-! ### cache path: whole runs refine the output history -/

/-- with the cache on, what a step pulls over its cached connections is read from the never-pruned history of the
sources: the newest output at or before (step time − shift) -/
theorem pull_refines_spec {cfg : Cfg} (hw : WFCfg cfg) (hc : cfg.useCache = true) (hi : InitSorted cfg) (hp : PullOk cfg) {s : State}
    (hr : ReachM cfg s) (hnf : s.failed = none) {p : Sid} (hpn : p < cfg.n) (c : TT) (hlast : lastTime s p ≤ (TT.time c : Int))
    (inp : InputData) :
    pullInputs cfg s p c inp = pullSpec cfg (fun q => histOf cfg q s.log) p c inp :=
  Mosaik.pull_refines_spec hw hc hi hp hr hnf hpn c hlast inp

/-- … and that is what the step request carries -/
theorem begin_pulls_history {cfg : Cfg} (hw : WFCfg cfg) (hc : cfg.useCache = true) (hi : InitSorted cfg) (hp : PullOk cfg)
    {s s' : State} (hr : ReachM cfg s) (hnf0 : s.failed = none) {p : Sid} (h : step cfg s (.deps p) = some s') (hnf : s'.failed = none) :
    ∃ c inp0 m, s'.log = .begin p c (pullSpec cfg (fun q => histOf cfg q s.log) p c inp0) m :: s.log :=
  Mosaik.begin_pulls_history hw hc hi hp hr hnf0 h hnf

/-- the history lookup is the entry with the greatest output time at or before `τ` (`{}` if there is none) -/
theorem hist_lookup_newest {cfg : Cfg} (hw : WFCfg cfg) (hc : cfg.useCache = true) (hi : InitSorted cfg) {s : State}
    (hr : ReachM cfg s) (hnf : s.failed = none) (q : Sid) (τ : Int) :
    (∃ e ∈ histOf cfg q s.log, e.1 ≤ τ ∧ (∀ e' ∈ histOf cfg q s.log, e'.1 ≤ τ → e'.1 ≤ e.1) ∧ getOutputFor (histOf cfg q s.log) τ = e.2) ∨
    ((∀ e ∈ histOf cfg q s.log, ¬ e.1 ≤ τ) ∧ getOutputFor (histOf cfg q s.log) τ = []) :=
  Mosaik.hist_lookup_newest hw hc hi hr hnf q τ

/-- the real cache agrees with the history on every lookup a consumer can still make (the invariant) -/
theorem cache_agrees_with_history {cfg : Cfg} (hw : WFCfg cfg) (hc : cfg.useCache = true) (hi : InitSorted cfg) {s : State}
    (hr : ReachM cfg s) (hnf : s.failed = none) {q : Sid} (hq : q < cfg.n) (τ : Int) (hτ : minLast cfg s - maxShift cfg q ≤ τ) :
    getOutputFor (s.sims q).outputs τ = getOutputFor (histOf cfg q s.log) τ :=
  (reachM_cacheRef hw hc hi hr hnf).look q hq τ hτ

/-! ### push path: whole runs refine the output history (flat configurations) -/

/-- the buffered values of a pushed connection are exactly the produced values not yet due at the destination's last step,
in production order -/
theorem push_buffer_is_pending_history {cfg : Cfg} (h1 : cfg.wfB = true) (h2 : cfg.shapeB = true) (h3 : cfg.flatB cfg.zeroRank = true)
    (h4 : cfg.pushB = true) {src q : Sid} {pe : Port × Sid × TI × Port} (hq : q < cfg.n)
    (hkey : (cfg.sim src).push.filter (hits q (keyOf src pe) src) = [pe]) (hpull : (cfg.sim q).pulled = [])
    {s : State} (hr : ReachP cfg s) (hnf : s.failed = none) :
    keyView (keyOf src pe) (s.sims q).buffer = (chist src pe s.log).filter (fun x => after (lastBegun (s.sims q)) x.1) :=
  (reachP_pushRef (wfB_sound h1) (shapeB_sound h2) (flatB_sound h3) (pushB_sound h4) hq hkey hpull hr hnf).buf

/-- the remembered value of a persistent pushed connection is the last produced value due at the destination's last step -/
theorem push_persistent_is_latest {cfg : Cfg} (h1 : cfg.wfB = true) (h2 : cfg.shapeB = true) (h3 : cfg.flatB cfg.zeroRank = true)
    (h4 : cfg.pushB = true) {src q : Sid} {pe : Port × Sid × TI × Port} (hq : q < cfg.n)
    (hkey : (cfg.sim src).push.filter (hits q (keyOf src pe) src) = [pe]) (hpull : (cfg.sim q).pulled = [])
    {s : State} (hr : ReachP cfg s) (hnf : s.failed = none) (d0 : Val)
    (hd0 : InputData.get? (cfg.sim q).persistent0 (keyOf src pe) = some d0) :
    InputData.get? (s.sims q).persistent (keyOf src pe) =
      some (lastVal ((chist src pe s.log).filter (fun x => !after (lastBegun (s.sims q)) x.1)) d0) :=
  (reachP_pushRef (wfB_sound h1) (shapeB_sound h2) (flatB_sound h3) (pushB_sound h4) hq hkey hpull hr hnf).pers d0 hd0

/-- what the step request carries under the connection's key (statement: `Sched/PushRef.lean`) -/
theorem begin_push_refines_spec {cfg : Cfg} (h1 : cfg.wfB = true) (h2 : cfg.shapeB = true) (h3 : cfg.flatB cfg.zeroRank = true)
    (h4 : cfg.pushB = true) {src q : Sid} {pe : Port × Sid × TI × Port} (hq : q < cfg.n)
    (hkey : (cfg.sim src).push.filter (hits q (keyOf src pe) src) = [pe]) (hpull : (cfg.sim q).pulled = [])
    {s s' : State} (hr : ReachP cfg s) (hnf0 : s.failed = none) (h : step cfg s (.deps q) = some s') (hnf : s'.failed = none) :
    ∃ c inp m, s'.log = .begin q c inp m :: s.log ∧
      InputData.get? inp (keyOf src pe) =
        (match ((chist src pe s.log).filter (fun x => after (lastBegun (s.sims q)) x.1 && decide (x.1 ≤ TT.time c))).getLast? with
          | some x => some x.2
          | none => InputData.get? (s.sims q).persistent (keyOf src pe)) ∧
      ∀ d0, InputData.get? (cfg.sim q).persistent0 (keyOf src pe) = some d0 →
        InputData.get? inp (keyOf src pe) = some (lastVal ((chist src pe s.log).filter (fun x => decide (x.1 ≤ TT.time c))) d0) :=
  Mosaik.begin_push_refines_spec (wfB_sound h1) (shapeB_sound h2) (flatB_sound h3) (pushB_sound h4) hq hkey hpull hr hnf0 h hnf

/-! non-vacuity: a producer A pushing a persistent value to a consumer B (`cache=False`).  The configuration meets the
executable hypotheses, the run is a `ReachP` run, B's next step is enabled, and the spec value for its time is A's output 7
(the declared initial value 99 is superseded). -/
def pushedCfg : Cfg :=
  { sims := [ { ty := .timeBased, next0 := [[0]], outReq := [(0, 0)], succs := [(1, ⟨1, 1, [0]⟩)],
                push := [((0, 0), 1, ⟨1, 1, [0]⟩, (0, 0))] },
              { ty := .timeBased, next0 := [[0]], inputDelays := [(0, ⟨1, 1, [0]⟩)], persistent0 := [(⟨0, 0, 0, 0⟩, some 99)] } ],
    until_ := 2, lazy_ := false, useCache := false }

def pushedRun : List Action :=
  [.start 0, .start 1, .deps 0, .stepReply 0 (.int 1), .dataReply 0 { data := [((0, 0), some 7)] }]

example : pushedCfg.wfB = true ∧ pushedCfg.shapeB = true ∧ pushedCfg.flatB pushedCfg.zeroRank = true ∧ pushedCfg.pushB = true ∧
    (pushedCfg.sim 0).push.filter (hits 1 (keyOf 0 ((0, 0), 1, ⟨1, 1, [0]⟩, (0, 0))) 0) = [((0, 0), 1, ⟨1, 1, [0]⟩, (0, 0))] ∧
    (pushedCfg.sim 1).pulled = [] ∧
    InputData.get? (pushedCfg.sim 1).persistent0 (keyOf 0 ((0, 0), 1, ⟨1, 1, [0]⟩, (0, 0))) = some (some 99) := by decide

example : ∃ s, ReachP pushedCfg s ∧ s.failed = none ∧ (step pushedCfg s (.deps 1)).isSome = true ∧
    lastVal ((chist 0 ((0, 0), 1, ⟨1, 1, [0]⟩, (0, 0)) s.log).filter (fun x => decide (x.1 ≤ 0))) (some 99) = some 7 := by
  have hex : (exec pushedCfg (initState pushedCfg) pushedRun).isSome = true := by decide
  obtain ⟨s, hs⟩ := Option.isSome_iff_exists.mp hex
  refine ⟨s, exec_reachP pushedRun ReachP.init hs (by decide), ?_⟩
  have hall : ((exec pushedCfg (initState pushedCfg) pushedRun).map fun s =>
      s.failed.isNone && (step pushedCfg s (.deps 1)).isSome &&
        (lastVal ((chist 0 ((0, 0), 1, ⟨1, 1, [0]⟩, (0, 0)) s.log).filter (fun x => decide (x.1 ≤ 0))) (some 99) == some 7)) = some true := by
    decide
  rw [hs] at hall
  simp only [Option.map_some, Option.some.injEq, Bool.and_eq_true, beq_iff_eq, Option.isNone_iff_eq_none] at hall
  exact ⟨hall.1.1, hall.1.2, hall.2⟩

/-! non-vacuity: a producer A and a consumer B over one cached connection (`cache=True`).  The configuration meets the
hypotheses, the run below is a `ReachM` run, and the step of B it enables pulls A's output 7 — the history's value. -/
def cachedCfg : Cfg :=
  { sims := [ { ty := .timeBased, next0 := [[0]], outReq := [(0, 0)], succs := [(1, ⟨1, 1, [0]⟩)] },
              { ty := .timeBased, next0 := [[0]], inputDelays := [(0, ⟨1, 1, [0]⟩)], pulled := [(0, ⟨1, 1, [0]⟩, (0, 0), (0, 0))] } ],
    until_ := 2, lazy_ := false, useCache := true }

def cachedRun : List Action :=
  [.start 0, .start 1, .deps 0, .stepReply 0 (.int 1), .dataReply 0 { data := [((0, 0), some 7)] }]

example : cachedCfg.wfB = true ∧ cachedCfg.pullB = true ∧ cachedCfg.useCache = true := by decide

example : InitSorted cachedCfg := by
  intro q
  match q with
  | 0 => simp [cachedCfg, Cfg.sim, Sorted]
  | 1 => simp [cachedCfg, Cfg.sim, Sorted]
  | n + 2 => simp [cachedCfg, Cfg.sim, Sorted]

example : ∃ s, ReachM cachedCfg s ∧ s.failed = none ∧ (step cachedCfg s (.deps 1)).isSome = true ∧
    pullInputs cachedCfg s 1 [0] [] = [(⟨0, 0, 0, 0⟩, some 7)] ∧
    pullSpec cachedCfg (fun q => histOf cachedCfg q s.log) 1 [0] [] = [(⟨0, 0, 0, 0⟩, some 7)] := by
  have hex : (exec cachedCfg (initState cachedCfg) cachedRun).isSome = true := by decide
  obtain ⟨s, hs⟩ := Option.isSome_iff_exists.mp hex
  refine ⟨s, exec_reachM cachedRun ReachM.init hs (by decide), ?_⟩
  have hall : ((exec cachedCfg (initState cachedCfg) cachedRun).map fun s =>
      s.failed.isNone && (step cachedCfg s (.deps 1)).isSome && (pullInputs cachedCfg s 1 [0] [] == [(⟨0, 0, 0, 0⟩, some 7)]) &&
        (pullSpec cachedCfg (fun q => histOf cachedCfg q s.log) 1 [0] [] == [(⟨0, 0, 0, 0⟩, some 7)])) = some true := by decide
  rw [hs] at hall
  simp only [Option.map_some, Option.some.injEq, Bool.and_eq_true, beq_iff_eq, Option.isNone_iff_eq_none] at hall
  exact ⟨hall.1.1.1, hall.1.1.2, hall.1.2, hall.2⟩

/-- **the cache path for every scenario without groups built by valid calls**: the static hypotheses `WFCfg` and `PullOk` are
theorems about scenario building (`Build.run_config_dataflow_flat`); what remains are the complements of two recorded findings
(`InitSorted`: initial data in time order; `ReachM`: reported output times do not go back) -/
theorem begin_pulls_history_built {ops : List Build.Op} (hv : Build.Valid {} ops) (hf : Build.flatOps ops = true)
    {orc : List Nat} {out : List SimCfg} (hc : cacheTriggeringAncestors (Build.build ops).sims orc = .ok out)
    (until_ maxLoop : Nat) (lazy_ strict : Bool) (hi : InitSorted (Build.runCfg out until_ maxLoop lazy_ true strict))
    {s s' : State} (hr : ReachM (Build.runCfg out until_ maxLoop lazy_ true strict) s) (hnf0 : s.failed = none) {p : Sid}
    (h : step (Build.runCfg out until_ maxLoop lazy_ true strict) s (.deps p) = some s') (hnf : s'.failed = none) :
    ∃ c inp0 m, s'.log = .begin p c (pullSpec (Build.runCfg out until_ maxLoop lazy_ true strict)
      (fun q => histOf (Build.runCfg out until_ maxLoop lazy_ true strict) q s.log) p c inp0) m :: s.log :=
  begin_pulls_history (Build.run_config_dataflow_flat hv hf hc until_ maxLoop lazy_ true strict).1 rfl hi
    (Build.run_config_dataflow_flat hv hf hc until_ maxLoop lazy_ true strict).2.2.2 hr hnf0 h hnf

end Mosaik.C03
