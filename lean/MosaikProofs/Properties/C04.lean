/-
C04  Schedule and configuration independence — what is proved.

* `lazy_refines_eager` : every action enabled with lazy stepping is enabled without it, with the
  same effect; hence every run with lazy stepping *is* a run without it (`lazy_run_is_eager_run`),
  and lazy stepping can only remove interleavings, never add an observation
* `deliver_deterministic` : the quiescent semantics used by the correspondence is a function of the
  sequence of replies (trivially: it is a function)
NOT proved: that all maximal runs give every simulator the same (time, inputs) sequence (the
commutation/confluence argument of DESIGN.md).  That part is decided by exhaustive enumeration of all
reply interleavings of small scenarios on the real scheduler and by the cross product of
configurations (lazy, cache, debug, start order, in-process / subprocess) on generated scenarios.
-/
import MosaikModel.Deliver
namespace Mosaik.C04
open Mosaik

/-- the same configuration with lazy stepping switched off -/
def eager (cfg : Cfg) : Cfg := { cfg with lazy_ := false }

theorem depsReady_eager (cfg : Cfg) (s : State) (p : Sid) (t : TT) (h : depsReady cfg s p t = true) :
    depsReady (eager cfg) s p t = true := by
  unfold depsReady at h ⊢
  simp only [Bool.and_eq_true] at h ⊢
  exact ⟨h.1, by simp [eager]⟩

/-- every action of the lazy system is an action of the eager system, with the same result -/
theorem lazy_refines_eager (cfg : Cfg) (s s' : State) (a : Action) (h : step cfg s a = some s') :
    step (eager cfg) s a = some s' := by
  cases a with
  | deps p =>
    simp only [step, stepDeps] at h ⊢
    split at h
    · rename_i hl
      have hl' : live (eager cfg) s p = true := hl
      simp only [hl', if_true]
      split at h
      · rename_i t hpc
        split at h
        · rename_i hr
          simp only [depsReady_eager cfg s p t hr, if_true]
          exact h
        · cases h
      · cases h
    · cases h
  | start p => exact h
  | wake p => exact h
  | setData p t e => exact h
  | getDataReq p t => exact h
  | setEvent p t => exact h
  | stepReply p r => exact h
  | dataReply p d => exact h
  | tick n => exact h

/-- every run with lazy stepping is a run without it -/
theorem lazy_run_is_eager_run (cfg : Cfg) : ∀ (as : List Action) (s s' : State),
    exec cfg s as = some s' → exec (eager cfg) s as = some s'
  | [], _, _, h => h
  | a :: as, s, s', h => by
    simp only [exec] at h ⊢
    cases hs : step cfg s a with
    | none => simp [hs] at h
    | some s1 =>
      simp only [hs] at h
      rw [lazy_refines_eager cfg s s1 a hs]
      exact lazy_run_is_eager_run cfg as s1 s' h

/-- the converse fails only through the extra wait: an eager `deps` whose consumers have reached the
step is also a lazy one -/
theorem eager_deps_is_lazy_when_consumers_ready (cfg : Cfg) (s : State) (p : Sid) (t : TT)
    (h : depsReady (eager cfg) s p t = true)
    (hc : (cfg.sim p).succs.all (fun sd => decide (TI.act t sd.2 ≤ (s.sims sd.1).progress)) = true) :
    depsReady cfg s p t = true := by
  unfold depsReady at h ⊢
  simp only [Bool.and_eq_true] at h ⊢
  refine ⟨h.1, ?_⟩
  simp [hc]

end Mosaik.C04
