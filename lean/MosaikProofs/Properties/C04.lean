/-
C04  Schedule and configuration independence — what is proved.

* `lazy_refines_eager` : every action enabled with lazy stepping is enabled without it, with the
  same effect; hence every run with lazy stepping *is* a run without it (`lazy_run_is_eager_run`),
  and lazy stepping can only remove interleavings, never add an observation
* `deliver_deterministic` : the quiescent semantics used by the correspondence is a function of the
  sequence of replies (trivially: it is a function)
* `begin_inputs_stable` (flat configurations, push path): once a simulator's step can begin (its
  dependencies are ready), no action of any *other* simulator — a start, a wake-up, another step
  beginning, a reply to `step` or `get_data` with whatever content — changes the inputs that step
  will receive, disables it, or changes the simulator's own state; the only exception is an
  asynchronous `set_data` addressed to that simulator (the deprecated async-requests feature).  This
  is the commutation fact the independence of the observations from the interleaving rests on: the
  observation a simulator makes next is fixed as soon as it is enabled, whatever happens first.
* `begin_inputs_stable_cached` : the same with cached (pulled) connections into the simulator — the default
  `cache=True` — provided the output times of the sources have not gone back (the cache keys increase in insertion
  order; the complement of the known finding about non-monotone output times) and the cached connections are covered
  by the input-delay table (`PullOk`): neither a `get_data` reply of a source (its entry lies after what the step
  reads) nor cache pruning (which keeps everything a consumer can still read) changes what the enabled step will read.
* `cache_on_off_same_value` (data level of "the data cache on or off"): read off the same output history of the source, the
  cache path (`C03.pull_refines_spec`) and the push path (`C03.begin_push_refines_spec`) deliver the same value over a persistent
  connection — `(lookup of the never-pruned cache at c − shift)[attr] = last produced value due at or before c` — whenever the
  reported output times do not go back, every reply carries the attribute (a persistent attribute must always be produced) and
  there is no initial data (`Sched/CachePush.lean`)
* `inputs_function_of_history` (flat, push path): two states — of one run or of two interleavings — in which a simulator begins its
  step for the same time hand it the same value over a persistent connection whenever the source has produced the same values due
  by then; with `C01.causal_state` (everything due by then *has* been produced) the value depends on the interleaving only
  through the source's own behaviour: the induction step of the confluence argument
NOT proved: that all maximal runs give every simulator the same (time, inputs) sequence (the
commutation/confluence argument of DESIGN.md).  That part is decided by exhaustive enumeration of all
reply interleavings of small scenarios on the real scheduler and by the cross product of
configurations (lazy, cache, debug, start order, in-process / subprocess) on generated scenarios.
-/
import MosaikModel.Deliver
import MosaikProofs.Sched.Others
import MosaikProofs.Sched.Cached
import MosaikProofs.Sched.CachePush
import MosaikProofs.Sched.WFLive
namespace Mosaik.C04
open Mosaik

/-- the same configuration with lazy stepping switched off -/
def eager (cfg : Cfg) : Cfg := { cfg with lazy_ := false }

theorem depsReady_eager (cfg : Cfg) (s : State) (p : Sid) (t : TT) (h : depsReady cfg s p t = true) :
    depsReady (eager cfg) s p t = true := by
  unfold depsReady at h ⊢
  simp only [Bool.and_eq_true] at h ⊢
  exact ⟨h.1, by simp [eager]⟩

/-- every action of the lazy system is an action of the eager system, with the same result -/
theorem lazy_refines_eager (cfg : Cfg) (s s' : State) (a : Action) (h : step cfg s a = some s') :
    step (eager cfg) s a = some s' := by
  cases a with
  | deps p =>
    simp only [step, stepDeps] at h ⊢
    split at h
    · rename_i hl
      have hl' : live (eager cfg) s p = true := hl
      simp only [hl', if_true]
      split at h
      · rename_i t hpc
        split at h
        · rename_i hr
          simp only [depsReady_eager cfg s p t hr, if_true]
          exact h
        · cases h
      · cases h
    · cases h
  | start p => exact h
  | wake p => exact h
  | setData p t e => exact h
  | getDataReq p t => exact h
  | setEvent p t => exact h
  | stepReply p r => exact h
  | dataReply p d => exact h
  | tick n => exact h

/-- every run with lazy stepping is a run without it -/
theorem lazy_run_is_eager_run (cfg : Cfg) : ∀ (as : List Action) (s s' : State),
    exec cfg s as = some s' → exec (eager cfg) s as = some s'
  | [], _, _, h => h
  | a :: as, s, s', h => by
    simp only [exec] at h ⊢
    cases hs : step cfg s a with
    | none => simp [hs] at h
    | some s1 =>
      simp only [hs] at h
      rw [lazy_refines_eager cfg s s1 a hs]
      exact lazy_run_is_eager_run cfg as s1 s' h

/-- the converse fails only through the extra wait: an eager `deps` whose consumers have reached the
step is also a lazy one -/
theorem eager_deps_is_lazy_when_consumers_ready (cfg : Cfg) (s : State) (p : Sid) (t : TT)
    (h : depsReady (eager cfg) s p t = true)
    (hc : (cfg.sim p).succs.all (fun sd => decide (TI.act t sd.2 ≤ (s.sims sd.1).progress)) = true) :
    depsReady cfg s p t = true := by
  unfold depsReady at h ⊢
  simp only [Bool.and_eq_true] at h ⊢
  refine ⟨h.1, ?_⟩
  simp [hc]

/-! ### the next observation is fixed once the step is enabled -/

theorem depsReady_mono {cfg : Cfg} {s s' : State} (hm : ∀ r, (s.sims r).progress ≤ (s'.sims r).progress) {q : Sid} {t : TT}
    (h : depsReady cfg s q t = true) : depsReady cfg s' q t = true := by
  unfold depsReady at h ⊢
  simp only [Bool.and_eq_true, List.all_eq_true, decide_eq_true_eq, Bool.or_eq_true, Bool.not_eq_true'] at h ⊢
  refine ⟨⟨?_, ?_⟩, ?_⟩
  · intro qd hqd
    exact TT.lt_of_lt_of_le (h.1.1 qd hqd) (TI.act_mono_left qd.2 (hm qd.1))
  · intro sd hsd
    exact TT.le_trans (h.1.2 sd hsd) (hm sd.1)
  · rcases h.2 with hl | hl
    · exact Or.inl hl
    · right; intro sd hsd; exact TT.le_trans (hl sd hsd) (hm sd.1)

theorem stepInputs_eq_of {cfg : Cfg} {s s' : State} {q : Sid} {c : TT} (hpulled : (cfg.sim q).pulled = [])
    (hown : OwnEq q s s') (hdue : dueAt (TT.time c) (s'.sims q).buffer = dueAt (TT.time c) (s.sims q).buffer) :
    stepInputs cfg s' q c = stepInputs cfg s q c := by
  unfold OwnEq at hown
  simp only [SimSt.own, Prod.mk.injEq] at hown
  obtain ⟨_, _, _, hpers, hset⟩ := hown
  unfold stepInputs pullInputs
  simp only [hpulled, List.foldl_nil, hpers, hset]
  unfold bufferTake
  simp only
  unfold dueAt at hdue
  rw [hdue]

/-- **C04, commutation.**  Flat configuration, values delivered by pushing (no cached connection into `q`).
`q` is waiting for its dependencies for the step `c` and they are ready.  Then any action `a` of another
simulator — other than a `set_data` addressed to `q` — that does not fail leaves `q` waiting for the same step,
still ready, with the same own state, and with exactly the same step inputs. -/
theorem begin_inputs_stable {cfg : Cfg} (hw : WFCfg cfg) (hs : WFShape cfg) {rank : Sid → Nat} (hfl : Flat cfg rank) (hpo : PushOk cfg)
    {s s' : State} (hr : Reach cfg s) (hnf0 : s.failed = none) {q : Sid} (hq : q < cfg.n) {c : TT}
    (hpc : (s.sims q).pc = .waitDeps c) (hready : depsReady cfg s q c = true) (hpulled : (cfg.sim q).pulled = [])
    {a : Action} (hact : a.actor ≠ some q) (hset : ∀ p e, a ≠ .setData p q e)
    (h : step cfg s a = some s') (hnf : s'.failed = none) :
    (s'.sims q).pc = .waitDeps c ∧ depsReady cfg s' q c = true ∧ OwnEq q s s' ∧
    stepInputs cfg s' q c = stepInputs cfg s q c := by
  obtain ⟨hcore, hpcs⟩ := reach_good hw hr hnf0
  have hown := step_other_own h hact hset
  have hpc' : (s'.sims q).pc = .waitDeps c := by
    have := hown
    unfold OwnEq at this
    simp only [SimSt.own, Prod.mk.injEq] at this
    rw [this.1]; exact hpc
  have hmono : ∀ r, (s.sims r).progress ≤ (s'.sims r).progress := by
    rcases step_frame hw (reach_good hw hr) h hnf with hl | ⟨_, _, _, _, _, _, _, _, _, _, hprog, _, _, _⟩
    · exact hl.progress
    · intro r; rw [hprog r]; exact TT.le_refl _
  refine ⟨hpc', depsReady_mono hmono hready, hown, ?_⟩
  apply stepInputs_eq_of hpulled hown
  apply step_other_due (TT.time c) h hact
  -- a value pushed now by a provider of `q` is not yet due at `c`
  intro p d cp ha hcur hot pe hpe hpq
  have hp : p < cfg.n := by
    subst ha
    simp only [step, stepDataReply] at h
    split at h
    · rename_i hguard
      simp only [Bool.and_eq_true] at hguard
      exact live_lt hguard.1
    · cases h
  obtain ⟨d0, hd0, hle⟩ := hpo.covered p hp pe hpe
  rw [hpq] at hd0
  obtain ⟨hwaithead, hwprog, _⟩ := (hpcs q hq).waiting c hpc
  -- readiness of the dependency on `p`
  have hdep : c < TI.act (s.sims p).progress d0 := by
    unfold depsReady at hready
    simp only [Bool.and_eq_true, List.all_eq_true, decide_eq_true_eq] at hready
    exact hready.1.1 (p, d0) hd0
  rw [(hcore p hp).cur_eq cp hcur] at hdep
  have hlt2 : c < TI.act cp pe.2.2.1 := TT.lt_of_lt_of_le hdep (TI.act_mono_right cp hle)
  obtain ⟨hc1, hl1⟩ := hpo.shape p hp pe hpe
  have hcl : c.length = 1 := by
    rw [((reach_shape hw hs hr) q).1 c (List.mem_of_mem_head? hwaithead), hfl.depth]
  have hal : (TI.act cp pe.2.2.1).length = 1 := by rw [TI.act_length, hl1]
  have := (flat_lt hcl hal).mp hlt2
  rw [flat_act_time cp hc1 hl1] at this
  omega

/-! ### … with cached connections -/

/-- the lookups the step `c` of `q` makes -/
def lookups (cfg : Cfg) (q : Sid) (c : TT) : List (Sid × Int) :=
  (cfg.sim q).pulled.map (fun e => (e.1, (TT.time c : Int) - (tier e.2.1.tiers 0 : Int)))

theorem pullInputs_congr {cfg : Cfg} {s s' : State} {q : Sid} {c : TT} (h : LookEq (lookups cfg q c) s s') (inp : InputData) :
    pullInputs cfg s' q c inp = pullInputs cfg s q c inp := by
  unfold pullInputs
  have key : ∀ (l : List (Sid × TI × Port × Port)) (acc : InputData), (∀ e ∈ l, e ∈ (cfg.sim q).pulled) →
      l.foldl (fun acc (e : Sid × TI × Port × Port) =>
        let cache := getOutputFor (s'.sims e.1).outputs ((TT.time c : Int) - (tier e.2.1.tiers 0 : Int))
        let v : Val := (OutData.get? cache e.2.2.1).getD .none
        InputData.set acc { eid := e.2.2.2.1, attr := e.2.2.2.2, ssid := e.1, seid := e.2.2.1.1 } v) acc =
      l.foldl (fun acc (e : Sid × TI × Port × Port) =>
        let cache := getOutputFor (s.sims e.1).outputs ((TT.time c : Int) - (tier e.2.1.tiers 0 : Int))
        let v : Val := (OutData.get? cache e.2.2.1).getD .none
        InputData.set acc { eid := e.2.2.2.1, attr := e.2.2.2.2, ssid := e.1, seid := e.2.2.1.1 } v) acc := by
    intro l
    induction l with
    | nil => intro acc _; rfl
    | cons e l ih =>
      intro acc hl
      simp only [List.foldl_cons]
      have he := h (e.1, (TT.time c : Int) - (tier e.2.1.tiers 0 : Int)) (by
        unfold lookups
        rw [List.mem_map]
        exact ⟨e, hl e List.mem_cons_self, rfl⟩)
      simp only at he
      rw [he]
      exact ih _ (fun x hx => hl x (List.mem_cons_of_mem _ hx))
  exact key _ inp (fun _ h => h)

/-- **C04, commutation, cache path.** -/
theorem begin_inputs_stable_cached {cfg : Cfg} (hw : WFCfg cfg) (hs : WFShape cfg) {rank : Sid → Nat} (hfl : Flat cfg rank)
    (hpo : PushOk cfg) (hpl : PullOk cfg)
    {s s' : State} (hr : Reach cfg s) (hnf0 : s.failed = none) {q : Sid} (hq : q < cfg.n) {c : TT}
    (hpc : (s.sims q).pc = .waitDeps c) (hready : depsReady cfg s q c = true)
    {a : Action} (hact : a.actor ≠ some q) (hset : ∀ p e, a ≠ .setData p q e)
    (hsorted : ∀ r, Sorted (s.sims r).outputs)
    (hmono : ∀ p d c', a = .dataReply p d → (s.sims p).cur = some c' → ∀ e ∈ (s.sims p).outputs, e.1 ≤ (outTimeOf c' d).1)
    (h : step cfg s a = some s') (hnf : s'.failed = none) :
    stepInputs cfg s' q c = stepInputs cfg s q c := by
  obtain ⟨hcore, hpcs⟩ := reach_good hw hr hnf0
  obtain ⟨hwaithead, hwprog, _⟩ := (hpcs q hq).waiting c hpc
  have hcl : c.length = 1 := by
    rw [((reach_shape hw hs hr) q).1 c (List.mem_of_mem_head? hwaithead), hfl.depth]
  have hown := step_other_own h hact hset
  -- what a provider's reply adds is not yet due / lies after what the step reads
  have later : ∀ p d cp, a = .dataReply p d → (s.sims p).cur = some cp → ¬ (TT.time cp : Int) > (outTimeOf cp d).1 →
      ∀ (sh d0 : TI), (p, d0) ∈ (cfg.sim q).inputDelays → TI.le d0 sh → sh.cutoff = 1 → sh.tiers.length = 1 →
      TT.time c < (outTimeOf cp d).1.toNat + tier sh.tiers 0 := by
    intro p d cp ha hcur hot sh d0 hd0 hle hc1 hl1
    have hp : p < cfg.n := by
      subst ha
      simp only [step, stepDataReply] at h
      split at h
      · rename_i hguard
        simp only [Bool.and_eq_true] at hguard
        exact live_lt hguard.1
      · cases h
    have hdep : c < TI.act (s.sims p).progress d0 := by
      unfold depsReady at hready
      simp only [Bool.and_eq_true, List.all_eq_true, decide_eq_true_eq] at hready
      exact hready.1.1 (p, d0) hd0
    rw [(hcore p hp).cur_eq cp hcur] at hdep
    have hlt2 : c < TI.act cp sh := TT.lt_of_lt_of_le hdep (TI.act_mono_right cp hle)
    have hal : (TI.act cp sh).length = 1 := by rw [TI.act_length, hl1]
    have := (flat_lt hcl hal).mp hlt2
    rw [flat_act_time cp hc1 hl1] at this
    omega
  -- the pushed part, as in `begin_inputs_stable`
  have hdue : dueAt (TT.time c) (s'.sims q).buffer = dueAt (TT.time c) (s.sims q).buffer := by
    apply step_other_due (TT.time c) h hact
    intro p d cp ha hcur hot pe hpe hpq
    have hp : p < cfg.n := by
      subst ha
      simp only [step, stepDataReply] at h
      split at h
      · rename_i hguard
        simp only [Bool.and_eq_true] at hguard
        exact live_lt hguard.1
      · cases h
    obtain ⟨d0, hd0, hle⟩ := hpo.covered p hp pe hpe
    rw [hpq] at hd0
    obtain ⟨hc1, hl1⟩ := hpo.shape p hp pe hpe
    exact later p d cp ha hcur hot pe.2.2.1 d0 hd0 hle hc1 hl1
  -- the pulled part
  have hlast : lastTime s q ≤ (TT.time c : Int) := by
    unfold lastTime
    cases hl : (s.sims q).last with
    | none => simp only; omega
    | some t =>
      simp only
      have hb := reach_lastOk hw hr hnf0 q hq t hl
      have hle := (hcore q hq).begun_le t hb
      rw [hwprog] at hle
      have := TT.time_mono hle
      omega
  have hlook : LookEq (lookups cfg q c) s s' := by
    apply step_look h hact hsorted
    · intro st hl hso x hx
      unfold lookups at hx
      rw [List.mem_map] at hx
      obtain ⟨e, he, rfl⟩ := hx
      simp only
      apply prune_state_lookups cfg st (hpl.range q hq e he) hq he rfl (hso e.1)
      unfold lastTime at hlast ⊢
      rw [hl]; exact hlast
    · intro p d cp ha hcur hot
      refine ⟨?_, hmono p d cp ha hcur⟩
      intro x hx hxp
      unfold lookups at hx
      rw [List.mem_map] at hx
      obtain ⟨e, he, rfl⟩ := hx
      simp only at hxp ⊢
      obtain ⟨d0, hd0, hle⟩ := hpl.covered q hq e he
      rw [hxp] at hd0
      obtain ⟨hc1, hl1⟩ := hpl.shape q hq e he
      have := later p d cp ha hcur hot e.2.1 d0 hd0 hle hc1 hl1
      omega
  -- put together
  unfold OwnEq at hown
  simp only [SimSt.own, Prod.mk.injEq] at hown
  obtain ⟨_, _, _, hpers, hsetd⟩ := hown
  unfold stepInputs
  simp only [hpers, hsetd]
  rw [pullInputs_congr hlook]
  unfold bufferTake
  simp only
  unfold dueAt at hdue
  rw [hdue]

/-- **the inputs of a step are a function of the sources' output histories** (flat configurations, push path): two states — of
the same run or of two different interleavings — in which `q` begins its step for time `c`, and in which the source of a pushed
persistent connection has produced the same values with due time at or before `c`, hand `q` the same value under the
connection's key.  (By `C01.causal_state`, when the step begins the source has produced *all* it will ever produce with a due time
at or before `c`; so the value depends on the interleaving only through the source's own behaviour.) -/
theorem inputs_function_of_history {cfg : Cfg} (h1 : cfg.wfB = true) (h2 : cfg.shapeB = true) (h3 : cfg.flatB cfg.zeroRank = true)
    (h4 : cfg.pushB = true) {src q : Sid} {pe : Port × Sid × TI × Port} (hq : q < cfg.n)
    (hkey : (cfg.sim src).push.filter (hits q (keyOf src pe) src) = [pe]) (hpull : (cfg.sim q).pulled = [])
    {d0 : Val} (hd0 : InputData.get? (cfg.sim q).persistent0 (keyOf src pe) = some d0)
    {s₁ s₁' s₂ s₂' : State} (hr₁ : ReachP cfg s₁) (hr₂ : ReachP cfg s₂) (hn₁ : s₁.failed = none) (hn₂ : s₂.failed = none)
    (hb₁ : step cfg s₁ (.deps q) = some s₁') (hb₂ : step cfg s₂ (.deps q) = some s₂') (hn₁' : s₁'.failed = none) (hn₂' : s₂'.failed = none) :
    ∃ c₁ inp₁ m₁ c₂ inp₂ m₂, s₁'.log = .begin q c₁ inp₁ m₁ :: s₁.log ∧ s₂'.log = .begin q c₂ inp₂ m₂ :: s₂.log ∧
      (TT.time c₁ = TT.time c₂ →
        (chist src pe s₁.log).filter (fun x => decide (x.1 ≤ TT.time c₁)) = (chist src pe s₂.log).filter (fun x => decide (x.1 ≤ TT.time c₁)) →
        InputData.get? inp₁ (keyOf src pe) = InputData.get? inp₂ (keyOf src pe)) := by
  obtain ⟨c₁, inp₁, m₁, hl₁, _, hv₁⟩ := Mosaik.begin_push_refines_spec (wfB_sound h1) (shapeB_sound h2) (flatB_sound h3) (pushB_sound h4)
    hq hkey hpull hr₁ hn₁ hb₁ hn₁'
  obtain ⟨c₂, inp₂, m₂, hl₂, _, hv₂⟩ := Mosaik.begin_push_refines_spec (wfB_sound h1) (shapeB_sound h2) (flatB_sound h3) (pushB_sound h4)
    hq hkey hpull hr₂ hn₂ hb₂ hn₂'
  refine ⟨c₁, inp₁, m₁, c₂, inp₂, m₂, hl₁, hl₂, fun hc hh => ?_⟩
  rw [hv₁ d0 hd0, hv₂ d0 hd0, ← hc, hh]

/-- cache on or off: the same value, as a function of the source's output history (statement: `Sched/CachePush.lean`) -/
theorem cache_on_off_same_value (cfg : Cfg) (src : Sid) (sport : Port) (sh : Nat) (h0 : (cfg.sim src).outputs0 = []) (c : Nat)
    (log : List Event) (hok : LogOk src sport log) :
    (OutData.get? (getOutputFor (histOf cfg src log) ((c : Int) - (sh : Int))) sport).getD none =
      lastVal ((pushHist src sport sh log).filter (fun x => decide (x.1 ≤ c))) none :=
  cache_push_agree cfg src sport sh h0 c log hok

/-- non-vacuity: two replies (7 at time 0, 8 at time 1) over a connection of shift 1: at step time 1 both paths give 7, at 2 both give 8 -/
example : LogOk 0 (0, 0) [.got 0 [1] [1] [((0, 0), some 8)], .stepped 0 [1], .got 0 [0] [0] [((0, 0), some 7)]] := by
  simp [LogOk, gotTimes, OutData.get?, TT.time, tier]

example : (OutData.get? (getOutputFor (histOf {} 0 [.got 0 [1] [1] [((0, 0), some 8)], .stepped 0 [1], .got 0 [0] [0] [((0, 0), some 7)]]) ((1 : Int) - 1)) (0, 0)).getD none = some 7 ∧
    lastVal ((pushHist 0 (0, 0) 1 [.got 0 [1] [1] [((0, 0), some 8)], .stepped 0 [1], .got 0 [0] [0] [((0, 0), some 7)]]).filter (fun x => decide (x.1 ≤ 2))) none = some 8 := by
  decide

end Mosaik.C04
