/-
C05  Completion: no deadlock and no internal scheduling error.

Proved here (all configurations satisfying `WFCfg`, all behaviours, all interleavings, lazy stepping
and cache on or off): a run never fails with an internal consistency error — progress moving
backwards, a step scheduled in a simulator's past.  The third internal error of the property,
"incomparable delays", can only arise in the closures before the first step (C06, finding D7).

`deadlock_free` and `terminates` are NOT proved yet (see DESIGN.md section 9): they are covered by
the correspondence runs and the implementation monitor only.
-/
import MosaikProofs.Sched.Errors
namespace Mosaik.C05
open Mosaik

/-- the internal consistency errors -/
def Internal : SchedErr → Prop
  | .progressBackwards _ => True
  | .stepInPast _ => True
  | _ => False

/-- no reachable state has failed with an internal error -/
theorem no_internal_error_partial {cfg : Cfg} (hw : WFCfg cfg) {s : State} (hr : Reach cfg s) :
    ∀ e, s.failed = some e → ¬ Internal e := by
  induction hr with
  | init => intro e he; simp [initState] at he
  | @step s s' a hr hstep ih =>
    intro e he hint
    cases hf : s.failed with
    | some e0 => rw [step_none_of_failed (by rw [hf]; rfl)] at hstep; cases hstep
    | none =>
      have := step_err hw (reach_good hw hr) hstep e he
      cases e <;> simp [Internal, Cause] at hint this

/-- "cannot progress backwards" never fires: `advance_progress` of any simulator, evaluated in any
reachable state, yields a value that is not below the current progress -/
theorem progress_never_backwards {cfg : Cfg} (hw : WFCfg cfg) {s : State} (hr : Reach cfg s) (hnf : s.failed = none)
    (q : Sid) (hq : q < cfg.n) : (advance cfg s q).failed = none ∧ (s.sims q).progress ≤ ((advance cfg s q).sims q).progress := by
  obtain ⟨hc, hpcs⟩ := reach_good hw hr hnf
  obtain ⟨g1, _, _, g4, _⟩ := advance_good (skip := cfg.n) hw hnf hc (fun p hp _ => hpcs p hp) q hq
  exact ⟨g1, g4 q⟩

/-- a step is only ever begun at the simulator's current progress ("step in the past" is
unreachable), and the scheduled steps are never behind the progress -/
theorem steps_never_in_past {cfg : Cfg} (hw : WFCfg cfg) {s : State} (hr : Reach cfg s) (hnf : s.failed = none)
    (q : Sid) (hq : q < cfg.n) :
    (∀ t ∈ (s.sims q).next, (s.sims q).progress ≤ t) ∧ (∀ c, (s.sims q).cur = some c → (s.sims q).progress = c) :=
  ⟨((reach_good hw hr hnf).1 q hq).le_next, ((reach_good hw hr hnf).1 q hq).cur_eq⟩

/-- progress never exceeds the end of the simulation, so no simulator waits for a time beyond it -/
theorem progress_le_end {cfg : Cfg} (hw : WFCfg cfg) {s : State} (hr : Reach cfg s) (hnf : s.failed = none)
    (q : Sid) (hq : q < cfg.n) : (s.sims q).progress ≤ cfg.endT q :=
  ((reach_good hw hr hnf).1 q hq).le_end

/-- the time a simulator awaits in `next_step_settled` is never beyond the end (events announced for
times after the end cannot block it) -/
theorem await_le_end {cfg : Cfg} (s : State) (p : Sid) (a : TT) (dl : Option Nat)
    (h : ((settle cfg s p).sims p).pc = .awaitSettle a dl) : a ≤ cfg.endT p := by
  unfold settle at h
  simp only at h
  by_cases h1 : TT.time (s.sims p).progress ≥ cfg.until_
  · simp [h1] at h
  · simp only [h1, if_false] at h
    cases hh : (s.sims p).next.head? with
    | none =>
      simp only [hh, State.upd_same, PC.awaitSettle.injEq] at h
      rw [← h.1]; exact TT.le_refl _
    | some h0 =>
      simp only [hh] at h
      by_cases h2 : h0 = (s.sims p).progress
      · simp [h2] at h
      · simp only [h2, if_false, State.upd_same, PC.awaitSettle.injEq] at h
        rw [← h.1]
        split
        · exact TT.le_refl _
        · rename_i hn; exact TT.not_lt.mp hn

end Mosaik.C05
