/-
C05  Completion: no deadlock and no internal scheduling error.

Proved here (all configurations satisfying `WFCfg`, all behaviours, all interleavings, lazy stepping
and cache on or off): a run never fails with an internal consistency error — progress moving
backwards, a step scheduled in a simulator's past.  The third internal error of the property,
"incomparable delays", can only arise in the closures before the first step (C06, finding D7).

`deadlock_free_flat`: for configurations without simulator groups (`Flat`: one-tier times, delays that
are numbers of time steps, and a ranking of the simulators along the zero-delay connections, i.e. no
data-flow cycle without a time shift) the scheduler never waits on a condition that cannot become
true: in every reachable state that has not failed, as long as some simulator's process has not
ended, a process can be started, woken or begin its step, or a simulator is inside `step` /
`get_data` (and will answer).  The proof rests on three further invariants: the awaited time of a
waiting process is current (`reach_awaitOk`), progress is up to date whenever no step is in flight
(`reach_upToDate`), an ended process has reached `until` (`reach_doneOk`).
`finitely_many_steps`: in every reachable state that has not failed, a simulator of group depth `d` has
begun at most `until * max_loop_iterations ^ (d - 1)` steps (all configurations with `WFShape`).
`terminates`: a run from the initial state that has not failed and contains no asynchronous request has at
most `runBound cfg` actions (all configurations; a potential that every action strictly decreases,
`Sched/Terminate.lean`): the scheduler cannot go on for ever, with or without groups.
`finished_when_stuck_flat`: in a flat configuration a reachable state in which nothing can move and no
simulator owes an answer is a state in which every process has ended.  Together: every run of a flat
configuration with answering simulators ends, after boundedly many actions, with every process ended.
NOT proved: deadlock freedom for grouped (tiered) configurations; those are covered by the correspondence runs and the implementation
monitor (deadlock = idle event loop with unfinished `run()`) only.
-/
import MosaikProofs.Sched.Errors
import MosaikProofs.Sched.Deadlock
import MosaikProofs.Sched.Bound
import MosaikProofs.Sched.Terminate
import MosaikProofs.Properties.C01
import MosaikProofs.Build.FlatRank
namespace Mosaik.C05
open Mosaik

/-- the internal consistency errors -/
def Internal : SchedErr → Prop
  | .progressBackwards _ => True
  | .stepInPast _ => True
  | _ => False

/-- no reachable state has failed with an internal error -/
theorem no_internal_error_partial {cfg : Cfg} (hw : WFCfg cfg) {s : State} (hr : Reach cfg s) :
    ∀ e, s.failed = some e → ¬ Internal e := by
  induction hr with
  | init => intro e he; simp [initState] at he
  | @step s s' a hr hstep ih =>
    intro e he hint
    cases hf : s.failed with
    | some e0 => rw [step_none_of_failed (by rw [hf]; rfl)] at hstep; cases hstep
    | none =>
      have := step_err hw (reach_good hw hr) hstep e he
      cases e <;> simp [Internal, Cause] at hint this

/-- "cannot progress backwards" never fires: `advance_progress` of any simulator, evaluated in any
reachable state, yields a value that is not below the current progress -/
theorem progress_never_backwards {cfg : Cfg} (hw : WFCfg cfg) {s : State} (hr : Reach cfg s) (hnf : s.failed = none)
    (q : Sid) (hq : q < cfg.n) : (advance cfg s q).failed = none ∧ (s.sims q).progress ≤ ((advance cfg s q).sims q).progress := by
  obtain ⟨hc, hpcs⟩ := reach_good hw hr hnf
  obtain ⟨g1, _, _, g4, _⟩ := advance_good (skip := cfg.n) hw hnf hc (fun p hp _ => hpcs p hp) q hq
  exact ⟨g1, g4 q⟩

/-- a step is only ever begun at the simulator's current progress ("step in the past" is
unreachable), and the scheduled steps are never behind the progress -/
theorem steps_never_in_past {cfg : Cfg} (hw : WFCfg cfg) {s : State} (hr : Reach cfg s) (hnf : s.failed = none)
    (q : Sid) (hq : q < cfg.n) :
    (∀ t ∈ (s.sims q).next, (s.sims q).progress ≤ t) ∧ (∀ c, (s.sims q).cur = some c → (s.sims q).progress = c) :=
  ⟨((reach_good hw hr hnf).1 q hq).le_next, ((reach_good hw hr hnf).1 q hq).cur_eq⟩

/-- progress never exceeds the end of the simulation, so no simulator waits for a time beyond it -/
theorem progress_le_end {cfg : Cfg} (hw : WFCfg cfg) {s : State} (hr : Reach cfg s) (hnf : s.failed = none)
    (q : Sid) (hq : q < cfg.n) : (s.sims q).progress ≤ cfg.endT q :=
  ((reach_good hw hr hnf).1 q hq).le_end

/-- the time a simulator awaits in `next_step_settled` is never beyond the end (events announced for
times after the end cannot block it) -/
theorem await_le_end {cfg : Cfg} (s : State) (p : Sid) (a : TT) (dl : Option Nat)
    (h : ((settle cfg s p).sims p).pc = .awaitSettle a dl) : a ≤ cfg.endT p := by
  unfold settle at h
  simp only at h
  by_cases h1 : TT.time (s.sims p).progress ≥ cfg.until_
  · simp [h1] at h
  · simp only [h1, if_false] at h
    cases hh : (s.sims p).next.head? with
    | none =>
      simp only [hh, State.upd_same, PC.awaitSettle.injEq] at h
      rw [← h.1]; exact TT.le_refl _
    | some h0 =>
      simp only [hh] at h
      by_cases h2 : h0 = (s.sims p).progress
      · simp [h2] at h
      · simp only [h2, if_false, State.upd_same, PC.awaitSettle.injEq] at h
        rw [← h.1]
        split
        · exact TT.le_refl _
        · rename_i hn; exact TT.not_lt.mp hn

/-- **finitely many steps** (statement and proof: `Sched/Bound.lean`) -/
theorem finitely_many_steps {cfg : Cfg} (hw : WFCfg cfg) (hs : WFShape cfg) {s : State} (hr : Reach cfg s) (hnf : s.failed = none)
    (p : Sid) (hp : p < cfg.n) : (s.sims p).begun.length ≤ cfg.until_ * cfg.maxLoop ^ ((cfg.sim p).depth - 1) :=
  steps_bounded hw hs hr hnf p hp

/-- **termination** (statement and proof: `Sched/Terminate.lean`) -/
theorem terminates {cfg : Cfg} (hw : WFCfg cfg) (hs : WFShape cfg) (as : List Action) {s : State}
    (he : exec cfg (initState cfg) as = some s) (hnf : s.failed = none) (hsch : ∀ a ∈ as, a.sched) :
    as.length ≤ runBound cfg :=
  run_length_bounded hw hs as he hnf hsch

/-- every scheduling action strictly decreases the potential -/
theorem every_action_decreases_potential {cfg : Cfg} (hw : WFCfg cfg) (hs : WFShape cfg) {s s' : State} {a : Action}
    (hr : Reach cfg s) (hnf0 : s.failed = none) (h : step cfg s a = some s') (hnf : s'.failed = none) (hsch : a.sched) :
    totalPotential cfg s' + 1 ≤ totalPotential cfg s :=
  potential_decreases hw hs hr hnf0 h hnf hsch

/-- **deadlock freedom, flat configurations** (statement and proof: `Sched/Deadlock.lean`) -/
theorem deadlock_free_flat {cfg : Cfg} (hw : WFCfg cfg) (hs : WFShape cfg) {rank : Sid → Nat} (hfl : Flat cfg rank)
    {s : State} (hr : Reach cfg s) (hnf : s.failed = none) (hsome : ∃ p, p < cfg.n ∧ (s.sims p).pc ≠ .done) :
    (∃ p, (step cfg s (.start p)).isSome = true) ∨
    ((∃ p, (step cfg s (.wake p)).isSome = true) ∨ (∃ p, (step cfg s (.deps p)).isSome = true)) ∨
    (∃ p, p < cfg.n ∧ ((s.sims p).pc = .inStep ∨ (s.sims p).pc = .inGet)) :=
  Mosaik.deadlock_free_flat hw hs hfl hr hnf hsome

/-- in a flat configuration the scheduler is stuck only when everything has ended -/
theorem finished_when_stuck_flat {cfg : Cfg} (hw : WFCfg cfg) (hs : WFShape cfg) {rank : Sid → Nat} (hfl : Flat cfg rank)
    {s : State} (hr : Reach cfg s) (hnf : s.failed = none)
    (hstuck : ∀ p, (step cfg s (.start p)).isSome = false ∧ (step cfg s (.wake p)).isSome = false ∧
      (step cfg s (.deps p)).isSome = false)
    (hidle : ∀ p, p < cfg.n → (s.sims p).pc ≠ .inStep ∧ (s.sims p).pc ≠ .inGet) :
    ∀ p, p < cfg.n → (s.sims p).pc = .done := by
  intro p hp
  cases hpc : (s.sims p).pc with
  | done => rfl
  | _ =>
    exfalso
    rcases Mosaik.deadlock_free_flat hw hs hfl hr hnf ⟨p, hp, by rw [hpc]; simp⟩ with ⟨q, hq⟩ | (⟨q, hq⟩ | ⟨q, hq⟩) | ⟨q, hq, hb⟩
    · rw [(hstuck q).1] at hq; cases hq
    · rw [(hstuck q).2.1] at hq; cases hq
    · rw [(hstuck q).2.2] at hq; cases hq
    · rcases hb with hb | hb
      · exact (hidle q hq).1 hb
      · exact (hidle q hq).2 hb

/-- a blocked simulator is held up by a strictly smaller one (the step of the descent) -/
theorem blocked_by_smaller {cfg : Cfg} (hw : WFCfg cfg) (hs : WFShape cfg) {rank : Sid → Nat} (hfl : Flat cfg rank)
    {s : State} (hr : Reach cfg s) (hnf : s.failed = none) (hidle : Idle cfg s)
    (hstarted : ∀ q, q < cfg.n → (s.sims q).pc ≠ .init) {q : Sid} (hq : q < cfg.n) (hnd : (s.sims q).pc ≠ .done) :
    Moves cfg s ∨ ∃ r, r < cfg.n ∧ (s.sims r).pc ≠ .done ∧ Before s rank r q :=
  blocked_or_moves hw hs hfl hr hnf hidle hstarted hq hnd

/-! non-vacuity: the two-simulator configuration A → B of C01 (trigger connection, lazy stepping off)
is flat with `rank = id`, and it has reachable quiescent states with unfinished simulators. -/
theorem exCfg_sim (p : Nat) : C01.exCfg.sim (p + 2) = {} := by
  simp [Cfg.sim, C01.exCfg]

example : WFShape C01.exCfg := by
  constructor
  · intro x hx tr htr
    match x, hx with
    | 0, _ => simp [C01.exCfg, Cfg.sim] at htr; subst htr; rfl
    | 1, _ => simp [C01.exCfg, Cfg.sim] at htr
  · intro q hq ad had
    match q, hq with
    | 0, _ => simp [C01.exCfg, Cfg.sim] at had
    | 1, _ => simp [C01.exCfg, Cfg.sim] at had; subst had; rfl
  · intro p t ht
    match p with
    | 0 => simp [C01.exCfg, Cfg.sim] at ht; subst ht; rfl
    | 1 => simp [C01.exCfg, Cfg.sim] at ht
    | p + 2 => rw [exCfg_sim] at ht; simp at ht

example : Flat C01.exCfg id := by
  have hn : C01.exCfg.n = 2 := rfl
  constructor
  · intro p
    match p with
    | 0 => rfl
    | 1 => rfl
    | p + 2 => rw [exCfg_sim]
  all_goals
    intro p hp x hx
    rw [hn] at hp
    match p, hp with
    | 0, _ => simp [C01.exCfg, Cfg.sim] at hx <;> (try subst hx) <;> (try rw [hn]) <;> simp [tier]
    | 1, _ => simp [C01.exCfg, Cfg.sim] at hx <;> (try subst hx) <;> (try rw [hn]) <;> simp [tier]

example : ((exec C01.exCfg (initState C01.exCfg) [.start 0, .start 1]).map fun s =>
    (s.failed.isNone, (s.sims 0).pc, (s.sims 1).pc, (step C01.exCfg s (.deps 0)).isSome))
    = some (true, .waitDeps [0], .awaitSettle [2] none, true) := by decide

/-- **deadlock freedom for every scenario without groups** - no hypothesis on the configuration: for every sequence of valid
`start` / `connect` / `set_initial_event` calls in the main group that `ensure_no_dataflow_cycles` accepts (whatever its pop order),
the configuration `World.run` derives satisfies `WFCfg`, `WFShape` and `Flat` (`Build.run_config_wf_flat`, `Build.run_config_wfShape`,
`Build.run_config_flat`: the ranking is the number of zero-delay ancestors, strictly increasing along zero-delay connections because
the cycle check accepted), so in every reachable non-failed state with an unfinished simulator something can move -/
theorem deadlock_free_built_flat {ops : List Build.Op} (hv : Build.Valid {} ops) (hf : Build.flatOps ops = true) {orc : List Nat}
    (hacc : ensureNoCycles (Build.build ops).sims orc = .ok) {orc' : List Nat} {out : List SimCfg}
    (hc : cacheTriggeringAncestors (Build.build ops).sims orc' = .ok out) (until_ maxLoop : Nat) (lazy_ useCache strict : Bool)
    {s : State} (hr : Reach (Build.runCfg out until_ maxLoop lazy_ useCache strict) s) (hnf : s.failed = none)
    (hsome : ∃ p, p < (Build.runCfg out until_ maxLoop lazy_ useCache strict).n ∧ (s.sims p).pc ≠ .done) :
    (∃ p, (step (Build.runCfg out until_ maxLoop lazy_ useCache strict) s (.start p)).isSome = true) ∨
    ((∃ p, (step (Build.runCfg out until_ maxLoop lazy_ useCache strict) s (.wake p)).isSome = true) ∨
     (∃ p, (step (Build.runCfg out until_ maxLoop lazy_ useCache strict) s (.deps p)).isSome = true)) ∨
    (∃ p, p < (Build.runCfg out until_ maxLoop lazy_ useCache strict).n ∧ ((s.sims p).pc = .inStep ∨ (s.sims p).pc = .inGet)) :=
  deadlock_free_flat (Build.run_config_wf_flat hv hf hc until_ maxLoop lazy_ useCache strict)
    (Build.run_config_wfShape hv (Build.flat_uniformT (Build.build_builtOk ops {} Build.builtOk_empty hv) (Build.flatWorld_of_ops hv hf))
      hc until_ maxLoop lazy_ useCache strict)
    (Build.run_config_flat hv hf hacc hc until_ maxLoop lazy_ useCache strict) hr hnf hsome

/-- non-vacuity: a flat scenario built by calls (A time-based → B hybrid, trigger connection) is accepted by the cycle check -/
example :
    let ops : List Build.Op :=
      [ .start { ty := .timeBased, group := [], cls := (parseAttrs { anyInputs := false, attrs := some [0, 1, 2, 3] } .timeBased).getD default },
        .start { ty := .hybrid, group := [], cls := (parseAttrs { anyInputs := false, attrs := some [0, 1, 2, 3], trigger := some [1], nonPersistent := some [3] } .hybrid).getD default },
        .connect { src := 0, seid := 0, dst := 1, deid := 0, pairs := [(2, 1)] } ]
    Build.flatOps ops = true ∧ ensureNoCycles (Build.build ops).sims [] = .ok ∧
      (cacheTriggeringAncestors (Build.build ops).sims []).toOption.isSome = true := by
  decide

/-- **every run of a scenario without groups ends, and it ends finished** - for every sequence of valid calls in the main group that the
cycle check accepts: a non-failing run from the initial state (no asynchronous requests) has at most `runBound` actions
(`terminates`), and a state in which nothing can move and nobody is inside `step` / `get_data` is one in which every process has ended
(`finished_when_stuck_flat`) - with no hypothesis on the configuration -/
theorem runs_end_finished_built_flat {ops : List Build.Op} (hv : Build.Valid {} ops) (hf : Build.flatOps ops = true) {orc : List Nat}
    (hacc : ensureNoCycles (Build.build ops).sims orc = .ok) {orc' : List Nat} {out : List SimCfg}
    (hc : cacheTriggeringAncestors (Build.build ops).sims orc' = .ok out) (until_ maxLoop : Nat) (lazy_ useCache strict : Bool)
    (as : List Action) {s : State}
    (he : exec (Build.runCfg out until_ maxLoop lazy_ useCache strict) (initState (Build.runCfg out until_ maxLoop lazy_ useCache strict)) as = some s)
    (hnf : s.failed = none) (hsch : ∀ a ∈ as, a.sched) :
    as.length ≤ runBound (Build.runCfg out until_ maxLoop lazy_ useCache strict) ∧
    ((∀ p, (step (Build.runCfg out until_ maxLoop lazy_ useCache strict) s (.start p)).isSome = false ∧
           (step (Build.runCfg out until_ maxLoop lazy_ useCache strict) s (.wake p)).isSome = false ∧
           (step (Build.runCfg out until_ maxLoop lazy_ useCache strict) s (.deps p)).isSome = false) →
     (∀ p, p < (Build.runCfg out until_ maxLoop lazy_ useCache strict).n → (s.sims p).pc ≠ .inStep ∧ (s.sims p).pc ≠ .inGet) →
     ∀ p, p < (Build.runCfg out until_ maxLoop lazy_ useCache strict).n → (s.sims p).pc = .done) := by
  have hw := Build.run_config_wf_flat hv hf hc until_ maxLoop lazy_ useCache strict
  have hs := Build.run_config_wfShape hv (Build.flat_uniformT (Build.build_builtOk ops {} Build.builtOk_empty hv) (Build.flatWorld_of_ops hv hf))
    hc until_ maxLoop lazy_ useCache strict
  have hfl := Build.run_config_flat hv hf hacc hc until_ maxLoop lazy_ useCache strict
  exact ⟨terminates hw hs as he hnf hsch,
    fun hstuck hidle => finished_when_stuck_flat hw hs hfl (exec_reach as Reach.init he) hnf hstuck hidle⟩

end Mosaik.C05
