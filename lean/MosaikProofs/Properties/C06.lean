/-
C06  Cycle detection is exact — the algebraic core.

`ensure_no_dataflow_cycles` rejects when the delays along some cycle sum to the all-zero interval.
Proved here, for paths of any length over groups of any depth (`pathSum` = the fold of
`TieredInterval.__add__` along the path, exactly what the worklist computes):

* `shifted_resolves`        a time-shifted connection anywhere on the path makes the sum non-zero
* `weak_inside_resolves`    a weak connection makes the sum non-zero when every connection of the path
                            stays inside the group it shares (all cutoffs above its tier)
* `leaving_erases`          leaving that group (a later connection with a smaller cutoff) erases the
                            weak step again
* `plain_unresolved`        a path of plain connections sums to zero
* `found_cycle_is_zero`     the cycle named in the error has an all-zero stored delay

* `reject_sound`            no false rejections: for every pop order of the worklist, the cycle named in
                            the ScenarioError is a real cycle of connections whose accumulated delay is
                            all-zero (every stored delay is the sum along a real path: `Closure/Sound.lean`)

* `accept_complete`         no false acceptance: if, for whatever pop order, the worklist empties and the scenario is
                            accepted, then no cycle of connections has an all-zero accumulated delay — for connection
                            tables that are well-shaped, dict-like and `Uniform` (all paths between two simulators have
                            one cutoff: exactly the complement of finding D7-reentrant-paths, where the delays are not
                            totally ordered and the outcome depends on the pop order).  Proof: `Closure/Complete.lean`
                            (the emptied worklist leaves a table closed under relaxation; by induction on a path the stored
                            delay is at most the delay of every real path).
* `cycle_check_exact`       both directions together: rejected ⟺ an unresolved cycle exists, whenever the check decides
* `no_assertion_uniform`    on such tables no assert of the delay arithmetic can fire inside the check
* `exact_of_checks`, `exact_of_uniformB`  the same from the executable checks the driver evaluates on every generated graph
                            (`w.cychyp`: `shapedB`, `nodupKeysB`, and `constCutoffB` resp. the complete decision `uniformB`)

NOT proved (see DESIGN.md): that the worklist empties within the model's fuel (termination of the worklist; in the
D7 class it genuinely need not terminate) and completeness for grouped scenarios whose cutoffs differ between pairs but not
between paths of one pair *as decided by an executable check* (`Uniform` itself is a hypothesis there); both are
decided by the correspondence (model = code for several pop orders) and by the graph-level specification monitor on the
implementation.
-/
import MosaikModel.Closure
import MosaikProofs.Lemmas.Tiered
import MosaikProofs.Closure.Sound
import MosaikProofs.Closure.Complete
import MosaikProofs.Build.RunConfig
import MosaikProofs.Closure.Terminate
namespace Mosaik.C06
open Mosaik TI

/-- the accumulated delay of a path: first connection `d`, then `ds` -/
def pathSum (d : TI) (ds : List TI) : TI := ds.foldl TI.add d

theorem pathSum_snoc (d : TI) (ds : List TI) (x : TI) : pathSum d (ds ++ [x]) = TI.add (pathSum d ds) x := by
  simp [pathSum, List.foldl_append]

theorem isZero_iff (d : TI) : d.isZero = true ↔ ∀ i, tier d.tiers i = 0 := by
  unfold isZero
  rw [List.all_eq_true]
  constructor
  · intro h i
    by_cases hi : i < d.tiers.length
    · rw [tier_eq_getElem hi]
      simpa using h _ (List.getElem_mem hi)
    · exact tier_eq_zero (by omega)
  · intro h x hx
    obtain ⟨i, hi, rfl⟩ := List.getElem_of_mem hx
    have := h i
    rw [tier_eq_getElem hi] at this
    simpa using this

theorem pathSum_cons (d : TI) (x : TI) (ds : List TI) : pathSum d (x :: ds) = pathSum (TI.add d x) ds := rfl

theorem le_sum_of_mem : ∀ (l : List Nat) (x : Nat), x ∈ l → x ≤ l.sum
  | [], _, h => by simp at h
  | y :: ys, x, h => by
    rcases List.mem_cons.mp h with rfl | h
    · simp
    · have := le_sum_of_mem ys x h
      simp; omega

/-- tiers that every connection of the path adds to (cutoff above `j`, long enough) accumulate -/
theorem tier_sum_inside (j : Nat) : ∀ (ds : List TI) (d : TI),
    (∀ x ∈ ds, j < x.cutoff ∧ j < x.tiers.length) →
    tier (pathSum d ds).tiers j = tier d.tiers j + (ds.map fun x => tier x.tiers j).sum
  | [], d, _ => by simp [pathSum]
  | x :: ds, d, h => by
    rw [pathSum_cons, tier_sum_inside j ds (TI.add d x) (fun y hy => h y (List.mem_cons_of_mem _ hy)), tier_add]
    have hx := h x List.mem_cons_self
    simp only [hx.1, hx.2, if_true, List.map_cons, List.sum_cons]
    omega

/-- a time-shifted connection resolves every cycle it is on: tier 0 (world time) is added by every
connection, so the sum's tier 0 is the sum of all shifts -/
theorem shifted_resolves (d : TI) (ds : List TI) (hwf : ∀ x ∈ ds, x.WF)
    (h : 0 < tier d.tiers 0 ∨ ∃ x ∈ ds, 0 < tier x.tiers 0) : (pathSum d ds).isZero = false := by
  have hsum := tier_sum_inside 0 ds d (by
    intro x hx
    have := hwf x hx
    unfold WF at this; omega)
  cases hz : (pathSum d ds).isZero with
  | false => rfl
  | true =>
    exfalso
    have h0 := (isZero_iff _).mp hz 0
    rw [hsum] at h0
    rcases h with h | ⟨x, hx, hpos⟩
    · omega
    · have : tier x.tiers 0 ≤ (ds.map fun x => tier x.tiers 0).sum :=
        le_sum_of_mem _ _ (List.mem_map_of_mem hx)
      omega

/-- a weak connection (a positive sub-tier `j`) resolves a cycle that stays inside the group it
shares: all cutoffs are above `j`, so the sub-tier accumulates and cannot vanish -/
theorem weak_inside_resolves (j : Nat) (d : TI) (ds : List TI)
    (hin : ∀ x ∈ ds, j < x.cutoff ∧ j < x.tiers.length)
    (h : 0 < tier d.tiers j ∨ ∃ x ∈ ds, 0 < tier x.tiers j) : (pathSum d ds).isZero = false := by
  have hsum := tier_sum_inside j ds d hin
  cases hz : (pathSum d ds).isZero with
  | false => rfl
  | true =>
    exfalso
    have h0 := (isZero_iff _).mp hz j
    rw [hsum] at h0
    rcases h with h | ⟨x, hx, hpos⟩
    · omega
    · have : tier x.tiers j ≤ (ds.map fun x => tier x.tiers j).sum :=
        le_sum_of_mem _ _ (List.mem_map_of_mem hx)
      omega

/-- leaving the group erases the sub-tier: after a connection whose cutoff is at most `j`, tier `j`
of the sum is that connection's own tier `j` (zero for a connection built by `connect_interval`),
whatever was accumulated before -/
theorem leaving_erases (j : Nat) (d : TI) (ds : List TI) (x : TI) (hx : x.cutoff ≤ j) :
    tier (pathSum d (ds ++ [x])).tiers j = tier x.tiers j := by
  rw [pathSum_snoc, tier_add]
  by_cases hl : j < x.tiers.length
  · have : ¬ j < x.cutoff := by omega
    simp [hl, this]
  · simp [hl, tier_eq_zero (by omega : x.tiers.length ≤ j)]

/-- … and stays erased along connections that do not touch it -/
theorem stays_zero (j : Nat) : ∀ (ds : List TI) (d : TI), tier d.tiers j = 0 →
    (∀ x ∈ ds, tier x.tiers j = 0) → tier (pathSum d ds).tiers j = 0
  | [], d, hd, _ => by simpa [pathSum] using hd
  | x :: ds, d, hd, h => by
    rw [pathSum_cons]
    apply stays_zero j ds (TI.add d x) _ (fun y hy => h y (List.mem_cons_of_mem _ hy))
    rw [tier_add]
    have hx := h x List.mem_cons_self
    by_cases hl : j < x.tiers.length <;> by_cases hc : j < x.cutoff <;> simp [hl, hc, hx, hd]

/-- a cycle of plain connections is unresolved: its delays sum to zero -/
theorem plain_unresolved (d : TI) (ds : List TI) (hd : d.isZero = true) (h : ∀ x ∈ ds, x.isZero = true) :
    (pathSum d ds).isZero = true := by
  rw [isZero_iff]
  intro j
  exact stays_zero j ds d ((isZero_iff d).mp hd j) (fun x hx => (isZero_iff x).mp (h x hx) j)

/-- the delays `connect_interval` builds: the shift on tier 0, the weak step on the last shared tier -/
theorem weak_then_leave_unresolved (j : Nat) (w : TI) (mid : List TI) (x : TI) (post : List TI)
    (hw : ∀ i, i ≠ j → tier w.tiers i = 0) (hmid : ∀ y ∈ mid, y.isZero = true) (hx : x.isZero = true)
    (hxc : x.cutoff ≤ j) (hpost : ∀ y ∈ post, y.isZero = true) :
    (pathSum w (mid ++ [x] ++ post)).isZero = true := by
  rw [isZero_iff]
  intro i
  have hsplit : pathSum w (mid ++ [x] ++ post) = pathSum (pathSum w (mid ++ [x])) post := by
    simp [pathSum, List.foldl_append]
  rw [hsplit]
  apply stays_zero i post _ _ (fun y hy => (isZero_iff y).mp (hpost y hy) i)
  by_cases hij : i = j
  · subst hij
    rw [leaving_erases i w mid x hxc]
    exact (isZero_iff x).mp hx i
  · exact stays_zero i (mid ++ [x]) w (hw i hij) (by
      intro y hy
      rcases List.mem_append.mp hy with hy | hy
      · exact (isZero_iff y).mp (hmid y hy) i
      · simp at hy; subst hy; exact (isZero_iff y).mp hx i)

/-- the cycle named in the error is one whose stored minimal delay is all-zero -/
theorem found_cycle_is_zero (n : Nat) (descs : Descs) (p : List Sid) (h : cycFind n descs = some p) :
    ∃ s d, s < n ∧ descs.get? s s = some (d, p) ∧ d.isZero = true := by
  unfold cycFind at h
  obtain ⟨s, hs, hsome⟩ := List.exists_of_findSome?_eq_some h
  refine ⟨s, ?_⟩
  cases hg : descs.get? s s with
  | none => simp [hg] at hsome
  | some v =>
    obtain ⟨d, path⟩ := v
    simp only [hg] at hsome
    split at hsome
    · rename_i hz
      cases hsome
      exact ⟨d, by simpa using hs, rfl, hz⟩
    · cases hsome

/-- a scenario is accepted exactly when no simulator reaches itself with an all-zero stored delay -/
theorem accepted_iff (n : Nat) (descs : Descs) :
    cycFind n descs = none ↔ ∀ s, s < n → ∀ d p, descs.get? s s = some (d, p) → d.isZero = false := by
  unfold cycFind
  rw [List.findSome?_eq_none_iff]
  constructor
  · intro h s hs d p hg
    have := h s (by simpa using hs)
    simp only [hg] at this
    cases hz : d.isZero with
    | false => rfl
    | true => simp [hz] at this
  · intro h s hs
    cases hg : descs.get? s s with
    | none => rfl
    | some v =>
      obtain ⟨d, p⟩ := v
      simp only
      rw [h s (by simpa using hs) d p hg]
      simp

/-- **no false rejections** (statement and proof: `Closure/Sound.lean`) -/
theorem reject_sound (sims : List SimCfg) (orc : List Nat) (p : List Sid) (h : ensureNoCycles sims orc = .cycle p) :
    ∃ s d, s < sims.length ∧ RealPath sims s s p d ∧ d.isZero = true :=
  Mosaik.reject_sound sims orc p h

/-- **no false acceptance** (statement and proof: `Closure/Complete.lean`) -/
theorem accept_complete (sims : List SimCfg) (orc : List Nat) (hS : Shaped sims) (hN : NodupKeys sims) (hU : Uniform sims)
    (h : ensureNoCycles sims orc = .ok) : ∀ s p d, RealPath sims s s p d → d.isZero = false :=
  Mosaik.accept_complete sims orc hS hN hU h

/-- on well-shaped uniform tables no assert of the delay arithmetic fires inside the cycle check -/
theorem no_assertion_uniform (sims : List SimCfg) (orc : List Nat) (hS : Shaped sims) (hU : Uniform sims) :
    ensureNoCycles sims orc ≠ .error .assertion :=
  Mosaik.no_assertion_uniform sims orc hS hU

/-- **cycle detection is exact**: whenever the check decides (the worklist empties), it rejects exactly the scenarios that
contain a cycle of connections whose accumulated delay is all-zero — for every pop order -/
theorem cycle_check_exact (sims : List SimCfg) (orc : List Nat) (hS : Shaped sims) (hN : NodupKeys sims) (hU : Uniform sims)
    (hdec : ∀ e, ensureNoCycles sims orc ≠ .error e) :
    (∃ p, ensureNoCycles sims orc = .cycle p) ↔ ∃ s p d, RealPath sims s s p d ∧ d.isZero = true := by
  constructor
  · rintro ⟨p, hp⟩
    obtain ⟨s, d, _, hreal, hz⟩ := reject_sound sims orc p hp
    exact ⟨s, p, d, hreal, hz⟩
  · rintro ⟨s, p, d, hreal, hz⟩
    cases hres : ensureNoCycles sims orc with
    | ok =>
      have := accept_complete sims orc hS hN hU hres s p d hreal
      rw [hz] at this
      cases this
    | cycle q => exact ⟨q, rfl⟩
    | error e => exact absurd hres (hdec e)

/-- the same from the executable checks (evaluated by the driver on every generated graph) -/
theorem exact_of_checks (sims : List SimCfg) (orc : List Nat) (h1 : shapedB sims = true) (h2 : nodupKeysB sims = true)
    (h3 : constCutoffB sims = true) (hfuel : ensureNoCycles sims orc ≠ .error .fuel) :
    (∃ p, ensureNoCycles sims orc = .cycle p) ↔ ∃ s p d, RealPath sims s s p d ∧ d.isZero = true := by
  have hS := shapedB_sound h1
  have hU := constCutoffB_sound h3
  apply cycle_check_exact sims orc hS (nodupKeysB_sound h2) hU
  intro e
  cases e with
  | assertion => exact no_assertion_uniform sims orc hS hU
  | fuel => exact hfuel

/-- … and with the complete executable decision of uniformity (`uniformB`: smallest = largest path cutoff for every pair,
on tables checked to be closed) instead of the sufficient `constCutoffB` — this covers the grouped scenarios too -/
theorem exact_of_uniformB (sims : List SimCfg) (orc : List Nat) (h1 : shapedB sims = true) (h2 : nodupKeysB sims = true)
    (h3 : uniformB sims = true) (hfuel : ensureNoCycles sims orc ≠ .error .fuel) :
    (∃ p, ensureNoCycles sims orc = .cycle p) ↔ ∃ s p d, RealPath sims s s p d ∧ d.isZero = true := by
  have hS := shapedB_sound h1
  have hU := uniformB_sound h3
  apply cycle_check_exact sims orc hS (nodupKeysB_sound h2) hU
  intro e
  cases e with
  | assertion => exact no_assertion_uniform sims orc hS hU
  | fuel => exact hfuel

/-- non-vacuity: A and B in one group with a weak back edge, X outside feeding A: cutoffs 2 and 1, uniform, accepted -/
example : let sims : List SimCfg :=
      [ { depth := 2, inputDelays := [(1, ⟨2, 2, [0, 1]⟩), (2, ⟨1, 1, [0, 0]⟩)] }, { depth := 2, inputDelays := [(0, ⟨2, 2, [0, 0]⟩)] }, { depth := 1 } ]
    shapedB sims = true ∧ nodupKeysB sims = true ∧ constCutoffB sims = false ∧ uniformB sims = true ∧ ensureNoCycles sims [] = .ok := by
  decide

/-- non-vacuity of the completeness direction: A → B plain, B → A time-shifted satisfies the three checks and is accepted -/
example : let sims : List SimCfg := [{ inputDelays := [(1, ⟨1, 1, [1]⟩)] }, { inputDelays := [(0, ⟨1, 1, [0]⟩)] }]
    shapedB sims = true ∧ nodupKeysB sims = true ∧ constCutoffB sims = true ∧ ensureNoCycles sims [] = .ok := by
  decide

/-- non-vacuity: two simulators feeding each other over plain connections are rejected, and the named cycle is real -/
example : ensureNoCycles [{ inputDelays := [(1, ⟨1, 1, [0]⟩)] }, { inputDelays := [(0, ⟨1, 1, [0]⟩)] }] [] = .cycle [0, 1, 0] := by
  decide

/-! non-vacuity: A → B plain, B → A weak inside a group: resolved; the same through an outside
simulator X (B → X → A): the weak step is erased, the cycle is unresolved -/
example : (pathSum ⟨2, 2, [0, 0]⟩ [⟨2, 2, [0, 1]⟩]).isZero = false := by decide
example : (pathSum ⟨2, 2, [0, 1]⟩ [⟨2, 1, [0]⟩, ⟨1, 1, [0, 0]⟩]).isZero = true := by decide

/-- **exactness for every built scenario**: the shape and one-entry-per-predecessor hypotheses of `cycle_check_exact` are
consequences of how `connect` builds the tables (`Build.BuiltOk`, by induction over the calls); what remains is `Uniform`
(the complement of finding D7) and that the check decides -/
theorem cycle_check_exact_built (ops : List Build.Op) (hv : Build.Valid {} ops) (orc : List Nat)
    (hU : Uniform (Build.build ops).sims) (hdec : ∀ e, ensureNoCycles (Build.build ops).sims orc ≠ .error e) :
    (∃ p, ensureNoCycles (Build.build ops).sims orc = .cycle p) ↔
      ∃ s p d, RealPath (Build.build ops).sims s s p d ∧ d.isZero = true :=
  cycle_check_exact _ orc (Build.built_shaped (Build.build_builtOk ops {} Build.builtOk_empty hv))
    (Build.built_nodupKeys (Build.build_builtOk ops {} Build.builtOk_empty hv)) hU hdec

/-- **scenarios without groups**: all connections then have cutoff 1, `Uniform` holds outright (`Build.flat_uniform`): whenever the
check decides, it rejects exactly the scenarios with an all-zero cycle - for every sequence of valid calls without groups -/
theorem cycle_check_exact_flat (ops : List Build.Op) (hv : Build.Valid {} ops) (hf : Build.flatOps ops = true) (orc : List Nat)
    (hdec : ∀ e, ensureNoCycles (Build.build ops).sims orc ≠ .error e) :
    (∃ p, ensureNoCycles (Build.build ops).sims orc = .cycle p) ↔
      ∃ s p d, RealPath (Build.build ops).sims s s p d ∧ d.isZero = true :=
  cycle_check_exact_built ops hv orc
    (Build.flat_uniform (Build.build_builtOk ops {} Build.builtOk_empty hv) (Build.flatWorld_of_ops hv hf)) hdec

/-! ### termination of the worklist -/

/-- **the cycle check terminates** (every pop order): on well-shaped tables with uniform path cutoffs and sources in range the
worklist of `ensure_no_dataflow_cycles` empties — there is an amount of fuel from which on the loop of the model ends, without
an assertion, in a state with an empty worklist (to which `accept_complete` / `reject_sound` then apply).  No polynomial bound is
claimed: the proof is a well-founded descent on the table of stored delays (`Closure/Terminate.lean`); the fixed fuel of the
executable `ensureNoCycles` is compared with the implementation by the correspondence (a `nonterminating` answer of the driver
would be a disagreement).  Outside `Uniform` (finding D7) the real worklist can genuinely run forever. -/
theorem worklist_terminates (sims : List SimCfg) (orc : List Nat) (hS : Shaped sims) (hU : Uniform sims) (hR : SrcRange sims) :
    ∃ k, ∀ fuel, k ≤ fuel → ∃ st, cycLoop sims fuel (cycInit sims) orc = .ok st ∧ st.dirty = [] := by
  obtain ⟨k, hk⟩ := Mosaik.worklist_terminates sims orc hS hU hR
  refine ⟨k, fun fuel hf => ?_⟩
  cases hl : cycLoop sims fuel (cycInit sims) orc with
  | error e =>
    cases e with
    | assertion => exact absurd hl (cycLoop_no_assertion hS hU fuel _ orc (cycInit_real sims))
    | fuel => exact absurd hl (hk fuel hf)
  | ok st =>
    by_cases hd : st.dirty = []
    · exact ⟨st, rfl, hd⟩
    · -- `cycLoop` answers `ok` only with an empty worklist
      exfalso
      have : ∀ (fuel : Nat) (st0 st1 : CycState) (orc : List Nat), cycLoop sims fuel st0 orc = .ok st1 → st1.dirty = [] := by
        intro fuel
        induction fuel with
        | zero =>
          intro st0 st1 orc h
          unfold cycLoop at h
          split at h
          · rename_i he; cases h; simpa using he
          · cases h
        | succ f ih =>
          intro st0 st1 orc h
          unfold cycLoop at h
          cases hp : popAt st0.dirty (orc.headD 0) with
          | none => rw [hp] at h; cases h; exact popAt_none hp
          | some v =>
            obtain ⟨mid, rest⟩ := v
            rw [hp] at h
            simp only at h
            cases hrel : cycRelax sims { st0 with dirty := rest } mid with
            | error e => rw [hrel] at h; cases h
            | ok st2 => rw [hrel] at h; exact ih st2 st1 orc.tail h
      exact hd (this fuel _ _ orc hl)

/-- … for every built scenario: shapes and source ranges follow from the builder invariant; `Uniform` remains -/
theorem worklist_terminates_built (ops : List Build.Op) (hv : Build.Valid {} ops) (orc : List Nat)
    (hU : Uniform (Build.build ops).sims) :
    ∃ k, ∀ fuel, k ≤ fuel → ∃ st, cycLoop (Build.build ops).sims fuel (cycInit (Build.build ops).sims) orc = .ok st ∧ st.dirty = [] := by
  have hb := Build.build_builtOk ops {} Build.builtOk_empty hv
  refine worklist_terminates _ orc (Build.built_shaped hb) hU ?_
  intro t s d hd
  have ht : t < (Build.build ops).sims.length := by
    by_cases ht : t < (Build.build ops).sims.length
    · exact ht
    · rw [List.getD_eq_getElem?_getD, List.getElem?_eq_none (Nat.le_of_not_lt ht)] at hd
      cases hd
  exact (hb.inShape t ht (s, d) hd).1

/-- … and for scenarios without groups no hypothesis is left (`Uniform` holds outright) -/
theorem worklist_terminates_flat (ops : List Build.Op) (hv : Build.Valid {} ops) (hf : Build.flatOps ops = true) (orc : List Nat) :
    ∃ k, ∀ fuel, k ≤ fuel → ∃ st, cycLoop (Build.build ops).sims fuel (cycInit (Build.build ops).sims) orc = .ok st ∧ st.dirty = [] :=
  worklist_terminates_built ops hv orc
    (Build.flat_uniform (Build.build_builtOk ops {} Build.builtOk_empty hv) (Build.flatWorld_of_ops hv hf))

/-- **C06 at full strength, for every pop order: total and exact.**  With enough fuel (the real algorithm has none) the cycle check
answers — it neither dies with an assertion nor runs on — and it rejects exactly the scenarios that contain a cycle of connections
whose accumulated delay is all-zero.  `ensureNoCycles` is `ensureNoCyclesWith (closureFuel n)`; hypotheses: well-shaped dict-like
tables with sources in range and uniform path cutoffs (the complement of finding D7) -/
theorem cycle_check_total_exact (sims : List SimCfg) (orc : List Nat) (hS : Shaped sims) (hN : NodupKeys sims) (hU : Uniform sims)
    (hR : SrcRange sims) :
    ∃ k, ∀ fuel, k ≤ fuel →
      (ensureNoCyclesWith fuel sims orc = .ok ∨ ∃ p, ensureNoCyclesWith fuel sims orc = .cycle p) ∧
      ((∃ p, ensureNoCyclesWith fuel sims orc = .cycle p) ↔ ∃ s p d, RealPath sims s s p d ∧ d.isZero = true) :=
  Mosaik.cycle_check_total_exact sims orc hS hN hU hR

theorem built_srcRange (ops : List Build.Op) (hv : Build.Valid {} ops) : SrcRange (Build.build ops).sims := by
  have hb := Build.build_builtOk ops {} Build.builtOk_empty hv
  intro t s d hd
  have ht : t < (Build.build ops).sims.length := by
    by_cases ht : t < (Build.build ops).sims.length
    · exact ht
    · rw [List.getD_eq_getElem?_getD, List.getElem?_eq_none (Nat.le_of_not_lt ht)] at hd
      cases hd
  exact (hb.inShape t ht (s, d) hd).1

/-- … for every scenario without groups built by valid calls: **no hypothesis left** — the cycle check terminates, never asserts,
and rejects exactly the scenarios with an unresolved cycle -/
theorem cycle_check_total_exact_flat (ops : List Build.Op) (hv : Build.Valid {} ops) (hf : Build.flatOps ops = true) (orc : List Nat) :
    ∃ k, ∀ fuel, k ≤ fuel →
      (ensureNoCyclesWith fuel (Build.build ops).sims orc = .ok ∨ ∃ p, ensureNoCyclesWith fuel (Build.build ops).sims orc = .cycle p) ∧
      ((∃ p, ensureNoCyclesWith fuel (Build.build ops).sims orc = .cycle p) ↔
        ∃ s p d, RealPath (Build.build ops).sims s s p d ∧ d.isZero = true) :=
  have hb := Build.build_builtOk ops {} Build.builtOk_empty hv
  cycle_check_total_exact _ orc (Build.built_shaped hb) (Build.built_nodupKeys hb)
    (Build.flat_uniform hb (Build.flatWorld_of_ops hv hf)) (built_srcRange ops hv)

/-- … and with groups: `Uniform` (decided by the executable `uniformB`) is the one hypothesis -/
theorem cycle_check_total_exact_built (ops : List Build.Op) (hv : Build.Valid {} ops) (orc : List Nat)
    (hU : Uniform (Build.build ops).sims) :
    ∃ k, ∀ fuel, k ≤ fuel →
      (ensureNoCyclesWith fuel (Build.build ops).sims orc = .ok ∨ ∃ p, ensureNoCyclesWith fuel (Build.build ops).sims orc = .cycle p) ∧
      ((∃ p, ensureNoCyclesWith fuel (Build.build ops).sims orc = .cycle p) ↔
        ∃ s p d, RealPath (Build.build ops).sims s s p d ∧ d.isZero = true) :=
  have hb := Build.build_builtOk ops {} Build.builtOk_empty hv
  cycle_check_total_exact _ orc (Build.built_shaped hb) (Build.built_nodupKeys hb) hU (built_srcRange ops hv)

end Mosaik.C06
