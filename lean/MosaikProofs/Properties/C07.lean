/-
C07  max_advance is a sound promise.

`bounds_*`      : the promise never exceeds `until`, is never below the current time, and equals
                  `until` for a simulator without triggering ancestors and without a further
                  scheduled step of its own
`promise_state` : at the moment `step(t, inputs, max_advance = m)` goes out, everything that can
                  still cause a step of the simulator from outside lies after `m`: for every
                  triggering ancestor (other than itself) the earliest unfinished step — in flight
                  or scheduled — delayed by the minimal trigger-path delay, and every step already
                  scheduled for the simulator itself, have a time `> m` (or the window `(t, m]` is
                  empty)
`promise_run`   : the run form.  From the state in which the step request with `max_advance = m`
                  went out, along every run in which the simulator itself does not cause a step
                  inside the window (it does not schedule itself at a time `≤ m` and does not
                  produce an output that triggers itself or one of its triggering ancestors), the
                  simulator never has a step in flight with a time in `(t, m]`, and never has one
                  scheduled at a time `≤ m`.  The causes excluded by the hypothesis are exactly the
                  ones the property allows ("traceable to its own output or self-schedule"); the
                  finer statement that a step inside the window caused by an own output lies at or
                  after that output's time is decided by the taint monitor on the traces.
`promise_run_traceable` : the run form at full strength, for ANY continuation.  `taintRun` collects the steps
                  that are traceable to the simulator itself: scheduled by its own returned next step or by an
                  output of one of its steps, or — transitively — by the returned next step or an output of a
                  step that is itself traceable.  From the state in which the request went out, along every
                  run, every step the simulator has in flight with a time in `(t, m]`, and every step scheduled
                  for it at a time `≤ m`, is traceable to the simulator itself.
`ancestor_table_is_minimum` : the table the promise rests on.  For every pop order of the worklist of
                  `cache_triggering_ancestors` for which the computation succeeds, every entry of the
                  triggering-ancestor table is the accumulated delay of a real path of trigger connections, and for
                  every real trigger path there is an entry at most its accumulated delay: the entries are the minima
                  over all trigger paths (`Closure/AncTable.lean`).  `ancestor_closure_hypotheses` derives from it the
                  two closure hypotheses of `WFCfg` (`direct`, `trans`) the scheduler theorems use — they need not be
                  assumed, nor only checked per scenario, for tables that are well-shaped and uniform (all trigger
                  paths between two simulators have one cutoff: the complement of finding D7); `ancestor_table_of_checks`
                  takes the executable checks the driver evaluates on every generated graph (`w.cychyp`).
-/
import MosaikProofs.Sched.Shield
import MosaikProofs.Sched.Taint
import MosaikProofs.Properties.C01
import MosaikProofs.Closure.AncTable
import MosaikProofs.Build.RunConfig
import MosaikProofs.Closure.Terminate
namespace Mosaik.C07
open Mosaik

theorem foldl_min_le_init : ∀ (l : List Nat) (m : Nat), l.foldl min m ≤ m
  | [], _ => Nat.le_refl _
  | x :: xs, m => by
    simp only [List.foldl_cons]
    exact Nat.le_trans (foldl_min_le_init xs (min m x)) (Nat.min_le_left _ _)

theorem foldl_min_le_mem : ∀ (l : List Nat) (m x : Nat), x ∈ l → l.foldl min m ≤ x
  | [], _, _, h => by simp at h
  | y :: ys, m, x, h => by
    simp only [List.foldl_cons]
    rcases List.mem_cons.mp h with rfl | h
    · exact Nat.le_trans (foldl_min_le_init ys (min m x)) (Nat.min_le_right _ _)
    · exact foldl_min_le_mem ys _ x h

theorem foldl_min_nil_or_mem : ∀ (l : List Nat) (m : Nat), l.foldl min m = m ∨ l.foldl min m ∈ l
  | [], _ => Or.inl rfl
  | y :: ys, m => by
    simp only [List.foldl_cons]
    rcases foldl_min_nil_or_mem ys (min m y) with h | h
    · rw [h]
      rcases Nat.le_total m y with hle | hle
      · left; exact Nat.min_eq_left hle
      · right; rw [Nat.min_eq_right hle]; exact List.mem_cons_self
    · exact Or.inr (List.mem_cons_of_mem _ h)

/-- the promise never exceeds `until` (given that the step itself lies before `until`) -/
theorem bounds_le_until (cfg : Cfg) (s : State) (p : Sid) (c : TT) (hc : TT.time c < cfg.until_) :
    maxAdvance cfg s p c ≤ cfg.until_ := by
  unfold maxAdvance
  exact max_helper _ _ _ hc
where
  max_helper (L : List Nat) (u t : Nat) (ht : t < u) : max (L.foldl min (u + 1) - 1) t ≤ u := by
    have := foldl_min_le_init L (u + 1)
    omega

/-- … and never lies before the current step -/
theorem bounds_ge_time (cfg : Cfg) (s : State) (p : Sid) (c : TT) : TT.time c ≤ maxAdvance cfg s p c := by
  unfold maxAdvance; simp only; omega

/-- a simulator that nobody can trigger and that has no further step scheduled may advance to the
end of the simulation -/
theorem bounds_eq_until (cfg : Cfg) (s : State) (p : Sid) (c : TT) (hc : TT.time c < cfg.until_)
    (hanc : (cfg.sim p).trigAnc = []) (hnext : (s.sims p).next = []) : maxAdvance cfg s p c = cfg.until_ := by
  unfold maxAdvance
  simp [hanc, hnext]
  omega

/-- the promise `m`, stated on the state in which the step request goes out -/
theorem promise_state (cfg : Cfg) (s : State) (p : Sid) (c : TT) :
    let m := maxAdvance cfg s p c
    (m = TT.time c ∨
      ((∀ ad ∈ (cfg.sim p).trigAnc, ad.1 ≠ p → ∀ f, front (s.sims ad.1) = some f → m < TT.time (TI.act f ad.2)) ∧
       (∀ x, (s.sims p).next.head? = some x → m < TT.time x) ∧ m ≤ cfg.until_)) := by
  intro m
  by_cases hm : m = TT.time c
  · exact Or.inl hm
  · right
    -- m = min(...) - 1 with min(...) - 1 > time c
    have hdef : m = max ((((cfg.sim p).trigAnc.filterMap fun ad =>
        match (if ad.1 = p then none else (s.sims ad.1).cur) with
        | some ac => some (TT.time (TI.act ac ad.2))
        | none => (s.sims ad.1).next.head?.map fun h => TT.time (TI.act h ad.2)) ++
      ((s.sims p).next.head?.map TT.time).toList).foldl min (cfg.until_ + 1) - 1) (TT.time c) := rfl
    generalize hL : (((cfg.sim p).trigAnc.filterMap fun ad =>
        match (if ad.1 = p then none else (s.sims ad.1).cur) with
        | some ac => some (TT.time (TI.act ac ad.2))
        | none => (s.sims ad.1).next.head?.map fun h => TT.time (TI.act h ad.2)) ++
      ((s.sims p).next.head?.map TT.time).toList) = L at hdef
    have hmm : m = L.foldl min (cfg.until_ + 1) - 1 ∧ TT.time c < L.foldl min (cfg.until_ + 1) - 1 := by omega
    have hle := foldl_min_le_init L (cfg.until_ + 1)
    refine ⟨?_, ?_, by omega⟩
    · intro ad had hne f hf
      have hmem : TT.time (TI.act f ad.2) ∈ L := by
        rw [← hL]
        apply List.mem_append_left
        rw [List.mem_filterMap]
        refine ⟨ad, had, ?_⟩
        simp only [hne, if_false]
        unfold front at hf
        cases hcur : (s.sims ad.1).cur with
        | some ac => rw [hcur] at hf; simp at hf; subst hf; rfl
        | none => rw [hcur] at hf; simp only at hf ⊢; rw [hf]; rfl
      have := foldl_min_le_mem L (cfg.until_ + 1) _ hmem
      omega
    · intro x hx
      have hmem : TT.time x ∈ L := by
        rw [← hL]
        apply List.mem_append_right
        simp [hx]
      have := foldl_min_le_mem L (cfg.until_ + 1) _ hmem
      omega

/-- the value passed with the step request is this `maxAdvance`, computed in the state right after
the step was popped (so an ancestor in the middle of a step counts with that step) -/
theorem promise_is_what_is_sent {cfg : Cfg} (s : State) (p : Sid) (c : TT) (rest : List TT)
    (hprog : c = (s.sims p).progress) (hloop : (c.tail.any fun k => decide (k ≥ cfg.maxLoop)) = false) :
    ∃ inp s2, (beginStep cfg s p c rest).log.head? = some (.begin p c inp (maxAdvance cfg s2 p c)) ∧
      (∀ q, (s2.sims q).cur = if q = p then some c else (s.sims q).cur) ∧
      (∀ q, (s2.sims q).next = if q = p then rest else (s.sims q).next) := by
  unfold beginStep
  simp only [hprog, ne_eq, not_true_eq_false, if_false]
  rw [← hprog]
  simp only [hloop, Bool.false_eq_true, if_false]
  obtain ⟨f, hfctrl, hsnd⟩ := getInputData_snd cfg (s.upd p fun x => { x with cur := some c, next := rest }) p c
  refine ⟨(getInputData cfg (s.upd p fun x => { x with cur := some c, next := rest }) p c).1,
    (getInputData cfg (s.upd p fun x => { x with cur := some c, next := rest }) p c).2, ?_, ?_, ?_⟩
  · simp [State.emit]
  · intro q
    rw [hsnd]
    by_cases hq : q = p
    · subst hq
      have hfc := hfctrl ({ s.sims q with cur := some c, next := rest })
      simp only [SimSt.ctrl, Prod.mk.injEq] at hfc
      simp [hfc.2.2.2.1]
    · simp [State.upd_other _ _ hq, hq]
  · intro q
    rw [hsnd]
    by_cases hq : q = p
    · subst hq
      have hfc := hfctrl ({ s.sims q with cur := some c, next := rest })
      simp only [SimSt.ctrl, Prod.mk.injEq] at hfc
      simp [hfc.2.2.1]
    · simp [State.upd_other _ _ hq, hq]

/-- the state in which the step request goes out is shielded up to the promise -/
theorem shield_at_promise {cfg : Cfg} (hw : WFCfg cfg) {s : State} (hc : Core cfg s) {p : Sid} (hp : p < cfg.n) {c : TT}
    (hcur : (s.sims p).cur = some c) (hwin : maxAdvance cfg s p c ≠ TT.time c) :
    Shield cfg s p c (maxAdvance cfg s p c) := by
  rcases promise_state cfg s p c with h | ⟨hanc, hown, _⟩
  · exact absurd h hwin
  · constructor
    · intro ad had hne x hx
      exact hanc ad had hne x (by unfold front; rw [hx])
    · intro ad had hne x hx
      have han : ad.1 < cfg.n := hw.ancRange p hp ad had
      have hok := hc ad.1 han
      cases hcx : (s.sims ad.1).cur with
      | some cx =>
        have h1 := hanc ad had hne cx (by unfold front; rw [hcx])
        have hlt : cx < x := hok.begun_lt_next cx (hok.cur_begun cx hcx) x hx
        have := TT.time_mono (TI.act_mono_left ad.2 (TT.le_of_lt hlt))
        omega
      | none =>
        cases hh : (s.sims ad.1).next.head? with
        | none => rw [List.head?_eq_none_iff] at hh; rw [hh] at hx; cases hx
        | some hd =>
          have h1 := hanc ad had hne hd (by unfold front; rw [hcx]; exact hh)
          have := TT.time_mono (TI.act_mono_left ad.2 (head_le_of_sorted hok.sorted hh hx))
          omega
    · intro x hx
      cases hh : (s.sims p).next.head? with
      | none => rw [List.head?_eq_none_iff] at hh; rw [hh] at hx; cases hx
      | some hd =>
        have h1 := hown hd hh
        have := TT.time_mono (head_le_of_sorted (hc p hp).sorted hh hx)
        omega
    · intro x hx
      rw [hcur] at hx
      exact Or.inl (Option.some.inj hx).symm

/-- **C07, run form.**  `s` is a reachable state in which `p` has the step `c` in flight (the state
in which the request `step(t, inputs, max_advance = m)` went out, `m = maxAdvance cfg s p c`); `as`
is any continuation in which `p` itself does not cause a step inside the window.  Then in the state
reached `p` has no step in flight with a time in `(t, m]` and no step scheduled at a time `≤ m`. -/
theorem promise_run {cfg : Cfg} (hw : WFCfg cfg) {s : State} (hr : Reach cfg s) (hf : s.failed = none) {p : Sid} (hp : p < cfg.n)
    {c : TT} (hcur : (s.sims p).cur = some c) (as : List Action)
    (hq : ∀ a ∈ as, Quiet cfg p (maxAdvance cfg s p c) a) {s' : State} (he : exec cfg s as = some s') :
    (∀ x, (s'.sims p).cur = some x → ¬ (TT.time c < TT.time x ∧ TT.time x ≤ maxAdvance cfg s p c)) ∧
    (∀ x ∈ (s'.sims p).next, TT.time c < maxAdvance cfg s p c → maxAdvance cfg s p c < TT.time x) := by
  by_cases hwin : maxAdvance cfg s p c = TT.time c
  · constructor
    · intro x _ h; omega
    · intro x _ h; omega
  · have hsh := shield_exec hw hp as (shield_at_promise hw ((reach_good hw hr) hf).1 hp hcur hwin) hq he
    constructor
    · intro x hx h
      rcases hsh.pcur x hx with h1 | h1
      · subst h1; omega
      · omega
    · intro x hx _
      exact hsh.own x hx

/-- **C07, run form at full strength.**  `s` is a reachable state in which `p` has the step `c` in flight (the request
`step(t, inputs, max_advance = m)` has just gone out); `as` is ANY continuation.  Then every step `p` has in flight
afterwards with a time in `(t, m]`, and every step scheduled for `p` at a time `≤ m`, is traceable to `p` itself:
it is in `taintRun cfg p [] s as`, the set of steps scheduled — directly or through other simulators' steps — by
next-step times `p` returned and outputs `p` produced from the step `c` on. -/
theorem promise_run_traceable {cfg : Cfg} (hw : WFCfg cfg) {s : State} (hr : Reach cfg s) (hf : s.failed = none) {p : Sid}
    (hp : p < cfg.n) {c : TT} (hcur : (s.sims p).cur = some c) (as : List Action) {s' : State} (he : exec cfg s as = some s') :
    (∀ x, (s'.sims p).cur = some x → TT.time c < TT.time x → TT.time x ≤ maxAdvance cfg s p c →
      (p, x) ∈ taintRun cfg p [] s as) ∧
    (∀ x ∈ (s'.sims p).next, TT.time c < maxAdvance cfg s p c → TT.time x ≤ maxAdvance cfg s p c →
      (p, x) ∈ taintRun cfg p [] s as) := by
  by_cases hwin : maxAdvance cfg s p c = TT.time c
  · constructor
    · intro x _ h1 h2; omega
    · intro x _ h1 _; omega
  · have hsh := shieldT_exec hw hp as (ShieldT.of_shield (shield_at_promise hw ((reach_good hw hr) hf).1 hp hcur hwin)) he
    constructor
    · intro x hx h1 h2
      rcases hsh.pcur x hx with h3 | h3 | h3
      · subst h3; omega
      · omega
      · exact h3
    · intro x hx _ h2
      rcases hsh.own x hx with h3 | h3
      · omega
      · exact h3

/-- what "traceable" means, one action at a time: the taint grows exactly by the steps that a returned next step or the
outputs of a step of `p`, or of an already traceable step, schedule -/
theorem traceable_rule (cfg : Cfg) (p : Sid) (T : Taint) (s : State) (q : Sid) (c : TT) (d : DataReply)
    (hcur : (s.sims q).cur = some c) (hq : q = p ∨ (q, c) ∈ T) (tr : Port × Sid × TI) (htr : tr ∈ (cfg.sim q).triggers)
    (hhas : OutData.has d.data tr.1 = true) :
    (tr.2.1, TI.act (outTimeOf c d).2 tr.2.2) ∈ taintStep cfg p T s (.dataReply q d) := by
  unfold taintStep
  simp only [hcur, hq, if_true]
  apply List.mem_append_left
  rw [List.mem_map]
  exact ⟨tr, by rw [List.mem_filter]; exact ⟨htr, hhas⟩, rfl⟩

/-- … and nothing else: an action whose cause is neither `p` nor traceable adds nothing -/
theorem untraceable_adds_nothing (cfg : Cfg) (p : Sid) (T : Taint) (s : State) (q : Sid) (c : TT) (d : DataReply)
    (hcur : (s.sims q).cur = some c) (hq : ¬ (q = p ∨ (q, c) ∈ T)) :
    taintStep cfg p T s (.dataReply q d) = T ∧ ∀ r, taintStep cfg p T s (.stepReply q r) = T := by
  unfold taintStep
  simp [hcur, hq]

/-! non-vacuity of `promise_run`: in the two-simulator configuration A → B (trigger connection), A steps at 0
and announces its next step for 3; B's step at 0 goes out with `max_advance = 2`; in the quiet continuation
(B answers, A steps at 3 and triggers B) B's next step is the one at 3, after the promise. -/
def exCfg : Cfg := { C01.exCfg with until_ := 5 }
def exPre : List Action :=
  [.start 0, .start 1, .deps 0, .stepReply 0 (.int 3), .dataReply 0 { data := [((0, 0), some 7)] }, .wake 1, .deps 1]
def exPost : List Action :=
  [.stepReply 1 .none, .deps 0, .stepReply 0 (.int 4), .dataReply 0 { data := [((0, 0), some 8)] }, .wake 1, .deps 1]

example : exCfg.wfB = true := by decide
example : ((exec exCfg (initState exCfg) exPre).map fun s => (s.failed.isNone, (s.sims 1).cur, maxAdvance exCfg s 1 [0]))
    = some (true, some [0], 2) := by decide
example : ∀ a ∈ exPost, Quiet exCfg 1 2 a := by
  intro a ha
  simp only [exPost, List.mem_cons, List.not_mem_nil, or_false] at ha
  rcases ha with rfl | rfl | rfl | rfl | rfl | rfl <;> simp [Quiet]
example : ((exec exCfg (initState exCfg) (exPre ++ exPost)).map fun s => (s.failed.isNone, (s.sims 1).cur, (s.sims 1).begun))
    = some (true, some [3], [[3], [0]]) := by decide

/-! ### the triggering-ancestor table -/

/-- the table of `cache_triggering_ancestors` holds the minima over all trigger paths (statement and proof:
`Closure/AncTable.lean`) -/
theorem ancestor_table_is_minimum (sims : List SimCfg) (orc : List Nat) (hS : ShapedT sims) (hR : TrigRange sims) (hU : UniformT sims)
    {out : List SimCfg} (h : cacheTriggeringAncestors sims orc = .ok out) :
    (∀ t, t < sims.length → ∀ s d, lookupTI (out.getD t {}).trigAnc s = some d → TrigPath sims s t d) ∧
    (∀ s t d, TrigPath sims s t d → ∃ e, lookupTI (out.getD t {}).trigAnc s = some e ∧ TI.le e d) :=
  anc_table_minimum sims orc hS hR hU h

/-- … hence it satisfies the closure hypotheses `direct` and `trans` of the scheduler theorems -/
theorem ancestor_closure_hypotheses (sims : List SimCfg) (orc : List Nat) (hS : ShapedT sims) (hR : TrigRange sims) (hU : UniformT sims)
    (hW : ∀ s tr, tr ∈ (sims.getD s {}).triggers → tr.2.2.cutoff ≤ tr.2.2.pre)
    {out : List SimCfg} (h : cacheTriggeringAncestors sims orc = .ok out) :
    (∀ p tr, tr ∈ (sims.getD p {}).triggers → ∃ ad ∈ (out.getD tr.2.1 {}).trigAnc, ad.1 = p ∧ TI.le ad.2 tr.2.2) ∧
    (∀ p tr, tr ∈ (sims.getD p {}).triggers → ∀ q, q < sims.length → ∀ bd, lookupTI (out.getD q {}).trigAnc tr.2.1 = some bd →
      ∃ ad ∈ (out.getD q {}).trigAnc, ad.1 = p ∧ TI.le ad.2 (TI.add tr.2.2 bd)) :=
  anc_direct_trans sims orc hS hR hU hW h

/-- the same from the executable checks (every scenario without groups passes them) -/
theorem ancestor_table_of_checks (sims : List SimCfg) (orc : List Nat) (h1 : shapedTB sims = true) (h2 : constCutoffTB sims = true)
    {out : List SimCfg} (h : cacheTriggeringAncestors sims orc = .ok out) :
    (∀ t, t < sims.length → ∀ s d, lookupTI (out.getD t {}).trigAnc s = some d → TrigPath sims s t d) ∧
    (∀ s t d, TrigPath sims s t d → ∃ e, lookupTI (out.getD t {}).trigAnc s = some e ∧ TI.le e d) :=
  anc_table_minimum sims orc (shapedTB_sound h1).1 (shapedTB_sound h1).2.1 (constCutoffTB_sound h2) h

/-- non-vacuity: a diamond A → B → D, A → C → D with delays 1 + 0 and 0 + 2, and A → D directly with delay 3: the table of D
holds the minimum 1 for A -/
example : let sims : List SimCfg :=
      [ { triggers := [((0, 0), 1, ⟨1, 1, [1]⟩), ((0, 0), 2, ⟨1, 1, [0]⟩), ((0, 0), 3, ⟨1, 1, [3]⟩)] },
        { triggers := [((0, 0), 3, ⟨1, 1, [0]⟩)] }, { triggers := [((0, 0), 3, ⟨1, 1, [2]⟩)] }, {} ]
    shapedTB sims = true ∧ constCutoffTB sims = true ∧
    (cacheTriggeringAncestors sims []).toOption.map (fun out => lookupTI (out.getD 3 {}).trigAnc 0) = some (some ⟨1, 1, [1]⟩) := by
  decide

/-- **the table is the minimum for every built scenario**: `ShapedT` and `TrigRange` follow from how `connect` builds the
tables (`Build.BuiltOk`); only `UniformT` (the complement of finding D7) remains a hypothesis -/
theorem ancestor_table_is_minimum_built (ops : List Build.Op) (hv : Build.Valid {} ops) (orc : List Nat)
    (hU : UniformT (Build.build ops).sims) {out : List SimCfg} (h : cacheTriggeringAncestors (Build.build ops).sims orc = .ok out) :
    (∀ t, t < (Build.build ops).sims.length → ∀ s d, lookupTI (out.getD t {}).trigAnc s = some d → TrigPath (Build.build ops).sims s t d) ∧
    (∀ s t d, TrigPath (Build.build ops).sims s t d → ∃ e, lookupTI (out.getD t {}).trigAnc s = some e ∧ TI.le e d) :=
  anc_table_minimum _ orc (Build.built_shapedT (Build.build_builtOk ops {} Build.builtOk_empty hv))
    (Build.built_trigRange (Build.build_builtOk ops {} Build.builtOk_empty hv)) hU h

/-- **`cache_triggering_ancestors` terminates** (every pop order): once its first loop (direct triggers) has succeeded, the worklist
empties — there is an amount of fuel from which on the loop of the model ends in a state, without assertion.  Well-founded descent on
the table of stored delays (`Closure/Terminate.lean`); hypotheses as for `ancestor_table_is_minimum` -/
theorem ancestor_worklist_terminates (sims : List SimCfg) (orc : List Nat) (hS : ShapedT sims) (hR : TrigRange sims) (hU : UniformT sims)
    {st0 : AncState} (h0 : ancInit sims = .ok st0) :
    ∃ k, ∀ fuel, k ≤ fuel → ∃ st, ancLoop sims fuel st0 orc = .ok st :=
  anc_worklist_terminates sims orc hS hR hU h0

/-- … for every built scenario (`ShapedT`, `TrigRange` from the builder invariant; `UniformT` remains) -/
theorem ancestor_worklist_terminates_built (ops : List Build.Op) (hv : Build.Valid {} ops) (orc : List Nat)
    (hU : UniformT (Build.build ops).sims) {st0 : AncState} (h0 : ancInit (Build.build ops).sims = .ok st0) :
    ∃ k, ∀ fuel, k ≤ fuel → ∃ st, ancLoop (Build.build ops).sims fuel st0 orc = .ok st :=
  anc_worklist_terminates _ orc (Build.built_shapedT (Build.build_builtOk ops {} Build.builtOk_empty hv))
    (Build.built_trigRange (Build.build_builtOk ops {} Build.builtOk_empty hv)) hU h0

/-- **`World.run` hands the scheduler a configuration that satisfies `WFCfg`** - all nine hypotheses of the scheduler theorems
(C01, C02, C05, C07, C09, C10, C16, C17), for every scenario built by valid calls whose trigger paths are uniform -/
theorem run_configuration_wf (ops : List Build.Op) (hv : Build.Valid {} ops) (orc : List Nat)
    (hU : UniformT (Build.build ops).sims) {out : List SimCfg} (h : cacheTriggeringAncestors (Build.build ops).sims orc = .ok out)
    (until_ maxLoop : Nat) (lazy_ useCache strict : Bool) : WFCfg (Build.runCfg out until_ maxLoop lazy_ useCache strict) :=
  Build.run_config_wf hv hU h until_ maxLoop lazy_ useCache strict

/-- **scenarios without groups need no hypothesis at all**: every trigger path then has cutoff 1, so `UniformT` holds outright
(`Build.flat_uniformT`) - for every sequence of valid calls whose `start` calls all name the main group, the configuration handed to
the scheduler satisfies `WFCfg` -/
theorem run_configuration_wf_flat (ops : List Build.Op) (hv : Build.Valid {} ops) (hf : Build.flatOps ops = true) (orc : List Nat)
    {out : List SimCfg} (h : cacheTriggeringAncestors (Build.build ops).sims orc = .ok out)
    (until_ maxLoop : Nat) (lazy_ useCache strict : Bool) : WFCfg (Build.runCfg out until_ maxLoop lazy_ useCache strict) :=
  Build.run_config_wf_flat hv hf h until_ maxLoop lazy_ useCache strict

/-- **… and for scenarios with groups the executable uniformity check suffices**: uniform connection paths give uniform trigger
paths (`Build.uniformT_of_uniform`: a trigger connection and the pair's `input_delays` entry have one shape), so for every scenario
built by valid calls whose tables pass `uniformB` - the complete decision of `Uniform`, which every generated scenario outside finding
D7 passes (`w.cychyp`) - the run configuration satisfies `WFCfg` and `WFShape` -/
theorem run_configuration_wf_of_uniformB (ops : List Build.Op) (hv : Build.Valid {} ops) (hub : uniformB (Build.build ops).sims = true)
    (orc : List Nat) {out : List SimCfg} (h : cacheTriggeringAncestors (Build.build ops).sims orc = .ok out)
    (until_ maxLoop : Nat) (lazy_ useCache strict : Bool) :
    WFCfg (Build.runCfg out until_ maxLoop lazy_ useCache strict) ∧ WFShape (Build.runCfg out until_ maxLoop lazy_ useCache strict) :=
  Build.run_config_wf_of_uniformB hv hub h until_ maxLoop lazy_ useCache strict

/-- non-vacuity: a grouped scenario (two simulators in one group, a plain trigger connection and a weak one back) passes `uniformB`,
is accepted, and its ancestor table is computed -/
example :
    let d : SimDecl := { ty := .hybrid, group := [0], cls := (parseAttrs { anyInputs := false, attrs := some [0, 1, 2, 3], trigger := some [1], nonPersistent := some [3] } .hybrid).getD default }
    let ops : List Build.Op := [.start d, .start d, .connect { src := 0, seid := 0, dst := 1, deid := 0, pairs := [(3, 1)] },
      .connect { src := 1, seid := 0, dst := 0, deid := 0, pairs := [(3, 1)], weak := true }]
    uniformB (Build.build ops).sims = true ∧ ensureNoCycles (Build.build ops).sims [] = .ok ∧
      (cacheTriggeringAncestors (Build.build ops).sims []).toOption.isSome = true := by
  decide

end Mosaik.C07
