/-
C08  Order-consistent delay arithmetic for grouped (tiered) time.

All statements are about the model of mosaik/tiered_time.py (`TI.lt?`, `TI.add?`, `TI.act?`, the
operators `functools.total_ordering` derives, `update_min`, `min`), for delays and times of every
shape and length and unbounded tier values.  "Comparable" = same length, pre-length and cutoff;
for operands of different cutoff see `Findings.lean` (finding C08-mixed-cutoff).
-/
import MosaikProofs.Lemmas.Tiered
namespace Mosaik.C08
open Mosaik TI

/-- two delays of the same shape -/
def SameShape (a b : TI) : Prop :=
  a.tiers.length = b.tiers.length ∧ a.pre = b.pre ∧ a.cutoff = b.cutoff

instance (a b : TI) : Decidable (SameShape a b) := by unfold SameShape; exact inferInstance

theorem ltLoop_same_cutoff (c : Nat) : ∀ (i : Nat) (s o : List Nat), s.length = o.length →
    ltLoop c c i s o = some (decide (s < o))
  | _, [], [], _ => by simp [ltLoop]
  | _, [], _ :: _, h => by simp at h
  | _, _ :: _, [], h => by simp at h
  | i, x :: xs, y :: ys, h => by
    have ih := ltLoop_same_cutoff c (i + 1) xs ys (by simpa using h)
    unfold ltLoop
    have hno : ¬ (c ≤ i ∧ i < c) := by omega
    by_cases h1 : x < y
    · simp [h1, hno, List.cons_lt_cons_iff]
    · by_cases h2 : y < x
      · have : ¬ x = y := by omega
        simp [h1, h2, hno, List.cons_lt_cons_iff, this]
      · have : x = y := by omega
        subst this
        simp [ih]

/-- on operands of the same shape `<` never asserts and is the lexicographic order of the tiers -/
theorem lt_same_shape {a b : TI} (h : SameShape a b) : lt? a b = some (decide (a.tiers < b.tiers)) := by
  obtain ⟨hl, hp, hc⟩ := h
  unfold lt?
  simp only [hl, hp, and_self, if_true, hc]
  exact ltLoop_same_cutoff _ _ _ _ hl

/-- irreflexive -/
theorem lt_irrefl (a : TI) : lt? a a = some false := by
  rw [lt_same_shape ⟨rfl, rfl, rfl⟩]; simp [TT.lt_irrefl]

/-- exactly one of `<`, `=`, `>` holds for comparable delays -/
theorem trichotomy {a b : TI} (h : SameShape a b) :
    (lt? a b = some true ∧ a ≠ b ∧ lt? b a = some false) ∨
    (lt? a b = some false ∧ a = b ∧ lt? b a = some false) ∨
    (lt? a b = some false ∧ a ≠ b ∧ lt? b a = some true) := by
  have h' : SameShape b a := ⟨h.1.symm, h.2.1.symm, h.2.2.symm⟩
  rw [lt_same_shape h, lt_same_shape h']
  rcases TT.lt_or_ge a.tiers b.tiers with h1 | h1
  · left
    have : ¬ b.tiers < a.tiers := TT.not_lt.mpr (TT.le_of_lt h1)
    refine ⟨by simp [h1], ?_, by simp [this]⟩
    intro e; subst e; exact TT.lt_irrefl _ h1
  · right
    rcases TT.le_iff_lt_or_eq.mp h1 with h2 | h2
    · right
      have : ¬ a.tiers < b.tiers := TT.not_lt.mpr h1
      refine ⟨by simp [this], ?_, by simp [h2]⟩
      intro e; subst e; exact TT.lt_irrefl _ h2
    · left
      have e : a = b := by
        obtain ⟨hl, hp, hc⟩ := h
        cases a; cases b; simp_all
      subst e
      simp [TT.lt_irrefl]

/-- transitive -/
theorem lt_trans {a b c : TI} (hab : SameShape a b) (hbc : SameShape b c)
    (h1 : lt? a b = some true) (h2 : lt? b c = some true) : lt? a c = some true := by
  have hac : SameShape a c := ⟨hab.1.trans hbc.1, hab.2.1.trans hbc.2.1, hab.2.2.trans hbc.2.2⟩
  rw [lt_same_shape hab] at h1
  rw [lt_same_shape hbc] at h2
  rw [lt_same_shape hac]
  simp only [Option.some.injEq, decide_eq_true_eq] at h1 h2 ⊢
  exact TT.lt_trans h1 h2

/-- asymmetric, for operands of any cutoffs: if `a < b` then `b < a` is (defined and) false -/
theorem ltLoop_asymm (ca cb : Nat) : ∀ (i : Nat) (s o : List Nat),
    ltLoop ca cb i s o = some true → ltLoop cb ca i o s = some false
  | _, [], _, h => by simp [ltLoop] at h
  | _, _ :: _, [], h => by simp [ltLoop] at h
  | i, x :: xs, y :: ys, h => by
    unfold ltLoop at h ⊢
    by_cases h1 : x < y
    · have h2 : ¬ y < x := by omega
      simp only [h1, if_true] at h
      by_cases h3 : cb ≤ i ∧ i < ca
      · simp [h3] at h
      · simp [h1, h2, h3]
    · by_cases h2 : y < x
      · simp only [h1, h2, if_false, if_true] at h
        split at h <;> simp at h
      · simp only [h1, h2, if_false] at h ⊢
        exact ltLoop_asymm ca cb (i + 1) xs ys h

theorem lt_asymm {a b : TI} (h : lt? a b = some true) : lt? b a = some false := by
  unfold lt? at h ⊢
  split at h
  · rename_i hs
    simp only [hs.1.symm, hs.2.symm, and_self, if_true]
    exact ltLoop_asymm _ _ _ _ _ h
  · simp at h

/-- the derived operators (`functools.total_ordering`) on comparable delays -/
theorem le_same_shape {a b : TI} (h : SameShape a b) : le? a b = some (decide (a.tiers ≤ b.tiers)) := by
  unfold le?
  rw [lt_same_shape h]
  simp only [Option.map_some, Option.some.injEq]
  by_cases h1 : a.tiers < b.tiers
  · simp [h1, TT.le_of_lt h1]
  · by_cases h2 : a = b
    · subst h2; simp
    · have : ¬ a.tiers ≤ b.tiers := by
        intro hle
        rcases TT.le_iff_lt_or_eq.mp hle with h3 | h3
        · exact h1 h3
        · apply h2
          obtain ⟨hl, hp, hc⟩ := h
          cases a; cases b; simp_all
      simp [h1, h2, this]

theorem ge_same_shape {a b : TI} (h : SameShape a b) : ge? a b = some (decide (b.tiers ≤ a.tiers)) := by
  unfold ge?
  rw [lt_same_shape h]
  simp only [Option.map_some, Option.some.injEq]
  by_cases h1 : a.tiers < b.tiers
  · simp [h1, TT.not_le.mpr h1]
  · simp [h1, TT.not_lt.mp h1]

theorem gt_same_shape {a b : TI} (h : SameShape a b) : gt? a b = some (decide (b.tiers < a.tiers)) := by
  have h' : SameShape b a := ⟨h.1.symm, h.2.1.symm, h.2.2.symm⟩
  unfold gt?
  rcases trichotomy h with ⟨h1, h2, h3⟩ | ⟨h1, h2, h3⟩ | ⟨h1, h2, h3⟩
  · rw [lt_same_shape h'] at h3
    rw [h1]; simp at h3 ⊢; simpa using h3
  · subst h2; rw [h1]; simp [TT.lt_irrefl]
  · rw [lt_same_shape h'] at h3
    rw [h1]; simp at h3 ⊢; simp [h2, h3]

/-- a smaller delay never yields a later arrival time, for any departure time
(strictly earlier, in fact) -/
theorem arrival_mono {a b : TI} (h : SameShape a b) (hlt : lt? a b = some true) (t : TT) :
    act t a < act t b := by
  rw [lt_same_shape h] at hlt
  simp only [Option.some.injEq, decide_eq_true_eq] at hlt
  exact act_strict_mono_right t ⟨h.2.1, h.2.2, h.1, hlt⟩

theorem arrival_mono_le {a b : TI} (h : SameShape a b) (hle : le? a b = some true) (t : TT) :
    act t a ≤ act t b := by
  rw [le_same_shape h] at hle
  simp only [Option.some.injEq, decide_eq_true_eq] at hle
  exact act_mono_right t ⟨h.2.1, h.2.2, h.1, hle⟩

/-- a later departure never yields an earlier arrival -/
theorem departure_mono (d : TI) {t t' : TT} (h : t ≤ t') : act t d ≤ act t' d := act_mono_left d h

/-- adding a delay never moves (world) time backwards, nor any tier that is kept -/
theorem never_backwards (t : TT) (d : TI) (h : d.WF) : TT.time t ≤ TT.time (act t d) :=
  time_le_time_act t d h

theorem never_backwards_tier (t : TT) (d : TI) (h : d.WF) (i : Nat) (hi : i < d.cutoff) :
    tier t i ≤ tier (act t d) i :=
  tier_le_tier_act t d hi (by unfold WF at h; omega)

/-- combining delays along a path is associative (with the asserts of `+`) -/
theorem add_assoc {a b c ab bc : TI} (hc : c.WF) (h1 : add? a b = some ab) (h2 : add? b c = some bc) :
    add? ab c = add? a bc ∧ (add? ab c).isSome := by
  unfold add? at h1 h2 ⊢
  split at h1 <;> simp at h1
  split at h2 <;> simp at h2
  rename_i hab hbc
  subst h1 h2
  have hcc : c.cutoff ≤ b.tiers.length := by unfold WF at hc; omega
  simp [hab, hbc, TI.add_assoc a b c hcc]

/-- … and agrees with applying the delays one after the other -/
theorem act_act {t u : TT} {a b ab : TI} (hb : b.WF) (h1 : act? t a = some u) (h2 : add? a b = some ab) :
    act? u b = act? t ab ∧ (act? u b).isSome := by
  unfold act? at h1 ⊢
  unfold add? at h2
  split at h1 <;> simp at h1
  split at h2 <;> simp at h2
  rename_i ht hab
  subst h1 h2
  have hbc : b.cutoff ≤ a.tiers.length := by unfold WF at hb; omega
  simp [ht, hab, TI.act_act t a b hbc]

/-- the sum of well-formed composable delays is well-formed -/
theorem add_wf {a b : TI} (ha : a.WF) (hb : b.WF) : (add a b).WF := by
  unfold WF at *
  simp only [add_cutoff, add_pre, add_length]
  omega

/-- adding on either side preserves the order of comparable delays -/
theorem add_mono_right' (c : TI) {a b : TI} (h : SameShape a b) (hle : le? a b = some true) :
    le? (add c a) (add c b) = some true := by
  rw [le_same_shape h] at hle
  simp only [Option.some.injEq, decide_eq_true_eq] at hle
  have := TI.add_mono_right c (a := a) (b := b) ⟨h.2.1, h.2.2, h.1, hle⟩
  rw [le_same_shape ⟨this.2.2.1, this.1, this.2.1⟩]
  simp [this.2.2.2]

theorem add_mono_left' (c : TI) {a b : TI} (h : SameShape a b) (hle : le? a b = some true) :
    le? (add a c) (add b c) = some true := by
  rw [le_same_shape h] at hle
  simp only [Option.some.injEq, decide_eq_true_eq] at hle
  have := TI.add_mono_left c (a := a) (b := b) ⟨h.2.1, h.2.2, h.1, hle⟩
  rw [le_same_shape ⟨this.2.2.1, this.1, this.2.1⟩]
  simp [this.2.2.2]

/-- `update_min(a, b)` replaces `a` by `b` exactly when `b` is strictly smaller -/
theorem update_min_spec {a b : TI} (h : SameShape a b) :
    updateMin? (some a) b = some (if b.tiers < a.tiers then some b else none) := by
  simp only [updateMin?, le_same_shape h]
  by_cases h1 : a.tiers ≤ b.tiers
  · simp [h1, TT.not_lt.mpr h1]
  · simp [h1, TT.not_le.mp h1]

/-- builtin `min` returns one of its arguments, and a lower bound of both -/
theorem min_spec {x y : TI} (h : SameShape x y) :
    ∃ m, min2? x y = some m ∧ (m = x ∨ m = y) ∧ m.tiers ≤ x.tiers ∧ m.tiers ≤ y.tiers := by
  have h' : SameShape y x := ⟨h.1.symm, h.2.1.symm, h.2.2.symm⟩
  unfold min2?
  rw [lt_same_shape h']
  by_cases h1 : y.tiers < x.tiers
  · exact ⟨y, by simp [h1], Or.inr rfl, TT.le_of_lt h1, TT.le_refl _⟩
  · exact ⟨x, by simp [h1], Or.inl rfl, TT.le_refl _, TT.not_lt.mp h1⟩

/-! non-vacuity: concrete comparable delays meet the hypotheses -/
example : SameShape ⟨2, 2, [1, 5]⟩ ⟨2, 2, [2, 0]⟩ ∧ lt? ⟨2, 2, [1, 5]⟩ ⟨2, 2, [2, 0]⟩ = some true
    ∧ lt? ⟨2, 2, [2, 0]⟩ ⟨2, 2, [1, 5]⟩ = some false := by decide
example : (⟨1, 1, [1, 0]⟩ : TI).WF ∧ add? ⟨1, 1, [0]⟩ ⟨1, 1, [1, 0]⟩ = some ⟨1, 1, [1, 0]⟩
    ∧ act? [3] ⟨1, 1, [1, 0]⟩ = some [4, 0] := by decide

end Mosaik.C08
