/-
C09  Same-time loop guard.

`guard_fires`      : a simulator that would begin a sub-step whose index (on any tier) has reached
                     `max_loop_iterations` aborts the run with the loop error naming that simulator
`guard_only_then`  : the loop error is raised for no other reason — loops that settle within the
                     bound are never interrupted
`substeps_bounded` : consequently every step ever begun has all its sub-tiers below the bound, and
                     since steps are strictly increasing (C02) a simulator performs at most
                     `max_loop_iterations` sub-steps per value of the tiers above
-/
import MosaikProofs.Sched.Errors
namespace Mosaik.C09
open Mosaik

/-- some sub-tier has reached the bound -/
def OverBound (cfg : Cfg) (c : TT) : Bool := c.tail.any fun k => decide (k ≥ cfg.maxLoop)

theorem guard_fires {cfg : Cfg} (hw : WFCfg cfg) {s s' : State} {p : Sid} (hr : Reach cfg s)
    (h : step cfg s (.deps p) = some s') (c : TT) (hpc : (s.sims p).pc = .waitDeps c) (hover : OverBound cfg c = true) :
    s'.failed = some (.loop p) := by
  have hf0 : s.failed = none := by
    cases hf : s.failed with
    | none => rfl
    | some e => rw [step_none_of_failed (by rw [hf]; rfl)] at h; cases h
  simp only [step] at h
  unfold stepDeps at h
  split at h
  · rename_i hguard
    obtain ⟨hf, hp⟩ := live_iff.mp hguard
    obtain ⟨_, hpcs⟩ := reach_good hw hr hf
    simp only [hpc] at h
    split at h
    · cases hnext : (s.sims p).next with
      | nil => simp [hnext] at h
      | cons c' rest =>
        simp only [hnext, Option.some.injEq] at h
        obtain ⟨w1, w2, _⟩ := (hpcs p hp).waiting c hpc
        have hct : c' = c := by rw [hnext] at w1; simpa using w1
        subst hct
        subst h
        unfold beginStep
        unfold OverBound at hover
        simp only [w2, ne_eq, not_true_eq_false, if_false, hover, if_true]
        exact fail_eq (by simpa using hf) _
    · cases h
  · cases h

theorem guard_only_then {cfg : Cfg} (hw : WFCfg cfg) {s s' : State} {a : Action} (hr : Reach cfg s)
    (h : step cfg s a = some s') (p : Sid) (he : s'.failed = some (.loop p)) :
    a = .deps p ∧ ∃ c, (s.sims p).pc = .waitDeps c ∧ OverBound cfg c = true :=
  step_err hw (reach_good hw hr) h _ he

theorem substeps_bounded {cfg : Cfg} (hw : WFCfg cfg) {s : State} (hr : Reach cfg s) :
    s.failed = none → ∀ p, ∀ b ∈ (s.sims p).begun, OverBound cfg b = false := by
  induction hr with
  | init => intro _ p b hb; simp [initState, initSim] at hb
  | @step s s' a hr hstep ih =>
    intro hnf p b hb
    have hf0 : s.failed = none := by
      cases hf : s.failed with
      | none => rfl
      | some e => rw [step_none_of_failed (by rw [hf]; rfl)] at hstep; cases hstep
    rcases step_frame hw (reach_good hw hr) hstep hnf with hl | ⟨q, c, _, _, _, _, _, _, _, hloop, _, hbeg, _, hoth⟩
    · rw [hl.begun] at hb; exact ih hf0 p b hb
    · by_cases hpq : p = q
      · subst hpq
        rw [hbeg] at hb
        rcases List.mem_cons.mp hb with rfl | hb
        · exact hloop
        · exact ih hf0 p b hb
      · rw [hoth p hpq] at hb; exact ih hf0 p b hb

/-- for a simulator in a group of depth 2 (times `(t, k)`): the sub-steps begun at one time `t` have
pairwise different indices `k < max_loop_iterations`, hence there are at most that many -/
theorem at_most_bound_substeps {cfg : Cfg} (hw : WFCfg cfg) {s : State} (hr : Reach cfg s) (hnf : s.failed = none)
    (p : Sid) (hp : p < cfg.n) (t : Nat) :
    (((s.sims p).begun.filter fun b => b.length == 2 && b.head? == some t).map fun b => tier b 1).Nodup ∧
    ∀ b ∈ (s.sims p).begun, b.length = 2 → tier b 1 < cfg.maxLoop := by
  constructor
  · have hs := ((reach_good hw hr hnf).1 p hp).begun_sorted
    have hsub : ((s.sims p).begun.filter fun b => b.length == 2 && b.head? == some t).Pairwise (fun a b => b < a) :=
      hs.sublist List.filter_sublist
    rw [List.nodup_iff_pairwise_ne] at *
    rw [List.pairwise_map]
    refine (List.Pairwise.and_mem.mp hsub).imp ?_
    rintro a b ⟨ha, hb, hlt⟩ heq
    simp only [List.mem_filter, Bool.and_eq_true, beq_iff_eq] at ha hb
    -- both are [t, k] with the same k
    obtain ⟨_, hla, hha⟩ := ha
    obtain ⟨_, hlb, hhb⟩ := hb
    match a, b, hla, hlb with
    | [a0, a1], [b0, b1], _, _ =>
      simp at hha hhb
      simp [tier] at heq
      subst hha hhb heq
      exact TT.lt_irrefl _ hlt
  · intro b hb hl
    have := substeps_bounded hw hr hnf p b hb
    unfold OverBound at this
    match b, hl with
    | [b0, b1], _ =>
      simp [tier] at this ⊢
      omega

end Mosaik.C09
