/-
C10  Lazy stepping bounds run-ahead.

With `lazy_stepping` on: when a simulator begins a step at `t`, every simulator it feeds has
progressed to `t` (adapted to the consumer's tiers), i.e. has no step earlier than `t` outstanding —
neither in flight nor scheduled — and never will have one again.
-/
import MosaikProofs.Sched.Errors
import MosaikProofs.Build.RunConfig
namespace Mosaik.C10
open Mosaik

/-- at the moment the producer `p` begins `t` -/
theorem lazy_begin {cfg : Cfg} (hw : WFCfg cfg) (hlazy : cfg.lazy_ = true) {s s' : State} {p : Sid} (hr : Reach cfg s)
    (h : step cfg s (.deps p) = some s') (hnf : s'.failed = none) :
    ∃ t, (s.sims p).progress = t ∧ ∀ sd ∈ (cfg.sim p).succs, sd.1 < cfg.n →
      TI.act t sd.2 ≤ (s.sims sd.1).progress ∧
      (∀ c, (s.sims sd.1).cur = some c → TI.act t sd.2 ≤ c) ∧
      (∀ x ∈ (s.sims sd.1).next, TI.act t sd.2 ≤ x) := by
  have hf0 : s.failed = none := by
    cases hf : s.failed with
    | none => rfl
    | some e => rw [step_none_of_failed (by rw [hf]; rfl)] at h; cases h
  obtain ⟨hc, _⟩ := reach_good hw hr hf0
  rcases step_frame hw (reach_good hw hr) h hnf with hl | ⟨q, c, ha, _, _, hready, hprog, _, _, _, _, _, _, _⟩
  · -- impossible (a step begins), but the statement is also vacuous-free here: derive from the guard
    exfalso
    have hg' := good_step hw (reach_good hw hr) h hnf
    simp only [step] at h
    unfold stepDeps at h
    split at h
    · rename_i hguard
      obtain ⟨hf, hp⟩ := live_iff.mp hguard
      obtain ⟨_, hpcs⟩ := reach_good hw hr hf
      split at h
      · rename_i t hpc
        split at h
        · cases hnext : (s.sims p).next with
          | nil => simp [hnext] at h
          | cons c rest =>
            simp only [hnext, Option.some.injEq] at h
            obtain ⟨w1, w2, _⟩ := (hpcs p hp).waiting t hpc
            subst h
            unfold beginStep at hnf hl
            have hct : c = t := by rw [hnext] at w1; simpa using w1
            subst hct
            simp only [w2, ne_eq, not_true_eq_false, if_false] at hnf hl
            cases hloop : (c.tail.any fun k => decide (k ≥ cfg.maxLoop)) with
            | true =>
              simp only [hloop, if_true] at hnf
              have := State.fail_failed (s.upd p fun x => { x with cur := some c, next := rest }) (.loop p)
              rw [hnf] at this; cases this
            | false =>
              simp only [hloop, Bool.false_eq_true, if_false] at hl
              have := hl.begun p
              simp only [State.emit_sims, State.upd_same] at this
              obtain ⟨f, hfctrl, hsnd⟩ := getInputData_snd cfg (s.upd p fun x => { x with cur := some c, next := rest }) p c
              rw [hsnd] at this
              have hfc := hfctrl ({ s.sims p with cur := some c, next := rest })
              simp only [SimSt.ctrl, Prod.mk.injEq] at hfc
              simp only [State.upd_same] at this
              rw [hfc.2.2.2.2] at this
              simp at this
        · cases h
      · cases h
    · cases h
  · cases ha
    refine ⟨c, hprog, ?_⟩
    intro sd hsd hsn
    unfold depsReady at hready
    simp only [hlazy, Bool.not_true, Bool.false_or, Bool.and_eq_true, List.all_eq_true, decide_eq_true_eq] at hready
    have h1 := hready.2 sd hsd
    refine ⟨h1, ?_, ?_⟩
    · intro c' hc'
      rw [← (hc sd.1 hsn).cur_eq c' hc']; exact h1
    · intro x hx
      exact TT.le_trans h1 ((hc sd.1 hsn).le_next x hx)

/-- … and for the rest of the run: the consumer's progress never falls below that bound, so it
never again begins a step earlier than it -/
theorem lazy_forever {cfg : Cfg} (hw : WFCfg cfg) {s s' : State} (hr : Reach cfg s) (as : List Action)
    (h : exec cfg s as = some s') (hnf : s'.failed = none) (q : Sid) (bound : TT) (hb : bound ≤ (s.sims q).progress) :
    bound ≤ (s'.sims q).progress :=
  TT.le_trans hb ((exec_mono hw as hr h hnf).1 q)

/-- **`successors` is what the property means by "direct consumers"**: in the configuration `World.run` derives from ANY scenario built
by valid `start` / `connect` / `set_initial_event` calls, every data connection made by `connect` - pushed (kept at the source) or
cached (kept at the destination) - has its destination in the source's `successors` table, the table `lazy_begin` quantifies over
(builder invariant `Build.BuiltOk.succPush` / `succPull`, by induction over the calls) -/
theorem successors_complete_built {ops : List Build.Op} (hv : Build.Valid {} ops) {orc : List Nat} {out : List SimCfg}
    (hc : cacheTriggeringAncestors (Build.build ops).sims orc = .ok out) (until_ maxLoop : Nat) (lazy_ useCache strict : Bool) :
    (∀ p, p < out.length → ∀ e ∈ ((Build.runCfg out until_ maxLoop lazy_ useCache strict).sim p).push,
      e.2.1 < out.length ∧ ∃ d, (e.2.1, d) ∈ ((Build.runCfg out until_ maxLoop lazy_ useCache strict).sim p).succs) ∧
    (∀ q, q < out.length → ∀ e ∈ ((Build.runCfg out until_ maxLoop lazy_ useCache strict).sim q).pulled,
      e.1 < out.length ∧ ∃ d, (q, d) ∈ ((Build.runCfg out until_ maxLoop lazy_ useCache strict).sim e.1).succs) :=
  Build.run_config_succ_complete_of_built (Build.build_builtOk ops {} Build.builtOk_empty hv) hc until_ maxLoop lazy_ useCache strict

/-- … and for those configurations (uniform trigger paths) the lazy bound holds with no hypothesis on the configuration -/
theorem lazy_begin_built {ops : List Build.Op} (hv : Build.Valid {} ops) (hU : UniformT (Build.build ops).sims) {orc : List Nat}
    {out : List SimCfg} (hc : cacheTriggeringAncestors (Build.build ops).sims orc = .ok out) (until_ maxLoop : Nat)
    (useCache strict : Bool) {s s' : State} {p : Sid} (hr : Reach (Build.runCfg out until_ maxLoop true useCache strict) s)
    (h : step (Build.runCfg out until_ maxLoop true useCache strict) s (.deps p) = some s') (hnf : s'.failed = none) :
    ∃ t, (s.sims p).progress = t ∧ ∀ sd ∈ ((Build.runCfg out until_ maxLoop true useCache strict).sim p).succs,
      sd.1 < (Build.runCfg out until_ maxLoop true useCache strict).n →
      TI.act t sd.2 ≤ (s.sims sd.1).progress ∧
      (∀ c, (s.sims sd.1).cur = some c → TI.act t sd.2 ≤ c) ∧
      (∀ x ∈ (s.sims sd.1).next, TI.act t sd.2 ≤ x) :=
  lazy_begin (Build.run_config_wf hv hU hc until_ maxLoop true useCache strict) rfl hr h hnf

end Mosaik.C10
