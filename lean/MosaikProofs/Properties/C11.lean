/-
C11  Connection validation and group scoping.

* `exact`      : `connect_one` raises ScenarioError exactly in the four documented cases
* `no_trace`   : a rejected attribute pair leaves the world unchanged
* `connect_never_internal_error` : in EVERY scenario built by `start` / `connect` / `set_initial_event` calls, a `connect`
                 call (any number of attribute pairs, with or without `async_requests`) either succeeds or raises ScenarioError -
                 the `assert` of `TieredInterval.__lt__` behind `min(input_delays[src], delay)` cannot fire, because all delays
                 stored for one pair of simulators have one shape (builder invariant `Build.BuiltOk`, by induction over the calls)
* `scoping_*`  : the delay's cutoff is the depth of the innermost group containing both
                 simulators (longest common prefix of their group paths, compared by identity),
                 so sibling groups share only their parent
-/
import MosaikModel.Connect
import MosaikProofs.Lemmas.Tiered
import MosaikProofs.Build.Invariant
namespace Mosaik.C11
open Mosaik

/-! ### the common group -/

theorem common_prefix_left : ∀ (a b : Group), Group.common a b <+: a
  | [], _ => by simp [Group.common]
  | _ :: _, [] => by simp [Group.common]
  | x :: xs, y :: ys => by
    unfold Group.common
    split
    · exact List.cons_prefix_cons.mpr ⟨rfl, common_prefix_left xs ys⟩
    · simp

theorem common_prefix_right : ∀ (a b : Group), Group.common a b <+: b
  | [], _ => by simp [Group.common]
  | _ :: _, [] => by simp [Group.common]
  | x :: xs, y :: ys => by
    unfold Group.common
    split
    · rename_i h; subst h
      exact List.cons_prefix_cons.mpr ⟨rfl, common_prefix_right xs ys⟩
    · simp

/-- every group that contains both simulators contains their common group: it is the innermost -/
theorem common_innermost : ∀ (g a b : Group), g <+: a → g <+: b → g <+: Group.common a b
  | [], _, _, _, _ => by simp
  | z :: zs, [], _, h, _ => by simp at h
  | z :: zs, _ :: _, [], _, h => by simp at h
  | z :: zs, x :: xs, y :: ys, h1, h2 => by
    obtain ⟨rfl, h1'⟩ := List.cons_prefix_cons.mp h1
    obtain ⟨rfl, h2'⟩ := List.cons_prefix_cons.mp h2
    unfold Group.common
    simp only [if_true]
    exact List.cons_prefix_cons.mpr ⟨rfl, common_innermost zs xs ys h1' h2'⟩

theorem common_self : ∀ (g : Group), Group.common g g = g
  | [] => rfl
  | x :: xs => by unfold Group.common; simp [common_self xs]

/-- sibling groups (and any two groups that part at the first step) share only the main group -/
theorem common_siblings (x y : Nat) (xs ys : Group) (h : x ≠ y) : Group.common (x :: xs) (y :: ys) = [] := by
  unfold Group.common; simp [h]

theorem common_length_le_left (a b : Group) : (Group.common a b).length ≤ a.length :=
  (common_prefix_left a b).length_le
theorem common_length_le_right (a b : Group) : (Group.common a b).length ≤ b.length :=
  (common_prefix_right a b).length_le

/-! ### connect_interval -/

theorem listSet_length (l : List Nat) (i v : Nat) : (listSet l i v).length = l.length := by simp [listSet]

/-- a weak connection is refused exactly when the simulators share no group but the main one -/
theorem weak_refused_iff (s d : Group) (ts w : Nat) (hw : w ≠ 0) :
    connectInterval s d ts w = none ↔ Group.common s d = [] := by
  unfold connectInterval Group.path
  simp only [hw, ne_eq, not_false_eq_true, true_and]
  split <;> simp_all

theorem nonweak_accepted (s d : Group) (ts : Nat) : (connectInterval s d ts 0).isSome := by
  unfold connectInterval Group.path; simp

/-- shape of the delay of a connection: pre-length = depth of the source's group, length = depth
of the destination's group, cutoff = depth of the common group -/
theorem scoping_shape {s d : Group} {ts w : Nat} {iv : TI} (h : connectInterval s d ts w = some iv) :
    iv.pre = Group.depth s ∧ iv.tiers.length = Group.depth d ∧
    iv.cutoff = Group.depth (Group.common s d) ∧ iv.WF := by
  unfold connectInterval Group.path at h
  simp only at h
  split at h
  · cases h
  · cases h
    have h1 := common_length_le_left s d
    have h2 := common_length_le_right s d
    have hlen : ∀ (l : List Nat) , (if w ≠ 0 then listSet (if ts ≠ 0 then listSet l 0 ts else l)
        (Group.depth s - (s.length - (Group.common s d).length) - 1) w else (if ts ≠ 0 then listSet l 0 ts else l)).length = l.length := by
      intro l; split <;> split <;> simp [listSet_length]
    refine ⟨rfl, ?_, ?_, ?_⟩
    · simp only [hlen]; simp [Group.depth]
    · simp only [Group.depth]; omega
    · unfold TI.WF
      simp only [hlen]
      simp [Group.depth]; omega

/-- the tiers of the delay: the time shift on tier 0, the weak step on the last shared tier,
zero elsewhere -/
theorem scoping_tiers {s d : Group} {ts w : Nat} {iv : TI} (h : connectInterval s d ts w = some iv) (i : Nat) :
    tier iv.tiers i =
      if w ≠ 0 ∧ i = (Group.common s d).length then w
      else if ts ≠ 0 ∧ i = 0 then ts else 0 := by
  have hshape := scoping_shape h
  unfold connectInterval Group.path at h
  simp only at h
  split at h
  · cases h
  · rename_i hnw
    cases h
    have h1 := common_length_le_left s d
    have h2 := common_length_le_right s d
    have hc : Group.depth s - (s.length - (Group.common s d).length) - 1 = (Group.common s d).length := by
      simp [Group.depth]; omega
    simp only [hc]
    have hz : ∀ j, tier (List.replicate (Group.depth d) 0) j = 0 := by
      intro j
      by_cases hj : j < Group.depth d
      · rw [tier_eq_getElem (by simpa using hj)]; simp
      · rw [tier_eq_zero (by simpa using hj)]
    have hset : ∀ (l : List Nat) (k v j : Nat), k < l.length → tier (listSet l k v) j = if j = k then v else tier l j := by
      intro l k v j hk
      unfold listSet tier
      simp only [List.getD_eq_getElem?_getD, List.getElem?_set]
      by_cases e : k = j
      · subst e; simp [hk]
      · have : ¬ j = k := fun e' => e e'.symm
        simp [e, this]
    have hd0 : 0 < (List.replicate (Group.depth d) 0).length := by simp [Group.depth]
    by_cases hw : w = 0
    · subst hw
      by_cases hts : ts = 0
      · subst hts; simp [hz]
      · simp only [hts, ne_eq, not_false_eq_true, if_true, not_true_eq_false, if_false, false_and]
        rw [hset _ _ _ _ hd0, hz]
        by_cases hi : i = 0 <;> simp [hi]
    · have hcne : Group.common s d ≠ [] := by
        intro e; exact hnw ⟨hw, e⟩
      have hcl : (Group.common s d).length < Group.depth d := by simp [Group.depth]; omega
      have hcpos : 0 < (Group.common s d).length := List.length_pos_iff.mpr hcne
      by_cases hts : ts = 0
      · subst hts
        simp only [hw, ne_eq, not_false_eq_true, if_true, not_true_eq_false, if_false, true_and, false_and]
        rw [hset _ _ _ _ (by simpa using hcl), hz]
      · simp only [hw, hts, ne_eq, not_false_eq_true, if_true, true_and]
        rw [hset _ _ _ _ (by simpa [listSet_length] using hcl), hset _ _ _ _ hd0, hz]

/-! ### connect_one -/

/-- `connect_one` raises ScenarioError exactly when: the source attribute is not an output, the
destination attribute is not an input, a time-shifted or weak connection into a non-trigger input
lacks initial data, or a weak connection is requested between simulators sharing no group -/
theorem exact (r : ConnReq) :
    connectOneCheck r = none ↔
      r.srcIsOutput = false ∨ r.destIsInput = false ∨
      ((r.timeShifted ≠ 0 ∨ r.weak = true) ∧ r.destNonTrigger = true ∧ r.hasInit = false) ∨
      (r.weak = true ∧ Group.common r.srcGroup r.destGroup = []) := by
  unfold connectOneCheck
  by_cases h1 : r.srcIsOutput = false
  · simp [h1]
  · by_cases h2 : r.destIsInput = false
    · simp [h2]
    · by_cases h3 : (r.timeShifted ≠ 0 ∨ r.weak = true) ∧ r.destNonTrigger = true ∧ r.hasInit = false
      · have : ((decide (r.timeShifted ≠ 0) || r.weak) && r.destNonTrigger && !r.hasInit) = true := by
          obtain ⟨ha, hb, hc⟩ := h3
          rcases ha with ha | ha <;> simp [ha, hb, hc]
        simp [this, h3]
      · have hn : ((decide (r.timeShifted ≠ 0) || r.weak) && r.destNonTrigger && !r.hasInit) = false := by
          cases hh : ((decide (r.timeShifted ≠ 0) || r.weak) && r.destNonTrigger && !r.hasInit)
          · rfl
          · exfalso; apply h3
            simp only [Bool.and_eq_true, Bool.or_eq_true, decide_eq_true_eq, Bool.not_eq_true'] at hh
            exact ⟨hh.1.1, hh.1.2, hh.2⟩
        have h1' : r.srcIsOutput = true := by cases h : r.srcIsOutput <;> simp_all
        have h2' : r.destIsInput = true := by cases h : r.destIsInput <;> simp_all
        simp only [h1', h2', hn, Bool.not_true, Bool.or_false, Bool.false_eq_true, if_false, h3, or_false, false_or]
        by_cases hw : r.weak = true
        · simp only [hw, if_true, true_and]
          rw [weak_refused_iff r.srcGroup r.destGroup r.timeShifted 1 (by decide)]
          simp
        · have hw' : r.weak = false := by cases h : r.weak <;> simp_all
          have := nonweak_accepted r.srcGroup r.destGroup r.timeShifted
          simp only [hw', Bool.false_eq_true, if_false, false_and]
          constructor
          · intro e; rw [e] at this; simp at this
          · intro e; simp at e

/-- a rejected attribute pair leaves no trace: the world after `connect` with that single pair
(and no async request) is the world before -/
theorem no_trace (w : World) (c : ConnectCall) (sa da : Nat) (e : BuildErr)
    (h : w.connectOne c sa da = .error e) :
    (w.connect { c with pairs := [(sa, da)], asyncReq := false }).1 = w := by
  have hc : ∀ sa da, w.connectOne { c with pairs := [(sa, da)], asyncReq := false } sa da = w.connectOne c sa da := by
    intro sa da; rfl
  simp [World.connect, hc, h]

/-- an accepted pair whose validation request is rejected is impossible: acceptance implies the
four conditions of `exact` are all false -/
theorem accepted_valid (w : World) (c : ConnectCall) (sa da : Nat) (w' : World)
    (h : w.connectOne c sa da = .ok w') : connectOneCheck (w.connReq c sa da) ≠ none := by
  intro hn
  simp [World.connectOne, hn] at h

/-! non-vacuity -/
example : connectInterval [0] [1] 0 1 = none ∧ connectInterval [0, 0] [0, 1] 0 1 = some ⟨3, 2, [0, 1, 0]⟩
    ∧ connectInterval [0] [] 2 0 = some ⟨2, 1, [2]⟩ := by decide

/-- **`connect` never dies with an internal error**: from any scenario built by valid calls, a `connect` call between
entities of started simulators either succeeds or raises ScenarioError; and the world it leaves behind is again well built
(so the statement holds for the next call as well) -/
theorem connect_never_internal_error (ops : List Build.Op) (hv : Build.Valid {} ops) (c : ConnectCall)
    (hs : c.src < (Build.build ops).sims.length) (hd : c.dst < (Build.build ops).sims.length) :
    ((Build.build ops).connect c).2 ≠ some .assertion ∧ Build.BuiltOk ((Build.build ops).connect c).1 := by
  have h := Build.build_builtOk ops {} Build.builtOk_empty hv
  exact ⟨(Build.connect_builtOk h c hs hd).2, (Build.connect_builtOk h c hs hd).1⟩

/-- what every built scenario satisfies: the tables only mention started simulators, every stored delay has the shape the
two groups dictate, `input_delays` holds one entry per predecessor, which is a lower bound of every trigger connection's delay -/
theorem built_tables (ops : List Build.Op) (hv : Build.Valid {} ops) : Build.BuiltOk (Build.build ops) :=
  Build.build_builtOk ops {} Build.builtOk_empty hv

/-- non-vacuity: three calls (two starts in a group, a weak connection after a plain one between the same pair) are valid,
and the pair's `input_delays` entry is the minimum (the plain delay) -/
example :
    let d : SimDecl := { ty := .hybrid, group := [0], cls := (parseAttrs { anyInputs := false, attrs := some [0, 1, 2, 3], trigger := some [1], nonPersistent := some [3] } .hybrid).getD default }
    let ops : List Build.Op := [.start d, .start d, .connect { src := 0, seid := 0, dst := 1, deid := 0, pairs := [(3, 1)] },
      .connect { src := 0, seid := 0, dst := 1, deid := 0, pairs := [(3, 1)], weak := true }]
    ((Build.build ops).sim 1).inputDelays = [(0, ⟨2, 2, [0, 0]⟩)] ∧ ((Build.build ops).sim 0).triggers.length = 2 := by
  decide

end Mosaik.C11
