/-
C12  Attribute classification from model descriptions.

* `ops_*`     : membership semantics of every operator of finite / co-finite sets
* `triple_*`  : `parse_set_triple` returns exactly the partition determined by its arguments, and
                fails exactly when fewer than two are given or no such partition exists
* `attrs_*`   : `parse_attrs`: the classes partition inputs resp. attrs, agree with every explicit
                list, obey the type's restrictions; and it is rejected exactly when one of the two
                triples (after the type's defaults) has no solution or the type forbids the result
-/
import MosaikProofs.Lemmas.IOSet
namespace Mosaik.C12
open Mosaik IOSet

/-! ### operators -/

theorem ops_sub (a b : IOSet) (x : Nat) : mem x (sub a b) = (mem x a && !mem x b) := mem_sub a b x
theorem ops_and (a b : IOSet) (x : Nat) : mem x (inter a b) = (mem x a && mem x b) := mem_inter a b x
theorem ops_or (a b : IOSet) (x : Nat) : mem x (union a b) = (mem x a || mem x b) := mem_union a b x
theorem ops_eq (a b : IOSet) : IOSet.eq a b = true ↔ ∀ x, mem x a = mem x b := eq_iff a b

/-! ### parse_set_triple -/

/-- at least two of the three arguments are given -/
def TwoGiven (u a b : Option IOSet) : Prop :=
  (u.isSome ∧ a.isSome) ∨ (u.isSome ∧ b.isSome) ∨ (a.isSome ∧ b.isSome)

/-- `(A, B)` is a partition consistent with everything that is given -/
def Sol (u a b : Option IOSet) (A B : Nat → Bool) : Prop :=
  (∀ x, ¬ (A x = true ∧ B x = true)) ∧
  (∀ u0, u = some u0 → ∀ x, mem x u0 = (A x || B x)) ∧
  (∀ a0, a = some a0 → ∀ x, mem x a0 = A x) ∧
  (∀ b0, b = some b0 → ∀ x, mem x b0 = B x)

theorem disjoint_iff (a b : IOSet) :
    IOSet.eq (inter a b) IOSet.empty = true ↔ ∀ x, ¬ (mem x a = true ∧ mem x b = true) := by
  rw [eq_iff]
  constructor
  · intro h x hx
    have := h x
    rw [mem_inter, mem_empty, hx.1, hx.2] at this
    simp at this
  · intro h x
    rw [mem_inter, mem_empty]
    have := h x
    cases h1 : mem x a <;> cases h2 : mem x b <;> simp_all

theorem cover_iff (u a b : IOSet) :
    IOSet.eq u (union a b) = true ↔ ∀ x, mem x u = (mem x a || mem x b) := by
  rw [eq_iff]
  constructor
  · intro h x; rw [h x, mem_union]
  · intro h x; rw [h x, mem_union]

/-- the common tail of `parse_set_triple` -/
theorem tail_some {u a b A B : IOSet}
    (h : (if !(IOSet.eq (inter a b) IOSet.empty) then none
          else if !(IOSet.eq u (union a b)) then none else some (a, b)) = some (A, B)) :
    A = a ∧ B = b ∧ (∀ x, ¬ (mem x a = true ∧ mem x b = true)) ∧ (∀ x, mem x u = (mem x a || mem x b)) := by
  by_cases h1 : IOSet.eq (inter a b) IOSet.empty = true
  · by_cases h2 : IOSet.eq u (union a b) = true
    · simp only [h1, h2, Bool.not_true, Bool.false_eq_true, if_false, Option.some.injEq, Prod.mk.injEq] at h
      exact ⟨h.1.symm, h.2.symm, (disjoint_iff a b).mp h1, (cover_iff u a b).mp h2⟩
    · simp [h1, h2] at h
  · simp [h1] at h

/-- soundness: a returned pair is a partition of the union, disjoint, and equal to every part
that was given; and at least two arguments were given -/
theorem triple_sound {u a b : Option IOSet} {A B : IOSet} (h : parseSetTriple u a b = some (A, B)) :
    Sol u a b (mem · A) (mem · B) ∧ TwoGiven u a b ∧
    (∀ a0, a = some a0 → A = a0) ∧ (∀ b0, b = some b0 → B = b0) := by
  unfold parseSetTriple at h
  cases u with
  | none =>
    cases a with
    | none => cases b <;> simp at h
    | some a0 =>
      cases b with
      | none => simp at h
      | some b0 =>
        simp only at h
        obtain ⟨rfl, rfl, hd, hc⟩ := tail_some h
        refine ⟨⟨hd, by simp, by simp, by simp⟩, Or.inr (Or.inr ⟨rfl, rfl⟩), by simp, by simp⟩
  | some u0 =>
    cases a with
    | none =>
      cases b with
      | none => simp at h
      | some b0 =>
        simp only at h
        obtain ⟨rfl, rfl, hd, hc⟩ := tail_some h
        refine ⟨⟨hd, ?_, by simp, by simp⟩, Or.inr (Or.inl ⟨rfl, rfl⟩), by simp, by simp⟩
        intro u1 hu1 x; cases hu1; exact hc x
    | some a0 =>
      cases b with
      | none =>
        simp only at h
        obtain ⟨rfl, rfl, hd, hc⟩ := tail_some h
        refine ⟨⟨hd, ?_, by simp, by simp⟩, Or.inl ⟨rfl, rfl⟩, by simp, by simp⟩
        intro u1 hu1 x; cases hu1; exact hc x
      | some b0 =>
        simp only at h
        obtain ⟨rfl, rfl, hd, hc⟩ := tail_some h
        refine ⟨⟨hd, ?_, by simp, by simp⟩, Or.inl ⟨rfl, rfl⟩, by simp, by simp⟩
        intro u1 hu1 x; cases hu1; exact hc x

theorem tail_of_sol {u a b : IOSet} (hd : ∀ x, ¬ (mem x a = true ∧ mem x b = true))
    (hc : ∀ x, mem x u = (mem x a || mem x b)) :
    (if !(IOSet.eq (inter a b) IOSet.empty) then none
     else if !(IOSet.eq u (union a b)) then none else some (a, b)) = some (a, b) := by
  have h1 := (disjoint_iff a b).mpr hd
  have h2 := (cover_iff u a b).mpr hc
  simp [h1, h2]

/-- completeness: if at least two arguments are given and a consistent partition exists,
`parse_set_triple` succeeds and returns (a representation of) that partition -/
theorem triple_complete {u a b : Option IOSet} {A B : Nat → Bool}
    (h2 : TwoGiven u a b) (hs : Sol u a b A B) :
    ∃ A' B', parseSetTriple u a b = some (A', B') ∧ (∀ x, mem x A' = A x) ∧ (∀ x, mem x B' = B x) := by
  obtain ⟨hdis, hu, ha, hb⟩ := hs
  have hdis' : ∀ x, A x = true → B x = false := by
    intro x hx
    have := hdis x
    cases hB : B x
    · rfl
    · exact absurd ⟨hx, hB⟩ this
  unfold parseSetTriple
  cases u with
  | none =>
    cases a with
    | none => cases b <;> simp [TwoGiven] at h2
    | some a0 =>
      cases b with
      | none => simp [TwoGiven] at h2
      | some b0 =>
        have ha' := ha a0 rfl
        have hb' := hb b0 rfl
        refine ⟨a0, b0, ?_, ha', hb'⟩
        simp only
        apply tail_of_sol
        · intro x; rw [ha', hb']; exact hdis x
        · intro x; rw [mem_union]
  | some u0 =>
    have hu' := hu u0 rfl
    cases a with
    | none =>
      cases b with
      | none => simp [TwoGiven] at h2
      | some b0 =>
        have hb' := hb b0 rfl
        have hA : ∀ x, mem x (sub u0 b0) = A x := by
          intro x
          rw [mem_sub, hu', hb']
          cases hAx : A x
          · cases B x <;> rfl
          · simp [hdis' x hAx]
        refine ⟨sub u0 b0, b0, ?_, hA, hb'⟩
        simp only
        apply tail_of_sol
        · intro x; rw [hA, hb']; exact hdis x
        · intro x; rw [hA, hb', hu']
    | some a0 =>
      have ha' := ha a0 rfl
      cases b with
      | none =>
        have hB : ∀ x, mem x (sub u0 a0) = B x := by
          intro x
          rw [mem_sub, hu', ha']
          cases hAx : A x
          · cases B x <;> rfl
          · simp [hdis' x hAx]
        refine ⟨a0, sub u0 a0, ?_, ha', hB⟩
        simp only
        apply tail_of_sol
        · intro x; rw [ha', hB]; exact hdis x
        · intro x; rw [ha', hB, hu']
      | some b0 =>
        have hb' := hb b0 rfl
        refine ⟨a0, b0, ?_, ha', hb'⟩
        simp only
        apply tail_of_sol
        · intro x; rw [ha', hb']; exact hdis x
        · intro x; rw [ha', hb', hu']

/-- `parse_set_triple` fails exactly when fewer than two arguments are given or no consistent
partition exists -/
theorem triple_none_iff (u a b : Option IOSet) :
    parseSetTriple u a b = none ↔ ¬ TwoGiven u a b ∨ ¬ ∃ A B, Sol u a b A B := by
  constructor
  · intro h
    by_cases h2 : TwoGiven u a b
    · right
      rintro ⟨A, B, hs⟩
      obtain ⟨A', B', h', _⟩ := triple_complete h2 hs
      rw [h] at h'; cases h'
    · exact Or.inl h2
  · intro h
    cases hr : parseSetTriple u a b with
    | none => rfl
    | some r =>
      obtain ⟨A, B⟩ := r
      have := triple_sound hr
      rcases h with h | h
      · exact absurd this.2.1 h
      · exact absurd ⟨_, _, this.1⟩ h

/-! ### parse_attrs -/

/-- what a simulator type forbids -/
def TypeOk (ty : SimType) (c : AttrClasses) : Prop :=
  (ty = .timeBased → IOSet.eq c.trigIn IOSet.empty = true ∧ IOSet.eq c.nonPersOut IOSet.empty = true) ∧
  (ty = .eventBased → IOSet.eq c.nonTrigIn IOSet.empty = true ∧ IOSet.eq c.persOut IOSet.empty = true)

theorem typeOk_iff (ty : SimType) (c : AttrClasses) : typeOk ty c = true ↔ TypeOk ty c := by
  unfold typeOk TypeOk
  cases ty <;> simp

/-- `parse_attrs` is the two triples (`inputTriple`, `outputTriple`: the description's lists after
the type's defaults) plus the type's restrictions, nothing else -/
theorem attrs_decompose (m : ModelDesc) (ty : SimType) (c : AttrClasses) :
    parseAttrs m ty = some c ↔
      parseSetTriple (inputTriple m ty).1 (inputTriple m ty).2.1 (inputTriple m ty).2.2 = some (c.nonTrigIn, c.trigIn) ∧
      parseSetTriple (outputTriple m ty).1 (outputTriple m ty).2.1 (outputTriple m ty).2.2 = some (c.persOut, c.nonPersOut) ∧
      TypeOk ty c := by
  rw [← typeOk_iff]
  unfold parseAttrs
  cases h1 : parseSetTriple (inputTriple m ty).1 (inputTriple m ty).2.1 (inputTriple m ty).2.2 with
  | none => simp [h1]
  | some r1 =>
    obtain ⟨mi, ei⟩ := r1
    cases h2 : parseSetTriple (outputTriple m ty).1 (outputTriple m ty).2.1 (outputTriple m ty).2.2 with
    | none => simp [h1, h2]
    | some r2 =>
      obtain ⟨mo, eo⟩ := r2
      simp only [h1, h2, Option.some.injEq, Prod.mk.injEq]
      constructor
      · intro h
        split at h
        · rename_i hok
          cases h
          exact ⟨⟨rfl, rfl⟩, ⟨rfl, rfl⟩, hok⟩
        · cases h
      · rintro ⟨⟨rfl, rfl⟩, ⟨rfl, rfl⟩, h3⟩
        simp [h3]

/-- soundness of the classification: trigger / non-trigger inputs are disjoint and cover the
inputs (everything if `any_inputs`, else `attrs`), persistent / non-persistent outputs are disjoint
and cover `attrs`, and every explicitly given list is returned unchanged -/
theorem attrs_sound {m : ModelDesc} {ty : SimType} {c : AttrClasses} (h : parseAttrs m ty = some c) :
    (∀ x, ¬ (mem x c.nonTrigIn = true ∧ mem x c.trigIn = true)) ∧
    (m.anyInputs = true → ∀ x, (mem x c.nonTrigIn || mem x c.trigIn) = true) ∧
    (m.anyInputs = false → ∀ l, m.attrs = some l → ∀ x, l.contains x = (mem x c.nonTrigIn || mem x c.trigIn)) ∧
    (∀ x, ¬ (mem x c.persOut = true ∧ mem x c.nonPersOut = true)) ∧
    (∀ l, m.attrs = some l → ∀ x, l.contains x = (mem x c.persOut || mem x c.nonPersOut)) ∧
    (∀ l, m.trigger = some l → c.trigIn = IOSet.fin l) ∧
    (∀ l, m.nonTrigger = some l → c.nonTrigIn = IOSet.fin l) ∧
    (∀ l, m.persistent = some l → c.persOut = IOSet.fin l) ∧
    (∀ l, m.nonPersistent = some l → c.nonPersOut = IOSet.fin l) ∧
    TypeOk ty c := by
  obtain ⟨hin, hout, hty⟩ := (attrs_decompose m ty c).mp h
  obtain ⟨⟨hd1, hu1, _, _⟩, _, ha1, hb1⟩ := triple_sound hin
  obtain ⟨⟨hd2, hu2, _, _⟩, _, ha2, hb2⟩ := triple_sound hout
  refine ⟨hd1, ?_, ?_, hd2, ?_, ?_, ?_, ?_, ?_, hty⟩
  · intro hany x
    have := hu1 (IOSet.cofin []) (by simp [inputTriple, hany]) x
    simpa [mem] using this.symm
  · intro hany l hl x
    have := hu1 (IOSet.fin l) (by simp [inputTriple, hany, hl, wrap]) x
    simpa [mem] using this
  · intro l hl x
    have := hu2 (IOSet.fin l) (by simp [outputTriple, hl, wrap]) x
    simpa [mem] using this
  · intro l hl; exact hb1 _ (by simp [inputTriple, hl])
  · intro l hl; exact ha1 _ (by simp [inputTriple, hl])
  · intro l hl; exact ha2 _ (by simp [outputTriple, hl])
  · intro l hl; exact hb2 _ (by simp [outputTriple, hl])

/-- exactly the under-specified or inconsistent descriptions, and those mixing kinds the type
forbids, are rejected -/
theorem attrs_none_iff (m : ModelDesc) (ty : SimType) :
    parseAttrs m ty = none ↔
      ∀ c, ¬ (Sol (inputTriple m ty).1 (inputTriple m ty).2.1 (inputTriple m ty).2.2 (mem · c.nonTrigIn) (mem · c.trigIn) ∧
              TwoGiven (inputTriple m ty).1 (inputTriple m ty).2.1 (inputTriple m ty).2.2 ∧
              (∀ a0, (inputTriple m ty).2.1 = some a0 → c.nonTrigIn = a0) ∧ (∀ b0, (inputTriple m ty).2.2 = some b0 → c.trigIn = b0) ∧
              parseSetTriple (inputTriple m ty).1 (inputTriple m ty).2.1 (inputTriple m ty).2.2 = some (c.nonTrigIn, c.trigIn) ∧
              parseSetTriple (outputTriple m ty).1 (outputTriple m ty).2.1 (outputTriple m ty).2.2 = some (c.persOut, c.nonPersOut) ∧
              TypeOk ty c) := by
  constructor
  · intro h c hc
    have := (attrs_decompose m ty c).mpr ⟨hc.2.2.2.2.1, hc.2.2.2.2.2.1, hc.2.2.2.2.2.2⟩
    rw [h] at this; cases this
  · intro h
    cases hr : parseAttrs m ty with
    | none => rfl
    | some c =>
      exfalso
      obtain ⟨hin, hout, hty⟩ := (attrs_decompose m ty c).mp hr
      obtain ⟨hs, h2, ha, hb⟩ := triple_sound hin
      exact h c ⟨hs, h2, ha, hb, hin, hout, hty⟩

/-! non-vacuity -/
example : parseAttrs { attrs := some [0, 1, 2], trigger := some [1] } .hybrid =
    some { nonTrigIn := .fin [0, 2], trigIn := .fin [1], persOut := .fin [0, 1, 2], nonPersOut := .fin [] } := by decide
example : parseAttrs { attrs := some [0, 1], trigger := some [1] } .timeBased = none := by decide
example : TwoGiven (some (.fin [0, 1])) none (some (.fin [1])) ∧
    parseSetTriple (some (.fin [0, 1])) none (some (.fin [1])) = some (.fin [0], .fin [1]) := by
  refine ⟨Or.inr (Or.inl ⟨rfl, rfl⟩), by decide⟩

end Mosaik.C12
