/-
C13  Runtime validation of simulator replies.

`rejects_*` : each malformed reply, in whatever state it arrives, aborts the run with an error that
              names the simulator (decision logic, stated outright; needs no invariant)
`absorbing` : after the abort no action is enabled (no further step is begun) and the bad reply
              changed nothing but the `last_step` / `output_time` bookkeeping of that simulator
`only_*`    : conversely a reply is rejected only for one of these reasons
-/
import MosaikProofs.Sched.Errors
namespace Mosaik.C13
open Mosaik

/-- a reply is expected from `p` (its step request is out) -/
def AwaitingStep (cfg : Cfg) (s : State) (p : Sid) (c : TT) : Prop :=
  s.failed = none ∧ p < cfg.n ∧ (s.sims p).pc = .inStep ∧ (s.sims p).cur = some c
def AwaitingData (cfg : Cfg) (s : State) (p : Sid) (c : TT) : Prop :=
  s.failed = none ∧ p < cfg.n ∧ (s.sims p).pc = .inGet ∧ (s.sims p).cur = some c

theorem live_of {cfg : Cfg} {s : State} {p : Sid} (h1 : s.failed = none) (h2 : p < cfg.n) : live cfg s p = true := by
  simp [live, h1, h2]

/-- a next-step time that is not an integer -/
theorem rejects_non_integer {cfg : Cfg} {s : State} {p : Sid} {c : TT} (h : AwaitingStep cfg s p c) :
    ∃ s', step cfg s (.stepReply p .bad) = some s' ∧ s'.failed = some (.badReply p .notInt) := by
  obtain ⟨h1, h2, h3, h4⟩ := h
  refine ⟨_, by simp [step, stepStepReply, live_of h1 h2, h3, h4]; rfl, ?_⟩
  simp [processStepReply, State.fail, h1]

/-- a next-step time that is not later than the current step (equal, earlier, negative) -/
theorem rejects_not_later {cfg : Cfg} {s : State} {p : Sid} {c : TT} (h : AwaitingStep cfg s p c) (n : Int)
    (hn : n ≤ (TT.time c : Int)) :
    ∃ s', step cfg s (.stepReply p (.int n)) = some s' ∧ s'.failed = some (.badReply p .notLater) := by
  obtain ⟨h1, h2, h3, h4⟩ := h
  refine ⟨_, by simp [step, stepStepReply, live_of h1 h2, h3, h4]; rfl, ?_⟩
  simp [processStepReply, hn, State.fail, h1]

/-- a time-based simulator returning no next step -/
theorem rejects_no_next_step {cfg : Cfg} {s : State} {p : Sid} {c : TT} (h : AwaitingStep cfg s p c)
    (hty : (cfg.sim p).ty = .timeBased) :
    ∃ s', step cfg s (.stepReply p .none) = some s' ∧ s'.failed = some (.badReply p .noNextStep) := by
  obtain ⟨h1, h2, h3, h4⟩ := h
  refine ⟨_, by simp [step, stepStepReply, live_of h1 h2, h3, h4]; rfl, ?_⟩
  simp [processStepReply, hty, State.fail, h1]

/-- an output time earlier than the step time -/
theorem rejects_early_output_time {cfg : Cfg} {s : State} {p : Sid} {c : TT} (h : AwaitingData cfg s p c)
    (d : DataReply) (t : Int) (hd : d.time = some t) (ht : t < (TT.time c : Int)) :
    ∃ s', step cfg s (.dataReply p d) = some s' ∧ s'.failed = some (.badReply p .outputTimeEarly) := by
  obtain ⟨h1, h2, h3, h4⟩ := h
  refine ⟨_, by simp [step, stepDataReply, live_of h1 h2, h3, h4]; rfl, ?_⟩
  have : (TT.time c : Int) > (outTimeOf c d).1 := by simp [outTimeOf, hd]; omega
  simp [processDataReply, this, State.fail, h1]

/-- the rejected reply is never turned into a scheduled step or any other change of control state:
apart from the error only `last_step` (resp. `output_time`) of that simulator and the log differ -/
theorem rejected_changes_nothing {cfg : Cfg} {s s' : State} {p : Sid} {r : StepReply} {k : ReplyKind}
    (h : step cfg s (.stepReply p r) = some s') (he : s'.failed = some (.badReply p k)) (hw : WFCfg cfg) (hg : Good cfg s) :
    CtrlEq s s' := by
  simp only [step] at h
  unfold stepStepReply at h
  split at h
  · rename_i hguard
    simp only [Bool.and_eq_true, live_iff, beq_iff_eq] at hguard
    obtain ⟨⟨hf, hp⟩, hpc⟩ := hguard
    obtain ⟨hc, hpcs⟩ := hg hf
    cases hcur : (s.sims p).cur with
    | none => simp [hcur] at h
    | some c =>
      simp only [hcur, Option.some.injEq] at h
      subst h
      have hce : CtrlEq s ((s.upd p fun x => { x with last := some c }).emit (.stepped p c)) :=
        (ctrlEq_upd s p (fun x => { x with last := some c }) (fun _ => rfl)).trans (ctrlEq_emit _ _)
      have hfailCtrl : ∀ e, CtrlEq s (((s.upd p fun x => { x with last := some c }).emit (.stepped p c)).fail e) := by
        intro e q; rw [State.fail_sims]; exact hce q
      have hc1 := hce.core hc
      have hp1 := hce.pcs hpcs
      have hcur1 : (((s.upd p fun x => { x with last := some c }).emit (.stepped p c)).sims p).cur = some c := by
        rw [(hce.fields p).2.2.2.1]; exact hcur
      have hf1 : ((s.upd p fun x => { x with last := some c }).emit (.stepped p c)).failed = none := hf
      unfold processStepReply at he ⊢
      simp only at he ⊢
      cases r with
      | bad => exact hfailCtrl _
      | none =>
        simp only at he ⊢
        split
        · exact hfailCtrl _
        · rename_i hty
          simp only [hty, if_false] at he
          rw [afterStep_not_failed hw hp hf1 hc1 hp1 hcur1] at he; cases he
      | int n =>
        simp only at he ⊢
        split
        · exact hfailCtrl _
        · rename_i hnl
          exfalso
          have := step_err hw hg (a := .stepReply p (.int n)) (s' := processStepReply cfg s p c (.int n))
            (by simp [step, stepStepReply, live_of hf hp, hpc, hcur]) (.badReply p k)
            (by unfold processStepReply; simpa using he)
          cases k <;> simp [Cause] at this
          · obtain ⟨c', hc', hle⟩ := this
            rw [hcur] at hc'; cases hc'; exact hnl hle
  · cases h

/-- after the abort nothing happens any more: no action is enabled, in particular no step begins -/
theorem absorbing {cfg : Cfg} {s : State} (h : s.failed.isSome = true) (a : Action) : step cfg s a = none :=
  step_none_of_failed h a

/-- conversely: a run fails with a bad-reply error only for one of the four reasons above, and the
error names the simulator that sent the reply -/
theorem only_for_these_reasons {cfg : Cfg} (hw : WFCfg cfg) {s s' : State} {a : Action} (hr : Reach cfg s)
    (h : step cfg s a = some s') (p : Sid) (k : ReplyKind) (he : s'.failed = some (.badReply p k)) :
    Cause cfg s a (.badReply p k) :=
  step_err hw (reach_good hw hr) h _ he

end Mosaik.C13
