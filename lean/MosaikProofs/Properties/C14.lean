/-
C14  Fault containment and clean shutdown — the control-flow part.

For every way the run phase can end (= every fault point and fault kind, abstracted to the exception
class that reaches `World.run`), provided `stop()` of every simulator returns (raises nothing that
`RemoteProxy.stop` does not catch):
* `stop_once`        every simulator is stopped exactly once, in order, and the loop is closed
* `second_shutdown`  a second `shutdown()` does nothing
* `outcome`          KeyboardInterrupt and RemoteException are swallowed (logged), everything else
                     is re-raised after the shutdown
* `request_never_stuck`, `request_resolves_soon`, `unfixed_request_stuck`  a request to a remote simulator cannot wait forever (fixes D21, D24; `MosaikModel/Channel.lean`), `d21_alone_stuck_on_reset`
* `main_task_wound_down`, `shutdown_with_pending_main`  the scheduler task is never left pending (fix D22), and why that matters
The hypothesis about `stop()` is the visible gap (`stop_failure_skips_rest` shows it is needed).
What no model exhibits — processes, sockets, the 0.1 s stop timeout, promptness, pending asyncio
tasks — is decided by the fault enumeration on the real code (harness/fault_enum.py).
-/
import MosaikModel.RunShutdown
import MosaikModel.Channel
namespace Mosaik.C14
open Mosaik.RunShutdown

theorem stopFrom_all (k i : Nat) (log : List Nat) :
    stopFrom (fun _ => none) k i log = ((List.range' i k).reverse ++ log, none) := by
  induction k generalizing i log with
  | zero => simp [stopFrom]
  | succ k ih =>
    simp only [stopFrom, ih, List.range'_succ, List.reverse_cons, List.append_assoc, List.singleton_append]

/-- every simulator is stopped exactly once and the loop is closed, however the run ended -/
theorem stop_once (w : WorldSt) (e : RunEnd) (hopen : w.loopClosed = false) (hfresh : w.stops = []) :
    let w' := (run (fun _ => none) w e).1
    w'.loopClosed = true ∧ w'.stops.reverse = List.range w.n ∧ ∀ i, i < w.n → w'.stops.count i = 1 := by
  simp only [run, shutdown, windDown, hopen, Bool.false_eq_true, if_false, stopFrom_all, hfresh, List.append_nil]
  refine ⟨trivial, ?_, ?_⟩
  · simp [List.range_eq_range']
  · intro i hi
    rw [List.count_reverse]
    have hnd : (List.range' 0 w.n).Nodup := List.nodup_range'
    have hmem : i ∈ List.range' 0 w.n := by simp [List.mem_range']; omega
    have h1 := List.nodup_iff_count.mp hnd i
    have h2 := List.count_pos_iff.mpr hmem
    omega

/-- a second `shutdown()` is a no-op -/
theorem second_shutdown (stopRaises : Nat → Option Nat) (w : WorldSt) (h : w.loopClosed = true) :
    shutdown stopRaises w = (w, none) := by
  simp [shutdown, h]

/-- what the caller sees -/
theorem outcome (w : WorldSt) (e : RunEnd) (hopen : w.loopClosed = false) :
    (run (fun _ => none) w e).2 = match e with
      | .ok => .returned
      | .keyboardInterrupt => .returned
      | .remoteException => .returned
      | .other cls => .raised cls
      | .systemExit => .raised resurfaced := by
  simp only [run, shutdown, windDown, hopen, Bool.false_eq_true, if_false, stopFrom_all]
  cases e <;> rfl

/-- after `World.run` the scheduler task is never left pending, however the run ended — also when a `KeyboardInterrupt` or a
`SystemExit` raised inside an in-process simulator left the event loop at once (fix D22) -/
theorem main_task_wound_down (stopRaises : Nat → Option Nat) (w : WorldSt) (e : RunEnd) :
    (run stopRaises w e).1.mainPending = false := by
  by_cases hc : w.loopClosed = true
  · simp [run, shutdown, windDown, hc]
  · cases h : stopFrom stopRaises w.n 0 w.stops with
    | mk log ex => cases ex <;> simp [run, shutdown, windDown, hc, h]

/-- the wind-down is needed: a `shutdown()` that runs while the scheduler task is pending stops every simulator but never
closes the loop and raises (what the tree before fix D22 did for `SystemExit` / `KeyboardInterrupt` out of an in-process
simulator; the next `shutdown()` then finalized every simulator a second time) -/
theorem shutdown_with_pending_main (w : WorldSt) (hopen : w.loopClosed = false) (hfresh : w.stops = []) (hp : w.mainPending = true) :
    let r := shutdown (fun _ => none) w
    r.1.loopClosed = false ∧ r.1.stops.reverse = List.range w.n ∧ r.2 = some resurfaced ∧
      (shutdown (fun _ => none) r.1).1.stops.length = 2 * w.n := by
  simp only [shutdown, hopen, Bool.false_eq_true, if_false, stopFrom_all, hfresh, List.append_nil, hp, if_true]
  refine ⟨trivial, by simp [List.range_eq_range'], trivial, ?_⟩
  simp
  omega

/-- the hypothesis is needed: if `stop()` of simulator `j` raises, the simulators after it are not
stopped and the loop is not closed -/
theorem stop_failure_skips_rest (w : WorldSt) (e : RunEnd) (j cls : Nat)
    (hw : w = { n := 3 }) (hj : j = 0) :
    let w' := (run (fun i => if i = j then some cls else none) w e).1
    w'.loopClosed = false ∧ w'.stops = [0] := by
  subst hw hj
  simp [run, shutdown, windDown, stopFrom]

/-! ### a request to a remote simulator cannot wait forever (defect D21) -/

section channel
open Mosaik.Channel

/-- **after the fixes D21 and D24 no request is ever stuck**: whatever state the connection is in, while a request is outstanding
one of the transport events that resolve it is enabled — the simulator answers, or (it has died or hung up, in order or by a reset)
the receiver task wakes up, or `send` notices that a task it watches is done -/
theorem request_never_stuck (s : Channel.St) : ¬ Channel.Stuck 2 s := by
  rintro ⟨hp, hall⟩
  by_cases h1 : s.peerAlive = true
  · have := hall .reply (by decide)
    simp [Channel.step, h1, hp] at this
  · by_cases h2 : s.receiverDone = true
    · have := hall .sendNotices (by decide)
      simp [Channel.step, h2, hp] at this
    · have := hall .receiverWakes (by decide)
      simp only [Channel.step] at this
      simp only [Bool.not_eq_true] at h1 h2
      simp [h1, h2] at this
      split at this <;> simp at this

/-- the events that can still happen while a request is outstanding -/
def Channel.budget (s : Channel.St) : Nat :=
  (if s.peerAlive then 1 else 0) + (if s.receiverDone then 0 else 1) + (if s.readerDone then 0 else 1) + (if s.req = .pending then 1 else 0)

/-- … and it is resolved after at most four more transport events: every event other than a new `send` uses up budget -/
theorem request_resolves_soon (fix : Nat) (s s' : Channel.St) (a : Channel.Act) (ha : a ≠ .send)
    (h : Channel.step fix s a = some s') : Channel.budget s' < Channel.budget s := by
  cases a with
  | send => exact absurd rfl ha
  | reply =>
    simp only [Channel.step] at h
    split at h
    · rename_i hc; cases h; simp [Channel.budget, hc.2]
    · cases h
  | die ab =>
    simp only [Channel.step] at h
    split at h
    · rename_i hc; cases h; simp [Channel.budget, hc]
    · cases h
  | receiverWakes =>
    simp only [Channel.step] at h
    split at h
    · rename_i hc
      simp only [Bool.not_eq_eq_eq_not, Bool.not_true] at hc
      split at h
      · cases h
        simp [Channel.budget, hc.1, hc.2]
      · cases h
        simp only [Channel.budget, hc.1, hc.2]
        by_cases hr : s.req = .pending <;> by_cases hd : s.readerDone = true <;> simp [hr, hd]
    · cases h
  | readerWakes =>
    simp only [Channel.step] at h
    split at h
    · rename_i hc
      cases h
      simp only [Bool.not_eq_eq_eq_not, Bool.not_true] at hc
      simp [Channel.budget, hc.2]
    · cases h
  | sendNotices =>
    simp only [Channel.step] at h
    split at h
    · rename_i hc; cases h; simp [Channel.budget, hc.1]
    · cases h

/-- **originally a request could wait forever** (D21): the simulator dies while no request is outstanding, the receiver and the
reader task see the end of the stream, then mosaik sends the next request — nothing is enabled any more (the hang of `run()`
reproduced by the fault kind `exit_idle` on the tree before 732fb98) -/
theorem unfixed_request_stuck :
    ∃ s, Channel.exec 0 {} [.die false, .receiverWakes, .readerWakes, .send] = some s ∧ Channel.Stuck 0 s := by
  refine ⟨{ peerAlive := false, receiverDone := true, eofSeen := true, readerDone := true, req := .pending }, by decide, rfl, ?_⟩
  intro a ha
  cases a <;> first | exact absurd rfl ha | decide | rfl

/-- **fix D21 alone left the reset case** (D24): a request is outstanding, the connection is reset, the receiver task ends
without failing the request and without `EndOfRequests` — the reader task never ends, `send` watches only the reader task (the
hang reproduced by the fault kind `reset` on the tree before f21ca20) -/
theorem d21_alone_stuck_on_reset :
    ∃ s, Channel.exec 1 {} [.send, .die true, .receiverWakes] = some s ∧ Channel.Stuck 1 s := by
  refine ⟨{ peerAlive := false, abortive := true, receiverDone := true, req := .pending }, by decide, rfl, ?_⟩
  intro a ha
  cases a <;> first | exact absurd rfl ha | decide | rfl

/-- the same two histories on the fixed code: the request fails (`ConnectionResetError` → `SimulationError` naming the simulator) -/
example : (Channel.exec 2 {} [.die false, .receiverWakes, .readerWakes, .send]).map (·.req) = some .failed := by decide
example : (Channel.exec 2 {} [.send, .die true, .receiverWakes, .sendNotices]).map (·.req) = some .failed := by decide

end channel

/-! non-vacuity -/
example : (run (fun _ => none) { n := 3 } (.other 7)) = ({ n := 3, loopClosed := true, stops := [2, 1, 0] }, .raised 7) := by decide
example : (run (fun _ => none) { n := 2 } .remoteException).2 = .returned := by decide
example : (run (fun _ => none) { n := 2 } .systemExit) = ({ n := 2, loopClosed := true, stops := [1, 0] }, .raised resurfaced) := by decide

end Mosaik.C14
