/-
C15  API version adaptation.

Decision logic of `init_and_get_adapter` / `LocalProxy.init` / the two adapters, stated outright,
for every version (list of naturals of any length), every explicit version, local and remote.
Python's list comparison is the lexicographic order `<` of `List Nat`.
-/
import MosaikModel.Adapters
namespace Mosaik.C15
open Mosaik.Adapters

/-- a simulator is rejected at start exactly in the three documented cases -/
theorem start_none_iff (i : StartIn) :
    start i = none ↔
      (i.isLocal = true ∧ compliant i = false ∧ extractVersion i.reported ≥ [3]) ∨
      extractVersion i.reported ≥ [4] ∨
      (∃ e, i.explicit = some e ∧ extractVersion i.reported ≠ e) := by
  have h1 : rejectForcedOld i = true ↔ (i.isLocal = true ∧ compliant i = false ∧ extractVersion i.reported ≥ [3]) := by
    simp [rejectForcedOld, and_assoc]
  have h2 : rejectTooNew i = true ↔ extractVersion i.reported ≥ [4] := by simp [rejectTooNew]
  have h3 : rejectMismatch i = true ↔ ∃ e, i.explicit = some e ∧ extractVersion i.reported ≠ e := by
    unfold rejectMismatch
    cases i.explicit <;> simp
  unfold start
  rw [← h1, ← h2, ← h3]
  cases rejectForcedOld i <;> cases rejectTooNew i <;> cases rejectMismatch i <;> simp

/-- versions ≥ 4 are rejected -/
theorem reject_too_new (i : StartIn) (h : extractVersion i.reported ≥ [4]) : start i = none :=
  (start_none_iff i).mpr (Or.inr (Or.inl h))

/-- a version different from the configured `api_version` is rejected (also a different spelling
such as "3.0" vs "3": the lists differ) -/
theorem reject_explicit_mismatch (i : StartIn) (e : Version) (h1 : i.explicit = some e)
    (h2 : extractVersion i.reported ≠ e) : start i = none :=
  (start_none_iff i).mpr (Or.inr (Or.inr ⟨e, h1, h2⟩))

/-- an in-process simulator claiming v3 without the v3 signatures is rejected -/
theorem reject_forced_old (i : StartIn) (h1 : i.isLocal = true) (h2 : compliant i = false)
    (h3 : extractVersion i.reported ≥ [3]) : start i = none :=
  (start_none_iff i).mpr (Or.inl ⟨h1, h2, h3⟩)

/-- the adapters of an accepted simulator are determined by its version alone -/
theorem adapters_of_start {i : StartIn} {s : Started} (h : start i = some s) :
    s.v2ToV1 = decide (extractVersion i.reported < [2, 2]) ∧
    s.v3ToV2 = decide (extractVersion i.reported < [3]) ∧
    s.timeResSent = !(i.isLocal && !compliant i) := by
  unfold start at h
  split at h
  · cases h
  · cases h; simp

/-- before v3: `step` is sent with exactly two positional arguments (no `max_advance`) -/
theorem old_step_has_two_args {i : StartIn} {s : Started} (h : start i = some s)
    (hv : extractVersion i.reported < [3]) (n : Nat) (hn : 2 ≤ n) :
    ∃ r, rewrite s (.step n) = some r ∧ r = .step 2 := by
  obtain ⟨_, h2, _⟩ := adapters_of_start h
  have : s.v3ToV2 = true := by rw [h2]; simpa using hv
  unfold rewrite
  simp only [this, if_true]
  have : min n 2 = 2 := by omega
  by_cases h1 : s.v2ToV1 = true <;> simp [h1, this]

/-- before v3: a missing simulator type is defaulted to time-based -/
theorem old_type_defaulted {i : StartIn} {s : Started} (h : start i = some s)
    (hv : extractVersion i.reported < [3]) : metaType s none = some 0 := by
  obtain ⟨_, h2, _⟩ := adapters_of_start h
  have : s.v3ToV2 = true := by rw [h2]; simpa using hv
  simp [metaType, this]

/-- a reported type is never overwritten -/
theorem type_kept (s : Started) (t : Nat) : metaType s (some t) = some t := rfl

/-- before v2.2: `setup_done` never reaches the simulator -/
theorem old_no_setup_done {i : StartIn} {s : Started} (h : start i = some s)
    (hv : extractVersion i.reported < [2, 2]) : rewrite s .setupDone = none := by
  obtain ⟨h1, _, _⟩ := adapters_of_start h
  have : s.v2ToV1 = true := by rw [h1]; simpa using hv
  unfold rewrite
  by_cases h3 : s.v3ToV2 = true <;> simp [this, h3]

/-- from v2.2 on `setup_done` is sent -/
theorem setup_done_sent {i : StartIn} {s : Started} (h : start i = some s)
    (hv : ¬ extractVersion i.reported < [2, 2]) : rewrite s .setupDone = some .setupDone := by
  obtain ⟨h1, _, _⟩ := adapters_of_start h
  have : s.v2ToV1 = false := by rw [h1]; simpa using hv
  unfold rewrite
  by_cases h3 : s.v3ToV2 = true <;> simp [this, h3]

/-- a current-version simulator sees every request unchanged (so its scheduling and data are
those of the scheduler model) -/
theorem current_unchanged {i : StartIn} {s : Started} (h : start i = some s)
    (hv : ¬ extractVersion i.reported < [3]) (r : Req) : rewrite s r = some r := by
  obtain ⟨h1, h2, _⟩ := adapters_of_start h
  have h3 : s.v3ToV2 = false := by rw [h2]; simpa using hv
  have h4 : s.v2ToV1 = false := by
    rw [h1]
    simp only [decide_eq_false_iff_not]
    intro hlt
    exact hv (List.lt_trans hlt (by decide))
  simp [rewrite, h3, h4]

/-- requests other than `step` and `setup_done` are never rewritten, whatever the version -/
theorem other_requests_unchanged (s : Started) : rewrite s .getData = some .getData ∧ rewrite s .other = some .other := by
  unfold rewrite
  by_cases h3 : s.v3ToV2 = true <;> by_cases h4 : s.v2ToV1 = true <;> simp [h3, h4]

/-- no `time_resolution` for an in-process simulator whose signatures are not v3; always for a
remote one -/
theorem time_resolution_sent {i : StartIn} {s : Started} (h : start i = some s) :
    s.timeResSent = (!i.isLocal || compliant i) := by
  obtain ⟨_, _, h3⟩ := adapters_of_start h
  rw [h3]; cases i.isLocal <;> cases compliant i <;> rfl

/-- a missing "api_version" means version 1 -/
theorem missing_version : extractVersion none = [1] := rfl

/-! non-vacuity -/
example : start { reported := some [2, 1], explicit := none, isLocal := false, hasTimeRes := true, hasMaxAdv := true }
    = some { v2ToV1 := true, v3ToV2 := true, timeResSent := true, warnOutdated := true } := by decide
example : start { reported := some [3, 0], explicit := some [3], isLocal := true, hasTimeRes := true, hasMaxAdv := true } = none := by decide
example : ([2, 10] : List Nat) ≥ [2, 2] ∧ ([3] : List Nat) < [3, 0] ∧ ¬ ([3, 0, 1] : List Nat) ≥ [4] := by decide

/-- an explicitly reported simulator type is respected whatever the version; only a missing one is defaulted -/
theorem explicit_type_respected (s : Adapters.Started) (t : Nat) : Adapters.metaType s (some t) = some t := rfl

end Mosaik.C15
