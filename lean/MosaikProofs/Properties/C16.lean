/-
C16  Asynchronous requests (set_data / get_data).

* `refused_iff`       : a set_data / get_data request of `p` towards `target` is refused with the
                        ScenarioError exactly when there is no async connection target → p
* `stored`            : an accepted set_data leaves the values in the target's pending inputs
* `delivered_in_next_step`, `delivered_once` : the target's next step receives them (they take
                        precedence over remembered values) and clears them, so no later step sees them
* `delivered_after_t` : every step A begins after B has begun `tb` lies after `tb` (adapted by the connection's delay): the
                        values B sets during its step at `tb` arrive in a step of A *after* `tb`
* `get_data_*`        : the data path of an accepted get_data (`MosaikRemote.get_data`): every requested attribute is answered
                        from the cache slice or forwarded to the other simulator, never both; cached values survive the merge
                        with the forwarded reply; with `cache=False` everything is forwarded; the slice is the other
                        simulator's output history at the time of the requester's running step
* `order`             : when A (with async connection A → B) begins a step at `t`, B's progress has
                        reached `t`; so while B's step at `tb` is in flight A begins no step later
                        than `tb`
-/
import MosaikProofs.Properties.C03
import MosaikProofs.Properties.C01
import MosaikProofs.Sched.Errors
import MosaikProofs.Build.Invariant
import MosaikProofs.Sched.AsyncGet
namespace Mosaik.C16
open Mosaik

/-- requests are refused exactly without the connection -/
theorem refused_iff (cfg : Cfg) (s : State) (p target : Sid) (es : InputData)
    (hf : s.failed = none) (hp : p < cfg.n) (hpc : (s.sims p).pc = .inStep) :
    (∃ s', step cfg s (.setData p target es) = some s' ∧
        (s'.failed = some (.asyncRefused p) ↔ asyncAllowed cfg p target = false)) ∧
    (∃ s', step cfg s (.getDataReq p target) = some s' ∧
        (s'.failed = some (.asyncRefused p) ↔ asyncAllowed cfg p target = false)) := by
  have hl : live cfg s p = true := by simp [live, hf, hp]
  constructor
  · cases ha : asyncAllowed cfg p target with
    | true =>
      refine ⟨_, by simp [step, stepSetData, hl, hpc, ha]; rfl, ?_⟩
      simp [hf]
    | false =>
      refine ⟨_, by simp [step, stepSetData, hl, hpc, ha]; rfl, ?_⟩
      simp [State.fail, hf]
  · cases ha : asyncAllowed cfg p target with
    | true =>
      refine ⟨_, by simp [step, stepGetDataReq, hl, hpc, ha]; rfl, ?_⟩
      simp [hf]
    | false =>
      refine ⟨_, by simp [step, stepGetDataReq, hl, hpc, ha]; rfl, ?_⟩
      simp [State.fail, hf]

/-- `asyncAllowed` is exactly "an async connection target → p was made" -/
theorem asyncAllowed_iff (cfg : Cfg) (p target : Sid) :
    asyncAllowed cfg p target = true ↔
      (∃ d, (p, d) ∈ (cfg.sim target).succs) ∧ (∃ d, (p, d) ∈ (cfg.sim target).succsWait) := by
  unfold asyncAllowed
  simp only [Bool.and_eq_true, List.any_eq_true, beq_iff_eq]
  constructor
  · rintro ⟨⟨x, hx, rfl⟩, ⟨y, hy, hxy⟩⟩
    exact ⟨⟨x.2, hx⟩, ⟨y.2, by rw [← hxy]; exact hy⟩⟩
  · rintro ⟨⟨d, hd⟩, ⟨d', hd'⟩⟩
    exact ⟨⟨(p, d), hd, rfl⟩, ⟨(p, d'), hd', rfl⟩⟩

/-- the values of one set_data call, written into the pending inputs in order -/
def written (pending entries : InputData) : InputData :=
  entries.foldl (fun acc e => InputData.set acc e.1 e.2) pending

theorem written_last (entries : InputData) (pending : InputData) (k : InKey) (v : Val) (pre rest : InputData)
    (hsplit : entries = pre ++ (k, v) :: rest) (hrest : ∀ e ∈ rest, e.1 ≠ k) :
    InputData.get? (written pending entries) k = some v := by
  subst hsplit
  unfold written
  rw [List.foldl_append, List.foldl_cons]
  have : ∀ (l : InputData) (acc : InputData), (∀ e ∈ l, e.1 ≠ k) →
      InputData.get? (l.foldl (fun acc e => InputData.set acc e.1 e.2) acc) k = InputData.get? acc k := by
    intro l
    induction l with
    | nil => intro acc _; rfl
    | cons e l ih =>
      intro acc h
      simp only [List.foldl_cons]
      rw [ih _ (fun f hf => h f (List.mem_cons_of_mem _ hf)),
          InputData.get?_set_other _ _ _ _ (h e List.mem_cons_self)]
  rw [this rest _ hrest, InputData.get?_set_same]

/-- an accepted set_data call stores its values with the target -/
theorem stored (cfg : Cfg) (s s' : State) (p target : Sid) (es : InputData)
    (h : step cfg s (.setData p target es) = some s') (hnf : s'.failed = none) :
    (s'.sims target).setData = written (s.sims target).setData es ∧
    ∀ q, q ≠ target → s'.sims q = s.sims q := by
  simp only [step] at h
  unfold stepSetData at h
  split at h
  · split at h
    · cases h
      have := State.fail_failed s (.asyncRefused p)
      rw [hnf] at this; cases this
    · cases h
      refine ⟨by simp [written], ?_⟩
      intro q hq
      exact State.upd_other _ _ hq
  · cases h

/-- … the target's next step receives them, whatever it remembered -/
theorem delivered_in_next_step (cfg : Cfg) (s : State) (A : Sid) (c : TT) (k : InKey) (v : Val)
    (hk : InputData.get? (s.sims A).setData k = some v)
    (hbuf : ∀ e ∈ (s.sims A).buffer, e.time ≤ TT.time c → e.key ≠ k)
    (hpull : ∀ e ∈ (cfg.sim A).pulled, ({ eid := e.2.2.2.1, attr := e.2.2.2.2, ssid := e.1, seid := e.2.2.1.1 } : InKey) ≠ k) :
    InputData.get? (stepInputs cfg s A c) k = some v := by
  unfold stepInputs pullInputs
  simp only
  have hfold : ∀ (l : List (Sid × TI × Port × Port)) (acc : InputData),
      (∀ e ∈ l, ({ eid := e.2.2.2.1, attr := e.2.2.2.2, ssid := e.1, seid := e.2.2.1.1 } : InKey) ≠ k) →
      InputData.get? (l.foldl (fun acc (e : Sid × TI × Port × Port) =>
        InputData.set acc { eid := e.2.2.2.1, attr := e.2.2.2.2, ssid := e.1, seid := e.2.2.1.1 }
          ((OutData.get? (getOutputFor (s.sims e.1).outputs ((TT.time c : Int) - (tier e.2.1.tiers 0 : Int))) e.2.2.1).getD none)) acc) k
        = InputData.get? acc k := by
    intro l
    induction l with
    | nil => intro acc _; rfl
    | cons e l ih =>
      intro acc h
      simp only [List.foldl_cons]
      rw [ih _ (fun f hf => h f (List.mem_cons_of_mem _ hf)),
          InputData.get?_set_other _ _ _ _ (h e List.mem_cons_self)]
  rw [hfold _ _ hpull, C03.undue_not_delivered _ _ _ _ hbuf]
  exact C03.set_data_wins _ _ _ _ hk

/-- … and that step clears them: delivered exactly once -/
theorem delivered_once (cfg : Cfg) (s : State) (A : Sid) (c : TT) :
    ((getInputData cfg s A c).2.sims A).setData = [] :=
  (C03.begin_consumes_inputs cfg s A c).2.1

/-- A does not run ahead of its agents: when A begins `t`, every simulator B with an async
connection A → B has progressed to `t` (adapted); in particular a step of B in flight is not earlier
than `t` in world time -/
theorem order {cfg : Cfg} (hw : WFCfg cfg) {s s' : State} {A : Sid} (hr : Reach cfg s)
    (h : step cfg s (.deps A) = some s') (hnf : s'.failed = none) :
    ∃ t, (s'.sims A).cur = some t ∧ ∀ bd ∈ (cfg.sim A).succsWait, bd.1 < cfg.n →
      TI.act t bd.2 ≤ (s.sims bd.1).progress ∧
      (∀ tb, (s.sims bd.1).cur = some tb → TI.act t bd.2 ≤ tb) := by
  have hf0 : s.failed = none := by
    cases hf : s.failed with
    | none => rfl
    | some e => rw [step_none_of_failed (by rw [hf]; rfl)] at h; cases h
  obtain ⟨hc, _⟩ := reach_good hw hr hf0
  obtain ⟨c, hcur, _, _⟩ := C01.causal_begin hw hr h hnf
  refine ⟨c, hcur, ?_⟩
  rcases step_frame hw (reach_good hw hr) h hnf with hl | ⟨q, c', ha, _, _, hready, _, _, _, _, _, _, hcur', _⟩
  · -- `deps` always begins a step
    exfalso
    obtain ⟨c2, _, hb2, _⟩ := C01.causal_begin hw hr h hnf
    have := hl.begun A
    rw [hb2] at this
    simp at this
  · cases ha
    rw [hcur] at hcur'; cases hcur'
    intro bd hbd hbn
    unfold depsReady at hready
    simp only [Bool.and_eq_true, List.all_eq_true, decide_eq_true_eq] at hready
    have h1 := hready.1.2 bd hbd
    refine ⟨h1, ?_⟩
    intro tb htb
    rw [← (hc bd.1 hbn).cur_eq tb htb]; exact h1

/-- **"in A's first step after t"**: once the agent `B` has begun its step at `tb`, every step the controller `A` (which feeds
`B`: `A ∈ input_delays(B)`, the delay being the connection's — all-zero for a plain or async connection) begins later in the
run, under any interleaving, lies after `tb` when delayed by the connection.  Together with `delivered_in_next_step` /
`delivered_once`: what `B` sets during its step at `tb` arrives exactly once, in a step of `A` after `tb`.  (This is
`C01.causal_run` read for the pair; a connection table in which the async registration did not lower the pair's input delay —
the seeded change C16-async-delay-setdefault-shifted — violates the hypothesis `WFCfg` and the correspondence.) -/
theorem delivered_after_t {cfg : Cfg} (hw : WFCfg cfg) (as : List Action) {s s' : State} (hr : Reach cfg s)
    (he : exec cfg s as = some s') (hnf : s'.failed = none) {B : Sid} (hB : B < cfg.n) {tb : TT} (htb : tb ∈ (s.sims B).begun)
    {qd : Sid × TI} (hqd : qd ∈ (cfg.sim B).inputDelays) :
    ∀ c ∈ (s'.sims qd.1).begun, c ∉ (s.sims qd.1).begun → tb < TI.act c qd.2 :=
  C01.causal_run hw as hr he hnf hB htb hqd

/-- **"with async_requests enabled from A to B"** is what `connect` makes of it: after `world.connect(a, b, …, async_requests=True)`
between entities of started simulators - whether or not one of its attribute pairs was rejected - B is in A's `successors` and
`successors_to_wait_for`, the two tables `asyncAllowed` reads (`asyncAllowed_iff`) -/
theorem connect_registers_async (w : World) (c : ConnectCall) (hs : c.src < w.sims.length) (hd : c.dst < w.sims.length)
    (hasync : c.asyncReq = true) :
    (∃ d, (c.dst, d) ∈ ((w.connect c).1.sim c.src).succs) ∧ (∃ d, (c.dst, d) ∈ ((w.connect c).1.sim c.src).succsWait) :=
  Build.connect_async_registers w c hs hd hasync

/-! ### the data path of an accepted `get_data`

(The property's statement is about `set_data` delivery, ordering and admission; what an accepted `get_data` *returns* is glue the
model covers as well: `asyncSlice` / `asyncFound` / `asyncMissing` / `asyncAnswer`, compared with `MosaikRemote.get_data` on every
generated request by the driver command `aget`.) -/

/-- every requested attribute is answered from the cache slice or forwarded to the other simulator, never both -/
theorem get_data_found_or_forwarded (cfg : Cfg) (s : State) (p target : Sid) (req : List Port) (r : Port) (hr : r ∈ req) :
    (∃ v, OutData.get? (asyncFound cfg s p target req) r = some v ∧ r ∉ asyncMissing cfg s p target req) ∨
    (OutData.get? (asyncFound cfg s p target req) r = none ∧ r ∈ asyncMissing cfg s p target req) :=
  found_or_missing cfg s p target req r hr

/-- a value found in the cache is handed to the requester whatever else the same entity has to be asked for — unless the other
simulator's reply mentions the very attribute -/
theorem get_data_cached_value_kept (cfg : Cfg) (s : State) (p target : Sid) (req : List Port) (direct : OutData) (r : Port) (v : Val)
    (hr : r ∈ req) (hv : OutData.get? (asyncSlice cfg s p target) r = some v) (hd : ∀ e ∈ direct, e.1 ≠ r) :
    OutData.get? (asyncAnswer cfg s p target req direct) r = some v := by
  rw [asyncAnswer_found_kept cfg s p target req direct r hd, get?_asyncFound]
  simp [hr, hv]

/-- what the other simulator answers for a forwarded attribute is handed on -/
theorem get_data_forwarded_value (cfg : Cfg) (s : State) (p target : Sid) (req : List Port) (pre rest : OutData) (e : Port × Val)
    (hm : asyncMissing cfg s p target req ≠ []) (hrest : ∀ f ∈ rest, f.1 ≠ e.1) :
    OutData.get? (asyncAnswer cfg s p target req (pre ++ e :: rest)) e.1 = some e.2 :=
  asyncAnswer_direct cfg s p target req pre rest e hm hrest

/-- `cache=False`: the whole request is forwarded -/
theorem get_data_nocache (cfg : Cfg) (s : State) (p target : Sid) (req : List Port) (hc : cfg.useCache = false) :
    asyncFound cfg s p target req = [] ∧ asyncMissing cfg s p target req = req :=
  asyncMissing_nocache cfg s p target req hc

/-- `cache=True`, any run whose output times do not go back: the slice read is the entry of the other simulator's never-pruned
output history that is newest at or before the lookup time — the time of the requester's running step (`get_data_at_step_time`;
before fix D23 it was the step BEFORE the running one, so cache on and cache off answered differently) -/
theorem get_data_reads_history {cfg : Cfg} (hw : WFCfg cfg) (hc : cfg.useCache = true) (hi : InitSorted cfg) {s : State}
    (hr : ReachM cfg s) (hnf : s.failed = none) {p target : Sid} (hp : p < cfg.n) (ht : target < cfg.n) :
    asyncSlice cfg s p target = getOutputFor (histOf cfg target s.log) (asyncLookupTime s p) :=
  asyncSlice_history hw hc hi hr hnf hp ht

/-- in every reachable state a simulator that is inside a step reads the cache at the time of that step -/
theorem get_data_at_step_time {cfg : Cfg} (hw : WFCfg cfg) {s : State} (hr : Reach cfg s) (hnf : s.failed = none) {p : Sid}
    (hp : p < cfg.n) {c : TT} (hcur : (s.sims p).cur = some c) : asyncLookupTime s p = (TT.time c : Int) := by
  apply asyncLookupTime_cur s p c hcur
  unfold lastTime
  cases hl : (s.sims p).last with
  | none => simp only; omega
  | some t =>
    simp only
    obtain ⟨hcore, _⟩ := reach_good hw hr hnf
    have hso := hcore p hp
    have hb : t ∈ (s.sims p).begun := reach_lastOk hw hr hnf p hp t hl
    have hle : t ≤ c := by rw [← hso.cur_eq c hcur]; exact hso.begun_le t hb
    exact Int.ofNat_le.mpr (TT.time_mono hle)

/-- non-vacuity: a request for a cached and an uncached attribute of one entity; the other simulator answers the uncached one -/
example :
    let cfg : Cfg := { sims := [{ outputs0 := [(0, [((0, 2), some 7)])] }, {}], useCache := true }
    let s := initState cfg
    let s1 := s.upd 1 fun x => { x with last := some [0], cur := some [0] }
    asyncMissing cfg s1 1 0 [(0, 2), (0, 3)] = [(0, 3)] ∧
    asyncAnswer cfg s1 1 0 [(0, 2), (0, 3)] [((0, 3), some 9)] = [((0, 2), some 7), ((0, 3), some 9)] := by
  decide

end Mosaik.C16
