/-
C17  Real-time pacing and external events (integer-tick clock).

* `not_early`          : in real-time mode (rt_factor * time_resolution = f ticks per step), in every
                         reachable state of every run — any interleaving, any pattern of clock ticks,
                         grouped simulators included — every simulator's progress is at most
                         ceil(clock / f); a step begins only at the progress, hence a step for time t
                         begins only at a clock value > f * (t - 1)
* `set_event_*`        : outside real-time mode set_event is an error; an event at or after `until` is
                         ignored (warning only, no state change); an earlier one is scheduled
* `strict_*`           : rt_strict decides only between warning and RuntimeError, at exactly the
                         same condition (clock > f * step time); otherwise rt_check does nothing
NOT a theorem: "a run whose simulators answer instantly is never reported as too slow" — false for
connected simulators (finding C17-instant-too-slow, negation proved in Findings.lean).
Float rounding of perf_counter arithmetic is not modelled.
-/
import MosaikProofs.Sched.Reach
namespace Mosaik.C17
open Mosaik

/-! ### rt_check / rt_strict -/

def TooSlow (cfg : Cfg) (s : State) (c : TT) : Prop := ∃ f, cfg.rt = some f ∧ s.clock > f * TT.time c

instance (cfg : Cfg) (s : State) (c : TT) : Decidable (TooSlow cfg s c) := by
  unfold TooSlow
  cases h : cfg.rt with
  | none => exact isFalse (by simp)
  | some f =>
    by_cases h2 : s.clock > f * TT.time c
    · exact isTrue ⟨f, rfl, h2⟩
    · exact isFalse (by rintro ⟨f', hf', h3⟩; cases hf'; exact h2 h3)

/-- **the deadline of a step is the real time of its own time stamp**: the reply to the step for time `t` is on time iff it is
processed at a clock value of at most `f·t`.  Since the step may begin from `f·(t−1)` on (`not_early`), a step that begins at its
earliest moment has a budget of `f` ticks … -/
theorem on_time_iff (cfg : Cfg) (s : State) (c : TT) (f : Nat) (hf : cfg.rt = some f) :
    ¬ TooSlow cfg s c ↔ s.clock ≤ f * TT.time c := by
  unfold TooSlow
  constructor
  · intro h
    apply Classical.byContradiction
    intro hn
    exact h ⟨f, hf, by omega⟩
  · rintro h ⟨f', hf', h2⟩
    rw [hf] at hf'
    cases hf'
    omega

/-- … and **a step for time 0 has no budget at all**: any reply that is processed after a positive amount of real time is reported
as too slow (a warning; with `rt_strict` the run ends with RuntimeError at its very first step).  On the virtual clock of the
correspondence an instant reply takes no time, so this does not show there; on a wall clock every reply takes some time — part of
the pacing rule recorded as finding C17-instant-too-slow. -/
theorem first_step_has_no_budget (cfg : Cfg) (s : State) (c : TT) (f : Nat) (hf : cfg.rt = some f) (h0 : TT.time c = 0)
    (hclock : 0 < s.clock) : TooSlow cfg s c :=
  ⟨f, hf, by rw [h0]; omega⟩

/-- when the run is on time `rt_check` does nothing, strict or not -/
theorem strict_irrelevant_on_time (cfg : Cfg) (s : State) (p : Sid) (c : TT) (h : ¬ TooSlow cfg s c) :
    rtCheck cfg s p c = s := by
  unfold rtCheck
  cases hrt : cfg.rt with
  | none => rfl
  | some f =>
    have : ¬ s.clock > f * TT.time c := fun h2 => h ⟨f, hrt, h2⟩
    simp [this]

/-- too slow without rt_strict: a warning, nothing else -/
theorem not_strict_warns (cfg : Cfg) (s : State) (p : Sid) (c : TT) (h : TooSlow cfg s c) (hs : cfg.rtStrict = false) :
    rtCheck cfg s p c = s.emit (.rtWarn p) := by
  obtain ⟨f, hrt, h2⟩ := h
  simp [rtCheck, hrt, h2, hs]

/-- too slow with rt_strict: RuntimeError -/
theorem strict_raises (cfg : Cfg) (s : State) (p : Sid) (c : TT) (h : TooSlow cfg s c) (hs : cfg.rtStrict = true)
    (hf : s.failed = none) : (rtCheck cfg s p c).failed = some (.rtTooSlow p) ∧ (rtCheck cfg s p c).sims = s.sims := by
  obtain ⟨f, hrt, h2⟩ := h
  simp [rtCheck, hrt, h2, hs, State.fail, hf]

/-! ### set_event -/

theorem set_event_outside_rt (cfg : Cfg) (s : State) (p : Sid) (t : Nat) (hf : s.failed = none) (hp : p < cfg.n)
    (hrt : cfg.rt = none) :
    ∃ s', step cfg s (.setEvent p t) = some s' ∧ s'.failed = some (.eventNotRt p) := by
  have hl : live cfg s p = true := by simp [live, hf, hp]
  refine ⟨_, by simp [step, stepSetEvent, hl, hrt]; rfl, ?_⟩
  simp [State.fail, hf]

theorem set_event_after_end_ignored (cfg : Cfg) (s : State) (p : Sid) (t f : Nat) (hf : s.failed = none) (hp : p < cfg.n)
    (hrt : cfg.rt = some f) (ht : cfg.until_ ≤ t) :
    step cfg s (.setEvent p t) = some (s.emit (.eventIgnored p)) := by
  have hl : live cfg s p = true := by simp [live, hf, hp]
  have : ¬ t < cfg.until_ := by omega
  simp [step, stepSetEvent, hl, hrt, this]

theorem set_event_scheduled (cfg : Cfg) (s : State) (p : Sid) (t f : Nat) (hf : s.failed = none) (hp : p < cfg.n)
    (hrt : cfg.rt = some f) (ht : t < cfg.until_) :
    ∃ s', step cfg s (.setEvent p t) = some s' ∧ ofWorld (cfg.sim p).depth t ∈ (s'.sims p).next ∧ s'.failed = none := by
  have hl : live cfg s p = true := by simp [live, hf, hp]
  refine ⟨schedule s p (ofWorld (cfg.sim p).depth t), by simp [step, stepSetEvent, hl, hrt, ht], ?_, ?_⟩
  · obtain ⟨_, _, _, hb⟩ := schedule_fields s p (ofWorld (cfg.sim p).depth t)
    unfold schedule
    by_cases hm : ofWorld (cfg.sim p).depth t ∈ (s.sims p).next
    · simp [hm]
    · have hc : (s.sims p).next.contains (ofWorld (cfg.sim p).depth t) = false := by simpa using hm
      simp only [hc, Bool.false_eq_true, if_false, State.upd_same]
      exact (mem_insertSorted _ _ _).mpr (Or.inl rfl)
  · rw [(schedule_fields s p _).1]; exact hf

/-! ### progress never exceeds the real-time cap -/

/-- the real-time cap at clock value `clock` -/
def cap (f clock : Nat) : Nat := (clock + f - 1) / f

theorem cap_mono (f : Nat) {a b : Nat} (h : a ≤ b) : cap f a ≤ cap f b := by
  unfold cap
  exact Nat.div_le_div_right (by omega)

/-- `s'` comes after `s`: the clock did not go back, and progress grew at most up to the cap -/
def After (cfg : Cfg) (s s' : State) : Prop :=
  s.clock ≤ s'.clock ∧ ∀ f, cfg.rt = some f → ∀ p, TT.time (s'.sims p).progress ≤ max (TT.time (s.sims p).progress) (cap f s'.clock)

theorem After.refl (cfg : Cfg) (s : State) : After cfg s s := ⟨Nat.le_refl _, fun _ _ _ => Nat.le_max_left _ _⟩

theorem After.trans {cfg : Cfg} {s s' s'' : State} (h1 : After cfg s s') (h2 : After cfg s' s'') : After cfg s s'' := by
  refine ⟨Nat.le_trans h1.1 h2.1, ?_⟩
  intro f hf p
  have a := h1.2 f hf p
  have b := h2.2 f hf p
  have c := cap_mono f h2.1
  omega

/-- states with the same progress and clock -/
theorem After.of_same {cfg : Cfg} {s s' : State} (hc : s'.clock = s.clock) (hp : ∀ p, (s'.sims p).progress = (s.sims p).progress) :
    After cfg s s' := ⟨by omega, fun _ _ p => by rw [hp p]; exact Nat.le_max_left _ _⟩

theorem After.of_ctrlEq {cfg : Cfg} {s s' : State} (h : CtrlEq s s') (hc : s'.clock = s.clock) : After cfg s s' :=
  After.of_same hc (fun p => (h.fields p).2.1)

theorem time_ofWorld_le (depth n : Nat) : TT.time (ofWorld depth n) ≤ n := by
  unfold TT.time; rw [tier_ofWorld]; split <;> omega

theorem advance_after (cfg : Cfg) (s : State) (q : Sid) : After cfg s (advance cfg s q) := by
  unfold advance
  simp only
  split
  · exact After.of_same (by unfold State.fail; split <;> rfl) (fun p => by rw [State.fail_sims])
  · refine ⟨Nat.le_refl _, ?_⟩
    intro f hf p
    rw [State.upd_sims]
    split
    · rename_i hpq
      subst hpq
      simp only [State.upd_clock]
      -- the new progress is at most the real-time cap, which is among the candidates
      have hmem : ofWorld (cfg.sim p).depth (cap f s.clock) ∈ candidates cfg s p := by
        unfold candidates rtCap
        simp [hf, cap]
      have hle := minTT_le_mem (candidates cfg s p) (cfg.endT p) _ hmem
      have := TT.time_mono hle
      have h2 := time_ofWorld_le (cfg.sim p).depth (cap f s.clock)
      omega
    · exact Nat.le_max_left _ _

theorem settle_same (cfg : Cfg) (s : State) (p : Sid) :
    (settle cfg s p).clock = s.clock ∧ ∀ q, ((settle cfg s p).sims q).progress = (s.sims q).progress := by
  unfold settle
  simp only
  have key : ∀ pc : PC, ∀ q, ((s.upd p fun x => { x with pc := pc }).sims q).progress = (s.sims q).progress := by
    intro pc q; rw [State.upd_sims]; split <;> rfl
  split
  · exact ⟨rfl, fun q => key _ q⟩
  · split
    · split
      · exact ⟨rfl, fun q => key _ q⟩
      · exact ⟨rfl, fun q => key _ q⟩
    · exact ⟨rfl, fun q => key _ q⟩

theorem schedule_clock (s : State) (b : Sid) (t : TT) : (schedule s b t).clock = s.clock := by
  unfold schedule
  by_cases hm : t ∈ (s.sims b).next
  · simp [hm]
  · simp [hm]

theorem notify_same (cfg : Cfg) (s : State) (p : Sid) :
    (notify cfg s p).clock = s.clock ∧ ∀ q, ((notify cfg s p).sims q).progress = (s.sims q).progress := by
  unfold notify
  apply foldl_inv (fun st => st.clock = s.clock ∧ ∀ q, (st.sims q).progress = (s.sims q).progress)
  · exact ⟨rfl, fun _ => rfl⟩
  · intro st tr _ ⟨h1, h2⟩
    split
    · exact ⟨by rw [schedule_clock, h1], fun q => by rw [((schedule_fields st _ _).2.1 q).1, h2 q]⟩
    · exact ⟨h1, h2⟩

theorem advanceAll_after (cfg : Cfg) (s : State) : After cfg s (advanceAll cfg s) := by
  unfold advanceAll
  apply foldl_inv (fun st => After cfg s st)
  · exact After.refl cfg s
  · intro st q _ h
    split
    · exact h
    · exact h.trans (advance_after cfg st q)

theorem finish_after (cfg : Cfg) (s : State) (p : Sid) (c : TT) : After cfg s (finish cfg s p c) := by
  have h1 : After cfg s (clearCur s p c) :=
    After.of_same rfl (fun q => by simp only [clearCur, State.emit_sims]; rw [State.upd_sims]; split <;> rfl)
  have h2 : After cfg (clearCur s p c) (notify cfg (clearCur s p c) p) :=
    After.of_same (notify_same cfg _ p).1 (notify_same cfg _ p).2
  have h3 := advanceAll_after cfg (notify cfg (clearCur s p c) p)
  have h123 := (h1.trans h2).trans h3
  unfold finish
  simp only
  split
  · exact h123
  · split
    · have hpr : After cfg (advanceAll cfg (notify cfg (clearCur s p c) p)) (prune cfg (advanceAll cfg (notify cfg (clearCur s p c) p))) :=
        After.of_ctrlEq (prune_ctrlEq cfg _) rfl
      exact (h123.trans hpr).trans (After.of_same (settle_same cfg _ p).1 (settle_same cfg _ p).2)
    · exact h123.trans (After.of_same (settle_same cfg _ p).1 (settle_same cfg _ p).2)

theorem rtCheck_after (cfg : Cfg) (s : State) (p : Sid) (c : TT) : After cfg s (rtCheck cfg s p c) := by
  unfold rtCheck
  split
  · exact After.refl cfg s
  · split
    · split
      · exact After.of_same (by unfold State.fail; split <;> rfl) (fun q => by rw [State.fail_sims])
      · exact After.of_same rfl (fun _ => rfl)
    · exact After.refl cfg s

theorem afterStep_after (cfg : Cfg) (s : State) (p : Sid) (c : TT) : After cfg s (afterStep cfg s p c) := by
  unfold afterStep
  simp only
  have h1 := rtCheck_after cfg s p c
  split
  · exact h1
  · split
    · exact h1.trans (finish_after cfg _ p c)
    · exact h1.trans (After.of_same rfl (fun q => by rw [State.upd_sims]; split <;> rfl))

/-- every action leads to a state that comes `After` -/
theorem step_after {cfg : Cfg} {s s' : State} {a : Action} (h : step cfg s a = some s') : After cfg s s' := by
  cases a with
  | start p =>
    simp only [step, stepStart] at h
    split at h
    · split at h
      · cases h; exact advance_after cfg s p
      · cases h
        exact (advance_after cfg s p).trans (After.of_same (settle_same cfg _ p).1 (settle_same cfg _ p).2)
    · cases h
  | wake p =>
    simp only [step, stepWake] at h
    split at h
    · cases hpc : (s.sims p).pc with
      | awaitSettle a dl =>
        simp only [hpc] at h
        split at h
        · have h0 : After cfg s (s.upd p fun x => { x with newer := false }) :=
            After.of_same rfl (fun q => by rw [State.upd_sims]; split <;> rfl)
          have h1 : After cfg s (if cfg.rt.isSome then advance cfg (s.upd p fun x => { x with newer := false }) p
              else (s.upd p fun x => { x with newer := false })) := by
            split
            · exact h0.trans (advance_after cfg _ p)
            · exact h0
          generalize (if cfg.rt.isSome then advance cfg (s.upd p fun x => { x with newer := false }) p
              else (s.upd p fun x => { x with newer := false })) = s2 at h h1
          by_cases hfl : s2.failed.isSome = true
          · simp only [hfl, if_true, Option.some.injEq] at h
            subst h; exact h1
          · simp only [hfl, Bool.false_eq_true, if_false, Option.some.injEq] at h
            subst h
            exact h1.trans (After.of_same (settle_same cfg _ p).1 (settle_same cfg _ p).2)
        · cases h
      | init => simp [hpc] at h
      | waitDeps t => simp [hpc] at h
      | inStep => simp [hpc] at h
      | inGet => simp [hpc] at h
      | done => simp [hpc] at h
    · cases h
  | deps p =>
    simp only [step, stepDeps] at h
    split at h
    · cases hpc : (s.sims p).pc with
      | waitDeps t =>
        simp only [hpc] at h
        split at h
        · cases hnext : (s.sims p).next with
          | nil => simp [hnext] at h
          | cons c rest =>
            simp only [hnext, Option.some.injEq] at h
            subst h
            unfold beginStep
            simp only
            have hsame : ∀ (f : SimSt → SimSt), (∀ x, (f x).progress = x.progress) → ∀ q,
                ((s.upd p f).sims q).progress = (s.sims q).progress := by
              intro f hf q; rw [State.upd_sims]; split
              · exact hf _
              · rfl
            split
            · exact After.of_same (by unfold State.fail; split <;> rfl)
                (fun q => by rw [State.fail_sims]; exact hsame (fun x => { x with cur := some c, next := rest }) (fun _ => rfl) q)
            · split
              · exact After.of_same (by unfold State.fail; split <;> rfl)
                  (fun q => by rw [State.fail_sims]; exact hsame (fun x => { x with cur := some c, next := rest }) (fun _ => rfl) q)
              · obtain ⟨f, hfctrl, hsnd⟩ := getInputData_snd cfg (s.upd p fun x => { x with cur := some c, next := rest }) p c
                rw [hsnd]
                refine After.of_same rfl ?_
                intro q
                simp only [State.emit_sims]
                rw [State.upd_sims]
                split
                · rename_i hq; subst hq
                  simp only [State.upd_same]
                  have := hfctrl ({ s.sims q with cur := some c, next := rest })
                  simp only [SimSt.ctrl, Prod.mk.injEq] at this
                  exact this.2.1
                · rename_i hq
                  rw [State.upd_other _ _ hq, State.upd_other _ _ hq]
        · cases h
      | init => simp [hpc] at h
      | awaitSettle a dl => simp [hpc] at h
      | inStep => simp [hpc] at h
      | inGet => simp [hpc] at h
      | done => simp [hpc] at h
    · cases h
  | setData p target entries =>
    simp only [step, stepSetData] at h
    split at h
    · split at h
      · cases h; exact After.of_same (by unfold State.fail; split <;> rfl) (fun q => by rw [State.fail_sims])
      · cases h; exact After.of_same rfl (fun q => by rw [State.upd_sims]; split <;> rfl)
    · cases h
  | getDataReq p target =>
    simp only [step, stepGetDataReq] at h
    split at h
    · split at h
      · cases h; exact After.of_same (by unfold State.fail; split <;> rfl) (fun q => by rw [State.fail_sims])
      · cases h; exact After.refl cfg s
    · cases h
  | setEvent p t =>
    simp only [step, stepSetEvent] at h
    split at h
    · split at h
      · cases h; exact After.of_same (by unfold State.fail; split <;> rfl) (fun q => by rw [State.fail_sims])
      · split at h
        · cases h
          exact After.of_same (schedule_clock _ _ _) (fun q => ((schedule_fields s _ _).2.1 q).1)
        · cases h; exact After.of_same rfl (fun _ => rfl)
    · cases h
  | stepReply p r =>
    simp only [step, stepStepReply] at h
    split at h
    · cases hcur : (s.sims p).cur with
      | none => simp [hcur] at h
      | some c =>
        simp only [hcur, Option.some.injEq] at h
        subst h
        have h1 : After cfg s ((s.upd p fun x => { x with last := some c }).emit (.stepped p c)) :=
          After.of_same rfl (fun q => by simp only [State.emit_sims]; rw [State.upd_sims]; split <;> rfl)
        have hfail : ∀ e, After cfg s (((s.upd p fun x => { x with last := some c }).emit (.stepped p c)).fail e) := by
          intro e
          exact h1.trans (After.of_same (by unfold State.fail; split <;> rfl) (fun q => by rw [State.fail_sims]))
        unfold processStepReply
        simp only
        cases r with
        | bad => exact hfail _
        | none =>
          simp only
          split
          · exact hfail _
          · exact h1.trans (afterStep_after cfg _ p c)
        | int n =>
          simp only
          split
          · exact hfail _
          · split
            · have h2 : After cfg ((s.upd p fun x => { x with last := some c }).emit (.stepped p c))
                  (schedule ((s.upd p fun x => { x with last := some c }).emit (.stepped p c)) p (ofWorld (cfg.sim p).depth n.toNat)) :=
                After.of_same (schedule_clock _ _ _) (fun q => ((schedule_fields _ _ _).2.1 q).1)
              exact (h1.trans h2).trans (afterStep_after cfg _ p c)
            · exact h1.trans (afterStep_after cfg _ p c)
    · cases h
  | dataReply p d =>
    simp only [step, stepDataReply] at h
    split at h
    · cases hcur : (s.sims p).cur with
      | none => simp [hcur] at h
      | some c =>
        simp only [hcur, Option.some.injEq] at h
        subst h
        unfold processDataReply
        simp only
        have h1 : After cfg s ((s.upd p fun x => { x with outTime := (outTimeOf c d).2 }).emit (.got p c (outTimeOf c d).2 d.data)) :=
          After.of_same rfl (fun q => by simp only [State.emit_sims]; rw [State.upd_sims]; split <;> rfl)
        split
        · exact h1.trans (After.of_same (by unfold State.fail; split <;> rfl) (fun q => by rw [State.fail_sims]))
        · obtain ⟨hce, _, _⟩ := storeOutputs_ctrlEq cfg
            ((s.upd p fun x => { x with outTime := (outTimeOf c d).2 }).emit (.got p c (outTimeOf c d).2 d.data)) p (outTimeOf c d).1 d
          have hclock : (storeOutputs cfg ((s.upd p fun x => { x with outTime := (outTimeOf c d).2 }).emit
              (.got p c (outTimeOf c d).2 d.data)) p (outTimeOf c d).1 d).clock = s.clock := by
            unfold storeOutputs
            simp only [State.upd_clock]
            apply (foldl_inv (fun st => st.clock = s.clock) _ _ _ _ _)
            · split <;> rfl
            · intro st e _ hst
              split
              · exact hst
              · exact hst
          exact (h1.trans (After.of_ctrlEq hce hclock)).trans (finish_after cfg _ p c)
    · cases h
  | tick n =>
    simp only [step, stepTick] at h
    split at h
    · cases h
    · cases h
      exact ⟨by simp, fun f _ p => Nat.le_max_left _ _⟩

/-- in every reachable state progress is at most the real-time cap -/
theorem progress_le_cap {cfg : Cfg} {s : State} (hr : Reach cfg s) (f : Nat) (hf : cfg.rt = some f) :
    ∀ p, TT.time (s.sims p).progress ≤ cap f s.clock := by
  induction hr with
  | init =>
    intro p
    have : TT.time (TT.zero (cfg.sim p).depth) = 0 := by
      unfold TT.time TT.zero tier
      cases (cfg.sim p).depth <;> simp [List.replicate]
    simp only [initState, initSim]
    omega
  | step _ hstep ih =>
    intro p
    obtain ⟨hc, hp⟩ := step_after hstep
    have := hp f hf p
    have := ih p
    have := cap_mono f hc
    omega

/-- a step for time `t` never begins early: when the step request for `c` goes out, the clock has
passed `f * (time c - 1)` -/
theorem not_early {cfg : Cfg} {s s' : State} {p : Sid} (hr : Reach cfg s) (f : Nat) (hf : cfg.rt = some f) (hfpos : 0 < f)
    (h : step cfg s (.deps p) = some s') (hnf : s'.failed = none) :
    ∃ c, (s'.sims p).cur = some c ∧ f * (TT.time c - 1) < s.clock ∨ TT.time c = 0 := by
  simp only [step, stepDeps] at h
  split at h
  · cases hpc : (s.sims p).pc with
    | waitDeps t =>
      simp only [hpc] at h
      split at h
      · cases hnext : (s.sims p).next with
        | nil => simp [hnext] at h
        | cons c rest =>
          simp only [hnext, Option.some.injEq] at h
          subst h
          refine ⟨c, ?_⟩
          unfold beginStep at hnf ⊢
          simp only at hnf ⊢
          by_cases hcp : c = (s.sims p).progress
          · have hcapb := progress_le_cap hr f hf p
            rw [← hcp] at hcapb
            by_cases ht0 : TT.time c = 0
            · exact Or.inr ht0
            · left
              simp only [hcp, ne_eq, not_true_eq_false, if_false] at hnf ⊢
              rw [← hcp] at hnf ⊢
              cases hloop : (c.tail.any fun k => decide (k ≥ cfg.maxLoop)) with
              | true =>
                simp only [hloop, if_true] at hnf
                have := State.fail_failed (s.upd p fun x => { x with cur := some c, next := rest }) (.loop p)
                rw [hnf] at this; cases this
              | false =>
                simp only [Bool.false_eq_true, if_false]
                obtain ⟨g, hgctrl, hsnd⟩ := getInputData_snd cfg (s.upd p fun x => { x with cur := some c, next := rest }) p c
                rw [hsnd]
                constructor
                · simp only [State.emit_sims, State.upd_same]
                  have := hgctrl ({ s.sims p with cur := some c, next := rest })
                  simp only [SimSt.ctrl, Prod.mk.injEq] at this
                  exact this.2.2.2.1
                · -- time c ≤ ceil(clock / f)  ⇒  f * (time c - 1) < clock
                  unfold cap at hcapb
                  have h1 : TT.time c * f ≤ s.clock + f - 1 := by
                    have := Nat.div_mul_le_self (s.clock + f - 1) f
                    calc TT.time c * f ≤ ((s.clock + f - 1) / f) * f := Nat.mul_le_mul_right f hcapb
                      _ ≤ s.clock + f - 1 := this
                  have h2 : f * (TT.time c - 1) = TT.time c * f - f := by
                    rw [Nat.mul_sub, Nat.mul_one, Nat.mul_comm]
                  rw [h2]
                  have : f ≤ TT.time c * f := by
                    have : 1 ≤ TT.time c := by omega
                    calc f = 1 * f := by simp
                      _ ≤ TT.time c * f := Nat.mul_le_mul_right f this
                  omega
          · simp only [hcp, ne_eq, not_false_eq_true, if_true] at hnf
            have := State.fail_failed (s.upd p fun x => { x with cur := some c, next := rest }) (.stepInPast p)
            rw [hnf] at this; cases this
      · cases h
    | init => simp [hpc] at h
    | awaitSettle a dl => simp [hpc] at h
    | inStep => simp [hpc] at h
    | inGet => simp [hpc] at h
    | done => simp [hpc] at h
  · cases h

end Mosaik.C17
