/-
C18  Bulk connection helpers distribute connections as documented.

For every oracle (= every outcome of `random.shuffle` / `random.randint`), every size:
* `many_to_one` : every source is connected exactly once, to the single destination
* `evenly_*`    : every source exactly once, in order; only destinations of `dest_set`; the numbers
                  of connections per destination differ by at most one; returned set = destinations
                  that received a connection
* `randomly_*`  : every source exactly once; no destination exceeds `max_connects`; returned set as
                  above; never fails when `len(src) ≤ len(dest) * max_connects`
-/
import MosaikModel.Util
namespace Mosaik.C18
open Mosaik.Util

/-! ### connect_many_to_one -/

theorem many_to_one (srcs : List Nat) (d : Nat) :
    (connectManyToOne srcs d).map (·.1) = srcs ∧ ∀ p ∈ connectManyToOne srcs d, p.2 = d := by
  constructor
  · simp [connectManyToOne, Function.comp_def]
  · intro p hp
    simp only [connectManyToOne, List.mem_map] at hp
    obtain ⟨s, _, rfl⟩ := hp
    rfl

/-! ### random.shuffle returns a permutation -/

@[simp] theorem swap_length (l : List Nat) (i j : Nat) : (swap l i j).length = l.length := by simp [swap]

theorem boole_le_count (l : List Nat) (i : Nat) (h : i < l.length) (b : Nat) :
    (if l[i] == b then 1 else 0) ≤ l.count b := by
  split
  · rename_i hb
    have : l[i] = b := by simpa using hb
    have : b ∈ l := this ▸ List.getElem_mem h
    have := List.count_pos_iff.mpr this
    omega
  · omega

theorem swap_perm (l : List Nat) (i j : Nat) (hi : i < l.length) (hj : j < l.length) :
    (swap l i j).Perm l := by
  rw [List.perm_iff_count]
  intro b
  unfold swap
  have e1 : l.getD j 0 = l[j] := by simp [List.getD_eq_getElem?_getD, hj]
  have e2 : l.getD i 0 = l[i] := by simp [List.getD_eq_getElem?_getD, hi]
  rw [e1, e2]
  rw [List.count_set (by simpa using hj), List.count_set hi]
  have e3 : (l.set i l[j])[j]'(by simpa using hj) = l[j] := by
    rw [List.getElem_set]; split <;> simp_all
  rw [e3]
  have := boole_le_count l i hi b
  have := boole_le_count l j hj b
  omega

theorem shuffleFrom_perm : ∀ (k : Nat) (l orc : List Nat), k < l.length ∨ l = [] →
    (shuffleFrom k l orc).1.Perm l
  | 0, l, orc, _ => by simp [shuffleFrom]
  | k + 1, l, orc, h => by
    unfold shuffleFrom
    rcases h with h | h
    · have hj : orc.headD 0 % (k + 2) < l.length := by
        have := Nat.mod_lt (orc.headD 0) (show 0 < k + 2 by omega)
        omega
      have hp := swap_perm l (k + 1) (orc.headD 0 % (k + 2)) h hj
      exact (shuffleFrom_perm k _ orc.tail (Or.inl (by simp; omega))).trans hp
    · subst h
      have := shuffleFrom_perm k [] orc.tail (Or.inr rfl)
      simpa [swap] using this

theorem shuffle_perm (l orc : List Nat) : (shuffle l orc).1.Perm l := by
  unfold shuffle
  apply shuffleFrom_perm
  cases l with
  | nil => exact Or.inr rfl
  | cons x xs => left; simp

/-! ### connect_randomly(evenly=True) -/

/-- what one call of the loop guarantees, for every current destination list `ds` -/
structure EvenSpec (srcs ds : List Nat) (r : List (Nat × Nat) × List Nat) : Prop where
  sources : r.1.map (·.1) = srcs
  returned : r.2 = r.1.map (·.2)
  inDests : ∀ d ∈ r.2, d ∈ ds
  balanced : ∃ q, ∀ d ∈ ds, q ≤ r.2.count d ∧ r.2.count d ≤ q + 1

theorem evenly_loop : ∀ (fuel : Nat) (srcs ds orc : List Nat), srcs.length < fuel → ds ≠ [] → ds.Nodup →
    EvenSpec srcs ds (connectEvenlyLoop fuel srcs ds orc)
  | 0, _, _, _, h, _, _ => by omega
  | fuel + 1, srcs, ds, orc, hf, hne, hnd => by
    unfold connectEvenlyLoop
    by_cases hs : srcs.isEmpty
    · have : srcs = [] := by simpa using hs
      subst this
      exact ⟨by simp, by simp, by simp, ⟨0, by simp⟩⟩
    · simp only [hs, Bool.false_eq_true, if_false]
      have hperm := shuffle_perm ds orc
      generalize hsh : shuffle ds orc = sh at hperm
      obtain ⟨ds', orc'⟩ := sh
      simp only at hperm ⊢
      have hlen : ds'.length = ds.length := hperm.length_eq
      have hne' : ds' ≠ [] := by
        intro e; rw [e] at hlen; simp at hlen; exact hne (by simpa using hlen.symm)
      have hnd' : ds'.Nodup := hperm.nodup_iff.mpr hnd
      have hpos : 0 < ds'.length := List.length_pos_iff.mpr hne'
      have hsne : 0 < srcs.length := by
        cases srcs with
        | nil => simp at hs
        | cons _ _ => simp
      have ih := evenly_loop fuel (srcs.drop ds'.length) ds' orc' (by simp; omega) hne' hnd'
      generalize connectEvenlyLoop fuel (srcs.drop ds'.length) ds' orc' = rest at ih
      obtain ⟨rp, rc⟩ := rest
      obtain ⟨ih1, ih2, ih3, q, ih4⟩ := ih
      simp only at ih1 ih2 ih3 ih4 ⊢
      have hk1 : (srcs.take (min srcs.length ds'.length)).length = min srcs.length ds'.length := by
        simp
      have hk2 : (ds'.take (min srcs.length ds'.length)).length = min srcs.length ds'.length := by
        simp
      have hfst : ((srcs.take (min srcs.length ds'.length)).zip (ds'.take (min srcs.length ds'.length))).map (·.1)
          = srcs.take (min srcs.length ds'.length) :=
        List.map_fst_zip (by omega)
      have hsnd : ((srcs.take (min srcs.length ds'.length)).zip (ds'.take (min srcs.length ds'.length))).map (·.2)
          = ds'.take (min srcs.length ds'.length) :=
        List.map_snd_zip (by omega)
      refine ⟨?_, ?_, ?_, ?_⟩
      · -- sources
        simp only [List.map_append, hfst, ih1]
        by_cases hc : srcs.length ≤ ds'.length
        · have : min srcs.length ds'.length = srcs.length := by omega
          rw [this, List.take_length, List.drop_eq_nil_of_le hc]; simp
        · have : min srcs.length ds'.length = ds'.length := by omega
          rw [this, List.take_append_drop]
      · -- returned
        simp only [List.map_append, hsnd, ih2]
      · -- inDests
        intro d hd
        simp only [List.mem_append] at hd
        rcases hd with hd | hd
        · exact hperm.mem_iff.mp (List.mem_of_mem_take hd)
        · exact hperm.mem_iff.mp (ih3 d hd)
      · -- balanced
        by_cases hc : ds'.length ≤ srcs.length
        · -- a full round: every destination once more
          refine ⟨q + 1, ?_⟩
          intro d hd
          have hd' : d ∈ ds' := hperm.mem_iff.mpr hd
          have : min srcs.length ds'.length = ds'.length := by omega
          rw [this, List.take_length, List.count_append]
          have hone : ds'.count d = 1 := by
            have h1 := List.nodup_iff_count.mp hnd' d
            have h2 := List.count_pos_iff.mpr hd'
            omega
          have := ih4 d hd'
          omega
        · -- the last, partial round: every destination at most once, nothing follows
          have hdrop : srcs.drop ds'.length = [] := List.drop_eq_nil_of_le (by omega)
          have hrp : rp = [] := by
            have := congrArg List.length ih1
            rw [hdrop] at this
            simpa using this
          have hrc : rc = [] := by rw [ih2, hrp]; rfl
          refine ⟨0, ?_⟩
          intro d hd
          rw [hrc, List.append_nil]
          refine ⟨Nat.zero_le _, ?_⟩
          have hsub : (ds'.take (min srcs.length ds'.length)).Sublist ds' := List.take_sublist _ _
          have h5 := hsub.count_le d
          have hle : ds'.count d ≤ 1 := List.nodup_iff_count.mp hnd' d
          simp only
          omega

/-- `connect_randomly(world, src_set, dest_set, evenly=True)` for a non-empty `dest_set` of distinct
entities and any oracle -/
theorem evenly (srcs dests orc : List Nat) (hne : dests ≠ []) (hnd : dests.Nodup) :
    ∃ r, connectRandomlyTop srcs dests true none orc = some r ∧
      r.1.map (·.1) = srcs ∧
      (∀ p ∈ r.1, p.2 ∈ dests) ∧
      (∀ d, d ∈ r.2 ↔ ∃ p ∈ r.1, p.2 = d) ∧
      (∀ d ∈ dests, ∀ d' ∈ dests, (r.1.map (·.2)).count d ≤ (r.1.map (·.2)).count d' + 1) := by
  have h := evenly_loop (srcs.length + 1) srcs dests orc (by omega) hne hnd
  refine ⟨connectEvenly srcs dests orc, ?_, ?_⟩
  · have : dests.isEmpty = false := by cases dests <;> simp_all
    simp [connectRandomlyTop, this]
  · unfold connectEvenly
    generalize connectEvenlyLoop (srcs.length + 1) srcs dests orc = r at h
    obtain ⟨h1, h2, h3, q, h4⟩ := h
    refine ⟨h1, ?_, ?_, ?_⟩
    · intro p hp
      apply h3
      rw [h2]
      exact List.mem_map_of_mem hp
    · intro d
      rw [h2, List.mem_map]
    · intro d hd d' hd'
      rw [← h2]
      have := h4 d hd
      have := h4 d' hd'
      omega

/-! ### connect_randomly(evenly=False) -/

/-- remaining capacity of the destinations still in `dest_set` -/
def cap (m : Nat) (st : RState) : Nat := (st.dests.map fun d => m - st.count d).sum

structure RInv (m : Nat) (dests0 : List Nat) (st : RState) : Prop where
  nodup : st.dests.Nodup
  sub : ∀ d ∈ st.dests, d ∈ dests0
  room : ∀ d ∈ st.dests, st.count d < m
  bound : ∀ d, st.count d ≤ m
  inDests : ∀ p ∈ st.pairs, p.2 ∈ dests0

theorem sum_map_erase (f : Nat → Nat) (l : List Nat) (d : Nat) (hd : d ∈ l) (_hnd : l.Nodup) :
    (l.map f).sum = f d + ((l.erase d).map f).sum := by
  have hp := List.perm_cons_erase hd
  have := (hp.map f).sum_nat
  simpa using this

theorem sum_map_congr (f g : Nat → Nat) (l : List Nat) (h : ∀ x ∈ l, f x = g x) :
    (l.map f).sum = (l.map g).sum := by
  rw [List.map_congr_left h]

theorem count_cons_pair (st : RState) (src dest d : Nat) :
    ({ st with pairs := (src, dest) :: st.pairs } : RState).count d = st.count d + (if dest = d then 1 else 0) := by
  simp only [RState.count, List.map_cons, List.count_cons]
  split <;> simp_all

/-- one loop iteration keeps the invariant and uses exactly one unit of capacity -/
theorem randomStep_inv (m : Nat) (dests0 : List Nat) (st st' : RState) (src draw : Nat)
    (hinv : RInv m dests0 st) (h : randomStep (some m) st src draw = some st') :
    RInv m dests0 st' ∧ cap m st' + 1 = cap m st ∧ st'.pairs.map (·.1) = src :: st.pairs.map (·.1) := by
  unfold randomStep at h
  by_cases he : st.dests.isEmpty
  · simp [he] at h
  · simp only [he, Bool.false_eq_true, if_false, Option.some.injEq] at h
    have hpos : 0 < st.dests.length := by
      cases hd : st.dests with
      | nil => simp [hd] at he
      | cons _ _ => simp
    have hi : draw % st.dests.length < st.dests.length := Nat.mod_lt _ hpos
    have hget : st.dests.getD (draw % st.dests.length) 0 = st.dests[draw % st.dests.length] := by
      simp [List.getD_eq_getElem?_getD, hi]
    rw [hget] at h
    generalize hdest : st.dests[draw % st.dests.length] = dest at h
    have hmem : dest ∈ st.dests := hdest ▸ List.getElem_mem hi
    have hroom := hinv.room dest hmem
    have hcnt : ∀ d, ({ st with pairs := (src, dest) :: st.pairs } : RState).count d
        = st.count d + (if dest = d then 1 else 0) := count_cons_pair st src dest
    by_cases hfull : st.count dest + 1 ≥ m
    · -- destination is now full: it leaves dest_set
      have hst' : st' = { dests := st.dests.erase dest, pairs := (src, dest) :: st.pairs } := by
        rw [← h]; simp [hcnt, hfull]
      subst hst'
      have hc' : ∀ d, (⟨st.dests.erase dest, (src, dest) :: st.pairs⟩ : RState).count d
          = st.count d + (if dest = d then 1 else 0) := by
        intro d; exact count_cons_pair ⟨st.dests.erase dest, st.pairs⟩ src dest d
      refine ⟨⟨hinv.nodup.erase _, ?_, ?_, ?_, ?_⟩, ?_, by simp⟩
      · intro d hd; exact hinv.sub d (List.mem_of_mem_erase hd)
      · intro d hd
        have hne : d ≠ dest := fun e => by
          subst e; exact (List.Nodup.mem_erase_iff hinv.nodup).mp hd |>.1 rfl
        have := hinv.room d (List.mem_of_mem_erase hd)
        rw [hc']; simp [Ne.symm hne]; exact this
      · intro d
        rw [hc']
        by_cases e : dest = d
        · subst e; simp; omega
        · simp [e]; exact hinv.bound d
      · intro p hp
        simp only [List.mem_cons] at hp
        rcases hp with rfl | hp
        · exact hinv.sub _ hmem
        · exact hinv.inDests p hp
      · unfold cap
        simp only
        rw [sum_map_erase (fun d => m - st.count d) st.dests dest hmem hinv.nodup]
        have : ((st.dests.erase dest).map fun d => m - (⟨st.dests.erase dest, (src, dest) :: st.pairs⟩ : RState).count d).sum
            = ((st.dests.erase dest).map fun d => m - st.count d).sum := by
          apply sum_map_congr
          intro x hx
          have hne : x ≠ dest := fun e => by
            subst e; exact (List.Nodup.mem_erase_iff hinv.nodup).mp hx |>.1 rfl
          rw [hc']; simp [Ne.symm hne]
        rw [this]
        omega
    · -- destination stays
      have hst' : st' = { dests := st.dests, pairs := (src, dest) :: st.pairs } := by
        rw [← h]; simp [hcnt, hfull]
      subst hst'
      have hc' : ∀ d, (⟨st.dests, (src, dest) :: st.pairs⟩ : RState).count d
          = st.count d + (if dest = d then 1 else 0) := count_cons_pair st src dest
      refine ⟨⟨hinv.nodup, hinv.sub, ?_, ?_, ?_⟩, ?_, by simp⟩
      · intro d hd
        rw [hc']
        by_cases e : dest = d
        · subst e; simp; omega
        · simp [e]; exact hinv.room d hd
      · intro d
        rw [hc']
        by_cases e : dest = d
        · subst e; simp; omega
        · simp [e]; exact hinv.bound d
      · intro p hp
        simp only [List.mem_cons] at hp
        rcases hp with rfl | hp
        · exact hinv.sub _ hmem
        · exact hinv.inDests p hp
      · unfold cap
        simp only
        rw [sum_map_erase (fun d => m - st.count d) st.dests dest hmem hinv.nodup,
            sum_map_erase (fun d => m - (⟨st.dests, (src, dest) :: st.pairs⟩ : RState).count d) st.dests dest hmem hinv.nodup]
        have : ((st.dests.erase dest).map fun d => m - (⟨st.dests, (src, dest) :: st.pairs⟩ : RState).count d).sum
            = ((st.dests.erase dest).map fun d => m - st.count d).sum := by
          apply sum_map_congr
          intro x hx
          have hne : x ≠ dest := fun e => by
            subst e; exact (List.Nodup.mem_erase_iff hinv.nodup).mp hx |>.1 rfl
          rw [hc']; simp [Ne.symm hne]
        rw [this, hc']
        simp
        omega

theorem cap_pos_nonempty (m : Nat) (st : RState) (h : 0 < cap m st) : st.dests.isEmpty = false := by
  cases hd : st.dests with
  | nil => simp [cap, hd] at h
  | cons _ _ => simp

/-- the loop never fails while there is capacity left, and keeps the invariant -/
theorem randomLoop_ok (m : Nat) (dests0 : List Nat) : ∀ (srcs : List Nat) (st : RState) (orc : List Nat),
    RInv m dests0 st → srcs.length ≤ cap m st →
    ∃ st', randomLoop (some m) st srcs orc = some st' ∧ RInv m dests0 st' ∧
      st'.pairs.map (·.1) = srcs.reverse ++ st.pairs.map (·.1)
  | [], st, _, hinv, _ => ⟨st, rfl, hinv, by simp⟩
  | src :: srcs, st, orc, hinv, hcap => by
    unfold randomLoop
    have hne : st.dests.isEmpty = false := cap_pos_nonempty m st (by simp at hcap; omega)
    cases hstep : randomStep (some m) st src (orc.headD 0) with
    | none => simp [randomStep, hne] at hstep
    | some st1 =>
      obtain ⟨hinv1, hcap1, hp1⟩ := randomStep_inv m dests0 st st1 src _ hinv hstep
      obtain ⟨st', h1, h2, h3⟩ := randomLoop_ok m dests0 srcs st1 orc.tail hinv1 (by simp at hcap; omega)
      exact ⟨st', h1, h2, by rw [h3, hp1]; simp⟩

/-- `connect_randomly(…, evenly=False, max_connects=m)`: with distinct destinations it never fails
when `len(src) ≤ len(dest) * m`, connects every source exactly once (in order) to a destination of
`dest_set`, no destination more than `m` times, and returns the destinations that were connected -/
theorem randomly (srcs dests orc : List Nat) (m : Nat) (hne : dests ≠ []) (hnd : dests.Nodup)
    (hsize : srcs.length ≤ dests.length * m) :
    ∃ r, connectRandomlyTop srcs dests false (some m) orc = some r ∧
      r.1.map (·.1) = srcs ∧
      (∀ p ∈ r.1, p.2 ∈ dests) ∧
      (∀ d, d ∈ r.2 ↔ ∃ p ∈ r.1, p.2 = d) ∧
      (∀ d, (r.1.map (·.2)).count d ≤ m) := by
  have hm : 0 < m ∨ srcs = [] := by
    cases m with
    | zero => right; simpa using hsize
    | succ k => left; omega
  have hinv0 : RInv m dests ⟨dests, []⟩ ∨ srcs = [] := by
    rcases hm with hm | hm
    · left
      exact ⟨hnd, fun d hd => hd, fun d _ => by simp [RState.count]; exact hm,
             fun d => by simp [RState.count], by simp⟩
    · exact Or.inr hm
  have hempty : dests.isEmpty = false := by cases dests <;> simp_all
  rcases hinv0 with hinv0 | hs
  · have hcap0 : cap m ⟨dests, []⟩ = dests.length * m := by
      simp [cap, RState.count, List.map_const', List.sum_replicate_nat]
    obtain ⟨st', h1, h2, h3⟩ := randomLoop_ok m dests srcs ⟨dests, []⟩ orc hinv0 (by omega)
    refine ⟨(st'.pairs.reverse, st'.pairs.map (·.2)), ?_, ?_, ?_, ?_, ?_⟩
    · simp [connectRandomlyTop, hempty, connectRandomly, hsize, h1]
    · simp only [List.map_reverse, h3]; simp
    · intro p hp; exact h2.inDests p (by simpa using hp)
    · intro d
      simp only [List.mem_map, List.mem_reverse]
    · intro d
      have := h2.bound d
      simp only [RState.count] at this
      simpa [List.map_reverse] using this
  · subst hs
    refine ⟨([], []), ?_, by simp, by simp, by simp, by simp⟩
    simp [connectRandomlyTop, hempty, connectRandomly, randomLoop]

/-- with `max_connects = inf` (the default) nothing can fail and nothing is bounded -/
theorem randomly_unbounded_loop : ∀ (srcs : List Nat) (st : RState) (orc : List Nat) (dests0 : List Nat),
    st.dests = dests0 → dests0 ≠ [] → (∀ p ∈ st.pairs, p.2 ∈ dests0) →
    ∃ st', randomLoop none st srcs orc = some st' ∧ (∀ p ∈ st'.pairs, p.2 ∈ dests0) ∧
      st'.pairs.map (·.1) = srcs.reverse ++ st.pairs.map (·.1)
  | [], st, _, _, _, _, hp => ⟨st, rfl, hp, by simp⟩
  | src :: srcs, st, orc, dests0, hd, hne, hp => by
    unfold randomLoop
    have hemp : st.dests.isEmpty = false := by rw [hd]; cases dests0 <;> simp_all
    have hpos : 0 < st.dests.length := by rw [hd]; exact List.length_pos_iff.mpr hne
    have hi : orc.headD 0 % st.dests.length < st.dests.length := Nat.mod_lt _ hpos
    simp only [randomStep, hemp, Bool.false_eq_true, if_false]
    obtain ⟨st', h1, h2, h3⟩ := randomly_unbounded_loop srcs
      ⟨st.dests, (src, st.dests.getD (orc.headD 0 % st.dests.length) 0) :: st.pairs⟩ orc.tail dests0 hd hne (by
        intro p hp'
        simp only [List.mem_cons] at hp'
        rcases hp' with rfl | hp'
        · simp only [List.getD_eq_getElem?_getD, hi, List.getElem?_eq_getElem, Option.getD_some]
          rw [← hd]; exact List.getElem_mem hi
        · exact hp p hp')
    exact ⟨st', by simpa using h1, h2, by rw [h3]; simp⟩

theorem randomly_unbounded (srcs dests orc : List Nat) (hne : dests ≠ []) :
    ∃ r, connectRandomlyTop srcs dests false none orc = some r ∧
      r.1.map (·.1) = srcs ∧ (∀ p ∈ r.1, p.2 ∈ dests) ∧ (∀ d, d ∈ r.2 ↔ ∃ p ∈ r.1, p.2 = d) := by
  have hempty : dests.isEmpty = false := by cases dests <;> simp_all
  obtain ⟨st', h1, h2, h3⟩ := randomly_unbounded_loop srcs ⟨dests, []⟩ orc dests rfl hne (by simp)
  refine ⟨(st'.pairs.reverse, st'.pairs.map (·.2)), ?_, ?_, ?_, ?_⟩
  · simp [connectRandomlyTop, hempty, connectRandomly, h1]
  · simp only [List.map_reverse, h3]; simp
  · intro p hp; exact h2 p (by simpa using hp)
  · intro d; simp only [List.mem_map, List.mem_reverse]

/-! non-vacuity: the hypotheses are met by ordinary calls, including the "exactly full" case -/
example : connectRandomlyTop [0, 1] [100] false (some 2) [5, 9] = some ([(0, 100), (1, 100)], [100, 100]) := by decide
example : ([100] : List Nat) ≠ [] ∧ ([100] : List Nat).Nodup ∧ [0, 1].length ≤ [100].length * 2 := by decide
example : (connectRandomlyTop [0, 1, 2] [7, 8] true none [1, 0]).map (·.1.length) = some 3 := by decide

end Mosaik.C18
