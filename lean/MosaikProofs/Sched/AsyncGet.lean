/-
The data path of an asynchronous `get_data` (`MosaikRemote.get_data`, model: `asyncSlice` / `asyncFound` /
`asyncMissing` / `asyncAnswer` in `MosaikModel/Sched.lean`).

* lookup lemmas for `OutData` (`get?` / `has` / `set`, folds of `set`)
* `mem_asyncFound`, `mem_asyncMissing`: every requested port is answered from the cache slice or forwarded, never both
* `asyncAnswer_found_kept`: a value found in the cache is in the answer unless the other simulator's reply mentions the very
  port; `asyncAnswer_direct`: what the other simulator replies for a port is in the answer (last mention wins)
* `asyncSlice_history`: with the cache on, in every run whose output times do not go back, the slice is the never-pruned
  history's entry for the time of the requester's running step (invariant `CacheRef`)
-/
import MosaikProofs.Sched.CacheRef
namespace Mosaik

namespace OutData

theorem get?_nil (k : Port) : get? [] k = none := rfl

theorem get?_cons (e : Port × Val) (d : OutData) (k : Port) :
    get? (e :: d) k = if e.1 = k then some e.2 else get? d k := by
  unfold get?
  simp only [List.find?_cons]
  by_cases h : e.1 = k
  · have hb : (e.1 == k) = true := by simpa using h
    simp [hb, h]
  · have hb : (e.1 == k) = false := by simpa using h
    simp [hb, h]

theorem has_eq_isSome (d : OutData) (k : Port) : has d k = (get? d k).isSome := by
  induction d with
  | nil => rfl
  | cons e d ih =>
    rw [get?_cons]
    unfold has at ih ⊢
    simp only [List.any_cons, ih]
    by_cases h : e.1 = k
    · have hb : (e.1 == k) = true := by simpa using h
      simp [hb, h]
    · have hb : (e.1 == k) = false := by simpa using h
      simp [hb, h]

theorem get?_map_same (d : OutData) (k : Port) (v : Val) (h : d.any (·.1 == k) = true) :
    get? (d.map fun e => if e.1 == k then (k, v) else e) k = some v := by
  induction d with
  | nil => simp at h
  | cons e d ih =>
    simp only [List.map_cons, get?_cons]
    by_cases he : e.1 = k
    · have hb : (e.1 == k) = true := by simpa using he
      simp [hb]
    · have hb : (e.1 == k) = false := by simpa using he
      simp only [List.any_cons, hb, Bool.false_or] at h
      simp only [hb, Bool.false_eq_true, if_false, he]
      exact ih h

theorem get?_map_other (d : OutData) (k k' : Port) (v : Val) (hne : k ≠ k') :
    get? (d.map fun e => if e.1 == k then (k, v) else e) k' = get? d k' := by
  induction d with
  | nil => rfl
  | cons e d ih =>
    simp only [List.map_cons, get?_cons, ih]
    by_cases he : e.1 = k
    · have hb : (e.1 == k) = true := by simpa using he
      have : ¬ e.1 = k' := fun h => hne (he ▸ h)
      simp [hb, hne, this]
    · have hb : (e.1 == k) = false := by simpa using he
      simp [hb]

theorem get?_append_single (d : OutData) (k k' : Port) (v : Val) :
    get? (d ++ [(k, v)]) k' = match get? d k' with | some x => some x | none => if k = k' then some v else none := by
  induction d with
  | nil => simp [get?_cons, get?_nil]
  | cons e d ih =>
    simp only [List.cons_append, get?_cons, ih]
    by_cases he : e.1 = k' <;> simp [he]

theorem get?_none_of_not_any (d : OutData) (k : Port) (h : d.any (·.1 == k) = false) : get? d k = none := by
  induction d with
  | nil => rfl
  | cons e d ih =>
    simp only [List.any_cons, Bool.or_eq_false_iff] at h
    have : ¬ e.1 = k := by simpa using h.1
    simp [get?_cons, this, ih h.2]

theorem get?_set_same (d : OutData) (k : Port) (v : Val) : get? (set d k v) k = some v := by
  unfold set
  cases h : d.any (·.1 == k) with
  | true => simp only [if_true]; exact get?_map_same d k v h
  | false =>
    simp only [Bool.false_eq_true, if_false]
    rw [get?_append_single, get?_none_of_not_any d k h]; simp

theorem get?_set_other (d : OutData) (k k' : Port) (v : Val) (hne : k ≠ k') : get? (set d k v) k' = get? d k' := by
  unfold set
  cases h : d.any (·.1 == k) with
  | true => simp only [if_true]; exact get?_map_other d k k' v hne
  | false =>
    simp only [Bool.false_eq_true, if_false]
    rw [get?_append_single]
    cases get? d k' <;> simp [hne]

/-- `dict.update`: a port the update does not mention keeps its value -/
theorem foldl_set_other (es : OutData) (d : OutData) (k : Port) (h : ∀ e ∈ es, e.1 ≠ k) :
    get? (es.foldl (fun acc e => set acc e.1 e.2) d) k = get? d k := by
  induction es generalizing d with
  | nil => rfl
  | cons e es ih =>
    simp only [List.foldl_cons]
    rw [ih _ (fun f hf => h f (List.mem_cons_of_mem _ hf)), get?_set_other _ _ _ _ (h e List.mem_cons_self)]

/-- … and a port it mentions gets the value of the last mention -/
theorem foldl_set_last (pre : OutData) (e : Port × Val) (rest : OutData) (d : OutData) (hrest : ∀ f ∈ rest, f.1 ≠ e.1) :
    get? ((pre ++ e :: rest).foldl (fun acc e => set acc e.1 e.2) d) e.1 = some e.2 := by
  rw [List.foldl_append, List.foldl_cons, foldl_set_other rest _ e.1 hrest, get?_set_same]

end OutData

/-! ### found / missing -/

/-- lookup in the list of found values: the slice's value, for requested ports -/
theorem get?_asyncFound (cfg : Cfg) (s : State) (p target : Sid) (req : List Port) (r : Port) :
    OutData.get? (asyncFound cfg s p target req) r =
      if r ∈ req then OutData.get? (asyncSlice cfg s p target) r else none := by
  unfold asyncFound
  induction req with
  | nil => simp [OutData.get?_nil]
  | cons x req ih =>
    simp only [List.filterMap_cons]
    cases hx : OutData.get? (asyncSlice cfg s p target) x with
    | none =>
      simp only [Option.map_none]
      rw [ih]
      by_cases hr : r = x
      · subst hr
        simp [hx]
      · simp [hr]
    | some v =>
      simp only [Option.map_some, OutData.get?_cons]
      by_cases hr : x = r
      · subst hr
        simp [hx]
      · have : ¬ r = x := fun h => hr h.symm
        simp [hr, this, ih]

/-- **every requested port is answered from the cache slice or forwarded, never both** -/
theorem mem_asyncMissing (cfg : Cfg) (s : State) (p target : Sid) (req : List Port) (r : Port) :
    r ∈ asyncMissing cfg s p target req ↔ r ∈ req ∧ OutData.get? (asyncSlice cfg s p target) r = none := by
  unfold asyncMissing
  rw [List.mem_filter, OutData.has_eq_isSome]
  cases OutData.get? (asyncSlice cfg s p target) r <;> simp

theorem found_or_missing (cfg : Cfg) (s : State) (p target : Sid) (req : List Port) (r : Port) (hr : r ∈ req) :
    (∃ v, OutData.get? (asyncFound cfg s p target req) r = some v ∧ r ∉ asyncMissing cfg s p target req) ∨
    (OutData.get? (asyncFound cfg s p target req) r = none ∧ r ∈ asyncMissing cfg s p target req) := by
  rw [get?_asyncFound, mem_asyncMissing]
  simp only [hr, if_true, true_and]
  cases h : OutData.get? (asyncSlice cfg s p target) r with
  | none => right; exact ⟨rfl, rfl⟩
  | some v => left; exact ⟨v, rfl, by simp⟩

/-- with `cache=False` nothing is found: the whole request is forwarded -/
theorem asyncMissing_nocache (cfg : Cfg) (s : State) (p target : Sid) (req : List Port) (hc : cfg.useCache = false) :
    asyncFound cfg s p target req = [] ∧ asyncMissing cfg s p target req = req := by
  have hs : asyncSlice cfg s p target = [] := by unfold asyncSlice; simp [hc]
  constructor
  · unfold asyncFound
    rw [hs]
    induction req with
    | nil => rfl
    | cons x req ih => simp [List.filterMap_cons, OutData.get?_nil, ih]
  · unfold asyncMissing
    rw [hs]
    simp [OutData.has]

/-! ### the answer -/

/-- nothing missing: the answer is what the cache holds; the other simulator is not asked -/
theorem asyncAnswer_all_cached (cfg : Cfg) (s : State) (p target : Sid) (req : List Port) (direct : OutData)
    (h : asyncMissing cfg s p target req = []) : asyncAnswer cfg s p target req direct = asyncFound cfg s p target req := by
  unfold asyncAnswer
  simp [h]

/-- **a cached value survives the merge** with the forwarded reply unless that reply mentions the very port
(`data.setdefault(full_id, {}).update(vals)`, not `data[full_id] = vals`) -/
theorem asyncAnswer_found_kept (cfg : Cfg) (s : State) (p target : Sid) (req : List Port) (direct : OutData) (r : Port)
    (hd : ∀ e ∈ direct, e.1 ≠ r) :
    OutData.get? (asyncAnswer cfg s p target req direct) r = OutData.get? (asyncFound cfg s p target req) r := by
  unfold asyncAnswer
  simp only
  split
  · rfl
  · exact OutData.foldl_set_other direct _ r hd

/-- what the other simulator replies for a port is handed on (its last mention), provided something was forwarded -/
theorem asyncAnswer_direct (cfg : Cfg) (s : State) (p target : Sid) (req : List Port) (pre rest : OutData) (e : Port × Val)
    (hm : asyncMissing cfg s p target req ≠ []) (hrest : ∀ f ∈ rest, f.1 ≠ e.1) :
    OutData.get? (asyncAnswer cfg s p target req (pre ++ e :: rest)) e.1 = some e.2 := by
  unfold asyncAnswer
  simp only
  split
  · rename_i h
    exact absurd (List.isEmpty_iff.mp h) hm
  · exact OutData.foldl_set_last pre e rest _ hrest

/-! ### the slice is the history's entry for the requester's last step -/

theorem maxShift_nonneg (cfg : Cfg) (q : Sid) : 0 ≤ maxShift cfg q := by
  unfold maxShift
  have key : ∀ (l : List Sid) (m : Int),
      m ≤ l.foldl (fun m d => (cfg.sim d).pulled.foldl (fun m (e : Sid × TI × Port × Port) =>
        if e.1 = q then max m (tier e.2.1.tiers 0 : Int) else m) m) m := by
    intro l
    induction l with
    | nil => intro m; exact Int.le_refl _
    | cons a l ih =>
      intro m
      simp only [List.foldl_cons]
      exact Int.le_trans (inner_max_ge q (cfg.sim a).pulled m).1 (ih _)
  exact key _ 0

theorem lastTime_le_asyncLookupTime (s : State) (p : Sid) : lastTime s p ≤ asyncLookupTime s p := by
  unfold asyncLookupTime lastTime
  cases (s.sims p).cur with
  | none => exact Int.le_refl _
  | some c => exact Int.le_max_left _ _

/-- inside a step the lookup time is the time of the running step (a step in flight is never earlier than the last one) -/
theorem asyncLookupTime_cur (s : State) (p : Sid) (c : TT) (hc : (s.sims p).cur = some c) (hl : lastTime s p ≤ (TT.time c : Int)) :
    asyncLookupTime s p = (TT.time c : Int) := by
  unfold asyncLookupTime
  unfold lastTime at hl
  rw [hc]
  simp only
  exact Int.max_eq_right hl

/-- with the cache on, in every run whose reported output times do not go back, the slice an asynchronous `get_data` of `p`
reads from `target`'s (pruned) cache is the entry of `target`'s never-pruned output history — its declared initial data followed
by every `get_data` reply of the run — that is newest at or before the lookup time (the time of `p`'s running step) -/
theorem asyncSlice_history {cfg : Cfg} (hw : WFCfg cfg) (hc : cfg.useCache = true) (hi : InitSorted cfg) {s : State}
    (hr : ReachM cfg s) (hnf : s.failed = none) {p target : Sid} (hp : p < cfg.n) (ht : target < cfg.n) :
    asyncSlice cfg s p target = getOutputFor (histOf cfg target s.log) (asyncLookupTime s p) := by
  have href := reachM_cacheRef hw hc hi hr hnf
  unfold asyncSlice
  simp only [hc, if_true]
  have h1 := minLast_le cfg s hp
  have h2 : 0 ≤ maxShift cfg target := maxShift_nonneg cfg target
  have h3 := lastTime_le_asyncLookupTime s p
  exact href.look target ht _ (by omega)

end Mosaik
