/-
What a simulator waiting in `next_step_settled` waits for (used for deadlock freedom, C05).

`AwaitOk cfg s q`: if `q` waits for its progress to reach `a`, then either a newer (earlier) step has
been announced since (`newer_step` is set, the wait ends) or `a` still is the time the code would
compute now: the earliest scheduled step, capped by the end of the simulation.  Holds in every
reachable state (`reach_awaitOk`), for every configuration.
-/
import MosaikProofs.Sched.Sources
import MosaikProofs.Sched.Trace
namespace Mosaik

/-- the fields a waiting simulator's wake-up condition depends on, besides its progress -/
def SimSt.wait (x : SimSt) : PC × Bool × List TT := (x.pc, x.newer, x.next)

def WaitEq (s s' : State) : Prop := ∀ q, (s'.sims q).wait = (s.sims q).wait

theorem WaitEq.refl (s : State) : WaitEq s s := fun _ => rfl
theorem WaitEq.trans {s s' s'' : State} (h1 : WaitEq s s') (h2 : WaitEq s' s'') : WaitEq s s'' :=
  fun q => (h2 q).trans (h1 q)

theorem waitEq_upd (s : State) (p : Sid) (f : SimSt → SimSt) (hf : ∀ x, (f x).wait = x.wait) : WaitEq s (s.upd p f) := by
  intro q
  rw [State.upd_sims]
  split
  · exact hf _
  · rfl

theorem waitEq_emit (s : State) (e : Event) : WaitEq s (s.emit e) := fun _ => rfl
theorem waitEq_fail (s : State) (e : SchedErr) : WaitEq s (s.fail e) := fun q => by rw [State.fail_sims]

theorem advance_waitEq (cfg : Cfg) (s : State) (q : Sid) : WaitEq s (advance cfg s q) := by
  unfold advance
  simp only
  split
  · exact waitEq_fail _ _
  · exact waitEq_upd _ _ _ (fun _ => rfl)

theorem advanceAll_waitEq (cfg : Cfg) (s : State) : WaitEq s (advanceAll cfg s) := by
  unfold advanceAll
  apply foldl_inv (fun st => WaitEq s st)
  · exact WaitEq.refl s
  · intro st q _ h
    split
    · exact h
    · exact h.trans (advance_waitEq cfg st q)

theorem prune_waitEq (cfg : Cfg) (s : State) : WaitEq s (prune cfg s) := by
  intro q
  unfold prune
  simp only
  split <;> rfl

theorem clearCur_waitEq (s : State) (p : Sid) (c : TT) : WaitEq s (clearCur s p c) := by
  unfold clearCur
  exact (waitEq_upd s p (fun x => { x with cur := .none }) (fun _ => rfl)).trans (waitEq_emit _ _)

theorem storeOutputs_waitEq (cfg : Cfg) (s : State) (p : Sid) (ot : Int) (d : DataReply) :
    WaitEq s (storeOutputs cfg s p ot d) := by
  unfold storeOutputs
  simp only
  refine WaitEq.trans ?_ (waitEq_upd _ p _ (fun _ => rfl))
  have h0 : WaitEq s (if cfg.useCache then s.upd p fun x =>
      { x with outputs := if x.outputs.any (·.1 == ot) then x.outputs.map (fun e => if e.1 == ot then (ot, d.data) else e)
                          else x.outputs ++ [(ot, d.data)] } else s) := by
    split
    · exact waitEq_upd _ _ _ (fun _ => rfl)
    · exact WaitEq.refl s
  apply foldl_inv (fun st => WaitEq s st)
  · exact h0
  · intro st e _ h
    split
    · exact h
    · exact h.trans (waitEq_upd _ _ _ (fun _ => rfl))

/-! ### the awaited time -/

/-- the time `next_step_settled` would wait for now -/
def awaitTarget (cfg : Cfg) (s : State) (q : Sid) : TT :=
  match (s.sims q).next.head? with
  | some h => if cfg.endT q < h then cfg.endT q else h
  | none => cfg.endT q

def AwaitOk (cfg : Cfg) (s : State) (q : Sid) : Prop :=
  ∀ a dl, (s.sims q).pc = .awaitSettle a dl → (s.sims q).newer = true ∨ a = awaitTarget cfg s q

theorem AwaitOk.of_waitEq {cfg : Cfg} {s s' : State} (h : WaitEq s s') {q : Sid} (hq : AwaitOk cfg s q) : AwaitOk cfg s' q := by
  have hw := h q
  simp only [SimSt.wait, Prod.mk.injEq] at hw
  obtain ⟨h1, h2, h3⟩ := hw
  intro a dl hpc
  rw [h1] at hpc
  rcases hq a dl hpc with hn | ha
  · left; rw [h2]; exact hn
  · right; rw [ha]; unfold awaitTarget; rw [h3]

theorem schedule_awaitOk {cfg : Cfg} {s : State} (b : Sid) (t : TT) {q : Sid} (hq : AwaitOk cfg s q) :
    AwaitOk cfg (schedule s b t) q := by
  unfold schedule
  simp only
  split
  · exact hq
  · rename_i hcont
    by_cases hqb : q = b
    · subst hqb
      intro a dl hpc
      simp only [State.upd_same] at hpc ⊢
      rcases hq a dl hpc with hn | ha
      · left; simp [hn]
      · cases hh : (s.sims q).next.head? with
        | none => left; simp
        | some h =>
          by_cases hlt : t < h
          · left; simp [hlt]
          · right
            rw [ha]
            unfold awaitTarget
            simp only [State.upd_same]
            rw [head_insertSorted, hh]
            simp [hlt]
    · intro a dl hpc
      rw [State.upd_other _ _ hqb] at hpc ⊢
      rcases hq a dl hpc with hn | ha
      · exact Or.inl hn
      · right; rw [ha]; unfold awaitTarget; rw [State.upd_other _ _ hqb]

theorem notify_awaitOk {cfg : Cfg} {s : State} (p : Sid) {q : Sid} (hq : AwaitOk cfg s q) : AwaitOk cfg (notify cfg s p) q := by
  unfold notify
  apply foldl_inv (fun st => AwaitOk cfg st q)
  · exact hq
  · intro st tr _ h
    split
    · exact schedule_awaitOk _ _ h
    · exact h

/-- `next_step_settled` sets the awaited time afresh for `p` -/
theorem settle_awaitOk {cfg : Cfg} {s : State} (p : Sid) {q : Sid} (hq : q ≠ p → AwaitOk cfg s q) : AwaitOk cfg (settle cfg s p) q := by
  by_cases hqp : q = p
  · subst hqp
    intro a dl hpc
    right
    have htarget : awaitTarget cfg (settle cfg s q) q = awaitTarget cfg s q := by
      unfold awaitTarget; rw [settle_next]
    rw [htarget]
    unfold settle at hpc
    simp only at hpc
    split at hpc
    · simp at hpc
    · cases hh : (s.sims q).next.head? with
      | none =>
        simp only [hh, State.upd_same, PC.awaitSettle.injEq] at hpc
        unfold awaitTarget; rw [hh]; exact hpc.1.symm
      | some h =>
        simp only [hh] at hpc
        split at hpc
        · simp at hpc
        · simp only [State.upd_same, PC.awaitSettle.injEq] at hpc
          unfold awaitTarget; rw [hh]; exact hpc.1.symm
  · have hsame : ∀ pc : PC, AwaitOk cfg (s.upd p fun x => { x with pc := pc }) q := by
      intro pc a dl hpc
      rw [State.upd_other _ _ hqp] at hpc ⊢
      rcases hq hqp a dl hpc with hn | ha
      · exact Or.inl hn
      · right; rw [ha]; unfold awaitTarget; rw [State.upd_other _ _ hqp]
    unfold settle
    simp only
    split
    · exact (hsame _).of_waitEq (waitEq_emit _ _)
    · split
      · split
        · exact hsame _
        · exact hsame _
      · exact hsame _

theorem AwaitOk.congr {cfg : Cfg} {s s' : State} {q : Sid} (h : s'.sims q = s.sims q) (hq : AwaitOk cfg s q) : AwaitOk cfg s' q := by
  intro a dl hpc
  rw [h] at hpc ⊢
  rcases hq a dl hpc with hn | ha
  · exact Or.inl hn
  · right; rw [ha]; unfold awaitTarget; rw [h]

theorem AwaitOk.upd_other {cfg : Cfg} {s : State} {p q : Sid} (f : SimSt → SimSt) (hqp : q ≠ p) (hq : AwaitOk cfg s q) :
    AwaitOk cfg (s.upd p f) q := hq.congr (State.upd_other _ _ hqp)

/-- the block ending a step -/
theorem finish_awaitOk {cfg : Cfg} {s : State} (p : Sid) (c : TT) (hnf : (finish cfg s p c).failed = none) {q : Sid}
    (hq : q ≠ p → AwaitOk cfg s q) : AwaitOk cfg (finish cfg s p c) q := by
  have h3 : q ≠ p → AwaitOk cfg (advanceAll cfg (notify cfg (clearCur s p c) p)) q := fun hqp =>
    (notify_awaitOk p ((hq hqp).of_waitEq (clearCur_waitEq s p c))).of_waitEq (advanceAll_waitEq cfg _)
  unfold finish at hnf ⊢
  simp only at hnf ⊢
  split
  · rename_i hfail
    simp only [hfail, if_true] at hnf
    rw [hnf] at hfail; cases hfail
  · split
    · exact settle_awaitOk p (fun hqp => (h3 hqp).of_waitEq (prune_waitEq cfg _))
    · exact settle_awaitOk p h3

theorem rtCheck_sims (cfg : Cfg) (s : State) (p : Sid) (c : TT) : (rtCheck cfg s p c).sims = s.sims := by
  unfold rtCheck
  split
  · rfl
  · split
    · split
      · rw [State.fail_sims]
      · rfl
    · rfl

theorem afterStep_awaitOk {cfg : Cfg} {s : State} (p : Sid) (c : TT) (hnf : (afterStep cfg s p c).failed = none) {q : Sid}
    (hq : q ≠ p → AwaitOk cfg s q) : AwaitOk cfg (afterStep cfg s p c) q := by
  have hq3 : q ≠ p → AwaitOk cfg (rtCheck cfg s p c) q := fun hqp => (hq hqp).congr (by rw [rtCheck_sims])
  unfold afterStep at hnf ⊢
  simp only at hnf ⊢
  split
  · rename_i hfail
    simp only [hfail, if_true] at hnf
    rw [hnf] at hfail; cases hfail
  · rename_i hfail
    simp only [hfail, if_false] at hnf
    split
    · rename_i hempty
      simp only [hempty, if_true] at hnf
      exact finish_awaitOk p c hnf hq3
    · by_cases hqp : q = p
      · subst hqp
        intro a dl hpc
        simp at hpc
      · exact (hq3 hqp).upd_other _ hqp

theorem beginStep_other (cfg : Cfg) (s : State) (p : Sid) (c : TT) (rest : List TT) {q : Sid} (hqp : q ≠ p) :
    (beginStep cfg s p c rest).sims q = s.sims q := by
  have h1 : ((s.upd p fun x => { x with cur := some c, next := rest }).sims q) = s.sims q := State.upd_other _ _ hqp
  unfold beginStep
  simp only
  split
  · rw [State.fail_sims]; exact h1
  · split
    · rw [State.fail_sims]; exact h1
    · obtain ⟨f, _, hsnd⟩ := getInputData_snd cfg (s.upd p fun z => { z with cur := some c, next := rest }) p c
      rw [hsnd]
      simp only [State.emit_sims]
      rw [State.upd_other _ _ hqp, State.upd_other _ _ hqp]; exact h1

theorem beginStep_pc (cfg : Cfg) (s : State) (p : Sid) (c : TT) (rest : List TT) (hnf : (beginStep cfg s p c rest).failed = none) :
    ((beginStep cfg s p c rest).sims p).pc = .inStep := by
  unfold beginStep at hnf ⊢
  by_cases h1 : c ≠ (s.sims p).progress
  · rw [if_pos h1] at hnf
    have := State.fail_failed (s.upd p fun x => { x with cur := some c, next := rest }) (.stepInPast p)
    rw [hnf] at this; cases this
  · rw [if_neg h1] at hnf ⊢
    by_cases h2 : (c.tail.any fun k => decide (k ≥ cfg.maxLoop)) = true
    · rw [if_pos h2] at hnf
      have := State.fail_failed (s.upd p fun x => { x with cur := some c, next := rest }) (.loop p)
      rw [hnf] at this; cases this
    · rw [if_neg h2]
      simp

/-- every action keeps the awaited times consistent -/
theorem step_awaitOk {cfg : Cfg} {s s' : State} {a : Action} (hs : ∀ q, AwaitOk cfg s q) (h : step cfg s a = some s')
    (hnf : s'.failed = none) : ∀ q, AwaitOk cfg s' q := by
  intro q
  cases a with
  | start p =>
    simp only [step, stepStart] at h
    split at h
    · split at h
      · rename_i hf; cases h; rw [hnf] at hf; cases hf
      · cases h; exact settle_awaitOk p (fun _ => (hs q).of_waitEq (advance_waitEq cfg s p))
    · cases h
  | wake p =>
    simp only [step, stepWake] at h
    split at h
    · cases hpc : (s.sims p).pc with
      | awaitSettle a dl =>
        simp only [hpc] at h
        split at h
        · have h1 : q ≠ p → AwaitOk cfg (if cfg.rt.isSome then advance cfg (s.upd p fun y => { y with newer := false }) p
              else (s.upd p fun y => { y with newer := false })) q := by
            intro hqp
            split
            · exact ((hs q).upd_other _ hqp).of_waitEq (advance_waitEq cfg _ p)
            · exact (hs q).upd_other _ hqp
          generalize (if cfg.rt.isSome then advance cfg (s.upd p fun y => { y with newer := false }) p
              else (s.upd p fun y => { y with newer := false })) = s2 at h h1
          by_cases hfl : s2.failed.isSome = true
          · simp only [hfl, if_true, Option.some.injEq] at h
            subst h; rw [hnf] at hfl; cases hfl
          · simp only [hfl, Bool.false_eq_true, if_false, Option.some.injEq] at h
            subst h; exact settle_awaitOk p h1
        · cases h
      | init => simp [hpc] at h
      | waitDeps t => simp [hpc] at h
      | inStep => simp [hpc] at h
      | inGet => simp [hpc] at h
      | done => simp [hpc] at h
    · cases h
  | deps p =>
    simp only [step, stepDeps] at h
    split at h
    · cases hpc : (s.sims p).pc with
      | waitDeps t =>
        simp only [hpc] at h
        split at h
        · cases hnext : (s.sims p).next with
          | nil => simp [hnext] at h
          | cons c rest =>
            simp only [hnext, Option.some.injEq] at h
            subst h
            by_cases hqp : q = p
            · subst hqp
              intro a dl hpc2
              rw [beginStep_pc cfg s q c rest hnf] at hpc2; cases hpc2
            · exact (hs q).congr (beginStep_other cfg s p c rest hqp)
        · cases h
      | init => simp [hpc] at h
      | awaitSettle a dl => simp [hpc] at h
      | inStep => simp [hpc] at h
      | inGet => simp [hpc] at h
      | done => simp [hpc] at h
    · cases h
  | setData p target entries =>
    simp only [step, stepSetData] at h
    split at h
    · split at h
      · cases h; exact (hs q).of_waitEq (waitEq_fail _ _)
      · cases h
        exact (hs q).of_waitEq (waitEq_upd s target
          (fun x => { x with setData := entries.foldl (fun acc e => InputData.set acc e.1 e.2) x.setData }) (fun _ => rfl))
    · cases h
  | getDataReq p target =>
    simp only [step, stepGetDataReq] at h
    split at h
    · split at h
      · cases h; exact (hs q).of_waitEq (waitEq_fail _ _)
      · cases h; exact hs q
    · cases h
  | setEvent p t =>
    simp only [step, stepSetEvent] at h
    split at h
    · split at h
      · cases h; exact (hs q).of_waitEq (waitEq_fail _ _)
      · split at h
        · cases h; exact schedule_awaitOk _ _ (hs q)
        · cases h; exact (hs q).of_waitEq (waitEq_emit _ _)
    · cases h
  | stepReply p r =>
    simp only [step, stepStepReply] at h
    split at h
    · cases hcur : (s.sims p).cur with
      | none => simp [hcur] at h
      | some c =>
        simp only [hcur, Option.some.injEq] at h
        subst h
        have h1 : AwaitOk cfg ((s.upd p fun y => { y with last := some c }).emit (.stepped p c)) q :=
          (hs q).of_waitEq ((waitEq_upd s p (fun y => { y with last := some c }) (fun _ => rfl)).trans (waitEq_emit _ _))
        unfold processStepReply at hnf ⊢
        simp only at hnf ⊢
        cases r with
        | bad => exact h1.of_waitEq (waitEq_fail _ _)
        | none =>
          simp only at hnf ⊢
          split
          · exact h1.of_waitEq (waitEq_fail _ _)
          · rename_i hty; simp only [hty, if_false] at hnf
            exact afterStep_awaitOk p c hnf (fun _ => h1)
        | int n =>
          simp only at hnf ⊢
          split
          · exact h1.of_waitEq (waitEq_fail _ _)
          · rename_i hle; simp only [hle, if_false] at hnf
            split
            · rename_i hlt; simp only [hlt, if_true] at hnf
              exact afterStep_awaitOk p c hnf (fun _ => schedule_awaitOk _ _ h1)
            · rename_i hlt; simp only [hlt, if_false] at hnf
              exact afterStep_awaitOk p c hnf (fun _ => h1)
    · cases h
  | dataReply p d =>
    simp only [step, stepDataReply] at h
    split at h
    · cases hcur : (s.sims p).cur with
      | none => simp [hcur] at h
      | some c =>
        simp only [hcur, Option.some.injEq] at h
        subst h
        have h1 : AwaitOk cfg ((s.upd p fun y => { y with outTime := (outTimeOf c d).2 }).emit (.got p c (outTimeOf c d).2 d.data)) q :=
          (hs q).of_waitEq ((waitEq_upd s p (fun y => { y with outTime := (outTimeOf c d).2 }) (fun _ => rfl)).trans (waitEq_emit _ _))
        unfold processDataReply at hnf ⊢
        simp only at hnf ⊢
        split
        · exact h1.of_waitEq (waitEq_fail _ _)
        · rename_i hot; simp only [hot, if_false] at hnf
          exact finish_awaitOk p c hnf (fun _ => h1.of_waitEq (storeOutputs_waitEq cfg _ p _ d))
    · cases h
  | tick n =>
    simp only [step, stepTick] at h
    split at h
    · cases h
    · cases h; exact (hs q).congr rfl

/-- in every reachable state that has not failed, every awaited time is consistent -/
theorem reach_awaitOk {cfg : Cfg} {s : State} (hr : Reach cfg s) : s.failed = none → ∀ q, AwaitOk cfg s q := by
  induction hr with
  | init => intro _ q a dl hpc; simp [initState, initSim] at hpc
  | @step s s' a _ hstep ih =>
    intro hnf
    have hf0 : s.failed = none := by
      cases hf : s.failed with
      | none => rfl
      | some e => rw [step_none_of_failed (by rw [hf]; rfl)] at hstep; cases hstep
    exact step_awaitOk (ih hf0) hstep hnf

end Mosaik
